(* Byte-string helpers used by the Breakpad models: the tokenizers of samply-symbols/src/breakpad/index.rs
   (tag, space1, decimal_u32, hex_str::<u32>/<u64>, non_space, rest) transcribed over lists of bytes (N). *)
From Coq Require Export List NArith Bool.
From Coq Require Import Ascii String.
Export ListNotations.
Open Scope N_scope.

Definition bytes := list N.

Fixpoint bytes_of_string (s : string) : bytes :=
  match s with EmptyString => [] | String c r => N_of_ascii c :: bytes_of_string r end.

Fixpoint starts_with (prefix s : bytes) : option bytes :=
  match prefix with
  | [] => Some s
  | p :: prefix' => match s with c :: s' => if c =? p then starts_with prefix' s' else None | [] => None end
  end.

Definition SP : N := 32.

(* Tokenizer::consume_space1: one or more ' ' *)
Fixpoint skip_spaces (s : bytes) : bytes :=
  match s with c :: r => if c =? SP then skip_spaces r else s | [] => [] end.
Definition space1 (s : bytes) : option bytes :=
  match s with c :: r => if c =? SP then Some (skip_spaces r) else None | [] => None end.

(* `tag(t)` followed by Tokenizer::consume_space1 *)
Definition tag_sp (t : bytes) (s : bytes) : option bytes :=
  match starts_with t s with Some r => space1 r | None => None end.

(* nom::character::complete::space1: one or more ' ' or '\t' (the FILE / INLINE_ORIGIN / PUBLIC / FUNC / MODULE / INFO record parsers) *)
Definition is_blank (c : N) : bool := (c =? SP) || (c =? 9).
Fixpoint skip_blanks (s : bytes) : bytes :=
  match s with c :: r => if is_blank c then skip_blanks r else s | [] => [] end.
Definition space1n (s : bytes) : option bytes :=
  match s with c :: r => if is_blank c then Some (skip_blanks r) else None | [] => None end.
Definition tag_spn (t : bytes) (s : bytes) : option bytes :=
  match starts_with t s with Some r => space1n r | None => None end.

Definition dec_digit (c : N) : option N := if (48 <=? c) && (c <=? 57) then Some (c - 48) else None.
Definition hex_digit (c : N) : option N :=
  if (48 <=? c) && (c <=? 57) then Some (c - 48)
  else if (97 <=? c) && (c <=? 102) then Some (c - 87)
  else if (65 <=? c) && (c <=? 70) then Some (c - 55)
  else None.

(* take up to `maxn` digits in the given base; returns (value, digits consumed, rest) *)
Fixpoint take_digits (digit : N -> option N) (base : N) (maxn : nat) (acc : N) (k : nat) (s : bytes) : N * nat * bytes :=
  match maxn with
  | O => (acc, k, s)
  | S m =>
      match s with
      | c :: r => match digit c with
                  | Some d => take_digits digit base m (acc * base + d) (S k) r
                  | None => (acc, k, s)
                  end
      | [] => (acc, k, s)
      end
  end.

Definition u32_max : N := 4294967295.

(* decimal_u32: up to 10 digits, at least one, value must fit u32 *)
Definition decimal_u32 (s : bytes) : option (N * bytes) :=
  let '(v, k, r) := take_digits dec_digit 10 10 0 0 s in
  match k with O => None | _ => if v <=? u32_max then Some (v, r) else None end.

(* hex_str::<u32>: up to 8 hex digits; hex_str::<u64>: up to 16 *)
Definition hex_n (maxn : nat) (s : bytes) : option (N * bytes) :=
  let '(v, k, r) := take_digits hex_digit 16 maxn 0 0 s in
  match k with O => None | _ => Some (v, r) end.
Definition hex_u32 := hex_n 8.
Definition hex_u64 := hex_n 16.

(* take_while(|c| c != b' ') *)
Fixpoint non_space (s : bytes) : bytes * bytes :=
  match s with
  | c :: r => if c =? SP then ([], s) else let '(a, b) := non_space r in (c :: a, b)
  | [] => ([], [])
  end.

Fixpoint all_hex (s : bytes) : bool :=
  match s with [] => true | c :: r => match hex_digit c with Some _ => all_hex r | None => false end end.

Definition CRb : N := 13.
(* strip trailing '\r' bytes *)
Fixpoint strip_cr_rev (r : bytes) : bytes :=
  match r with c :: t => if c =? CRb then strip_cr_rev t else r | [] => [] end.
Definition strip_cr (s : bytes) : bytes := rev (strip_cr_rev (rev s)).

Fixpoint bytes_eqb (a b : bytes) : bool :=
  match a, b with
  | [], [] => true
  | x :: a', y :: b' => (x =? y) && bytes_eqb a' b'
  | _, _ => false
  end.

(* little-endian encodings *)
Fixpoint le_bytes (n : nat) (v : N) : bytes :=
  match n with O => [] | S k => (v mod 256) :: le_bytes k (v / 256) end.
Fixpoint le_value (b : bytes) : N :=
  match b with [] => 0 | x :: r => x + 256 * le_value r end.

Definition sub (s : bytes) (off len : N) : option bytes :=
  if off + len <=? N.of_nat (List.length s) then Some (firstn (N.to_nat len) (skipn (N.to_nat off) s)) else None.
