(* The fields of a library record that travel through profile JSON (used by the generated translation of the serializer
   and of the pre-parser's struct in Generated/Consts.v). *)
Inductive lib_field := FName | FPath | FDebugName | FDebugPath | FBreakpadId | FCodeId | FArch.
Definition lib_field_eqb (a b : lib_field) : bool :=
  match a, b with
  | FName, FName | FPath, FPath | FDebugName, FDebugName | FDebugPath, FDebugPath | FBreakpadId, FBreakpadId | FCodeId, FCodeId | FArch, FArch => true
  | _, _ => false
  end.
