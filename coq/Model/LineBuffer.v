(* Model of LineBuffer (samply-symbols/src/breakpad/index.rs:676-722): consume / finish.
   The callback is modelled by collecting (line_start_offset, line) pairs.  The assertion at the top of consume
   sets `bad`.  The inner loop of consume (memchr for '\n', slice, repeat) is recursion on explicit fuel
   (the chunk length + 1 suffices; running out of fuel sets `bad`).  Definitions only. *)
From Coq Require Export List NArith Bool.
Export ListNotations.
Open Scope N_scope.

Definition NL : N := 10.
Definition CR : N := 13.

Record lbuf := mkLb { leftover : list N; cur : N; bad : bool }.
Definition lb_init : lbuf := mkLb [] 0 false.

Definition len (l : list N) : N := N.of_nat (length l).

(* memchr(b'\n', chunk): bytes before the first '\n' and bytes after it *)
Fixpoint split_nl (chunk : list N) : option (list N * list N) :=
  match chunk with
  | [] => None
  | b :: r => if b =? NL then Some ([], r)
              else match split_nl r with Some (x, y) => Some (b :: x, y) | None => None end
  end.

Fixpoint consume_loop (fuel : nat) (st : lbuf) (chunk : list N) : lbuf * list (N * list N) :=
  match fuel with
  | O => (mkLb (leftover st) (cur st) true, [])
  | S f =>
      match split_nl chunk with
      | None => (mkLb (leftover st ++ chunk) (cur st + len chunk) (bad st), [])
      | Some (before, after) =>
          let '(line, start) :=
            match leftover st with
            | [] => (before, cur st)
            | _ => (leftover st ++ before, cur st - len (leftover st))
            end in
          let st' := mkLb [] (cur st + len before + 1) (bad st) in
          let '(st'', ls) := consume_loop f st' after in
          (st'', (start, line) :: ls)
      end
  end.

Definition consume (st : lbuf) (chunk : list N) : lbuf * list (N * list N) :=
  let st0 := mkLb (leftover st) (cur st) (bad st || (cur st <? len (leftover st))) in   (* the assert! *)
  consume_loop (S (length chunk)) st0 chunk.

(* finish: the last line if it is non-empty; returns the final offset *)
Definition finish (st : lbuf) : list (N * list N) * N :=
  (match leftover st with
   | [] => []
   | _ => [(cur st - len (leftover st), leftover st)]
   end, cur st).

(* feeding a file in chunks *)
Fixpoint feed (st : lbuf) (chunks : list (list N)) : lbuf * list (N * list N) :=
  match chunks with
  | [] => (st, [])
  | c :: r => let '(st1, l1) := consume st c in
              let '(st2, l2) := feed st1 r in (st2, l1 ++ l2)
  end.

Definition lines_of_chunks (chunks : list (list N)) : list (N * list N) * N * bool :=
  let '(st, ls) := feed lb_init chunks in
  let '(last, final) := finish st in
  (ls ++ last, final, bad st).

(* ---- specification: the lines of a byte string, one byte at a time ---- *)

(* off = offset of the next byte, acc = bytes of the current line so far *)
Fixpoint spec_lines (off : N) (acc : list N) (s : list N) : list (N * list N) * N :=
  match s with
  | [] => (match acc with [] => [] | _ => [(off - len acc, acc)] end, off)
  | b :: r =>
      if b =? NL then
        let '(ls, fin) := spec_lines (off + 1) [] r in ((off - len acc, acc) :: ls, fin)
      else spec_lines (off + 1) (acc ++ [b]) r
  end.

Definition split_lines (s : list N) : list (N * list N) * N := spec_lines 0 [] s.
