(* Model of the marker field storage of fxprof-processed-profile (src/marker_table.rs: MarkerTable::add_marker,
   SerializableMarkerTableDataColumn, SerializableMarkerDataElement; src/markers.rs: InternalMarkerSchema::{from_runtime_schema,
   from_static_schema} string_field_count / number_field_count; src/profile.rs: register_marker_type, static_schema_marker_type).
   The values of all markers of a thread live in two flat vectors (string-kind and number-kind fields); at serialization time
   they are cut up again marker by marker using the per-schema counts, and field by field in schema order.
   A `None` stands for a panic (index out of range, split_at beyond the end, split_first().unwrap() on an empty slice).
   Definitions only. *)
From Coq Require Export List NArith Bool Arith.
Export ListNotations.

Inductive fkind := KUnique | KStr | KNum.       (* MarkerFieldFormat::String | other string formats | number formats *)
Definition schema := list fkind.
Definition is_str (k : fkind) : bool := match k with KNum => false | _ => true end.
Definition scount (sc : schema) : nat := length (filter is_str sc).
Definition ncount (sc : schema) : nat := length (filter (fun k => negb (is_str k)) sc).

Record mstate := mkM {
  m_schemas : list schema;        (* Profile::marker_schemas, indexed by MarkerTypeHandle *)
  m_types : list nat;             (* marker_type_handles *)
  m_svals : list N;               (* marker_field_string_values *)
  m_nvals : list N }.             (* marker_field_number_values *)
Definition m_init : mstate := mkM [] [] [] [].

Inductive mop :=
| MReg (sc : schema)                           (* register_marker_type / first use of a static schema *)
| MAdd (ty : nat) (vals : list N).             (* add_marker: the values the marker returns for field 0, 1, ... *)

(* the loop over schema.fields() in add_marker; a missing value (the marker's trait method would be asked for a field it
   does not have) is a panic *)
Fixpoint push_fields (sc : schema) (vals : list N) (sv nv : list N) : option (list N * list N) :=
  match sc, vals with
  | [], _ => Some (sv, nv)
  | k :: r, v :: vs => if is_str k then push_fields r vs (sv ++ [v]) nv else push_fields r vs sv (nv ++ [v])
  | _ :: _, [] => None
  end.

Definition mstep (s : mstate) (o : mop) : option mstate :=
  match o with
  | MReg sc => Some (mkM (m_schemas s ++ [sc]) (m_types s) (m_svals s) (m_nvals s))
  | MAdd ty vals =>
      match nth_error (m_schemas s) ty with
      | None => None
      | Some sc => match push_fields sc vals (m_svals s) (m_nvals s) with
                   | Some (sv, nv) => Some (mkM (m_schemas s) (m_types s ++ [ty]) sv nv)
                   | None => None end
      end
  end.

Fixpoint mrun (s : mstate) (ops : list mop) : option mstate :=
  match ops with [] => Some s | o :: r => match mstep s o with Some s' => mrun s' r | None => None end end.

(* SerializableMarkerDataElement: one split_first per field, in schema order *)
Fixpoint take_fields (sc : schema) (sf nf : list N) : option (list N) :=
  match sc with
  | [] => Some []
  | k :: r =>
      if is_str k then match sf with v :: sf' => option_map (cons v) (take_fields r sf' nf) | [] => None end
      else match nf with v :: nf' => option_map (cons v) (take_fields r sf nf') | [] => None end
  end.

(* SerializableMarkerTableDataColumn: split_at by the schema's counts, marker after marker *)
Fixpoint data_column (schemas : list schema) (types : list nat) (sv nv : list N) : option (list (list N)) :=
  match types with
  | [] => Some []
  | ty :: r =>
      match nth_error schemas ty with
      | None => None
      | Some sc =>
          if Nat.leb (scount sc) (length sv) && Nat.leb (ncount sc) (length nv) then
            match take_fields sc (firstn (scount sc) sv) (firstn (ncount sc) nv),
                  data_column schemas r (skipn (scount sc) sv) (skipn (ncount sc) nv) with
            | Some e, Some rest => Some (e :: rest)
            | _, _ => None
            end
          else None
      end
  end.

Definition serialize_markers (s : mstate) : option (list (list N)) :=
  data_column (m_schemas s) (m_types s) (m_svals s) (m_nvals s).

(* what the caller supplied: per add_marker call, the values of its fields *)
Definition supplied (ops : list mop) : list (list N) :=
  flat_map (fun o => match o with MAdd _ vals => [vals] | MReg _ => [] end) ops.

(* the calls respect the API: the type handle exists when the marker is added and the marker has one value per field *)
Fixpoint ops_ok (nschemas : list schema) (ops : list mop) : Prop :=
  match ops with
  | [] => True
  | MReg sc :: r => ops_ok (nschemas ++ [sc]) r
  | MAdd ty vals :: r => (exists sc, nth_error nschemas ty = Some sc /\ length vals = length sc) /\ ops_ok nschemas r
  end.
