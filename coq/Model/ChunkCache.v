(* Model of samply-symbols/src/cache.rs (FileContentsWithChunkedCaching) and
   chunked_read_buffer_manager.rs (ChunkedReadBufferManager), after the two "fix:" commits for F-C13a/b.
   The file is a function offset -> byte plus a length.  A buffer is represented by the file range it was read
   from (the source contract: read_bytes_into(offset, size) appends exactly file[offset, offset+size)), so a
   RangeLocation (handle, offset_from_start, size) denotes file[range(handle).start + offset_from_start, +size).
   Outcomes carry that denoted absolute offset.  u64 overflow, the asserts and slice bounds are explicit (Panic).
   Definitions only. *)
From Coq Require Export List NArith Bool.
Export ListNotations.
Open Scope N_scope.

Section ChunkCache.
Variable chunk : N.        (* CHUNK_SIZE *)
Variable maxlen : N.       (* MAX_LENGTH_INCLUDING_DELIMITER *)
Variable file : N -> N.    (* byte at offset *)
Variable flen : N.         (* file_len *)

Definition two64 : N := 18446744073709551616.

Record loc := mkLoc { l_handle : nat; l_off : N; l_size : N }.

Record state := mkState {
  bufs : list (N * N);                 (* buffers / buffer_ranges by handle: the range each was read from *)
  rmap : list (N * N * nat);           (* range_map: newest insertion first; get k = first range containing k *)
  scache : list (N * N * loc)          (* string_cache: (start, delimiter) -> location *)
}.
Definition init : state := mkState [] [] [].

Inductive outcome :=
| Ok (abs_off size : N)     (* the returned slice is file[abs_off, abs_off + size) *)
| Err
| Panic.

Fixpoint rmap_get (m : list (N * N * nat)) (k : N) : option nat :=
  match m with
  | [] => None
  | (s, e, i) :: r => if (s <=? k) && (k <? e) then Some i else rmap_get r k
  end.

Definition round_down (v : N) : N := v / chunk * chunk.
Definition round_up (v : N) : N := (v + chunk - 1) / chunk * chunk.

Inductive sourcing := InExisting (l : loc) | NeedRead (s e : N) | SPanic.

(* chunked_read_buffer_manager.rs:50-82 *)
Definition determine (st : state) (s e : N) : sourcing :=
  if negb (s <? e) || negb (e <=? flen) then SPanic
  else
    match rmap_get (rmap st) s with
    | Some i =>
        match nth_error (bufs st) i with
        | Some (bs, be) =>
            if e <=? be then InExisting (mkLoc i (s - bs) (e - s))
            else NeedRead s (N.min (round_up e) flen)
        | None => SPanic          (* self.buffer_ranges[index] out of bounds *)
        end
    | None => NeedRead (round_down s) (N.min (round_up e) flen)
    end.

(* slice_from_location: &buffer[off..][..size] *)
Definition slice (st : state) (l : loc) : outcome :=
  match nth_error (bufs st) (l_handle l) with
  | Some (bs, be) => if l_off l + l_size l <=? be - bs then Ok (bs + l_off l) (l_size l) else Panic
  | None => Panic
  end.

(* cache.rs get_range_location; the source is in-memory: it fails exactly for out-of-bounds reads *)
Definition get_range_location (st : state) (s e : N) : state * option loc * bool (* panicked *) :=
  match determine st s e with
  | SPanic => (st, None, true)
  | InExisting l => (st, Some l, false)
  | NeedRead rs re =>
      if re <? rs then (st, None, true)
      else if flen <? re then (st, None, false)    (* source error *)
      else
        let h := length (bufs st) in
        (mkState (bufs st ++ [(rs, re)]) ((rs, re, h) :: rmap st) (scache st),
         Some (mkLoc h (s - rs) (e - s)), false)
  end.

Inductive op :=
| ReadAt (off size : N)
| ReadUntil (s e d : N)
| ReadInto (off size : N).        (* read_bytes_into: handed straight to the source, which appends `size` bytes to the caller's buffer *)

Fixpoint scache_get (c : list (N * N * loc)) (s d : N) : option loc :=
  match c with
  | [] => None
  | (s', d', l) :: r => if (s =? s') && (d =? d') then Some l else scache_get r s d
  end.

(* memchr over the denoted slice *)
Fixpoint memchr (d : N) (a : N) (n : nat) : option N :=
  match n with
  | O => None
  | S n' => if file a =? d then Some 0 else option_map N.succ (memchr d (a + 1) n')
  end.

Definition step (st : state) (o : op) : state * outcome :=
  match o with
  | ReadAt off size =>
      if size =? 0 then (st, Ok off 0)
      else if two64 <=? off + size then (st, Err)
      else if flen <? off + size then (st, Err)
      else
        match get_range_location st off (off + size) with
        | (_, _, true) => (st, Panic)
        | (st', Some l, false) => (st', slice st' l)
        | (st', None, false) => (st', Err)
        end
  | ReadUntil s e d =>
      if e <? s then (st, Err)
      else if flen <? e then (st, Err)
      else
        match scache_get (scache st) s d with
        | Some l =>
            (* after fix F-C13b: a cached string only answers a range that contains its delimiter *)
            if l_size l <? e - s then (st, slice st l) else (st, Err)
        | None =>
            let max_len := N.min (e - s) maxlen in
            if max_len =? 0 then (st, Err)        (* after fix F-C13a *)
            else
              match get_range_location st s (s + max_len) with
              | (_, _, true) => (st, Panic)
              | (st', None, false) => (st', Err)
              | (st', Some l, false) =>
                  match slice st' l with
                  | Ok a n =>
                      match memchr d a (N.to_nat n) with
                      | Some len =>
                          (mkState (bufs st') (rmap st') ((s, d, mkLoc (l_handle l) (l_off l) len) :: scache st'),
                           Ok a len)
                      | None => (st', Err)
                      end
                  | other => (st', other)
                  end
              end
        end
  | ReadInto off size =>
      (* FileContentsWithChunkedCaching::read_bytes_into = self.source.read_bytes_into: nothing is cached; the source refuses ranges
         that overflow or end beyond the file *)
      (st, if (two64 <=? off + size) || (flen <? off + size) then Err else Ok off size)
  end.

(* ---- a source that can fail a read once (a transient I/O error) ----
   cache.rs reads from the source before it registers anything (`self.source.read_bytes_into(..)?` precedes `insert_buffer_range`), so the call
   that meets the failure returns Err and leaves the cache as it was. *)
Definition reaches_source (st : state) (o : op) : bool :=
  match o with
  | ReadAt off size =>
      if (size =? 0) || (two64 <=? off + size) || (flen <? off + size) then false
      else match determine st off (off + size) with NeedRead rs re => negb (re <? rs) | _ => false end
  | ReadUntil s e d =>
      if (e <? s) || (flen <? e) then false
      else match scache_get (scache st) s d with
           | Some _ => false
           | None => let max_len := N.min (e - s) maxlen in
                     if max_len =? 0 then false
                     else match determine st s (s + max_len) with NeedRead rs re => negb (re <? rs) | _ => false end
           end
  | ReadInto _ _ => true
  end.

(* fail = the source will fail its next read; the result says whether this call met that failure *)
Definition step_f (st : state) (fail : bool) (o : op) : state * outcome * bool * bool (* new fail flag *) :=
  if fail && reaches_source st o then (st, Err, true, false)
  else let '(st', out) := step st o in (st', out, false, fail).

(* events: (inject, call) - inject = a failure of the next source read is armed just before the call *)
Fixpoint run_f (st : state) (fail : bool) (evs : list (bool * op)) : list (outcome * bool) :=
  match evs with
  | [] => []
  | (x, o) :: r => let '(st', out, met, fail') := step_f st (fail || x) o in (out, met) :: run_f st' fail' r
  end.

Fixpoint run (st : state) (ops : list op) : list outcome :=
  match ops with
  | [] => []
  | o :: r => let '(st', out) := step st o in out :: run st' r
  end.

(* ---- specification: what each call must return, from the file alone ---- *)

Definition spec (o : op) : outcome :=
  match o with
  | ReadAt off size =>
      if size =? 0 then Ok off 0
      else if (two64 <=? off + size) || (flen <? off + size) then Err
      else Ok off size
  | ReadUntil s e d =>
      if (e <? s) || (flen <? e) then Err
      else match memchr d s (N.to_nat (N.min (e - s) maxlen)) with
           | Some len => Ok s len
           | None => Err
           end
  | ReadInto off size => if (two64 <=? off + size) || (flen <? off + size) then Err else Ok off size
  end.

End ChunkCache.
