(* Model of wholesym/src/file_creation.rs::create_file_cleanly as an interleaving small-step semantics.
   Any number of creators of one destination run the protocol
     open/create <dest>.lock ; flock (blocks) ; stat dest ;
       [exists: drop lock ; unlink lock path ; handle_existing]
       open <dest>.part with O_TRUNC ; write_fn (chunk by chunk) ; close ;
       [write_fn failed / rename failed: unlink part ; drop lock]
       rename part -> dest ; drop lock ; unlink lock path
   interleaved at the granularity of these file-system calls; a creator can be killed (or its future dropped at an await
   point, which has the same effect: its descriptors are closed, nothing is cleaned up) at any point.
   Files are inodes; the three paths map to inodes; advisory locks belong to inodes (flock semantics), so that unlinking
   the lock path while others hold descriptors to the old inode is represented faithfully.  Definitions only. *)
From Coq Require Export List Arith Bool.
Export ListNotations.

Definition upd {A} (f : nat -> A) (k : nat) (v : A) : nat -> A := fun x => if Nat.eqb x k then v else f x.

Definition chunk := (nat * nat)%type.          (* (writer, index): what write_fn of creator w writes as its j-th piece *)
Definition chunks_of (w n : nat) : list chunk := map (fun j => (w, j)) (seq 0 n).

Inductive result := RWritten | RExisting | RFailed.

Inductive pc :=
| Idle
| WaitLock (li : nat)          (* has opened the lock file (inode li); blocked in flock *)
| Locked (li : nat)            (* holds the lock; next: stat dest *)
| Checked (li : nat)           (* dest did not exist; next: open part with truncate *)
| Writing (li pi j : nat)      (* inside write_fn: j chunks written through the descriptor to inode pi *)
| Written (li : nat)           (* write_fn returned Ok and closed the file; next: rename *)
| WFailed (li : nat)           (* write_fn returned Err, or the rename failed; next: unlink part *)
| WFailed2 (li : nat)          (* next: drop the lock, return the error *)
| Renamed (li : nat)           (* next: drop the lock *)
| SuccUnlocked                 (* next: unlink the lock path, return Ok *)
| ExLocked (li : nat)          (* dest existed; next: drop the lock *)
| ExUnlocked                   (* next: unlink the lock path *)
| ExHandling                   (* next: handle_existing_fn, return Ok *)
| Done (r : result)
| Dead.

Record st := mkSt {
  content : nat -> list chunk;       (* inode -> contents *)
  next : nat;                        (* next unused inode number *)
  holder : nat -> option nat;        (* inode -> creator holding the exclusive lock *)
  dest : option nat;                 (* path -> inode *)
  part : option nat;
  lockp : option nat;
  procs : nat -> pc;
  renames : nat                      (* ghost: number of successful renames so far *)
}.

Definition init : st := mkSt (fun _ => []) 0 (fun _ => None) None None None (fun _ => Idle) 0.

Inductive event := Run (c : nat) | Kill (c : nat) | RunRenameFail (c : nat).

(* the lock inode a creator has a descriptor for / holds the lock of *)
Definition fd_of (p : pc) : option nat :=
  match p with
  | WaitLock li | Locked li | Checked li | Writing li _ _ | Written li | WFailed li | WFailed2 li | Renamed li | ExLocked li => Some li
  | _ => None
  end.
Definition holds (p : pc) : option nat :=
  match p with
  | WaitLock _ => None
  | _ => fd_of p
  end.

Section Protocol.
  (* what write_fn of creator c does: writes this many chunks, then returns Ok (true) or Err (false) *)
  Variable plan : nat -> nat * bool.

  Definition set_pc (s : st) (c : nat) (p : pc) : st :=
    mkSt (content s) (next s) (holder s) (dest s) (part s) (lockp s) (upd (procs s) c p) (renames s).
  Definition set_holder (s : st) (li : nat) (h : option nat) : st :=
    mkSt (content s) (next s) (upd (holder s) li h) (dest s) (part s) (lockp s) (procs s) (renames s).

  Definition run1 (s : st) (c : nat) : st :=
    match procs s c with
    | Idle =>
        match lockp s with
        | Some l => set_pc s c (WaitLock l)
        | None => mkSt (content s) (S (next s)) (upd (holder s) (next s) None) (dest s) (part s) (Some (next s))
                       (upd (procs s) c (WaitLock (next s))) (renames s)
        end
    | WaitLock li =>
        match holder s li with
        | None => set_pc (set_holder s li (Some c)) c (Locked li)
        | Some _ => s
        end
    | Locked li => match dest s with Some _ => set_pc s c (ExLocked li) | None => set_pc s c (Checked li) end
    | Checked li =>
        match part s with
        | Some p => mkSt (upd (content s) p []) (next s) (holder s) (dest s) (part s) (lockp s) (upd (procs s) c (Writing li p 0)) (renames s)
        | None => mkSt (upd (content s) (next s) []) (S (next s)) (holder s) (dest s) (Some (next s)) (lockp s)
                       (upd (procs s) c (Writing li (next s) 0)) (renames s)
        end
    | Writing li p j =>
        if j <? fst (plan c)
        then mkSt (upd (content s) p (content s p ++ [(c, j)])) (next s) (holder s) (dest s) (part s) (lockp s)
                  (upd (procs s) c (Writing li p (S j))) (renames s)
        else set_pc s c (if snd (plan c) then Written li else WFailed li)
    | Written li =>
        match part s with
        | Some p => mkSt (content s) (next s) (holder s) (Some p) None (lockp s) (upd (procs s) c (Renamed li)) (S (renames s))
        | None => set_pc s c (WFailed li)
        end
    | WFailed li => mkSt (content s) (next s) (holder s) (dest s) None (lockp s) (upd (procs s) c (WFailed2 li)) (renames s)
    | WFailed2 li => set_pc (set_holder s li None) c (Done RFailed)
    | Renamed li => set_pc (set_holder s li None) c SuccUnlocked
    | SuccUnlocked => mkSt (content s) (next s) (holder s) (dest s) (part s) None (upd (procs s) c (Done RWritten)) (renames s)
    | ExLocked li => set_pc (set_holder s li None) c ExUnlocked
    | ExUnlocked => mkSt (content s) (next s) (holder s) (dest s) (part s) None (upd (procs s) c ExHandling) (renames s)
    | ExHandling => set_pc s c (Done RExisting)
    | Done _ | Dead => s
    end.

  Definition kill1 (s : st) (c : nat) : st :=
    match procs s c with
    | Done _ => s
    | p => match holds p with
           | Some li => set_pc (set_holder s li None) c Dead
           | None => set_pc s c Dead
           end
    end.

  Definition step (s : st) (e : event) : st :=
    match e with
    | Run c => run1 s c
    | Kill c => kill1 s c
    | RunRenameFail c => match procs s c with Written li => set_pc s c (WFailed li) | _ => s end
    end.

  Definition run (evs : list event) (s : st) : st := fold_left step evs s.

  (* what an observer of the final path sees *)
  Definition complete (s : st) (d : nat) : Prop :=
    exists w, snd (plan w) = true /\ content s d = chunks_of w (fst (plan w)).

  Definition quiescent (p : pc) : bool := match p with Idle | Done _ | Dead => true | _ => false end.

  (* a creator running alone for k steps *)
  Fixpoint run_alone (k : nat) (s : st) (c : nat) : st :=
    match k with O => s | S k' => run_alone k' (run1 s c) c end.
End Protocol.
