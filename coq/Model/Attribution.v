(* Model of the attribution half of sample flushing:
   samply/src/shared/lib_mappings.rs (LibMappingOpQueue, next_op_if_at_or_before, LibMappingOp::apply_to,
   LibMappingsHierarchy::process_ops / convert_address for the regular queue),
   stack_converter.rs passes 1-2 (lookup address, mode, resolution) and the per-sample loop of
   process_sample_data.rs::flush_samples_to_profile.  Built on Model/LibMappings.v.  Definitions only. *)
From SV Require Import Generated.Consts Model.LibMappings.
Open Scope N_scope.

Inductive qop :=
| QOp (o : op)                       (* Add / Remove / Clear *)
| QMove (old_s new_s new_e : N).     (* LibMappingOp::Move *)

Fixpoint bt_find (m : lm) (k : N) : option mapping :=
  match m with [] => None | x :: r => if m_start x =? k then Some x else bt_find r k end.

(* lib_mappings.rs:172-203 *)
Definition apply_qop (m : lm) (q : qop) : lm :=
  match q with
  | QOp o => step m o
  | QMove a b c =>
      match bt_find m a with
      | Some y => step (remove_mapping m a) (Add (mkMapping b c (m_rel y) (m_val y)))
      | None => m
      end
  end.

(* next_op_if_at_or_before: `peek.ts > timestamp -> None`; the comparison is regenerated from the source *)
Definition cutoff (op_ts sample_ts : N) : bool :=
  if c_op_cutoff_inclusive then op_ts <=? sample_ts else op_ts <? sample_ts.

(* LibMappingsHierarchy::process_ops for the regular queue *)
Fixpoint process_ops (ts : N) (m : lm) (q : list (N * qop)) : lm * list (N * qop) :=
  match q with
  | [] => (m, [])
  | (t, o) :: r => if cutoff t ts then process_ops ts (apply_qop m o) r else (m, q)
  end.

Inductive mode := User | Kernel.
Inductive sframe :=
| SIp (a : N) (md : mode)
| SRet (a : N) (md : mode)
| SAdj (a : N) (md : mode)
| SMarker.

Inductive rframe :=
| RInLib (lib rel : N)
| RRaw (a : N)
| RPanic.                 (* u32 overflow of the relative address (debug build) *)

(* pass 1: lookup address; markers yield nothing *)
Definition pass1 (f : sframe) : option (N * mode) :=
  match f with
  | SIp a md => Some (a, md)
  | SRet a md => Some (a - 1, md)          (* saturating_sub(1) *)
  | SAdj a md => Some (a, md)
  | SMarker => None
  end.

(* pass 2 + Profile::handle_for_frame_with_address (no profile-level mappings in the tie) *)
Definition pass2 (m : lm) (x : N * mode) : rframe :=
  let '(a, md) := x in
  match md with
  | Kernel => RRaw a
  | User =>
      match convert_address m a with
      | Some (rel, lib, ovf) => if ovf then RPanic else RInLib lib rel
      | None => RRaw a
      end
  end.

Fixpoint resolve_stack (m : lm) (fs : list sframe) : list rframe :=
  match fs with
  | [] => []
  | f :: r => match pass1 f with
              | Some x => pass2 m x :: resolve_stack m r
              | None => resolve_stack m r
              end
  end.

(* the per-sample loop: samples are (timestamp_mono, frames root first) *)
Fixpoint flush (m : lm) (q : list (N * qop)) (samples : list (N * list sframe)) : list (list rframe) :=
  match samples with
  | [] => []
  | (ts, fs) :: r =>
      let '(m', q') := process_ops ts m q in
      resolve_stack m' fs :: flush m' q' r
  end.
