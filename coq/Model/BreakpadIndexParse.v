(* Model of BreakpadIndex::parse_symindex_file (samply-symbols/src/breakpad/index.rs:40-170), the table part: header fields, the
   module-info bytes and the four arrays are read back from the offsets and counts the header states.  (The interpretation of the
   module-info text - MODULE / INFO lines - is not part of the stored tables.)  Definitions only. *)
From SV Require Import Lib.Bytes Model.BreakpadIndex.
Open Scope N_scope.

Definition u32_at (b : bytes) (off : N) : option N := option_map le_value (sub b off 4).

Fixpoint dec_fs (n : nat) (b : bytes) : list fentry :=
  match n with
  | O => []
  | S k => mkF (le_value (firstn 4 b)) (le_value (firstn 4 (skipn 4 b))) (le_value (firstn 8 (skipn 8 b))) :: dec_fs k (skipn 16 b)
  end.
Fixpoint dec_syms (n : nat) (addrs ents : bytes) : list sentry :=
  match n with
  | O => []
  | S k => mkS (le_value (firstn 4 addrs)) (le_value (firstn 4 ents)) (le_value (firstn 4 (skipn 4 ents))) (le_value (firstn 8 (skipn 8 ents)))
           :: dec_syms k (skipn 4 addrs) (skipn 16 ents)
  end.

Definition parse_symindex (b : bytes) : option index :=
  match sub b 0 HEADER_SIZE with
  | None => None                                                       (* FileTooSmallForHeader *)
  | Some h =>
      if negb (bytes_eqb (firstn 8 h) magic) then None                 (* WrongMagicBytes *)
      else
        match u32_at h 12, u32_at h 16, u32_at h 20, u32_at h 24, u32_at h 28, u32_at h 32, u32_at h 36, u32_at h 40, u32_at h 44 with
        | Some mi_off, Some mi_len, Some nf, Some f_off', Some no, Some o_off, Some ns, Some a_off, Some e_off =>
            match sub b mi_off mi_len, sub b f_off' (nf * 16), sub b o_off (no * 16), sub b a_off (ns * 4), sub b e_off (ns * 16) with
            | Some mi, Some fb, Some ob, Some ab, Some eb =>
                Some (mkIdx mi (dec_fs (N.to_nat nf) fb) (dec_fs (N.to_nat no) ob) (dec_syms (N.to_nat ns) ab eb))
            | _, _, _, _, _ => None
            end
        | _, _, _, _, _, _, _, _, _ => None
        end
  end.

Definition wf_f (x : fentry) : Prop := f_index x < 2 ^ 32 /\ f_len x < 2 ^ 32 /\ f_off x < 2 ^ 64.
Definition wf_s (x : sentry) : Prop := s_addr x < 2 ^ 32 /\ s_kind x < 2 ^ 32 /\ s_len x < 2 ^ 32 /\ s_off x < 2 ^ 64.
Definition wf_index (i : index) : Prop :=
  Forall wf_f (i_files i) /\ Forall wf_f (i_origins i) /\ Forall wf_s (i_symbols i) /\
  (* every offset and count the header stores fits its 32-bit field *)
  N.of_nat (length (serialize i)) < 2 ^ 32.
