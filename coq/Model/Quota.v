(* Model of samply-quota-manager: file_inventory.rs (rows, on_file_created/accessed/deleted, total size,
   get_files_to_delete_to_enforce_max_size, get_files_last_accessed_before) and quota_manager.rs
   (perform_eviction_if_needed, delete_files), after the two "fix:" commits (F-C15a/b).
   Rows are kept in rowid order (an upsert keeps the row's position).  Times are "hours ago": larger = older;
   the maximum age is given in half hours so that no row sits exactly on the cut-off.  Definitions only. *)
From Coq Require Export List NArith Bool.
Export ListNotations.
Open Scope N_scope.

Record row := mkRow { r_key : N; r_size : N; r_age : N }.

Record state := mkSt {
  rows : list row;          (* the sqlite table, rowid order *)
  disk_in : list N;         (* files present under the managed directory *)
  disk_out : list N;        (* files present outside it *)
  max_size : option N;
  max_age2 : option N       (* max age in half hours *)
}.

Definition init : state := mkSt [] [] [] None None.

Inductive op :=
| Create (k size age : N)       (* write the file, on_file_created *)
| CreateOut (k size age : N)    (* the same for a path outside the managed directory *)
| Access (k age : N)            (* on_file_accessed *)
| AccessOut (k age : N)
| Delete (k : N)                (* remove the file and call on_file_deleted *)
| ExtDelete (k : N)             (* remove the file behind the manager's back *)
| SetMaxSize (m : option N)
| SetMaxAge (a2 : option N)
| Evict
| Restart
| Tick.                         (* one time unit passes with no activity at all: every recorded access is one unit further in the past *)                      (* finish() + QuotaManager::new on the same database: the limits are not persisted *)

Fixpoint upsert (l : list row) (r : row) : list row :=
  match l with
  | [] => [r]
  | x :: t => if r_key x =? r_key r then r :: t else x :: upsert t r
  end.

Definition set_age (l : list row) (k age : N) : list row :=
  map (fun x => if r_key x =? k then mkRow (r_key x) (r_size x) age else x) l.

Definition del_row (l : list row) (k : N) : list row := filter (fun x => negb (r_key x =? k)) l.
Definition del_key (l : list N) (k : N) : list N := filter (fun x => negb (x =? k)) l.
Definition add_key (l : list N) (k : N) : list N := if existsb (N.eqb k) l then l else l ++ [k].

Definition age_all (l : list row) : list row := map (fun x => mkRow (r_key x) (r_size x) (r_age x + 1)) l.

Definition total (l : list row) : N := fold_right (fun x a => r_size x + a) 0 l.

(* ORDER BY LastAccessTime ASC: oldest first; ties in rowid order (stable insertion) *)
Fixpoint lru_insert (x : row) (l : list row) : list row :=
  match l with
  | [] => [x]
  | y :: t => if r_age y <=? r_age x then x :: y :: t else y :: lru_insert x t
  end.
Fixpoint lru_order (l : list row) : list row :=
  match l with [] => [] | x :: t => lru_insert x (lru_order t) end.
(* note: built from the right so that among equal ages the earlier rowid comes first *)

(* the loop of get_files_to_delete_to_enforce_max_size *)
Fixpoint take_until (excess : N) (l : list row) : list row :=
  match l with
  | [] => []
  | x :: t => let e := excess - r_size x in         (* saturating_sub *)
              if e =? 0 then [x] else x :: take_until e t
  end.

Definition files_for_size (l : list row) (maxs : N) : list row :=
  if total l <? maxs then []
  else let excess := total l - maxs in
       if excess =? 0 then [] else take_until excess (lru_order l).

Definition files_for_age (l : list row) (a2 : N) : list row :=
  filter (fun x => a2 <? 2 * r_age x) l.

(* delete_files: remove the file if present; forget the row in both cases *)
Definition delete_files (st : state) (fs : list row) : state :=
  fold_left (fun s f => mkSt (del_row (rows s) (r_key f)) (del_key (disk_in s) (r_key f)) (disk_out s) (max_size s) (max_age2 s)) fs st.

Definition evict (st : state) : state :=
  let st1 := match max_size st with
             | Some m => delete_files st (files_for_size (rows st) m)
             | None => st
             end in
  match max_age2 st1 with
  | Some a => delete_files st1 (files_for_age (rows st1) a)
  | None => st1
  end.

Definition step (st : state) (o : op) : state :=
  match o with
  | Create k size age => mkSt (upsert (rows st) (mkRow k size age)) (add_key (disk_in st) k) (disk_out st) (max_size st) (max_age2 st)
  | CreateOut k _ _ => mkSt (rows st) (disk_in st) (add_key (disk_out st) k) (max_size st) (max_age2 st)
  | Access k age => mkSt (set_age (rows st) k age) (disk_in st) (disk_out st) (max_size st) (max_age2 st)
  | AccessOut _ _ => st
  | Delete k => mkSt (del_row (rows st) k) (del_key (disk_in st) k) (disk_out st) (max_size st) (max_age2 st)
  | ExtDelete k => mkSt (rows st) (del_key (disk_in st) k) (disk_out st) (max_size st) (max_age2 st)
  | SetMaxSize m => mkSt (rows st) (disk_in st) (disk_out st) m (max_age2 st)
  | SetMaxAge a => mkSt (rows st) (disk_in st) (disk_out st) (max_size st) a
  | Evict => evict st
  | Restart => mkSt (rows st) (disk_in st) (disk_out st) None None   (* the settings live in memory only *)
  | Tick => mkSt (age_all (rows st)) (disk_in st) (disk_out st) (max_size st) (max_age2 st)
  end.

(* the correspondence run observes the state after every Evict / Restart *)
Fixpoint run (st : state) (ops : list op) : list state :=
  match ops with
  | [] => []
  | o :: r => let st' := step st o in
              match o with
              | Evict | Restart => st' :: run st' r
              | _ => run st' r
              end
  end.
