(* Model of samply-symbols/src/symbol_map_object.rs: SymbolList::new's final sort + dedup (:243-248), lookup_relative_address
   (:251-270), SvmaFileRanges::file_offset_to_svma (:329-340), the address-form handling of lookup_sync (:517-543) and the symbol
   enumeration (SymbolMapIter); and of jitdump.rs lookup_relative_address / lookup_offset (:121-161).  Definitions only. *)
From Coq Require Export List NArith Bool.
Export ListNotations.
Open Scope N_scope.

Inductive ekind := KSym | KExport | KSynth | KEntryPoint | KEnd.
Definition is_end (k : ekind) : bool := match k with KEnd => true | _ => false end.
Definition entry := (N * ekind)%type.

(* entries.sort_by_key (stable) + dedup_by_key (keeps the first = best entry of each address) *)
Fixpoint ins_e (x : entry) (l : list entry) : list entry :=
  match l with [] => [x] | y :: t => if fst x <=? fst y then x :: y :: t else y :: ins_e x t end.
Definition sort_e (l : list entry) : list entry := fold_right ins_e [] l.
Fixpoint dedup_e (l : list entry) : list entry :=
  match l with
  | [] => []
  | x :: t => match dedup_e t with
              | [] => [x]
              | y :: t' => if fst x =? fst y then x :: t' else x :: y :: t'
              end
  end.
Definition build (sources : list entry) : list entry := dedup_e (sort_e sources).

(* binary_search_by_key on the sorted unique list: the last entry with address <= a, and the entry after it *)
Fixpoint find_le (l : list entry) (a : N) (best : option entry) : option entry * option entry :=
  match l with
  | [] => (best, None)
  | x :: r => if fst x <=? a then find_le r a (Some x) else (best, Some x)
  end.

(* lookup_relative_address: (start, end) *)
Definition lookup_rel (l : list entry) (a : N) : option (N * N) :=
  match find_le l a None with
  | (Some (s, k), Some (e, _)) => if is_end k then None else Some (s, e)
  | _ => None
  end.

Definition enumerate (l : list entry) : list entry := filter (fun x => negb (is_end (snd x))) l.

Definition two32 : N := 4294967296.
Definition two64 : N := 18446744073709551616.

Inductive addr := ARel (r : N) | ASvma (v : N) | AOff (o : N).

Fixpoint off_to_svma (ranges : list (N * N * N)) (o : N) : option N :=
  match ranges with
  | [] => None
  | (svma, fo, size) :: r =>
      if (fo <=? o) && (o <? fo + size) then (if svma + (o - fo) <? two64 then Some (svma + (o - fo)) else None)
      else off_to_svma r o
  end.

Definition lookup_svma (base : N) (l : list entry) (v : N) : option (N * N) :=
  if base <=? v then (if v - base <? two32 then lookup_rel l (v - base) else None) else None.

Definition lookup (base : N) (ranges : list (N * N * N)) (l : list entry) (a : addr) : option (N * N) :=
  match a with
  | ARel r => if base + r <? two64 then lookup_rel l r else None
  | ASvma v => lookup_svma base l v
  | AOff o => match off_to_svma ranges o with Some v => lookup_svma base l v | None => None end
  end.

(* ---- jitdump ---- *)
Record jentry := mkJe { je_rel : N; je_cbo : N; je_len : N }.     (* relative address, code bytes file offset, code length *)

Fixpoint jfind (key : jentry -> N) (l : list jentry) (a : N) (best : option jentry) : option jentry :=
  match l with [] => best | x :: r => if key x <=? a then jfind key r a (Some x) else best end.

(* (entry's relative address, offset from the entry start) *)
Definition jlookup_rel (l : list jentry) (a : N) : option (N * N) :=
  match jfind je_rel l a None with
  | Some x => if a - je_rel x <? je_len x then Some (je_rel x, a - je_rel x) else None
  | None => None
  end.
Definition jlookup_off (l : list jentry) (o : N) : option (N * N) :=
  match jfind je_cbo l o None with
  | Some x => if o - je_cbo x <? je_len x then Some (je_rel x, o - je_cbo x) else None
  | None => None
  end.
