(* Model of the per-thread frame / func / resource / string tables of fxprof-processed-profile and the global used-library list:
     frame_table.rs:35-84 (index_for_frame), func_table.rs:30-66 (index_for_func), resource_table.rs:15-33 (resource_for_lib),
     thread_string_table.rs / string_table.rs (interning in order of first use), global_lib_table.rs (index_for_used_lib).
   Strings and libraries are content ids.  Definitions only. *)
From SV Require Import Model.ProfileTables.
From Coq Require Import NArith.

(* frame key (frame_table.rs InternalFrame): name string index, Native (used-lib index, relative address,
   native symbol, inline depth) or Label, file path string index, line, column, subcategory handle (category index, subcategory index), frame flags (bit 0 IS_JS, bit 1 IS_RELEVANT_FOR_JS) *)
Record natinfo := mkNI { ni_lib : nat; ni_rel : N; ni_ns : option nat; ni_depth : N }.
Record fkey := mkFK { fk_name : nat; fk_native : option natinfo; fk_file : option nat; fk_line : option N; fk_col : option N; fk_sub : nat * nat; fk_flags : N }.
(* func key (func_table.rs FuncKey): name string index, file path string index, used-lib index, frame flags *)
Record funckey := mkFu { fu_name : nat; fu_file : option nat; fu_lib : option nat; fu_flags : N }.

Definition onat_eqb (a b : option nat) : bool := match a, b with None, None => true | Some x, Some y => Nat.eqb x y | _, _ => false end.
Definition oN_eqb (a b : option N) : bool := match a, b with None, None => true | Some x, Some y => N.eqb x y | _, _ => false end.
Definition natinfo_eqb (a b : natinfo) : bool :=
  Nat.eqb (ni_lib a) (ni_lib b) && N.eqb (ni_rel a) (ni_rel b) && onat_eqb (ni_ns a) (ni_ns b) && N.eqb (ni_depth a) (ni_depth b).
Definition fkey_eqb (a b : fkey) : bool :=
  Nat.eqb (fk_name a) (fk_name b) &&
  match fk_native a, fk_native b with None, None => true | Some x, Some y => natinfo_eqb x y | _, _ => false end &&
  onat_eqb (fk_file a) (fk_file b) && oN_eqb (fk_line a) (fk_line b) && oN_eqb (fk_col a) (fk_col b) &&
  Nat.eqb (fst (fk_sub a)) (fst (fk_sub b)) && Nat.eqb (snd (fk_sub a)) (snd (fk_sub b)) && N.eqb (fk_flags a) (fk_flags b).
Definition funckey_eqb (a b : funckey) : bool :=
  Nat.eqb (fu_name a) (fu_name b) && onat_eqb (fu_file a) (fu_file b) && onat_eqb (fu_lib a) (fu_lib b) && N.eqb (fu_flags a) (fu_flags b).

Record ttab := mkTT {
  tt_strings : list N;                         (* stringArray: content ids in order of first use *)
  tt_res_lib : list nat; tt_res_name : list nat;                     (* resourceTable columns *)
  tt_funcs : list funckey; tt_func_res : list (option nat);          (* funcTable: key set (name, file, lib) and the resource column *)
  tt_frames : list fkey; tt_frame_func : list nat;                   (* frameTable: key set and the func column *)
  tt_ns : list (nat * N); tt_ns_name : list nat }.                   (* nativeSymbols: key set (lib, symbol address) and the name column *)
Definition tt_empty : ttab := mkTT [] [] [] [] [] [] [] [] [].

Definition intern_string (t : ttab) (s : N) : nat * ttab :=
  let '(i, l) := intern N.eqb (tt_strings t) s in
  (i, mkTT l (tt_res_lib t) (tt_res_name t) (tt_funcs t) (tt_func_res t) (tt_frames t) (tt_frame_func t) (tt_ns t) (tt_ns_name t)).

(* resource_for_lib: one resource per used library; the library's name string is interned when the resource is created *)
Definition resource_for_lib (t : ttab) (lib : nat) (libname : N) : nat * ttab :=
  match index_of Nat.eqb lib (tt_res_lib t) with
  | Some r => (r, t)
  | None =>
      let '(n, t1) := intern_string t libname in
      (length (tt_res_lib t1), mkTT (tt_strings t1) (tt_res_lib t1 ++ [lib]) (tt_res_name t1 ++ [n]) (tt_funcs t1) (tt_func_res t1) (tt_frames t1) (tt_frame_func t1) (tt_ns t1) (tt_ns_name t1))
  end.

Definition func_for (t : ttab) (k : funckey) (libname : N) : nat * ttab :=
  match index_of funckey_eqb k (tt_funcs t) with
  | Some i => (i, t)
  | None =>
      let '(res, t1) := match fu_lib k with
                        | Some lib => let '(r, t') := resource_for_lib t lib libname in (Some r, t')
                        | None => (None, t)
                        end in
      (length (tt_funcs t1), mkTT (tt_strings t1) (tt_res_lib t1) (tt_res_name t1) (tt_funcs t1 ++ [k]) (tt_func_res t1 ++ [res]) (tt_frames t1) (tt_frame_func t1) (tt_ns t1) (tt_ns_name t1))
  end.

Definition frame_for (t : ttab) (k : fkey) (libname : N) : nat * ttab :=
  match index_of fkey_eqb k (tt_frames t) with
  | Some i => (i, t)
  | None =>
      let '(f, t1) := func_for t (mkFu (fk_name k) (fk_file k) (option_map ni_lib (fk_native k)) (fk_flags k)) libname in
      (length (tt_frames t1), mkTT (tt_strings t1) (tt_res_lib t1) (tt_res_name t1) (tt_funcs t1) (tt_func_res t1) (tt_frames t1 ++ [k]) (tt_frame_func t1 ++ [f]) (tt_ns t1) (tt_ns_name t1))
  end.

(* native_symbols.rs: one row per (library, symbol address); the symbol's name string is interned when the row is created *)
Definition ns_key_eqb (a b : nat * N) : bool := Nat.eqb (fst a) (fst b) && N.eqb (snd a) (snd b).
Definition native_symbol_for (t : ttab) (lib : nat) (addr : N) (symname : N) : nat * ttab :=
  match index_of ns_key_eqb (lib, addr) (tt_ns t) with
  | Some i => (i, t)
  | None =>
      let '(n, t1) := intern_string t symname in
      (length (tt_ns t1), mkTT (tt_strings t1) (tt_res_lib t1) (tt_res_name t1) (tt_funcs t1) (tt_func_res t1) (tt_frames t1) (tt_frame_func t1)
                               (tt_ns t1 ++ [(lib, addr)]) (tt_ns_name t1 ++ [n]))
  end.

(* what callers do *)
Inductive freq :=
| FString (s : N)                                  (* a string converted for this thread (marker name / text) *)
| FLabel (name : N)                                (* handle_for_frame_with_label *)
| FLabelLoc (name : N) (file : option N) (line col : option N)      (* handle_for_frame_with_label_and_source_location *)
| FNative (lib : nat) (rel : N) (hexname libname : N)    (* handle_for_frame_with_address resolved into a used library without symbol table hit *)
| FNativeSym (lib : nat) (rel symaddr : N) (symname libname : N)    (* ... inside a symbol of the library's symbol table *)
| FNs (lib : nat) (symaddr : N) (symname : N)      (* handle_for_native_symbol *)
| FSymbolicated (addr : option (nat * N)) (hexname : N) (nslib : nat) (nsaddr : N)   (* handle_for_frame_with_address_and_symbol: the address resolves *)
                (name file : option N) (line col : option N) (depth : N) (libname : N).   (* into (used lib, rel) or nowhere; the native symbol handle's key *)

Definition intern_opt (t : ttab) (s : option N) : option nat * ttab :=
  match s with Some x => let '(i, t1) := intern_string t x in (Some i, t1) | None => (None, t) end.

(* sc, fl: the subcategory handle and the frame flags the call was given (requests that make no frame ignore them) *)
Definition do_req (t : ttab) (r : freq) (sc : nat * nat) (fl : N) : ttab :=
  match r with
  | FString s => snd (intern_string t s)
  | FLabel name => let '(n, t1) := intern_string t name in snd (frame_for t1 (mkFK n None None None None sc fl) 0%N)
  | FLabelLoc name file line col =>
      let '(n, t1) := intern_string t name in
      let '(f, t2) := intern_opt t1 file in
      snd (frame_for t2 (mkFK n None f line col sc fl) 0%N)
  | FNative lib rel hexname libname =>
      let '(n, t1) := intern_string t hexname in snd (frame_for t1 (mkFK n (Some (mkNI lib rel None 0%N)) None None None sc fl) libname)
  | FNativeSym lib rel symaddr symname libname =>
      let '(ns, t1) := native_symbol_for t lib symaddr symname in
      snd (frame_for t1 (mkFK (nth ns (tt_ns_name t1) 0) (Some (mkNI lib rel (Some ns) 0%N)) None None None sc fl) libname)
  | FNs lib symaddr symname => snd (native_symbol_for t lib symaddr symname)
  | FSymbolicated addr hexname nslib nsaddr name file line col depth libname =>
      match index_of ns_key_eqb (nslib, nsaddr) (tt_ns t) with
      | None => t                                   (* no such native symbol handle: not a call the API allows *)
      | Some ns =>
          let '(nm, t1) := intern_opt t name in
          let '(variant, n, t2) :=
            match addr with
            | None => match nm with
                      | Some i => (None, i, t1)
                      | None => let '(i, t') := intern_string t1 hexname in (None, i, t')
                      end
            | Some (lib, rel) =>
                (Some (mkNI lib rel (Some ns) depth), match nm with Some i => i | None => nth ns (tt_ns_name t1) 0 end, t1)
            end in
          let '(f, t3) := intern_opt t2 file in
          snd (frame_for t3 (mkFK n variant f line col sc fl) libname)
      end
  end.
Definition run_reqs (rs : list (freq * (nat * nat * N))) : ttab := fold_left (fun t r => do_req t (fst r) (fst (snd r)) (snd (snd r))) rs tt_empty.

(* every index stored in a column points into its table; columns have their table's length *)
Record tt_wf (nlibs : nat) (t : ttab) : Prop := mkWF {
  w_res_len : length (tt_res_name t) = length (tt_res_lib t);
  w_func_len : length (tt_func_res t) = length (tt_funcs t);
  w_frame_len : length (tt_frame_func t) = length (tt_frames t);
  w_ns_len : length (tt_ns_name t) = length (tt_ns t);
  w_res_lib : forall l, In l (tt_res_lib t) -> l < nlibs;
  w_res_name : forall n, In n (tt_res_name t) -> n < length (tt_strings t);
  w_func_name : forall k, In k (tt_funcs t) -> fu_name k < length (tt_strings t);
  w_func_file : forall k f, In k (tt_funcs t) -> fu_file k = Some f -> f < length (tt_strings t);
  w_func_res : forall r, In (Some r) (tt_func_res t) -> r < length (tt_res_lib t);
  w_frame_name : forall k, In k (tt_frames t) -> fk_name k < length (tt_strings t);
  w_frame_func : forall f, In f (tt_frame_func t) -> f < length (tt_funcs t);
  w_ns_lib : forall k, In k (tt_ns t) -> fst k < nlibs;
  w_ns_name : forall n, In n (tt_ns_name t) -> n < length (tt_strings t);
  w_frame_ns : forall k ni i, In k (tt_frames t) -> fk_native k = Some ni -> ni_ns ni = Some i -> i < length (tt_ns t) }.
Definition req_ok (nlibs : nat) (r : freq) : Prop :=
  match r with
  | FNative lib _ _ _ => lib < nlibs | FNativeSym lib _ _ _ _ => lib < nlibs | FNs lib _ _ => lib < nlibs
  | FSymbolicated (Some (lib, _)) _ _ _ _ _ _ _ _ _ => lib < nlibs
  | _ => True end.
