(* Model of the per-thread frame / func / resource / string tables of fxprof-processed-profile and the global used-library list:
     frame_table.rs:35-84 (index_for_frame), func_table.rs:30-66 (index_for_func), resource_table.rs:15-33 (resource_for_lib),
     thread_string_table.rs / string_table.rs (interning in order of first use), global_lib_table.rs (index_for_used_lib).
   Strings and libraries are content ids.  Definitions only. *)
From SV Require Import Model.ProfileTables.
From Coq Require Import NArith.

Definition fkey := (nat * option (nat * N))%type.            (* name string index, Native (used-lib index, relative address) or Label *)
Definition funckey := (nat * option nat)%type.                 (* name string index, used-lib index *)

Definition fkey_eqb (a b : fkey) : bool :=
  Nat.eqb (fst a) (fst b) &&
  match snd a, snd b with
  | None, None => true
  | Some (l, r), Some (l', r') => Nat.eqb l l' && N.eqb r r'
  | _, _ => false
  end.
Definition funckey_eqb (a b : funckey) : bool :=
  Nat.eqb (fst a) (fst b) && match snd a, snd b with None, None => true | Some x, Some y => Nat.eqb x y | _, _ => false end.

Record ttab := mkTT {
  tt_strings : list N;                         (* stringArray: content ids in order of first use *)
  tt_res_lib : list nat; tt_res_name : list nat;                     (* resourceTable columns *)
  tt_funcs : list funckey; tt_func_res : list (option nat);          (* funcTable: key set (name, lib) and the resource column *)
  tt_frames : list fkey; tt_frame_func : list nat }.                 (* frameTable: key set and the func column *)
Definition tt_empty : ttab := mkTT [] [] [] [] [] [] [].

Definition intern_string (t : ttab) (s : N) : nat * ttab :=
  let '(i, l) := intern N.eqb (tt_strings t) s in
  (i, mkTT l (tt_res_lib t) (tt_res_name t) (tt_funcs t) (tt_func_res t) (tt_frames t) (tt_frame_func t)).

(* resource_for_lib: one resource per used library; the library's name string is interned when the resource is created *)
Definition resource_for_lib (t : ttab) (lib : nat) (libname : N) : nat * ttab :=
  match index_of Nat.eqb lib (tt_res_lib t) with
  | Some r => (r, t)
  | None =>
      let '(n, t1) := intern_string t libname in
      (length (tt_res_lib t1), mkTT (tt_strings t1) (tt_res_lib t1 ++ [lib]) (tt_res_name t1 ++ [n]) (tt_funcs t1) (tt_func_res t1) (tt_frames t1) (tt_frame_func t1))
  end.

Definition func_for (t : ttab) (k : funckey) (libname : N) : nat * ttab :=
  match index_of funckey_eqb k (tt_funcs t) with
  | Some i => (i, t)
  | None =>
      let '(res, t1) := match snd k with
                        | Some lib => let '(r, t') := resource_for_lib t lib libname in (Some r, t')
                        | None => (None, t)
                        end in
      (length (tt_funcs t1), mkTT (tt_strings t1) (tt_res_lib t1) (tt_res_name t1) (tt_funcs t1 ++ [k]) (tt_func_res t1 ++ [res]) (tt_frames t1) (tt_frame_func t1))
  end.

Definition frame_for (t : ttab) (k : fkey) (libname : N) : nat * ttab :=
  match index_of fkey_eqb k (tt_frames t) with
  | Some i => (i, t)
  | None =>
      let '(f, t1) := func_for t (fst k, option_map fst (snd k)) libname in
      (length (tt_frames t1), mkTT (tt_strings t1) (tt_res_lib t1) (tt_res_name t1) (tt_funcs t1) (tt_func_res t1) (tt_frames t1 ++ [k]) (tt_frame_func t1 ++ [f]))
  end.

(* what callers do *)
Inductive freq :=
| FString (s : N)                                  (* a string converted for this thread (marker name / text) *)
| FLabel (name : N)                                (* handle_for_frame_with_label *)
| FNative (lib : nat) (rel : N) (hexname libname : N).   (* handle_for_frame_with_address resolved into a used library *)

Definition do_req (t : ttab) (r : freq) : ttab :=
  match r with
  | FString s => snd (intern_string t s)
  | FLabel name => let '(n, t1) := intern_string t name in snd (frame_for t1 (n, None) 0%N)
  | FNative lib rel hexname libname => let '(n, t1) := intern_string t hexname in snd (frame_for t1 (n, Some (lib, rel)) libname)
  end.
Definition run_reqs (rs : list freq) : ttab := fold_left do_req rs tt_empty.

(* every index stored in a column points into its table; columns have their table's length *)
Definition tt_wf (nlibs : nat) (t : ttab) : Prop :=
  length (tt_res_name t) = length (tt_res_lib t) /\ length (tt_func_res t) = length (tt_funcs t) /\ length (tt_frame_func t) = length (tt_frames t) /\
  (forall l, In l (tt_res_lib t) -> l < nlibs) /\ (forall n, In n (tt_res_name t) -> n < length (tt_strings t)) /\
  (forall k, In k (tt_funcs t) -> fst k < length (tt_strings t)) /\
  (forall r, In (Some r) (tt_func_res t) -> r < length (tt_res_lib t)) /\
  (forall k, In k (tt_frames t) -> fst k < length (tt_strings t)) /\
  (forall f, In f (tt_frame_func t) -> f < length (tt_funcs t)).
Definition req_ok (nlibs : nat) (r : freq) : Prop := match r with FNative lib _ _ _ => lib < nlibs | _ => True end.
