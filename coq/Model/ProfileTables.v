(* Model of the parts of fxprof-processed-profile that C03 is about:
     interning (string / frame / func / resource tables: `intern`), the stack table (stack_table.rs: handle_for_stack = intern of
     (prefix, frame)), unique pid / tid strings (profile.rs:296-320), thread order and the handle -> JSON index translation
     (profile.rs:1240-1275 sorted_threads; process.rs:71-78 and thread.rs:208-224 comparators), and a checker for the
     well-formedness of serialized tables.  Definitions only. *)
From Coq Require Export List NArith Bool Arith.
Export ListNotations.

(* ---------- interning ---------- *)
Section Intern.
  Context {K : Type} (eqb : K -> K -> bool).
  Fixpoint index_of (k : K) (l : list K) : option nat :=
    match l with [] => None | x :: r => if eqb x k then Some 0 else option_map S (index_of k r) end.
  Definition intern (l : list K) (k : K) : nat * list K :=
    match index_of k l with Some i => (i, l) | None => (length l, l ++ [k]) end.
End Intern.

(* ---------- stack table ---------- *)
Definition stack_key := (option nat * nat)%type.          (* (prefix, frame) *)
Definition stack_key_eqb (a b : stack_key) : bool :=
  match fst a, fst b with
  | None, None => Nat.eqb (snd a) (snd b)
  | Some x, Some y => Nat.eqb x y && Nat.eqb (snd a) (snd b)
  | _, _ => false
  end.
Definition handle_for_stack (tbl : list stack_key) (frame : nat) (prefix : option nat) : nat * list stack_key :=
  intern stack_key_eqb tbl (prefix, frame).
(* the stack for a list of frames, root first (what callers do frame by frame) *)
Fixpoint stack_of_frames (tbl : list stack_key) (prefix : option nat) (frames : list nat) : option nat * list stack_key :=
  match frames with
  | [] => (prefix, tbl)
  | f :: r => let '(h, tbl') := handle_for_stack tbl f prefix in stack_of_frames tbl' (Some h) r
  end.
(* walking a stack index up to the root; result root first *)
Fixpoint walk (tbl : list stack_key) (fuel : nat) (h : option nat) (acc : list nat) : list nat :=
  match fuel, h with
  | _, None => acc
  | O, Some _ => acc
  | S n, Some i => match nth_error tbl i with Some (p, f) => walk tbl n p (f :: acc) | None => acc end
  end.
Definition frames_of (tbl : list stack_key) (h : option nat) : list nat := walk tbl (length tbl) h [].
Definition prefix_earlier (tbl : list stack_key) : Prop :=
  forall i p f, nth_error tbl i = Some (Some p, f) -> p < i.

(* ---------- unique pid / tid strings ---------- *)
Open Scope N_scope.
Fixpoint ulookup (k : N) (l : list (N * N)) : option N :=
  match l with [] => None | (k', v) :: r => if k' =? k then Some v else ulookup k r end.
Fixpoint uset (k v : N) (l : list (N * N)) : list (N * N) :=
  match l with [] => [(k, v)] | (k', v') :: r => if k' =? k then (k, v) :: r else (k', v') :: uset k v r end.
Definition make_unique (used : list (N * N)) (id : N) : (N * N) * list (N * N) :=
  match ulookup id used with Some sfx => ((id, sfx), uset id (sfx + 1) used) | None => ((id, 0), uset id 1 used) end.
Fixpoint make_all_unique (used : list (N * N)) (ids : list N) : list (N * N) :=
  match ids with [] => [] | i :: r => let '(s, u) := make_unique used i in s :: make_all_unique u r end.
Close Scope N_scope.

(* ---------- thread order ---------- *)
Section Sort.
  Context {A : Type} (leb : A -> A -> bool).
  (* stable insertion: x goes after everything that is <= it *)
  Fixpoint insert_after (x : A) (l : list A) : list A :=
    match l with [] => [x] | y :: r => if leb y x then y :: insert_after x r else x :: l end.
  Definition sort (l : list A) : list A := fold_left (fun acc x => insert_after x acc) l [].
End Sort.

Definition pkey := (N * (N * N))%type.                                   (* start time, pid string (pid, suffix) *)
Definition tkey := (bool * N * option N * (N * N))%type.                  (* not-main, start time, name, tid string *)
Definition id_leb (a b : N * N) : bool := if N.ltb (fst a) (fst b) then true else if N.ltb (fst b) (fst a) then false else N.leb (snd a) (snd b).
Definition pkey_leb (a b : pkey) : bool := if N.ltb (fst a) (fst b) then true else if N.ltb (fst b) (fst a) then false else id_leb (snd a) (snd b).
Definition oN_cmp (a b : option N) : comparison :=
  match a, b with None, None => Eq | None, Some _ => Lt | Some _, None => Gt | Some x, Some y => N.compare x y end.
Definition tkey_leb (a b : tkey) : bool :=
  let '(am, ast, an, at_) := a in let '(bm, bst, bn, bt) := b in
  if negb am && bm then true else if am && negb bm then false
  else if N.ltb ast bst then true else if N.ltb bst ast then false
  else match oN_cmp an bn with Lt => true | Gt => false | Eq => id_leb at_ bt end.

(* processes and threads as the API was called: thread h belongs to process (fst), with key (snd) *)
Definition threads_of (threads : list (nat * tkey)) (p : nat) : list nat :=
  map fst (filter (fun x => Nat.eqb (fst (snd x)) p) (combine (seq 0 (length threads)) threads)).
Definition tkey_of (threads : list (nat * tkey)) (h : nat) : tkey := snd (nth h threads (0, (false, 0%N, None, (0%N, 0%N)))).
Definition sorted_processes (procs : list pkey) : list nat :=
  sort (fun a b => pkey_leb (nth a procs (0%N, (0%N, 0%N))) (nth b procs (0%N, (0%N, 0%N)))) (seq 0 (length procs)).
Definition sorted_threads (procs : list pkey) (threads : list (nat * tkey)) : list nat :=
  flat_map (fun p => sort (fun a b => tkey_leb (tkey_of threads a) (tkey_of threads b)) (threads_of threads p)) (sorted_processes procs).
(* new_thread_indices[h] *)
Definition new_thread_index (procs : list pkey) (threads : list (nat * tkey)) (h : nat) : option nat :=
  index_of Nat.eqb h (sorted_threads procs threads).
(* first_thread_index_per_process[p] *)
Fixpoint first_index_aux (threads : list (nat * tkey)) (ps : list nat) (p acc : nat) : option nat :=
  match ps with
  | [] => None
  | q :: r => if Nat.eqb q p then Some acc else first_index_aux threads r p (acc + length (threads_of threads q))
  end.
Definition first_thread_index (procs : list pkey) (threads : list (nat * tkey)) (p : nat) : option nat :=
  first_index_aux threads (sorted_processes procs) p 0.

(* ---------- well-formedness of serialized tables ---------- *)
Record tbl := mkTbl {
  t_len : nat;                                    (* the declared `length` *)
  t_cols : list nat;                              (* the length of every column *)
  t_idx : list (list (option nat) * nat) }.       (* every index column with the length of the table it points into *)
Definition idx_ok (bound : nat) (v : option nat) : bool := match v with None => true | Some i => i <? bound end.
Definition chk_tbl (t : tbl) : bool :=
  forallb (Nat.eqb (t_len t)) (t_cols t) && forallb (fun c => forallb (idx_ok (snd c)) (fst c)) (t_idx t).
Fixpoint chk_prefix (i : nat) (l : list (option nat)) : bool :=
  match l with [] => true | None :: r => chk_prefix (S i) r | Some p :: r => (p <? i) && chk_prefix (S i) r end.
Record thread_json := mkTJ { tj_tables : list tbl; tj_prefix : list (option nat) }.
Definition chk_thread (t : thread_json) : bool := forallb chk_tbl (tj_tables t) && chk_prefix 0 (tj_prefix t).

Definition WF_tbl (t : tbl) : Prop :=
  (forall c, In c (t_cols t) -> c = t_len t) /\
  (forall vals bound i, In (vals, bound) (t_idx t) -> In (Some i) vals -> i < bound).
Definition WF_prefix (l : list (option nat)) : Prop := forall i p, nth_error l i = Some (Some p) -> p < i.
Definition WF_thread (t : thread_json) : Prop := (forall x, In x (tj_tables t) -> WF_tbl x) /\ WF_prefix (tj_prefix t).
