(* Model of the converter half of frame attribution (default options):
     samply/src/linux_shared/converter.rs:743-836 (handle_mmap2), 1308-1570 (add_module_to_process: cases 2 and 4),
     1900-1924 (compute_base_avma), svma_file_range.rs:128-188 (compute_vma_bias_impl), samply-symbols shared.rs:648-665 (relative_address_base),
     process.rs:92-103 + converter.rs:956-975 (fork copies the queued mapping operations), 1020-1060 (exec starts a fresh process),
     612-693 (get_sample_stack: call chain with context markers), processes.rs (removal / finish) and the flush of
     Model/Attribution.v.  Thread bookkeeping is in Model/Converter.v; here a process incarnation is (queue, samples).  Definitions only. *)
From SV Require Import Generated.Consts Model.LibMappings Model.Attribution.
From Coq Require Import ZArith.
Open Scope N_scope.

(* ---- the relative start of a mapping ---- *)
Record seg := mkSeg { sg_svma : N; sg_off : N; sg_size : N }.
Definition encompasses (s : seg) (off size : N) : bool := (sg_off s <=? off) && (off + size <=? sg_off s + sg_size s).
Definition encompassed (s : seg) (off size : N) : bool := (off <=? sg_off s) && (sg_off s + sg_size s <=? off + size).
Definition ref_seg (segs : list seg) (off size : N) : option seg :=
  find (fun s => encompasses s off size || encompassed s off size) segs.
Definition u64 (z : Z) : N := Z.to_N (z mod 2 ^ 64).
Definition u32 (n : N) : N := n mod 2 ^ 32.
(* compute_vma_bias_impl: wrapping arithmetic on u64 *)
Definition vma_bias (segs : list seg) (off avma size : N) : option N :=
  match ref_seg segs off size with
  | Some s => Some (u64 (Z.of_N avma + (Z.of_N (sg_off s) - Z.of_N off) - Z.of_N (sg_svma s)))
  | None => None
  end.
Definition base_svma (segs : list seg) : N := match segs with s :: _ => sg_svma s | [] => 0 end.
(* the file is readable (Some segments) or not (None) *)
Definition rel_start (file : option (list seg)) (start len pgoff : N) : option N :=
  match file with
  | None => Some (u32 pgoff)                                               (* case 4: base_avma = start - pgoff *)
  | Some segs =>
      match vma_bias segs pgoff start len with
      | Some bias => Some (u32 (u64 (Z.of_N start - Z.of_N (u64 (Z.of_N (base_svma segs) + Z.of_N bias)))))
      | None => None                                                       (* the mapping is ignored *)
      end
  end.

(* ---- call chains ---- *)
Definition PERF_CONTEXT_MAX : N := 18446744073709547521.      (* (u64)-4095 *)
Definition PERF_CONTEXT_KERNEL : N := 18446744073709551488.   (* (u64)-128 *)
Definition PERF_CONTEXT_USER : N := 18446744073709551104.     (* (u64)-512 *)
Definition PERF_CONTEXT_GUEST : N := 18446744073709549568.          (* (u64)-2048 *)
Definition PERF_CONTEXT_GUEST_KERNEL : N := 18446744073709549440.   (* (u64)-2176 *)
Definition PERF_CONTEXT_GUEST_USER : N := 18446744073709549056.     (* (u64)-2560 *)
(* StackMode::from_context_frame (shared/types.rs:21-27); other context values leave the mode alone *)
Definition context_mode (a : N) (md : mode) : mode :=
  if (a =? PERF_CONTEXT_KERNEL) || (a =? PERF_CONTEXT_GUEST_KERNEL) then Kernel
  else if (a =? PERF_CONTEXT_USER) || (a =? PERF_CONTEXT_GUEST) || (a =? PERF_CONTEXT_GUEST_USER) then User else md.
Fixpoint chain_frames (chain : list N) (md : mode) (first : bool) : list sframe :=
  match chain with
  | [] => []
  | a :: r =>
      if PERF_CONTEXT_MAX <=? a
      then chain_frames r (context_mode a md) first
      else (if first then SIp a md else SRet a md) :: chain_frames r md false
  end.
(* what is stored for a sample: root first; an empty chain falls back to the sample's ip *)
Definition sample_frames (ip : N) (kernel : bool) (chain : list N) : list sframe :=
  let md := if kernel then Kernel else User in
  match chain_frames chain md true with [] => [SIp ip md] | l => rev l end.

(* ---- records and state ---- *)
Inductive mrec :=
| MFork (pid ppid : N)
| MExec (pid : N)
| MExitMain (pid : N)
| MTouch (pid : N)
| MMmap (pid ts start len pgoff : N) (file : option (list seg)) (lib : N)
| MSample (pid ts ip : N) (kernel : bool) (chain : list N).

Definition queue := list (N * qop).
Record mproc := mkMP { mp_queue : queue; mp_samples : list (N * list sframe) }.
Record mstate := mkMS { ms_live : list (N * mproc); ms_retired : list (N * mproc) }.

Fixpoint mlookup (k : N) (l : list (N * mproc)) : option mproc :=
  match l with [] => None | (k', v) :: r => if k' =? k then Some v else mlookup k r end.
Fixpoint mset (k : N) (v : mproc) (l : list (N * mproc)) : list (N * mproc) :=
  match l with [] => [(k, v)] | (k', v') :: r => if k' =? k then (k, v) :: r else (k', v') :: mset k v r end.
Definition mremove (k : N) (l : list (N * mproc)) : list (N * mproc) := filter (fun kv => negb (fst kv =? k)) l.

Definition mget (s : mstate) (pid : N) : mproc := match mlookup pid (ms_live s) with Some p => p | None => mkMP [] [] end.
Definition mput (s : mstate) (pid : N) (p : mproc) : mstate := mkMS (mset pid p (ms_live s)) (ms_retired s).
Definition mretire (s : mstate) (pid : N) : mstate :=
  match mlookup pid (ms_live s) with
  | None => s
  | Some p => mkMS (mremove pid (ms_live s)) (match mp_samples p with [] => ms_retired s | _ => ms_retired s ++ [(pid, p)] end)
  end.

Definition mstep (s : mstate) (r : mrec) : mstate :=
  match r with
  | MFork pid ppid =>
      let parent := mget s ppid in
      let s1 := mput s ppid parent in
      if pid =? ppid then s1
      else mput s1 pid (mkMP (mp_queue parent) (mp_samples (mget s1 pid)))        (* adopt_fork_data_from_parent *)
  | MExec pid => mput (mretire s pid) pid (mkMP [] [])
  | MExitMain pid => mretire s pid
  | MTouch pid => mput s pid (mget s pid)
  | MMmap pid ts start len pgoff file lib =>
      let p := mget s pid in
      match rel_start file start len pgoff with
      | Some rel => mput s pid (mkMP (mp_queue p ++ [(ts, QOp (Add (mkMapping start (start + len) rel lib)))]) (mp_samples p))
      | None => mput s pid p
      end
  | MSample pid ts ip kernel chain =>
      let p := mget s pid in
      mput s pid (mkMP (mp_queue p) (mp_samples p ++ [(ts, sample_frames ip kernel chain)]))
  end.

Definition mrun (rs : list mrec) : mstate := fold_left mstep rs (mkMS [] []).

(* Processes::finish: live processes with samples are flushed after the retired ones *)
Definition incarnations (s : mstate) : list (N * mproc) :=
  ms_retired s ++ filter (fun kp => match mp_samples (snd kp) with [] => false | _ => true end) (ms_live s).
Definition moutput (s : mstate) : list (N * N * list rframe) :=
  flat_map (fun kp => let p := snd kp in
                      map (fun x => (fst kp, fst (fst x), snd x)) (combine (mp_samples p) (flush [] (mp_queue p) (mp_samples p)))) (incarnations s).

(* ---- specification: the queue a process has after a history ---- *)
Fixpoint queue_of (rs_rev : list mrec) (pid : N) : queue :=
  match rs_rev with
  | [] => []
  | r :: before =>
      match r with
      | MFork p pp => if (p =? pid) && negb (p =? pp) then queue_of before pp else queue_of before pid
      | MExec p | MExitMain p => if p =? pid then [] else queue_of before pid
      | MMmap p ts start len pgoff file lib =>
          if p =? pid then
            match rel_start file start len pgoff with
            | Some rel => queue_of before pid ++ [(ts, QOp (Add (mkMapping start (start + len) rel lib)))]
            | None => queue_of before pid
            end
          else queue_of before pid
      | _ => queue_of before pid
      end
  end.
