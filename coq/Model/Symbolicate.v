(* Model of samply-api/src/symbolicate/mod.rs (gather_requested_addresses, symbolicate_requested_addresses(_for_lib),
   create_response) and looked_up_addresses.rs.  Strings are interned to numbers (the code only copies and compares them).
   The symbol manager is an oracle: `load lib` (does to_debug_id + load_symbol_map succeed?) and `look lib addr`
   (what a direct lookup of that address yields, debug-info frames innermost first, file paths already in API spelling).
   HashMap / BTreeMap are association lists (the code never depends on their iteration order for its result).
   The per-module-index grouping inside gather_requested_addresses only affects the order in which addresses are appended
   (they are sorted and deduplicated afterwards), so addresses are appended frame by frame here.  Definitions only. *)
From Coq Require Export List NArith Bool.
Export ListNotations.
Open Scope N_scope.

Definition lib := (N * N)%type.                    (* (debug_name, breakpad_id), interned *)
Definition lib_eqb (a b : lib) : bool := (fst a =? fst b) && (snd a =? snd b).

Definition dframe := (option N * option N * option N)%type.     (* function, file (API spelling), line *)
Record addr_info := mkAi { ai_sym_addr : N; ai_name : N; ai_size : option N; ai_frames : option (list dframe) }.

Record job := mkJob { memory_map : list lib; stacks : list (list (N * N)) }.    (* frames: (module_index, address) *)

(* response *)
Record debug_info := mkDi { di_file : option N; di_line : option N; di_inlines : list dframe }.
Record symbol := mkSym { sy_function : N; sy_offset : N; sy_size : option N; sy_debug : option debug_info }.
Record rframe := mkRf { rf_index : N; rf_offset : N; rf_module : N; rf_symbol : option symbol }.
Record jresult := mkJr { jr_stacks : list (list rframe); jr_found : list (lib * bool) }.

Inductive outcome := ROk (r : list jresult) | RErr | RPanic.

Section Symbolicate.
Variable load : lib -> bool.
Variable look : lib -> N -> option addr_info.

(* ---- association lists ---- *)
Fixpoint amap_add (m : list (lib * list N)) (l : lib) (xs : list N) : list (lib * list N) :=
  match m with
  | [] => [(l, xs)]
  | (k, v) :: r => if lib_eqb k l then (k, v ++ xs) :: r else (k, v) :: amap_add r l xs
  end.
Fixpoint amap_get {V} (m : list (lib * V)) (l : lib) : option V :=
  match m with [] => None | (k, v) :: r => if lib_eqb k l then Some v else amap_get r l end.

(* ---- gather_requested_addresses: None = "Stack frame module index beyond the memoryMap" ---- *)
Fixpoint gather_frames (mm : list lib) (fs : list (N * N)) (acc : list (lib * list N)) : option (list (lib * list N)) :=
  match fs with
  | [] => Some acc
  | (idx, a) :: r =>
      match nth_error mm (N.to_nat idx) with
      | Some l => gather_frames mm r (amap_add acc l [a])
      | None => None
      end
  end.
Fixpoint gather_jobs (js : list job) (acc : list (lib * list N)) : option (list (lib * list N)) :=
  match js with
  | [] => Some acc
  | j :: r => match gather_frames (memory_map j) (concat (stacks j)) acc with
              | Some acc' => gather_jobs r acc'
              | None => None
              end
  end.

(* ---- symbolicate_requested_addresses_for_lib ---- *)
Fixpoint ins_n (x : N) (l : list N) : list N :=
  match l with [] => [x] | y :: t => if x <? y then x :: y :: t else if x =? y then y :: t else y :: ins_n x t end.
Definition sort_dedup (l : list N) : list N := fold_right ins_n [] l.     (* sort_unstable + dedup *)

(* LookedUpAddresses after add_address_symbol / add_address_debug_info: the debug info's outer function name overrides the symbol name *)
Definition merged_name (ai : addr_info) : N :=
  match ai_frames ai with
  | Some fs => match last fs (None, None, None) with (Some f, _, _) => f | _ => ai_name ai end
  | None => ai_name ai
  end.

Definition table := list (N * option addr_info).                 (* BTreeMap<u32, Option<AddressResult>> *)
Definition symbolicate_lib (l : lib) (addrs : list N) : option table :=
  if load l then Some (map (fun a => (a, look l a)) (sort_dedup addrs)) else None.

Fixpoint table_get (t : table) (a : N) : option (option addr_info) :=
  match t with [] => None | (k, v) :: r => if k =? a then Some v else table_get r a end.

(* ---- create_response ---- *)
Definition nz (l : option N) : option N := match l with Some 0 => None | x => x end.    (* and_then(NonZeroU32::new) *)

Definition to_debug (fs : list dframe) : option debug_info :=
  match rev fs with
  | [] => None                 (* split_last().expect(..): flagged by the caller *)
  | (_, file, line) :: inl_rev =>
      Some (mkDi file (nz line) (map (fun '(f, p, l) => (f, p, nz l)) (rev inl_rev)))
  end.

Inductive fres := FOk (f : rframe) | FPanic.

(* symbols_by_module_index.get(&frame.module_index) *)
Fixpoint by_index_get (m : list (N * table)) (idx : N) : option table :=
  match m with [] => None | (k, v) :: r => if k =? idx then Some v else by_index_get r idx end.

Definition response_frame (mm : list lib) (by_index : list (N * table)) (frame_index : N) (fr : N * N) : fres :=
  let '(idx, a) := fr in
  match nth_error mm (N.to_nat idx) with
  | None => FPanic                                     (* memory_map[frame.module_index as usize] *)
  | Some l =>
      match by_index_get by_index idx with
      | None => FOk (mkRf frame_index a (fst l) None)
      | Some t =>
          match table_get t a with
          | None => FPanic                             (* symbol_map.get(&frame.address).unwrap() *)
          | Some None => FOk (mkRf frame_index a (fst l) None)
          | Some (Some ai) =>
              if a <? ai_sym_addr ai then FPanic       (* frame.address - address_result.symbol_address *)
              else
                match ai_frames ai with
                | Some [] => FPanic                    (* split_last().expect(..) *)
                | Some fs => FOk (mkRf frame_index a (fst l) (Some (mkSym (merged_name ai) (a - ai_sym_addr ai) (ai_size ai) (to_debug fs))))
                | None => FOk (mkRf frame_index a (fst l) (Some (mkSym (merged_name ai) (a - ai_sym_addr ai) (ai_size ai) None)))
                end
          end
      end
  end.

Fixpoint index_from (n : N) {A} (l : list A) : list (N * A) :=
  match l with [] => [] | x :: r => (n, x) :: index_from (n + 1) r end.

Fixpoint collect {A} (l : list fres) (f : list rframe -> A) (bad : A) : A :=
  match l with
  | [] => f []
  | FPanic :: _ => bad
  | FOk x :: r => collect r (fun xs => f (x :: xs)) bad
  end.

Definition result_for_job (results : list (lib * option table)) (j : job) : option jresult :=
  let mm := memory_map j in
  let with_idx := index_from 0 mm in
  let found := flat_map (fun '(i, l) => match amap_get results l with Some r => [(l, match r with Some _ => true | None => false end)] | None => [] end) with_idx in
  let by_index := flat_map (fun '(i, l) => match amap_get results l with Some (Some t) => [(i, t)] | _ => [] end) with_idx in
  let stacks_r := map (fun st => map (fun '(fi, fr) => response_frame mm by_index fi fr) (index_from 0 st)) (stacks j) in
  if existsb (existsb (fun r => match r with FPanic => true | _ => false end)) stacks_r then None
  else Some (mkJr (map (fun st => flat_map (fun r => match r with FOk x => [x] | FPanic => [] end) st) stacks_r) found).

Definition query (js : list job) : outcome :=
  match gather_jobs js [] with
  | None => RErr
  | Some req =>
      let results := map (fun '(l, addrs) => (l, symbolicate_lib l addrs)) req in
      let rs := map (result_for_job results) js in
      if existsb (fun r => match r with None => true | Some _ => false end) rs then RPanic
      else ROk (flat_map (fun r => match r with Some x => [x] | None => [] end) rs)
  end.

(* ---- specification: what each requested frame must carry, from the request and the oracle alone ---- *)

Definition spec_symbol (ai : addr_info) (a : N) : symbol :=
  mkSym (merged_name ai) (a - ai_sym_addr ai) (ai_size ai) (match ai_frames ai with Some fs => to_debug fs | None => None end).

Definition spec_frame (mm : list lib) (frame_index : N) (fr : N * N) : rframe :=
  let '(idx, a) := fr in
  let l := nth (N.to_nat idx) mm (0, 0) in
  mkRf frame_index a (fst l)
       (if load l then match look l a with Some ai => Some (spec_symbol ai a) | None => None end else None).

Definition indices_ok (j : job) : bool :=
  forallb (forallb (fun '(idx, _) => idx <? N.of_nat (length (memory_map j)))) (stacks j).

(* the oracle is sane: a symbol found for an address starts at or before it, and debug info is never an empty frame list *)
Definition oracle_sane : Prop :=
  forall l a ai, look l a = Some ai -> ai_sym_addr ai <= a /\ ai_frames ai <> Some [].

Definition referenced (js : list job) (l : lib) : Prop :=
  exists j idx a, In j js /\ In (idx, a) (concat (stacks j)) /\ nth_error (memory_map j) (N.to_nat idx) = Some l.

End Symbolicate.
