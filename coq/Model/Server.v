(* Model of samply/src/server.rs: symbolication_service (:242-363) routing, and generate_token (:117-121) with
   nix_base32::to_nix_base32.  Paths and tokens are byte lists.  Definitions only. *)
From Coq Require Export List NArith Bool.
From SV Require Import Generated.Consts.
Export ListNotations.
Open Scope N_scope.

Inductive meth := GET | POST | OPTIONS | HEAD | PUT | OTHER.

Definition meth_eqb (a b : meth) : bool :=
  match a, b with
  | GET, GET | POST, POST | OPTIONS, OPTIONS | HEAD, HEAD | PUT, PUT | OTHER, OTHER => true
  | _, _ => false
  end.

Fixpoint bytes_eqb (a b : list N) : bool :=
  match a, b with
  | [], [] => true
  | x :: a', y :: b' => (x =? y) && bytes_eqb a' b'
  | _, _ => false
  end.

(* str::strip_prefix *)
Fixpoint strip_prefix (prefix s : list N) : option (list N) :=
  match prefix with
  | [] => Some s
  | p :: prefix' =>
      match s with
      | [] => None
      | c :: s' => if c =? p then strip_prefix prefix' s' else None
      end
  end.

Inductive body := BEmpty | BLanding | BProfile | BApi.

Record response := mkResp {
  status : N;
  allow_origin : bool;      (* Access-Control-Allow-Origin *)
  allow_methods : bool;     (* Access-Control-Allow-Methods *)
  max_age : bool;           (* Access-Control-Max-Age *)
  allow_headers : bool;     (* Access-Control-Allow-Headers *)
  allow : bool;             (* Allow *)
  gzip : bool;              (* Content-Encoding: gzip *)
  rbody : body
}.

Record request := mkReq {
  r_method : meth;
  r_path : list N;          (* req.uri().path() *)
  r_acrm : bool;            (* has Access-Control-Request-Method *)
  r_acrh : bool             (* has Access-Control-Request-Headers *)
}.

Definition slash : N := 47.
Definition profile_json : list N := [47; 112; 114; 111; 102; 105; 108; 101; 46; 106; 115; 111; 110].   (* "/profile.json" *)

(* path_prefix = format!("/{token}") *)
Definition path_prefix (token : list N) : list N := slash :: token.

(* profile : None | Some is_gz *)
Definition route (profile : option bool) (token : list N) (r : request) : response :=
  match strip_prefix (path_prefix token) (r_path r) with
  | None =>
      if meth_eqb (r_method r) GET && bytes_eqb (r_path r) [slash]
      then mkResp 200 false false false false false false BLanding
      else mkResp 404 false false false false false false BEmpty
  | Some rest =>
      match r_method r with
      | OPTIONS =>
          if r_acrm r then mkResp 204 true true true (r_acrh r) false false BEmpty
          else mkResp 204 true false false false true false BEmpty
      | GET =>
          match profile with
          | Some gz => if bytes_eqb rest profile_json then mkResp 200 true false false false false gz BProfile
                       else mkResp 404 true false false false false false BEmpty
          | None => mkResp 404 true false false false false false BEmpty
          end
      | POST => mkResp 200 true false false false false false BApi
      | _ => mkResp 404 true false false false false false BEmpty
      end
  end.

(* ---- token ---- *)

Definition base32_chars : list N :=
  [48; 49; 50; 51; 52; 53; 54; 55; 56; 57; 97; 98; 99; 100; 102; 103; 104; 105; 106; 107; 108; 109; 110; 112; 113; 114; 115; 118; 119; 120; 121; 122].
  (* "0123456789abcdfghijklmnpqrsvwxyz" *)

(* u8::checked_shr(j).unwrap_or(0) / checked_shl(k).unwrap_or(0) on u8: shifts of 8 or more give 0; shl truncates to 8 bits *)
Definition shr8 (b j : N) : N := if 8 <=? j then 0 else N.shiftr b j.
Definition shl8 (b k : N) : N := if 8 <=? k then 0 else (N.shiftl b k) mod 256.

Definition digit (bytes : list N) (n : N) : N :=
  let b := n * 5 in
  let i := b / 8 in
  let j := b mod 8 in
  let v1 := shr8 (nth (N.to_nat i) bytes 0) j in
  let v2 := if N.of_nat (length bytes) - 1 <=? i then 0 else shl8 (nth (N.to_nat i + 1) bytes 0) (8 - j) in
  (N.lor v1 v2) mod 32.

Fixpoint range_rev (n : nat) : list N :=       (* [n-1; ...; 0] *)
  match n with O => [] | S k => N.of_nat k :: range_rev k end.

Definition to_nix_base32 (bytes : list N) : list N :=
  let len := (N.of_nat (length bytes) * 8 - 1) / 5 + 1 in
  map (fun n => nth (N.to_nat (digit bytes n)) base32_chars 0) (range_rev (N.to_nat len)).
