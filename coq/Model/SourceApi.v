(* Model of samply-api/src/source/mod.rs (SourceApi::query_api, :56-101) and api_file_path.rs.
   Strings are interned.  Oracle: `load lib` and `frames lib offset` = the debug-info frames a lookup of that offset yields
   (innermost first), each with an optional source file given as (API spelling, raw debug-info path).  Definitions only. *)
From Coq Require Export List NArith Bool.
From SV Require Import Model.Symbolicate.
Export ListNotations.
Open Scope N_scope.

Definition sfile := (N * N)%type.          (* (to_api_file_path(file_path), the SourceFilePath that is read) *)

Inductive src_outcome :=
| SRead (raw : N)            (* load_source_file was called for this debug-info path *)
| SNoSymbols                 (* to_debug_id / load_symbol_map failed *)
| SNoDebugInfo
| SInvalidPath.

Section SourceApi.
Variable load : lib -> bool.
Variable frames : lib -> N -> option (list (option sfile)).

Definition source_query (l : lib) (offset requested : N) : src_outcome :=
  if negb (load l) then SNoSymbols
  else
    match frames l offset with
    | None => SNoDebugInfo
    | Some fs =>
        match find (fun f => match f with Some (api, _) => api =? requested | None => false end) fs with
        | Some (Some (_, raw)) => SRead raw
        | _ => SInvalidPath
        end
    end.

(* the file paths /symbolicate/v5 reports for that offset (outer file and inline files) *)
Definition reported_paths (l : lib) (offset : N) : list N :=
  match frames l offset with
  | Some fs => flat_map (fun f => match f with Some (api, _) => [api] | None => [] end) fs
  | None => []
  end.

End SourceApi.
