(* Model of the path a library record takes from the profile writer to the symbol server:
     fxprof-processed-profile/src/library_info.rs (Serialize for LibraryInfo)  -- translated into Generated/Consts.c_lib_writer
     samply/src/profile_json_preparse.rs (ProfileJsonLib, libinfo_map_entry_for_lib, add_libs_to_libinfo_map)
     samply/src/main.rs:213-249 (add_known_library) and wholesym/src/helper.rs:444-470 (fill_in_library_info_details)
   JSON objects are key/value lists.  The breakpad-id codec (debugid crate) is a section variable with its round trip as
   hypothesis; the code-id codec (samply-symbols/src/shared.rs) is the concrete model of Model/CodeIdStr.v.  Definitions only. *)
From Coq Require Import String.
From SV Require Import Lib.Bytes Lib.LibFields Generated.Consts Model.CodeIdStr.
Open Scope N_scope.

Inductive jval := JNull | JStr (s : bytes).

(* ---- code id printing (Display for CodeId / PeCodeId / ElfBuildId) ---- *)
Definition hex_digit_char (upper : bool) (d : N) : N := if d <? 10 then 48 + d else (if upper then 55 else 87) + d.
Definition byte_hex (upper : bool) (b : N) : bytes := [hex_digit_char upper (b / 16); hex_digit_char upper (b mod 16)].
Definition bytes_hex (upper : bool) (bs : list N) : bytes := flat_map (byte_hex upper) bs.
(* fixed-width: k hex digits of v, most significant first *)
Fixpoint hex_fixed (upper : bool) (k : nat) (v : N) : bytes :=
  match k with O => [] | S k' => hex_fixed upper k' (v / 16) ++ [hex_digit_char upper (v mod 16)] end.
Fixpoint strip_zeros (s : bytes) : bytes :=
  match s with 48 :: (_ :: _) as r => strip_zeros r | _ => s end.
(* "{:x}" of a u32 *)
Definition hex_min (upper : bool) (v : N) : bytes := strip_zeros (hex_fixed upper 8 v).

Inductive cid := IdPe (timestamp size : N) | IdUuid (b : list N) | IdElf (b : list N).
Definition cid_to_str (c : cid) : bytes :=
  match c with
  | IdPe t z => hex_fixed true 8 t ++ hex_min false z          (* "{:08X}{:x}" *)
  | IdUuid b => bytes_hex true b                               (* "{:X}" of uuid.simple() *)
  | IdElf b => bytes_hex false b                               (* "{byte:02x}" per byte *)
  end.
(* what the string is read back as *)
Definition cid_of_parsed (c : code_id) : option cid :=
  match c with
  | CPe t z => Some (IdPe t z)
  | CUuid h => match elf_from_str h with CElf b => Some (IdUuid b) | _ => None end      (* Uuid::from_str of 32 hex digits: the 16 bytes *)
  | CElf b => Some (IdElf b)
  | CErr | CPanic => None
  end.
Definition cid_reparse (c : cid) : option cid := cid_of_parsed (code_id_from_str (cid_to_str c)).

(* build ids that survive the string format: longer than 8 bytes, and not 16 bytes whose lowercase hex contains no letter *)
Definition no_letter (b : N) : bool := (b / 16 <? 10) && (b mod 16 <? 10).
Definition cid_unambiguous (c : cid) : bool :=
  match c with
  | IdElf b => (8 <? N.of_nat (length b)) && negb ((N.of_nat (length b) =? 16) && forallb no_letter b)
  | _ => true
  end.

Section WithDebugIdCodec.
  Variable did : Type.
  Variable bp_print : did -> bytes.                 (* DebugId::breakpad().to_string() *)
  Variable bp_parse : bytes -> option did.          (* DebugId::from_breakpad *)

  Record lib := mkLib {
    l_name : bytes; l_path : bytes; l_debug_name : bytes; l_debug_path : bytes;
    l_debug_id : did; l_code_id : option cid; l_arch : option bytes }.

  (* samply_symbols::LibraryInfo as the server knows it *)
  Record info := mkInfo {
    i_debug_name : option bytes; i_debug_id : option did; i_debug_path : option bytes; i_name : option bytes;
    i_code_id : option cid; i_path : option bytes; i_arch : option bytes }.

  Definition ostr (o : option bytes) : jval := match o with Some s => JStr s | None => JNull end.
  Definition field_value (l : lib) (f : lib_field) : jval :=
    match f with
    | FName => JStr (l_name l) | FPath => JStr (l_path l) | FDebugName => JStr (l_debug_name l) | FDebugPath => JStr (l_debug_path l)
    | FBreakpadId => JStr (bp_print (l_debug_id l))
    | FCodeId => ostr (option_map cid_to_str (l_code_id l))
    | FArch => ostr (l_arch l)
    end.
  (* the serializer, as translated from the source *)
  Definition ser_lib (l : lib) : list (string * jval) := map (fun kf => (fst kf, field_value l (snd kf))) c_lib_writer.

  Fixpoint jget (o : list (string * jval)) (k : string) : option bytes :=
    match o with
    | [] => None
    | (k', v) :: r => if String.eqb k' k then (match v with JStr s => Some s | JNull => None end) else jget r k
    end.
  (* serde: the struct field f is filled from the key the (translated) struct definition gives it; an absent key or null gives None *)
  Definition reader_key (f : lib_field) : option string :=
    option_map fst (find (fun kf => lib_field_eqb (snd kf) f) c_lib_reader).
  Definition rfield (o : list (string * jval)) (f : lib_field) : option bytes :=
    match reader_key f with Some k => jget o k | None => None end.

  (* libinfo_map_entry_for_lib; the fields marked `?` in the source come from the translation (c_lib_reader_required) *)
  Definition required_ok (o : list (string * jval)) : bool :=
    forallb (fun f => match rfield o f with Some _ => true | None => false end) c_lib_reader_required.
  Definition preparse_lib (o : list (string * jval)) : option info :=
    if required_ok o then
      match rfield o FDebugName, rfield o FBreakpadId with
      | Some dn, Some bp =>
          match bp_parse bp with
          | Some d => Some (mkInfo (Some dn) (Some d) (rfield o FDebugPath) (rfield o FName)
                                   (match rfield o FCodeId with Some s => cid_of_parsed (code_id_from_str s) | None => None end)
                                   (rfield o FPath) (rfield o FArch))
          | None => None
          end
      | _, _ => None
      end
    else None.

  (* what the profile recorded *)
  Definition info_of (l : lib) : info :=
    mkInfo (Some (l_debug_name l)) (Some (l_debug_id l)) (Some (l_debug_path l)) (Some (l_name l)) (l_code_id l) (Some (l_path l)) (l_arch l).

  (* the known-library table: (debugName, debugId) -> info; later entries replace earlier ones (HashMap::insert) *)
  Variable did_eqb : did -> did -> bool.
  Definition key_eqb (a b : bytes * did) : bool := bytes_eqb (fst a) (fst b) && did_eqb (snd a) (snd b).
  Fixpoint known_libs (objs : list (list (string * jval))) (acc : list ((bytes * did) * info)) : list ((bytes * did) * info) :=
    match objs with
    | [] => acc
    | o :: r =>
        match preparse_lib o with
        | Some i => match i_debug_name i, i_debug_id i with
                    | Some dn, Some d => known_libs r (((dn, d), i) :: acc)
                    | _, _ => known_libs r acc
                    end
        | None => known_libs r acc
        end
    end.
  Definition lookup_known (tbl : list ((bytes * did) * info)) (k : bytes * did) : option info :=
    option_map snd (find (fun e => key_eqb (fst e) k) tbl).

  (* helper.rs: a request naming (debugName, debugId) absorbs the known details; the binary candidates start with the recorded path *)
  Definition first_binary_candidate (tbl : list ((bytes * did) * info)) (k : bytes * did) : option bytes :=
    match lookup_known tbl k with Some i => i_path i | None => None end.
  Definition debug_file_candidate (tbl : list ((bytes * did) * info)) (k : bytes * did) : option bytes :=
    match lookup_known tbl k with Some i => i_debug_path i | None => None end.
End WithDebugIdCodec.
