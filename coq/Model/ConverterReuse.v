(* Model of the converter's process / thread / sample bookkeeping with --reuse-threads (Processes::new(allow_reuse = true)):
     samply/src/shared/recycling.rs (RecyclerByName: per name a min-heap, ordered by process handle resp. thread handle),
     linux_shared/processes.rs (recycle_or_get_new, get_by_pid, remove, rename_process, finish),
     linux_shared/process.rs (new, rename_with_recycling, rename_without_recycling, finish),
     linux_shared/process_threads.rs (recycle_or_get_new_thread, rename_non_main_thread, remove_non_main_thread, notify_process_dead,
     rename_process_with_recycling, get_thread_by_tid), linux_shared/thread.rs (rename_with_recycling, finish),
     and the record handlers of linux_shared/converter.rs as in Model/Converter.v.
   The profile tables, the live tables and the sample buffers are those of Model/Converter.v; what is added are the recycling pools:
   an exited process or thread with a name leaves its profile handles in a pool under that name, and a later process or thread that
   gets this name (at creation or by a rename) continues those handles instead of opening new entries.
   Definitions only. *)
From SV Require Import Model.Converter.
Open Scope N_scope.

(* RecyclerByName<T>: name -> the handles waiting under that name *)
Definition pool (A : Type) := list (N * list A).

Section Pools.
  Context {A : Type}.
  Variable key : A -> nat.            (* Ord of the pooled value: ProcessRecyclingData by process handle, (ThreadHandle, label) by thread handle *)

  (* BinaryHeap<Reverse<T>>::pop: the element with the least key *)
  Fixpoint least (x : A) (l : list A) : A :=
    match l with [] => x | y :: r => if Nat.ltb (key y) (key x) then least y r else least x r end.
  Fixpoint remove_first (k : nat) (l : list A) : list A :=
    match l with [] => [] | y :: r => if Nat.eqb (key y) k then r else y :: remove_first k r end.
  Definition recycle_by_name (name : N) (p : pool A) : option (A * pool A) :=
    match alookup name p with
    | None | Some [] => None
    | Some (x :: l) =>
        let m := least x l in
        let rest := remove_first (key m) (x :: l) in
        Some (m, match rest with [] => aremove name p | _ => aset name rest p end)
    end.
  Definition add_to_pool (name : N) (x : A) (p : pool A) : pool A :=
    aset name (x :: match alookup name p with Some l => l | None => [] end) p.
End Pools.

Record rproc := mkRP { rp_handle : nat; rp_name : option N; rp_main : lthread; rp_threads : list (N * lthread);
                       rp_samples : list (nat * N); rp_trec : pool nat }.          (* thread recycler: thread handles *)
Record prdata := mkPR { pr_handle : nat; pr_main : nat; pr_trec : pool nat }.      (* ProcessRecyclingData *)

Record rstate := mkR {
  r_procs : list pentry; r_threads : list tentry;
  r_upids : list (N * N); r_utids : list (N * N);
  r_live : list (N * rproc);
  r_retired : list (list (nat * N));
  r_time : N;
  r_prec : pool prdata }.                                                          (* process recycler *)

Section Reuse.
  Variable origin : N.
  Local Notation conv := (conv origin).

  Definition rinit : rstate := mkR [] [] [] [] [] [] origin [].

  Definition thread_key (h : nat) : nat := h.

  (* Profile API on rstate *)
  Definition r_add_process (s : rstate) (nm : pname) (pid start : N) : rstate * nat :=
    let '(sfx, u) := unique (r_upids s) pid in
    (mkR (r_procs s ++ [mkP nm pid sfx start None]) (r_threads s) u (r_utids s) (r_live s) (r_retired s) (r_time s) (r_prec s), length (r_procs s)).
  Definition r_add_thread (s : rstate) (ph : nat) (tid start : N) (is_main : bool) : rstate * nat :=
    let '(sfx, u) := unique (r_utids s) tid in
    (mkR (r_procs s) (r_threads s ++ [mkT ph tid sfx start None None is_main]) (r_upids s) u (r_live s) (r_retired s) (r_time s) (r_prec s), length (r_threads s)).
  Definition r_map_thread (s : rstate) (h : nat) (f : tentry -> tentry) : rstate :=
    mkR (r_procs s) (upd_nth h f (r_threads s)) (r_upids s) (r_utids s) (r_live s) (r_retired s) (r_time s) (r_prec s).
  Definition r_map_process (s : rstate) (h : nat) (f : pentry -> pentry) : rstate :=
    mkR (upd_nth h f (r_procs s)) (r_threads s) (r_upids s) (r_utids s) (r_live s) (r_retired s) (r_time s) (r_prec s).
  Definition r_with_live (s : rstate) (l : list (N * rproc)) : rstate :=
    mkR (r_procs s) (r_threads s) (r_upids s) (r_utids s) l (r_retired s) (r_time s) (r_prec s).
  Definition r_with_prec (s : rstate) (p : pool prdata) : rstate :=
    mkR (r_procs s) (r_threads s) (r_upids s) (r_utids s) (r_live s) (r_retired s) (r_time s) p.
  Definition r_put (s : rstate) (pid : N) (p : rproc) : rstate := r_with_live s (aset pid p (r_live s)).

  Definition rp_with_threads (p : rproc) (l : list (N * lthread)) := mkRP (rp_handle p) (rp_name p) (rp_main p) l (rp_samples p) (rp_trec p).
  Definition rp_with_main (p : rproc) (m : lthread) := mkRP (rp_handle p) (rp_name p) m (rp_threads p) (rp_samples p) (rp_trec p).
  Definition rp_with_trec (p : rproc) (t : pool nat) := mkRP (rp_handle p) (rp_name p) (rp_main p) (rp_threads p) (rp_samples p) t.

  (* Processes::get_by_pid: a process seen first through some other record gets fresh entries and an empty thread recycler *)
  Definition r_get_by_pid (s : rstate) (pid : N) : rstate * rproc :=
    match alookup pid (r_live s) with
    | Some p => (s, p)
    | None =>
        let '(s1, ph) := r_add_process s (NPid pid) pid 0 in
        let '(s2, th) := r_add_thread s1 ph pid 0 true in
        let p := mkRP ph None (mkLT th None None) [] [] [] in
        (r_put s2 pid p, p)
    end.

  (* Processes::recycle_or_get_new *)
  Definition r_get_new_process (s : rstate) (pid : N) (name : option N) (start : N) : rstate :=
    match alookup pid (r_live s) with
    | None =>
        match match name with Some n => match recycle_by_name pr_handle n (r_prec s) with Some (d, pl) => Some (n, d, pl) | None => None end | None => None end with
        | Some (n, d, pl) =>
            (* the entries of an exited process of this name are continued: nothing is added to the profile *)
            r_put (r_with_prec s pl) pid (mkRP (pr_handle d) (Some n) (mkLT (pr_main d) (Some n) None) [] [] (pr_trec d))
        | None =>
            let '(s1, ph) := r_add_process s (oname pid name) pid start in
            let '(s2, th) := r_add_thread s1 ph pid start true in
            let s3 := match name with Some n => r_map_thread s2 th (t_set_name n) | None => s2 end in
            r_put s3 pid (mkRP ph name (mkLT th name None) [] [] [])
        end
    | Some p =>
        match lt_last (rp_main p) with
        | None => r_map_thread (r_map_process s (rp_handle p) (p_set_start start)) (lt_handle (rp_main p)) (t_set_start start)
        | Some _ => s
        end
    end.

  (* ProcessThreads::get_thread_by_tid *)
  Definition r_get_thread_by_tid (s : rstate) (pid : N) (p : rproc) (tid : N) : rstate * rproc * lthread :=
    if tid =? pid then (s, p, rp_main p)
    else match alookup tid (rp_threads p) with
         | Some t => (s, p, t)
         | None =>
             let '(s1, th) := r_add_thread s (rp_handle p) tid 0 false in
             let t := mkLT th None None in
             let p' := rp_with_threads p (aset tid t (rp_threads p)) in
             (r_put s1 pid p', p', t)
         end.

  (* ProcessThreads::recycle_or_get_new_thread *)
  Definition r_get_new_thread (s : rstate) (pid : N) (p : rproc) (tid : N) (name : option N) (start : N) : rstate :=
    if tid =? pid then s
    else match alookup tid (rp_threads p) with
         | None =>
             match match name with Some n => match recycle_by_name thread_key n (rp_trec p) with Some (h, pl) => Some (n, h, pl) | None => None end | None => None end with
             | Some (n, h, pl) => r_put s pid (rp_with_trec (rp_with_threads p (aset tid (mkLT h (Some n) None) (rp_threads p))) pl)
             | None =>
                 let '(s1, th) := r_add_thread s (rp_handle p) tid start false in
                 let s2 := match name with Some n => r_map_thread s1 th (t_set_name n) | None => s1 end in
                 r_put s2 pid (rp_with_threads p (aset tid (mkLT th name None) (rp_threads p)))
             end
         | Some t =>
             match lt_last t with None => r_map_thread s (lt_handle t) (t_set_start start) | Some _ => s end
         end.

  Definition pool_thread (name : option N) (h : nat) (pl : pool nat) : pool nat :=
    match name with Some n => add_to_pool n h pl | None => pl end.

  (* ProcessThreads::remove_non_main_thread: the thread's handle goes to the pool under its name *)
  Definition r_remove_thread (s : rstate) (pid : N) (p : rproc) (tid end_ : N) : rstate :=
    match alookup tid (rp_threads p) with
    | None => s
    | Some t => r_put (r_map_thread s (lt_handle t) (t_set_end end_)) pid
                      (rp_with_trec (rp_with_threads p (aremove tid (rp_threads p))) (pool_thread (lt_name t) (lt_handle t) (rp_trec p)))
    end.

  (* Processes::remove: notify_dead (every thread ends and is pooled), finish (the buffer is kept when non-empty), and a process
     with a name leaves its handles and its thread recycler in the process pool *)
  Definition r_remove_process (s : rstate) (pid end_ : N) : rstate :=
    match alookup pid (r_live s) with
    | None => s
    | Some p =>
        let s1 := fold_left (fun x kt => r_map_thread x (lt_handle (snd kt)) (t_set_end end_)) (rp_threads p) s in
        let trec := fold_left (fun pl kt => pool_thread (lt_name (snd kt)) (lt_handle (snd kt)) pl) (rp_threads p) (rp_trec p) in
        let s2 := r_map_thread s1 (lt_handle (rp_main p)) (t_set_end end_) in
        let s3 := r_map_process s2 (rp_handle p) (p_set_end end_) in
        mkR (r_procs s3) (r_threads s3) (r_upids s3) (r_utids s3) (aremove pid (r_live s3))
            (match rp_samples p with [] => r_retired s3 | b => r_retired s3 ++ [b] end) (r_time s3)
            (match rp_name p with Some n => add_to_pool n (mkPR (rp_handle p) (lt_handle (rp_main p)) trec) (r_prec s3) | None => r_prec s3 end)
    end.

  Definition r_rec_time (s : rstate) (ts : N) : N := conv (if ts =? 0 then r_time s else ts).

  (* Processes::rename_process on a live process whose name differs *)
  Definition r_rename_process (s : rstate) (pid : N) (p : rproc) (name : N) : rstate :=
    match recycle_by_name pr_handle name (r_prec s) with
    | Some (d, pl) =>
        (* Process::rename_with_recycling: the process continues under the pooled handles; its own handles go to the pool under the old name *)
        let old := mkPR (rp_handle p) (lt_handle (rp_main p)) (rp_trec p) in
        let pl' := match rp_name p with Some o => add_to_pool o old pl | None => pl end in
        r_put (r_with_prec s pl') pid (mkRP (pr_handle d) (Some name) (mkLT (pr_main d) (Some name) (lt_last (rp_main p))) (rp_threads p) (rp_samples p) (pr_trec d))
    | None =>
        let s1 := r_map_thread (r_map_process s (rp_handle p) (p_set_name name)) (lt_handle (rp_main p)) (t_set_name name) in
        r_put s1 pid (mkRP (rp_handle p) (Some name) (mkLT (lt_handle (rp_main p)) (Some name) (lt_last (rp_main p))) (rp_threads p) (rp_samples p) (rp_trec p))
    end.

  (* ProcessThreads::rename_non_main_thread on a live thread whose name differs: with a recycler the thread is only renamed when a
     pooled thread of that name exists (it then continues that handle); otherwise nothing happens *)
  Definition r_rename_thread (s : rstate) (pid : N) (p : rproc) (tid : N) (th : lthread) (name : N) : rstate :=
    match recycle_by_name thread_key name (rp_trec p) with
    | Some (h, pl) =>
        r_put s pid (rp_with_trec (rp_with_threads p (aset tid (mkLT h (Some name) (lt_last th)) (rp_threads p))) (pool_thread (lt_name th) (lt_handle th) pl))
    | None => s
    end.

  Definition rstep (s : rstate) (r : record) : rstate :=
    match r with
    | RFork pid ppid tid ptid ts =>
        let start := conv ts in
        let '(s1, parent) := r_get_by_pid s ppid in
        if negb (pid =? ppid) then r_get_new_process s1 pid (rp_name parent) start
        else let '(s2, parent', pt) := r_get_thread_by_tid s1 ppid parent ptid in
             r_get_new_thread s2 ppid parent' tid (lt_name pt) start
    | RExit pid tid ts =>
        if tid =? pid then r_remove_process s pid (conv ts)
        else let '(s1, p) := r_get_by_pid s pid in r_remove_thread s1 pid p tid (conv ts)
    | RComm pid tid name true ts =>
        let t := r_rec_time s ts in
        if tid =? pid then r_get_new_process (r_remove_process s pid t) pid (Some name) t
        else let '(s1, p) := r_get_by_pid s pid in
             let s2 := r_remove_thread s1 pid p tid t in
             match alookup pid (r_live s2) with Some p2 => r_get_new_thread s2 pid p2 tid (Some name) t | None => s2 end
    | RComm pid tid name false ts =>
        let t := r_rec_time s ts in
        if tid =? pid then
          match alookup pid (r_live s) with
          | None => r_get_new_process s pid (Some name) t
          | Some p => if match rp_name p with Some n => n =? name | None => false end then s else r_rename_process s pid p name
          end
        else
          let '(s1, p) := r_get_by_pid s pid in
          match alookup tid (rp_threads p) with
          | None => r_get_new_thread s1 pid p tid (Some name) t
          | Some th => if match lt_name th with Some n => n =? name | None => false end then s1 else r_rename_thread s1 pid p tid th name
          end
    | RSample pid tid ts =>
        if tid =? 0 then s
        else
          let s0 := mkR (r_procs s) (r_threads s) (r_upids s) (r_utids s) (r_live s) (r_retired s) ts (r_prec s) in
          let '(s1, p) := r_get_by_pid s0 pid in
          let '(s2, p2, t) := r_get_thread_by_tid s1 pid p tid in
          if match lt_last t with Some l => l =? ts | None => false end then s2
          else
            let t' := mkLT (lt_handle t) (lt_name t) (Some ts) in
            let p3 := if tid =? pid then rp_with_main p2 t' else rp_with_threads p2 (aset tid t' (rp_threads p2)) in
            r_put s2 pid (mkRP (rp_handle p3) (rp_name p3) (rp_main p3) (rp_threads p3) (rp_samples p3 ++ [(lt_handle t, conv ts)]) (rp_trec p3))
    | RMmap pid tid =>
        let '(s1, p) := r_get_by_pid s pid in
        if r_time s =? origin then s1 else fst (fst (r_get_thread_by_tid s1 pid p tid))
    | RSwitch pid tid =>
        if tid =? 0 then s
        else let '(s1, p) := r_get_by_pid s pid in fst (fst (r_get_thread_by_tid s1 pid p tid))
    end.

  Definition rrun (rs : list record) : rstate := fold_left rstep rs rinit.

  Definition r_all_buffers (s : rstate) : list (list (nat * N)) :=
    r_retired s ++ filter (fun b => match b with [] => false | _ => true end) (map (fun kp => rp_samples (snd kp)) (r_live s)).
  Definition r_output_samples (s : rstate) : list (nat * N) := concat (r_all_buffers s).

  (* the accepted samples of a history with the thread entry they are filed on, in input order *)
  Definition r_accepted_step (s : rstate) (r : record) : list (nat * N) :=
    match r with
    | RSample pid tid ts =>
        if tid =? 0 then []
        else
          let s0 := mkR (r_procs s) (r_threads s) (r_upids s) (r_utids s) (r_live s) (r_retired s) ts (r_prec s) in
          let '(s1, p) := r_get_by_pid s0 pid in
          let '(s2, p2, t) := r_get_thread_by_tid s1 pid p tid in
          if match lt_last t with Some l => l =? ts | None => false end then [] else [(lt_handle t, conv ts)]
    | _ => []
    end.
  Fixpoint r_accepted (rs : list record) (s : rstate) : list (nat * N) :=
    match rs with [] => [] | r :: rest => r_accepted_step s r ++ r_accepted rest (rstep s r) end.

  (* what the serialized profile shows per thread entry (Model/Converter.v `show`, over the reuse state) *)
  Definition r_as_cstate (s : rstate) : cstate := mkC (r_procs s) (r_threads s) (r_upids s) (r_utids s) [] [] (r_time s).
  Definition r_show (s : rstate) : list shown := show_threads (r_as_cstate s) (r_output_samples s) 0 (r_threads s).
End Reuse.
