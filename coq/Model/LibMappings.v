(* Model of fxprof-processed-profile/src/lib_mappings.rs (LibMappings<T>),
   process.rs:84-101 (Process::convert_address) and profile.rs:1163-1196
   (Profile::resolve_frame_address).

   The BTreeMap<u64, Mapping<T>> is modelled as a finite map given by an
   association list with unique keys (key = m_start): the only BTreeMap
   operations the code uses are
     insert k v          -> replace-or-add          (bt_insert)
     remove k            -> drop the entry          (bt_remove)
     range(lo..hi) keys  -> the keys lo <= k < hi   (bt_range_keys; Rust panics when lo > hi)
     range(..=a).next_back() -> entry with the greatest key <= a  (bt_last_le)
     clear
   so the order in which the list stores its entries is immaterial.
   Definitions only; proofs are in Proofs/LibMappingsProofs.v. *)
From Coq Require Export List NArith Bool.
Export ListNotations.
Open Scope N_scope.

Record mapping := mkMapping { m_start : N; m_end : N; m_rel : N; m_val : N }.

Definition mapping_eqb (x y : mapping) : bool :=
  (m_start x =? m_start y) && (m_end x =? m_end y) && (m_rel x =? m_rel y) && (m_val x =? m_val y).

Definition lm := list mapping.

(* ---- the BTreeMap operations used by the code ---- *)

Fixpoint bt_last_le (m : lm) (a : N) : option mapping :=
  match m with
  | [] => None
  | x :: r =>
      match bt_last_le r a with
      | Some y => if (m_start x <=? a) && (m_start y <? m_start x) then Some x else Some y
      | None => if m_start x <=? a then Some x else None
      end
  end.

Definition bt_remove (m : lm) (k : N) : lm :=
  filter (fun y => negb (m_start y =? k)) m.

Definition bt_insert (m : lm) (x : mapping) : lm :=
  x :: bt_remove m (m_start x).

Definition bt_range_keys (m : lm) (lo hi : N) : list N :=
  map m_start (filter (fun y => (lo <=? m_start y) && (m_start y <? hi)) m).

(* ---- LibMappings ---- *)

(* lib_mappings.rs:113-121 *)
Definition lookup_impl (m : lm) (a : N) : option mapping :=
  match bt_last_le m a with
  | Some y => if a <? m_end y then Some y else None
  | None => None
  end.

(* lib_mappings.rs:55-90.  None = the panic of BTreeMap::range on an inverted range. *)
Definition add_mapping (m : lm) (x : mapping) : option lm :=
  let rs := match lookup_impl m (m_start x) with
            | Some y => m_start y
            | None => m_start x
            end in
  if m_end x <? rs then None
  else
    let keys := bt_range_keys m rs (m_end x) in
    let m' := fold_left bt_remove keys m in
    Some (bt_insert m' x).

(* lib_mappings.rs:94-98 *)
Definition remove_mapping (m : lm) (s : N) : lm := bt_remove m s.

Definition two32 : N := 4294967296.
Definition two64 : N := 18446744073709551616.

(* lib_mappings.rs:125-130; the bool is the u32 overflow of the addition
   (panic in a debug build, wrap in a release build). *)
Definition convert_address (m : lm) (a : N) : option (N * N * bool) :=
  match lookup_impl m a with
  | Some y =>
      let off := (a - m_start y) mod two32 in
      let sum := m_rel y + off in
      Some (sum mod two32, m_val y, two32 <=? sum)
  | None => None
  end.

Inductive op :=
| Add (x : mapping)
| Remove (s : N)
| Clear.

Definition step (m : lm) (o : op) : lm :=
  match o with
  | Add x => match add_mapping m x with Some m' => m' | None => m end
  | Remove s => remove_mapping m s
  | Clear => []
  end.

Definition run (ops : list op) : lm := fold_left step ops [].

(* ---- frames through the profile API ---- *)

Inductive frame_address :=
| Ip (a : N)
| RetAddr (a : N)
| AdjRetAddr (a : N).

Definition lookup_address (fa : frame_address) : N :=
  match fa with
  | Ip a => a
  | RetAddr a => a - 1        (* saturating_sub(1): N subtraction truncates at 0 *)
  | AdjRetAddr a => a
  end.

Inductive resolved :=
| InLib (rel : N) (lib : N)
| Unknown (a : N).

(* process.rs:84-101: kernel first, then the process's own mappings *)
Definition process_convert (kernel proc : lm) (a : N) : resolved * bool :=
  match convert_address kernel a with
  | Some (r, v, ovf) => (InLib r v, ovf)
  | None =>
      match convert_address proc a with
      | Some (r, v, ovf) => (InLib r v, ovf)
      | None => (Unknown a, false)
      end
  end.

Definition resolve_frame (kernel proc : lm) (fa : frame_address) : resolved * bool :=
  process_convert kernel proc (lookup_address fa).

(* ---- executable driver used by the correspondence check ---- *)

Inductive action :=
| AOp (o : op)              (* on the process table *)
| AKOp (o : op)             (* on the kernel table *)
| ALookup (a : N)           (* LibMappings::convert_address on the process table *)
| AFrame (fa : frame_address).

Inductive obs :=
| ONone
| OSome (rel lib : N)
| ORaw (a : N)
| OPanic.

Definition obs_eqb (x y : obs) : bool :=
  match x, y with
  | ONone, ONone => true
  | OSome a b, OSome c d => (a =? c) && (b =? d)
  | ORaw a, ORaw b => a =? b
  | OPanic, OPanic => true
  | _, _ => false
  end.

Fixpoint run_actions (debug : bool) (kernel proc : lm) (acts : list action) : list obs :=
  match acts with
  | [] => []
  | AOp o :: r => run_actions debug kernel (step proc o) r
  | AKOp o :: r => run_actions debug (step kernel o) proc r
  | ALookup a :: r =>
      (match convert_address proc a with
       | Some (rel, v, ovf) => if ovf && debug then OPanic else OSome rel v
       | None => ONone
       end) :: run_actions debug kernel proc r
  | AFrame fa :: r =>
      (match resolve_frame kernel proc fa with
       | (InLib rel v, ovf) => if ovf && debug then OPanic else OSome rel v
       | (Unknown a, _) => ORaw a
       end) :: run_actions debug kernel proc r
  end.
