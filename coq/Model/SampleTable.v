(* Model of fxprof-processed-profile/src/sample_table.rs (SampleTable: add_sample, modify_last_sample, Serialize),
   thread.rs:137-173 (add_sample, add_sample_same_stack_zero_cpu), counters.rs:113-156 (CounterSamples) and
   timestamp.rs:33-68 (timestamps as deltas).  The four parallel column vectors are one list of entries.
   The model follows the code after the "fix: keep sample table sortedness bookkeeping ..." commit; the
   behaviour before it is kept in Proofs/History/SampleTableOld.v.  Definitions only. *)
From Coq Require Export List NArith ZArith Bool.
Export ListNotations.
Open Scope N_scope.

(* stack: 0 = None (empty stack), k+1 = Some k.  Counters reuse the record: e_stack = number, e_w = value, e_cpu = 0. *)
Record entry := mkEntry { e_t : N; e_stack : N; e_cpu : N; e_w : Z }.

Record table := mkTable {
  ents : list entry;          (* push order *)
  sorted_flag : bool;         (* is_sorted_by_time *)
  last_ts : N                 (* last_sample_timestamp *)
}.

Definition table_init : table := mkTable [] true 0.

(* sample_table.rs add_sample *)
Definition t_add (tb : table) (e : entry) : table :=
  mkTable (ents tb ++ [e]) (if e_t e <? last_ts tb then false else sorted_flag tb) (e_t e).

Fixpoint modify_last (l : list entry) (t : N) (w : Z) : list entry :=
  match l with
  | [] => []
  | [e] => [mkEntry t (e_stack e) (e_cpu e) (e_w e + w)%Z]
  | e :: r => e :: modify_last r t w
  end.

Fixpoint second_last_t (l : list entry) : option N :=
  match l with
  | [] => None
  | [_] => None
  | [a; _] => Some (e_t a)
  | _ :: r => second_last_t r
  end.

(* sample_table.rs modify_last_sample (after the fix); None = unwrap() on an empty table *)
Definition t_modify_last (tb : table) (t : N) (w : Z) : option table :=
  match ents tb with
  | [] => None
  | _ =>
      let fl := match second_last_t (ents tb) with
                | Some p => if t <? p then false else sorted_flag tb
                | None => sorted_flag tb
                end in
      Some (mkTable (modify_last (ents tb) t w) fl t)
  end.

(* thread.rs *)
Record thread := mkThread { tbl : table; last_zero : bool; last_stack : N; panicked : bool }.
Definition thread_init : thread := mkThread table_init false 0 false.

Inductive op :=
| OAdd (t stack cpu : N) (w : Z)     (* Profile::add_sample *)
| OMerge (t : N) (w : Z).            (* Profile::add_sample_same_stack_zero_cpu *)

Definition th_step (th : thread) (o : op) : thread :=
  if panicked th then th else
  match o with
  | OAdd t s c w => mkThread (t_add (tbl th) (mkEntry t s c w)) (c =? 0) s false
  | OMerge t w =>
      if last_zero th then
        match t_modify_last (tbl th) t w with
        | Some tb => mkThread tb true (last_stack th) false
        | None => mkThread (tbl th) (last_zero th) (last_stack th) true
        end
      else mkThread (t_add (tbl th) (mkEntry t (last_stack th) 0 w)) true (last_stack th) false
  end.

Definition th_run (ops : list op) : thread := fold_left th_step ops thread_init.

(* ---- serialization ---- *)

Fixpoint insert_by_t (e : entry) (l : list entry) : list entry :=
  match l with
  | [] => [e]
  | x :: r => if e_t e <? e_t x then e :: x :: r else x :: insert_by_t e r
  end.

(* stands for sort_unstable_by_key: any sorting permutation would do; ties are compared as multisets by the tie *)
Fixpoint sort_by_t (l : list entry) : list entry :=
  match l with
  | [] => []
  | x :: r => insert_by_t x (sort_by_t r)
  end.

Definition serialize_order (tb : table) : list entry :=
  if sorted_flag tb then ents tb else sort_by_t (ents tb).

(* timestamp.rs: deltas with u64 subtraction; the bool is "some subtraction underflowed" *)
Fixpoint deltas_from (prev : N) (l : list entry) : list N * bool :=
  match l with
  | [] => ([], false)
  | e :: r =>
      let '(ds, u) := deltas_from (e_t e) r in
      ((e_t e - prev) :: ds, (e_t e <? prev) || u)
  end.

(* a serialized row: (time delta, stack, weight, cpu delta) *)
Definition row := (N * N * Z * N)%type.

Definition serialize (tb : table) : list row * bool :=
  let l := serialize_order tb in
  let '(ds, u) := deltas_from 0 l in
  (map (fun '(d, e) => (d, e_stack e, e_w e, e_cpu e)) (combine ds l), u).
