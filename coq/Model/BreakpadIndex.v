(* Model of the Breakpad index creator and the .symindex layout
   (samply-symbols/src/breakpad/index.rs: line parsers, BreakpadIndexCreatorInner::process_line / finish,
   SortedVecBuilder, BreakpadIndex::serialize_to_bytes / parse_symindex_file).  Built on Model/LineBuffer.v.
   Definitions only. *)
From SV Require Export Lib.Bytes Model.LineBuffer.
From Coq Require Import String.
Open Scope N_scope.
Local Open Scope string_scope.

Definition t_FILE := bytes_of_string "FILE".
Definition t_INLINE_ORIGIN := bytes_of_string "INLINE_ORIGIN".
Definition t_PUBLIC := bytes_of_string "PUBLIC".
Definition t_FUNC := bytes_of_string "FUNC".
Definition t_MODULE := bytes_of_string "MODULE".
Definition t_INFO_ := bytes_of_string "INFO ".
Definition t_STACK_ := bytes_of_string "STACK ".
Definition t_m := bytes_of_string "m".
Definition t_INLINE := bytes_of_string "INLINE".
Local Close Scope string_scope.

(* file_line / inline_origin_line: tag, space1, decimal_u32, space1, rest *)
Definition idx_line (tag : bytes) (s : bytes) : option (N * bytes) :=
  match tag_spn tag s with
  | Some r => match decimal_u32 r with
              | Some (idx, r2) => match space1n r2 with Some name => Some (idx, name) | None => None end
              | None => None
              end
  | None => None
  end.

Definition opt_m (s : bytes) : bytes := match tag_spn t_m s with Some r => r | None => s end.

(* public_line: address (hex u64, truncated to u32), parameter size (hex u32), name *)
Definition public_line (s : bytes) : option (N * bytes) :=
  match tag_spn t_PUBLIC s with
  | Some r =>
      match hex_u64 (opt_m r) with
      | Some (addr, r2) =>
          match space1n r2 with
          | Some r3 => match hex_u32 r3 with
                       | Some (_, r4) => match space1n r4 with Some name => Some (addr mod 4294967296, name) | None => None end
                       | None => None end
          | None => None end
      | None => None end
  | None => None
  end.

(* func_line: address, size, parameter size (all hex u32), name *)
Definition func_line (s : bytes) : option (N * N * bytes) :=
  match tag_spn t_FUNC s with
  | Some r =>
      match hex_u32 (opt_m r) with
      | Some (addr, r2) =>
          match space1n r2 with
          | Some r3 =>
              match hex_u32 r3 with
              | Some (size, r4) =>
                  match space1n r4 with
                  | Some r5 => match hex_u32 r5 with
                               | Some (_, r6) => match space1n r6 with Some name => Some (addr, size, name) | None => None end
                               | None => None end
                  | None => None end
              | None => None end
          | None => None end
      | None => None end
  | None => None
  end.

(* module_line: MODULE os cpu debug_id name; the debug id must be accepted by DebugId::from_breakpad (32..40 hex digits) *)
Definition module_line_ok (s : bytes) : bool :=
  match tag_spn t_MODULE s with
  | Some r =>
      let '(os, r1) := non_space r in
      match space1n r1 with
      | Some r2 =>
          let '(cpu, r3) := non_space r2 in
          match space1n r3 with
          | Some r4 =>
              let '(id, r5) := non_space r4 in
              match space1n r5 with
              | Some _ => all_hex id && (32 <=? N.of_nat (List.length id)) && (N.of_nat (List.length id) <=? 40)
              | None => false end
          | None => false end
      | None => false end
  | None => false
  end.

Record fentry := mkF { f_index : N; f_len : N; f_off : N }.      (* FileOrInlineOriginEntry *)
Record sentry := mkS { s_addr : N; s_kind : N; s_len : N; s_off : N }.   (* (address, BreakpadSymbolEntry) *)

(* SortedVecBuilder *)
Record svb := mkSvb { sv_inner : list fentry; sv_last : option N; sv_sorted : bool }.
Definition svb_init : svb := mkSvb [] None true.

Definition svb_push (b : svb) (x : fentry) : svb :=
  if sv_sorted b then
    match sv_last b with
    | None => mkSvb (sv_inner b ++ [x]) (Some (f_index x)) true
    | Some last =>
        if last <? f_index x then mkSvb (sv_inner b ++ [x]) (Some (f_index x)) true
        else if f_index x =? last then b
        else mkSvb (sv_inner b ++ [x]) (sv_last b) false
    end
  else mkSvb (sv_inner b ++ [x]) (sv_last b) false.

Fixpoint ins_f (x : fentry) (l : list fentry) : list fentry :=
  match l with [] => [x] | y :: t => if f_index x <? f_index y then x :: y :: t else y :: ins_f x t end.
Fixpoint sort_f (l : list fentry) : list fentry :=       (* stable; stands for sort_unstable_by_key *)
  match l with [] => [] | x :: t => ins_f x (sort_f t) end.
(* dedup_by_key keeps the first of a run of equal keys *)
Fixpoint dedup_f' (fuel : nat) (l : list fentry) : list fentry :=
  match fuel with
  | O => l
  | S f => match l with
           | x :: y :: t => if f_index x =? f_index y then dedup_f' f (x :: t) else x :: dedup_f' f (y :: t)
           | _ => l
           end
  end.

Definition svb_finish (b : svb) : list fentry :=
  if sv_sorted b then sv_inner b else dedup_f' (List.length (sv_inner b)) (sort_f (sv_inner b)).

Record creator := mkCr {
  module_info_bytes : bytes;
  module_found : bool;
  symbols : list sentry;           (* push order *)
  files : svb;
  inline_origins : svb;
  pending : option (N * N)         (* (address, file offset) of the open FUNC block *)
}.
Definition creator_init : creator := mkCr [] false [] svb_init svb_init None.

Definition finish_pending (c : creator) (off : N) : creator :=
  match pending c with
  | Some (addr, foff) =>
      mkCr (module_info_bytes c) (module_found c) (symbols c ++ [mkS addr 1 ((off - foff) mod 4294967296) foff])
           (files c) (inline_origins c) None
  | None => c
  end.

Definition process_line (c : creator) (x : N * bytes) : creator :=
  let '(off, line) := x in
  let input := strip_cr line in
  if negb (module_found c) then
    mkCr input (module_line_ok input) (symbols c) (files c) (inline_origins c) (pending c)
  else
    let llen := N.of_nat (List.length input) mod 4294967296 in
    match idx_line t_FILE input with
    | Some (idx, _) => mkCr (module_info_bytes c) true (symbols c) (svb_push (files c) (mkF idx llen off)) (inline_origins c) (pending c)
    | None =>
    match idx_line t_INLINE_ORIGIN input with
    | Some (idx, _) => mkCr (module_info_bytes c) true (symbols c) (files c) (svb_push (inline_origins c) (mkF idx llen off)) (pending c)
    | None =>
    match public_line input with
    | Some (addr, _) =>
        let c1 := finish_pending c off in
        mkCr (module_info_bytes c1) true (symbols c1 ++ [mkS addr 0 llen off]) (files c1) (inline_origins c1) None
    | None =>
    match func_line input with
    | Some (addr, _, _) =>
        let c1 := finish_pending c off in
        mkCr (module_info_bytes c1) true (symbols c1) (files c1) (inline_origins c1) (Some (addr, off))
    | None =>
        match starts_with t_INFO_ input with
        | Some _ =>
            let c1 := finish_pending c off in
            mkCr (module_info_bytes c1 ++ [NL] ++ input) true (symbols c1) (files c1) (inline_origins c1) None
        | None =>
            match starts_with t_STACK_ input with
            | Some _ => finish_pending c off
            | None => c
            end
        end
    end end end end.

Fixpoint ins_s (x : sentry) (l : list sentry) : list sentry :=
  match l with [] => [x] | y :: t => if s_addr x <? s_addr y then x :: y :: t else y :: ins_s x t end.
Fixpoint sort_s (l : list sentry) : list sentry :=
  match l with [] => [] | x :: t => ins_s x (sort_s t) end.
Fixpoint dedup_s (fuel : nat) (l : list sentry) : list sentry :=
  match fuel with
  | O => l
  | S f => match l with
           | x :: y :: t => if s_addr x =? s_addr y then dedup_s f (x :: t) else x :: dedup_s f (y :: t)
           | _ => l
           end
  end.

Record index := mkIdx {
  i_module_info : bytes;
  i_files : list fentry;
  i_origins : list fentry;
  i_symbols : list sentry          (* sorted by address, unique addresses *)
}.

(* BreakpadIndexCreator::finish: None = NoModuleInfoInSymFile *)
Definition creator_finish (c : creator) (end_off : N) : option index :=
  let c1 := finish_pending c end_off in
  if module_found c1 then
    Some (mkIdx (module_info_bytes c1) (svb_finish (files c1)) (svb_finish (inline_origins c1))
                (dedup_s (List.length (symbols c1)) (sort_s (symbols c1))))
  else None.

(* the index of a file given in chunks, and of a whole text *)
Definition index_of_chunks (chunks : list (list N)) : option index :=
  let '(ls, fin, _) := lines_of_chunks chunks in
  creator_finish (fold_left process_line ls creator_init) fin.

Definition index_of_text (text : bytes) : option index :=
  let '(ls, fin) := split_lines text in
  creator_finish (fold_left process_line ls creator_init) fin.

(* ---- .symindex layout ---- *)

Definition HEADER_SIZE : N := 48.
Definition align4 (v : N) : N := (v + 3) / 4 * 4.
Definition magic : bytes := [83; 89; 77; 73; 78; 68; 69; 88].     (* "SYMINDEX" *)

Definition ser_f (x : fentry) : bytes := le_bytes 4 (f_index x) ++ le_bytes 4 (f_len x) ++ le_bytes 8 (f_off x).
Definition ser_s (x : sentry) : bytes := le_bytes 4 (s_kind x) ++ le_bytes 4 (s_len x) ++ le_bytes 8 (s_off x).

Definition serialize (i : index) : bytes :=
  let mi_len := N.of_nat (List.length (i_module_info i)) in
  let pad := align4 mi_len - mi_len in
  let file_off := HEADER_SIZE + mi_len + pad in
  let nf := N.of_nat (List.length (i_files i)) in
  let orig_off := file_off + nf * 16 in
  let no := N.of_nat (List.length (i_origins i)) in
  let addr_off := orig_off + no * 16 in
  let ns := N.of_nat (List.length (i_symbols i)) in
  let ent_off := addr_off + ns * 4 in
  magic ++ le_bytes 4 1 ++ le_bytes 4 HEADER_SIZE ++ le_bytes 4 mi_len ++ le_bytes 4 nf ++ le_bytes 4 file_off ++
  le_bytes 4 no ++ le_bytes 4 orig_off ++ le_bytes 4 ns ++ le_bytes 4 addr_off ++ le_bytes 4 ent_off ++
  i_module_info i ++ repeat 0 (N.to_nat pad) ++
  flat_map ser_f (i_files i) ++ flat_map ser_f (i_origins i) ++
  flat_map (fun x => le_bytes 4 (s_addr x)) (i_symbols i) ++ flat_map ser_s (i_symbols i).
