(* Model of candidate selection in samply-symbols: SymbolManager::load_symbol_map (lib.rs:306-368), load_binary (lib.rs:405-469),
   the .gnu_debuglink CRC check (elf.rs:110-131), the supplementary build-id check (elf.rs:225-234) and fat archive member
   selection by debug id (macho.rs:64-96, 152-158).  Every candidate is abstracted to its standalone outcome.  Definitions only. *)
From Coq Require Export List NArith Bool.
Export ListNotations.
Open Scope N_scope.

(* ---- symbol maps ---- *)
Inductive cand := CErr | COk (debug_id : N).

(* the index of the candidate whose symbol map is returned *)
Fixpoint select_symbol_map (req : N) (cs : list cand) (i : nat) : option nat :=
  match cs with
  | [] => None
  | COk id :: r => if id =? req then Some i else select_symbol_map req r (S i)
  | CErr :: r => select_symbol_map req r (S i)
  end.

(* ---- binaries ---- *)
Inductive bcand := BErr | BOk (debug_id code_id : option N).

Definition oeq (a : option N) (b : N) : bool := match a with Some x => x =? b | None => false end.

Inductive breq := ByDebugId (d : N) | ByCodeId (c : N).     (* info.debug_id takes precedence over info.code_id *)

Definition bmatch (r : breq) (c : bcand) : bool :=
  match c with
  | BErr => false
  | BOk d k => match r with ByDebugId x => oeq d x | ByCodeId x => oeq k x end
  end.

Fixpoint select_binary (r : breq) (cs : list bcand) (i : nat) : option nat :=
  match cs with
  | [] => None
  | c :: t => if bmatch r c then Some i else select_binary r t (S i)
  end.

(* ---- companions ---- *)
Definition debuglink_accept (expected_crc actual_crc : N) : bool := actual_crc =? expected_crc.
Fixpoint bytes_eqb (x y : list N) : bool :=
  match x, y with [], [] => true | a :: x', c :: y' => (a =? c) && bytes_eqb x' y' | _, _ => false end.
Definition supplementary_accept (wanted_build_id : list N) (found : option (list N)) : bool :=
  match found with
  | Some b => bytes_eqb b wanted_build_id
  | None => false
  end.

(* ---- fat archives: members given by the debug id derived from their uuid ---- *)
Inductive fat_result := FMember (i : nat) | FEmpty | FNoDisambiguator | FNoMatch.

Fixpoint first_match (req : N) (ms : list (option N)) (i : nat) : option nat :=
  match ms with
  | [] => None
  | m :: r => if oeq m req then Some i else first_match req r (S i)
  end.

Definition fat_select (disamb : option N) (members : list (option N)) : fat_result :=
  match members with
  | [] => FEmpty
  | _ =>
      match disamb with
      | None => match members with [_] => FMember 0 | _ => FNoDisambiguator end
      | Some d => match first_match d members 0 with Some i => FMember i | None => FNoMatch end    (* min_by_key on equal scores keeps the first *)
      end
  end.
