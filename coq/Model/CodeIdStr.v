(* Model of CodeId::from_str, PeCodeId::from_str, ElfBuildId::from_str (samply-symbols/src/shared.rs:185-283) after the fix
   for F-C08b, over arbitrary UTF-8 text given as its bytes.  `s.get(a..b)` is None unless both ends are character boundaries;
   the indexing operator `&s[a..b]` of the original code panicked there (kept as `slice_idx` for the history lemma). *)
From SV Require Import Lib.Bytes.
Open Scope N_scope.

Definition blen (s : bytes) : N := N.of_nat (List.length s).
Definition is_cont (b : N) : bool := (128 <=? b) && (b <? 192).          (* UTF-8 continuation byte *)
Definition boundary (s : bytes) (i : N) : bool :=
  if i =? blen s then true else if blen s <? i then false else negb (is_cont (nth (N.to_nat i) s 0)).

(* str::get(a..b) *)
Definition sget (s : bytes) (a b : N) : option bytes :=
  if (a <=? b) && (b <=? blen s) && boundary s a && boundary s b
  then Some (firstn (N.to_nat (b - a)) (skipn (N.to_nat a) s)) else None.

(* uN::from_str_radix(t, 16): optional leading '+', at least one hex digit, value must fit *)
Fixpoint hex_val (t : bytes) (acc : N) : option N :=
  match t with
  | [] => Some acc
  | c :: r => match hex_digit c with Some d => hex_val r (acc * 16 + d) | None => None end
  end.
Definition radix16 (maxv : N) (t : bytes) : option N :=
  let digits := match t with 43 :: r => r | _ => t end in       (* '+' *)
  match digits with
  | [] => None
  | _ => match hex_val digits 0 with Some v => if v <=? maxv then Some v else None | None => None end
  end.

Inductive code_id := CPe (timestamp size : N) | CUuid (hex : bytes) | CElf (b : list N) | CErr | CPanic.

Definition pe_from_str (s : bytes) : code_id :=
  if (blen s <? 9) || (16 <? blen s) then CErr
  else match sget s 0 8, sget s 8 (blen s) with
       | Some a, Some b => match radix16 4294967295 a, radix16 4294967295 b with
                           | Some t, Some z => CPe t z | _, _ => CErr end
       | _, _ => CErr
       end.

Fixpoint elf_loop (s : bytes) (i : nat) (n : nat) (acc : list N) : code_id :=
  match n with
  | O => CElf (rev acc)
  | S m => match sget s (N.of_nat (2 * i)) (N.of_nat (2 * i + 2)) with
           | Some h => match radix16 255 h with Some b => elf_loop s (S i) m (b :: acc) | None => CErr end
           | None => CErr
           end
  end.
Definition elf_from_str (s : bytes) : code_id := elf_loop s 0 (N.to_nat (blen s / 2)) [].

Definition is_upper_hex (c : N) : bool := ((48 <=? c) && (c <=? 57)) || ((65 <=? c) && (c <=? 70)).

Definition code_id_from_str (s : bytes) : code_id :=
  if blen s <=? 17 then pe_from_str s
  else if (blen s =? 32) && forallb is_upper_hex s then CUuid s
  else elf_from_str s.

Definition is_cpanic (c : code_id) : bool := match c with CPanic => true | _ => false end.
