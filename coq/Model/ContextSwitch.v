(* Model of samply/src/shared/context_switch.rs (ContextSwitchHandler, ThreadContextSwitchData).
   u64 arithmetic: subtraction underflow, division by zero and the two debug_asserts set the
   `bad` flag (a debug build panics there).  Definitions only. *)
From Coq Require Export List NArith Bool.
Export ListNotations.
Open Scope N_scope.

Inductive tstate := Unknown | Off (t : N) | On (t : N).

Record cs := mkCs { st : tstate; on_acc : N; off_acc : N; bad : bool }.

Definition cs_init : cs := mkCs Unknown 0 0 false.

Inductive ev :=
| SwIn (t : N)
| SwOut (t : N)
| Sample (t : N)
| Consume.          (* consume_cpu_delta *)

Inductive out :=
| ONothing
| OGroup (b e c : N)   (* OffCpuSampleGroup { begin_timestamp, end_timestamp, sample_count } *)
| ODelta (d : N).

(* checked u64 subtraction *)
Definition csub (a b : N) : N * bool := (a - b, a <? b).

(* context_switch.rs:179-214 *)
Definition maybe_consume_off_cpu (I t : N) (s : cs) : cs * out :=
  if off_acc s <? I then (s, ONothing)
  else if I =? 0 then (mkCs (st s) (on_acc s) (off_acc s) true, ONothing)   (* division by zero *)
  else
    let count := off_acc s / I in
    let consumed := count * I in
    let '(remaining, u1) := csub (off_acc s) consumed in
    let '(d, u2) := csub (off_acc s) I in
    let '(b, u3) := csub t d in
    let '(e, u4) := csub t remaining in
    let '(w, u5) := csub e b in
    let '(cm1, u6) := csub count 1 in
    let assert1 := negb (1 <=? count) in
    let assert2 := negb (w =? cm1 * I) in
    (mkCs (st s) (on_acc s) remaining (bad s || u1 || u2 || u3 || u4 || u5 || u6 || assert1 || assert2),
     OGroup b e count).

Definition set_st (s : cs) (x : tstate) : cs := mkCs x (on_acc s) (off_acc s) (bad s).

(* handle_switch_out, :47-83 *)
Definition switch_out (t : N) (s : cs) : cs :=
  match st s with
  | Unknown => set_st s (Off t)
  | On t0 =>
      let '(d, u) := csub t t0 in
      mkCs (Off t) (on_acc s + d) (off_acc s) (bad s || u)
  | Off _ => s
  end.

(* handle_switch_in (:85-133) and handle_on_cpu_sample (:135-177) have the same body *)
Definition switch_in (I t : N) (s : cs) : cs * out :=
  let '(s1, o) :=
    match st s with
    | On t0 =>
        let '(d, u) := csub t t0 in
        (mkCs (st s) (on_acc s + d) (off_acc s) (bad s || u), ONothing)
    | Off t0 =>
        let '(d, u) := csub t t0 in
        maybe_consume_off_cpu I t (mkCs (st s) (on_acc s) (off_acc s + d) (bad s || u))
    | Unknown => (s, ONothing)
    end in
  (set_st s1 (On t), o).

Definition step (I : N) (s : cs) (e : ev) : cs * out :=
  match e with
  | SwIn t => switch_in I t s
  | Sample t => switch_in I t s
  | SwOut t => (switch_out t s, ONothing)
  | Consume => (mkCs (st s) 0 (off_acc s) (bad s), ODelta (on_acc s))
  end.

Fixpoint run (I : N) (s : cs) (evs : list ev) : cs * list out :=
  match evs with
  | [] => (s, [])
  | e :: r =>
      let '(s1, o) := step I s e in
      let '(s2, os) := run I s1 r in
      (s2, o :: os)
  end.
