(* Model of the process / thread / sample bookkeeping of the perf.data converter with default options
   (no --reuse-threads, no --per-cpu-threads; CONTEXT_SWITCH records only touch the process / thread tables - without
   sched_switch samples there is no off-CPU stack, so they add no samples):
     samply/src/import/perf.rs:190-266 (record dispatch), linux_shared/converter.rs:238-325 (main-event samples), 743-836 + 1308-1353
     + 1672-1694 (mmap: which entries it touches), 956-1105 (fork, exit, comm, exec), linux_shared/processes.rs, process.rs,
     process_threads.rs, thread.rs, shared/unresolved_samples.rs (per-process sample buffers), processes.rs:245-270 (finish),
     fxprof-processed-profile/src/profile.rs:289-320, 467-501 (entries, unique pid/tid strings), thread.rs:235-240 (displayed names).
   Names are interned numbers; times are nanoseconds; the profile's time origin is `origin` (converted time = ts - origin).
   Definitions only. *)
From Coq Require Export List NArith Bool.
Export ListNotations.
Open Scope N_scope.

Inductive record :=
| RFork (pid ppid tid ptid ts : N)
| RExit (pid tid ts : N)
| RComm (pid tid name : N) (is_exec : bool) (ts : N)      (* ts = 0: the record carries no time *)
| RSample (pid tid ts : N)
| RMmap (pid tid : N)                                      (* an executable file mapping with a readable path *)
| RSwitch (pid tid : N).                                   (* a CONTEXT_SWITCH record (in or out) *)

(* ---- the profile being built ---- *)
Inductive pname := NGiven (n : N) | NPid (pid : N).       (* "<pid>" *)
Record pentry := mkP { pe_name : pname; pe_pid : N; pe_sfx : N; pe_start : N; pe_end : option N }.
Record tentry := mkT { te_proc : nat; te_tid : N; te_sfx : N; te_start : N; te_end : option N; te_name : option N; te_main : bool }.

(* ---- the converter's live state ---- *)
Record lthread := mkLT { lt_handle : nat; lt_name : option N; lt_last : option N }.
Record lproc := mkLP { lp_handle : nat; lp_name : option N; lp_main : lthread; lp_threads : list (N * lthread);
                       lp_samples : list (nat * N) }.          (* unresolved samples: (thread handle, converted time), oldest first *)

Record cstate := mkC {
  pprocs : list pentry; pthreads : list tentry;
  used_pids : list (N * N); used_tids : list (N * N);          (* id -> next suffix *)
  lprocs : list (N * lproc);
  retired : list (list (nat * N));                             (* sample buffers of removed processes *)
  cur_time : N }.

Section Converter.
  Variable origin : N.
  Definition conv (ts : N) : N := ts - origin.

  Definition init : cstate := mkC [] [] [] [] [] [] origin.

  Fixpoint alookup {A} (k : N) (l : list (N * A)) : option A :=
    match l with [] => None | (k', v) :: r => if k' =? k then Some v else alookup k r end.
  Fixpoint aset {A} (k : N) (v : A) (l : list (N * A)) : list (N * A) :=
    match l with [] => [(k, v)] | (k', v') :: r => if k' =? k then (k, v) :: r else (k', v') :: aset k v r end.
  Fixpoint aremove {A} (k : N) (l : list (N * A)) : list (N * A) :=
    match l with [] => [] | (k', v') :: r => if k' =? k then r else (k', v') :: aremove k r end.

  (* make_unique_pid_or_tid *)
  Definition unique (used : list (N * N)) (id : N) : N * list (N * N) :=
    match alookup id used with Some sfx => (sfx, aset id (sfx + 1) used) | None => (0, aset id 1 used) end.

  Fixpoint upd_nth {A} (n : nat) (f : A -> A) (l : list A) : list A :=
    match l, n with [], _ => [] | x :: r, O => f x :: r | x :: r, S m => x :: upd_nth m f r end.

  (* Profile API *)
  Definition with_lprocs (s : cstate) (l : list (N * lproc)) : cstate :=
    mkC (pprocs s) (pthreads s) (used_pids s) (used_tids s) l (retired s) (cur_time s).
  Definition add_process (s : cstate) (nm : pname) (pid start : N) : cstate * nat :=
    let '(sfx, u) := unique (used_pids s) pid in
    (mkC (pprocs s ++ [mkP nm pid sfx start None]) (pthreads s) u (used_tids s) (lprocs s) (retired s) (cur_time s), length (pprocs s)).
  Definition add_thread (s : cstate) (ph : nat) (tid start : N) (is_main : bool) : cstate * nat :=
    let '(sfx, u) := unique (used_tids s) tid in
    (mkC (pprocs s) (pthreads s ++ [mkT ph tid sfx start None None is_main]) (used_pids s) u (lprocs s) (retired s) (cur_time s), length (pthreads s)).
  Definition map_thread (s : cstate) (h : nat) (f : tentry -> tentry) : cstate :=
    mkC (pprocs s) (upd_nth h f (pthreads s)) (used_pids s) (used_tids s) (lprocs s) (retired s) (cur_time s).
  Definition map_process (s : cstate) (h : nat) (f : pentry -> pentry) : cstate :=
    mkC (upd_nth h f (pprocs s)) (pthreads s) (used_pids s) (used_tids s) (lprocs s) (retired s) (cur_time s).
  Definition t_set_name (n : N) (t : tentry) := mkT (te_proc t) (te_tid t) (te_sfx t) (te_start t) (te_end t) (Some n) (te_main t).
  Definition t_set_start (x : N) (t : tentry) := mkT (te_proc t) (te_tid t) (te_sfx t) x (te_end t) (te_name t) (te_main t).
  Definition t_set_end (x : N) (t : tentry) := mkT (te_proc t) (te_tid t) (te_sfx t) (te_start t) (Some x) (te_name t) (te_main t).
  Definition p_set_name (n : N) (p : pentry) := mkP (NGiven n) (pe_pid p) (pe_sfx p) (pe_start p) (pe_end p).
  Definition p_set_start (x : N) (p : pentry) := mkP (pe_name p) (pe_pid p) (pe_sfx p) x (pe_end p).
  Definition p_set_end (x : N) (p : pentry) := mkP (pe_name p) (pe_pid p) (pe_sfx p) (pe_start p) (Some x).

  Definition oname (pid : N) (n : option N) : pname := match n with Some x => NGiven x | None => NPid pid end.

  (* Processes::get_by_pid *)
  Definition get_by_pid (s : cstate) (pid : N) : cstate * lproc :=
    match alookup pid (lprocs s) with
    | Some p => (s, p)
    | None =>
        let '(s1, ph) := add_process s (NPid pid) pid 0 in
        let '(s2, th) := add_thread s1 ph pid 0 true in
        let p := mkLP ph None (mkLT th None None) [] [] in
        (with_lprocs s2 (aset pid p (lprocs s2)), p)
    end.

  (* Processes::recycle_or_get_new without a recycler *)
  Definition get_new_process (s : cstate) (pid : N) (name : option N) (start : N) : cstate * lproc :=
    match alookup pid (lprocs s) with
    | None =>
        let '(s1, ph) := add_process s (oname pid name) pid start in
        let '(s2, th) := add_thread s1 ph pid start true in
        let s3 := match name with Some n => map_thread s2 th (t_set_name n) | None => s2 end in
        let p := mkLP ph name (mkLT th name None) [] [] in
        (with_lprocs s3 (aset pid p (lprocs s3)), p)
    | Some p =>
        match lt_last (lp_main p) with
        | None => (map_thread (map_process s (lp_handle p) (p_set_start start)) (lt_handle (lp_main p)) (t_set_start start), p)
        | Some _ => (s, p)
        end
    end.

  Definition put_proc (s : cstate) (pid : N) (p : lproc) : cstate := with_lprocs s (aset pid p (lprocs s)).
  Definition p_with_threads (p : lproc) (l : list (N * lthread)) := mkLP (lp_handle p) (lp_name p) (lp_main p) l (lp_samples p).
  Definition p_with_main (p : lproc) (m : lthread) := mkLP (lp_handle p) (lp_name p) m (lp_threads p) (lp_samples p).

  (* ProcessThreads::get_thread_by_tid: returns the thread and the process with it inserted *)
  Definition get_thread_by_tid (s : cstate) (pid : N) (p : lproc) (tid : N) : cstate * lproc * lthread :=
    if tid =? pid then (s, p, lp_main p)
    else match alookup tid (lp_threads p) with
         | Some t => (s, p, t)
         | None =>
             let '(s1, th) := add_thread s (lp_handle p) tid 0 false in
             let t := mkLT th None None in
             let p' := p_with_threads p (aset tid t (lp_threads p)) in
             (put_proc s1 pid p', p', t)
         end.

  (* ProcessThreads::recycle_or_get_new_thread without a recycler *)
  Definition get_new_thread (s : cstate) (pid : N) (p : lproc) (tid : N) (name : option N) (start : N) : cstate :=
    if tid =? pid then s
    else match alookup tid (lp_threads p) with
         | None =>
             let '(s1, th) := add_thread s (lp_handle p) tid start false in
             let s2 := match name with Some n => map_thread s1 th (t_set_name n) | None => s1 end in
             put_proc s2 pid (p_with_threads p (aset tid (mkLT th name None) (lp_threads p)))
         | Some t =>
             match lt_last t with None => map_thread s (lt_handle t) (t_set_start start) | Some _ => s end
         end.

  (* ProcessThreads::remove_non_main_thread *)
  Definition remove_thread (s : cstate) (pid : N) (p : lproc) (tid end_ : N) : cstate :=
    match alookup tid (lp_threads p) with
    | None => s
    | Some t => put_proc (map_thread s (lt_handle t) (t_set_end end_)) pid (p_with_threads p (aremove tid (lp_threads p)))
    end.

  (* Processes::remove: notify_dead + finish; the sample buffer is kept when non-empty *)
  Definition remove_process (s : cstate) (pid end_ : N) : cstate :=
    match alookup pid (lprocs s) with
    | None => s
    | Some p =>
        let s1 := fold_left (fun x kt => map_thread x (lt_handle (snd kt)) (t_set_end end_)) (lp_threads p) s in
        let s2 := map_thread s1 (lt_handle (lp_main p)) (t_set_end end_) in
        let s3 := map_process s2 (lp_handle p) (p_set_end end_) in
        mkC (pprocs s3) (pthreads s3) (used_pids s3) (used_tids s3) (aremove pid (lprocs s3))
            (match lp_samples p with [] => retired s3 | b => retired s3 ++ [b] end) (cur_time s3)
    end.

  Definition rec_time (s : cstate) (ts : N) : N := conv (if ts =? 0 then cur_time s else ts).

  Definition step (s : cstate) (r : record) : cstate :=
    match r with
    | RFork pid ppid tid ptid ts =>
        let start := conv ts in
        let '(s1, parent) := get_by_pid s ppid in
        if negb (pid =? ppid) then fst (get_new_process s1 pid (lp_name parent) start)
        else let '(s2, parent', pt) := get_thread_by_tid s1 ppid parent ptid in
             get_new_thread s2 ppid parent' tid (lt_name pt) start
    | RExit pid tid ts =>
        if tid =? pid then remove_process s pid (conv ts)
        else let '(s1, p) := get_by_pid s pid in remove_thread s1 pid p tid (conv ts)
    | RComm pid tid name true ts =>
        let t := rec_time s ts in
        if tid =? pid then fst (get_new_process (remove_process s pid t) pid (Some name) t)
        else let '(s1, p) := get_by_pid s pid in
             let s2 := remove_thread s1 pid p tid t in
             match alookup pid (lprocs s2) with Some p2 => get_new_thread s2 pid p2 tid (Some name) t | None => s2 end
    | RComm pid tid name false ts =>
        let t := rec_time s ts in
        if tid =? pid then
          match alookup pid (lprocs s) with
          | None => fst (get_new_process s pid (Some name) t)
          | Some p =>
              if match lp_name p with Some n => n =? name | None => false end then s
              else
                let s1 := map_thread (map_process s (lp_handle p) (p_set_name name)) (lt_handle (lp_main p)) (t_set_name name) in
                put_proc s1 pid (mkLP (lp_handle p) (Some name) (mkLT (lt_handle (lp_main p)) (Some name) (lt_last (lp_main p))) (lp_threads p) (lp_samples p))
          end
        else
          let '(s1, p) := get_by_pid s pid in
          match alookup tid (lp_threads p) with
          | None => get_new_thread s1 pid p tid (Some name) t
          | Some th =>
              if match lt_name th with Some n => n =? name | None => false end then s1
              else put_proc (map_thread s1 (lt_handle th) (t_set_name name)) pid
                            (p_with_threads p (aset tid (mkLT (lt_handle th) (Some name) (lt_last th)) (lp_threads p)))
          end
    | RSample pid tid ts =>
        if tid =? 0 then s
        else
          let s0 := mkC (pprocs s) (pthreads s) (used_pids s) (used_tids s) (lprocs s) (retired s) ts in
          let '(s1, p) := get_by_pid s0 pid in
          let '(s2, p2, t) := get_thread_by_tid s1 pid p tid in
          if match lt_last t with Some l => l =? ts | None => false end then s2
          else
            let t' := mkLT (lt_handle t) (lt_name t) (Some ts) in
            let p3 := if tid =? pid then p_with_main p2 t' else p_with_threads p2 (aset tid t' (lp_threads p2)) in
            put_proc s2 pid (mkLP (lp_handle p3) (lp_name p3) (lp_main p3) (lp_threads p3) (lp_samples p3 ++ [(lt_handle t, conv ts)]))
    | RMmap pid tid =>
        (* add_mmap_marker touches process and thread unless no sample has moved the clock yet; add_module_to_process touches the process *)
        let '(s1, p) := get_by_pid s pid in
        if cur_time s =? origin then s1 else fst (fst (get_thread_by_tid s1 pid p tid))
    | RSwitch pid tid =>
        (* handle_context_switch: the idle thread is ignored; otherwise the process and the thread are looked up (and created) *)
        if tid =? 0 then s
        else let '(s1, p) := get_by_pid s pid in fst (fst (get_thread_by_tid s1 pid p tid))
    end.

  Definition run (rs : list record) : cstate := fold_left step rs init.

  (* Processes::finish: the buffers of the processes still alive are added, then everything is flushed *)
  Definition all_buffers (s : cstate) : list (list (nat * N)) :=
    retired s ++ filter (fun b => match b with [] => false | _ => true end) (map (fun kp => lp_samples (snd kp)) (lprocs s)).
  Definition output_samples (s : cstate) : list (nat * N) := concat (all_buffers s).

  (* the accepted samples of a history, with the thread entry they belong to, in input order *)
  Definition accepted_step (s : cstate) (r : record) : list (nat * N) :=
    match r with
    | RSample pid tid ts =>
        if tid =? 0 then []
        else
          let s0 := mkC (pprocs s) (pthreads s) (used_pids s) (used_tids s) (lprocs s) (retired s) ts in
          let '(s1, p) := get_by_pid s0 pid in
          let '(s2, p2, t) := get_thread_by_tid s1 pid p tid in
          if match lt_last t with Some l => l =? ts | None => false end then [] else [(lt_handle t, conv ts)]
    | _ => []
    end.
  Fixpoint accepted (rs : list record) (s : cstate) : list (nat * N) :=
    match rs with [] => [] | r :: rest => accepted_step s r ++ accepted rest (step s r) end.

  (* ---- what the serialized profile shows per thread entry ---- *)
  Inductive tname := TNProc (n : pname) | TNGiven (n : N) | TNFallback (tid sfx : N).        (* "Thread <tid[.sfx]>" *)
  Record shown := mkShown {
    sh_pid : N * N; sh_tid : N * N; sh_pname : pname; sh_tname : tname;
    sh_pstart : N; sh_pend : option N; sh_tstart : N; sh_tend : option N; sh_main : bool; sh_samples : list N }.

  Definition dummy_p := mkP (NPid 0) 0 0 0 None.
  Definition show_thread (s : cstate) (samples : list (nat * N)) (h : nat) (t : tentry) : shown :=
    let p := nth (te_proc t) (pprocs s) dummy_p in
    mkShown (pe_pid p, pe_sfx p) (te_tid t, te_sfx t) (pe_name p)
            (if te_main t then TNProc (pe_name p) else match te_name t with Some n => TNGiven n | None => TNFallback (te_tid t) (te_sfx t) end)
            (pe_start p) (pe_end p) (te_start t) (te_end t) (te_main t)
            (map snd (filter (fun x => Nat.eqb (fst x) h) samples)).
  Fixpoint show_threads (s : cstate) (samples : list (nat * N)) (h : nat) (ts : list tentry) : list shown :=
    match ts with [] => [] | t :: r => show_thread s samples h t :: show_threads s samples (S h) r end.
  Definition show (s : cstate) : list shown := show_threads s (output_samples s) 0 (pthreads s).
End Converter.
