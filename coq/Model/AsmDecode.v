(* Model of samply-api/src/asm/mod.rs: start-address alignment and read length (:117-151) and the decode loop
   `decode` (:354-430), after the two "fix:" commits (size after an invalid instruction; saturating read length).
   The instruction decoder is an oracle: at byte offset `off` of the bytes read it answers
     DOk len (consumed len bytes) | DExhausted c | DInvalid c   (c = bytes the reader consumed before failing).
   Definitions only. *)
From Coq Require Export List NArith Bool.
From SV Require Import Generated.Consts.
Export ListNotations.
Open Scope N_scope.

Inductive dres := DOk (len : N) | DExhausted (c : N) | DInvalid (c : N).

Inductive arch := X86_64 | I686 | Aarch64 | Arm.

(* ADJUST_BY_AFTER_ERROR per InstructionDecoding impl; regenerated from the source *)
Definition adjust (a : arch) : N :=
  match a with X86_64 => c_adjust_x86_64 | I686 => c_adjust_i686 | Aarch64 => c_adjust_aarch64 | Arm => c_adjust_arm end.

(* asm/mod.rs:125-129: start_address & !0b11 / & !0b1 *)
Definition align_start (a : arch) (start : N) : N :=
  match a with
  | Aarch64 => start / 4 * 4
  | Arm => start / 2 * 2
  | _ => start
  end.

(* asm/mod.rs:101-114: continueUntilFunctionEnd *)
Definition decode_len_of (start size : N) (cont : bool) (fend : option N) : N :=
  if cont then
    match fend with
    | Some fe => if (start <=? fe) && (size <? fe - start) then fe - start else size
    | None => size
    end
  else size.

Definition two32 : N := 4294967296.
(* disassembly_len.saturating_add(MAX_INSTR_LEN) *)
Definition read_len (decode_len : N) : N := N.min (decode_len + c_max_instr_len) (two32 - 1).

Inductive kind := KValid | KInvalid.

Section Loop.
Variable dec : N -> dres.      (* decoder oracle, by byte offset *)
Variable nbytes : N.           (* bytes.len() *)
Variable adj : N.
Variable decode_len : N.

(* one listing: instructions (offset, kind) in order, and the reported size; None = out of fuel *)
Fixpoint loop (fuel : nat) (offset : N) (acc : list (N * kind)) : option (list (N * kind) * N) :=
  match fuel with
  | O => None
  | S f =>
      if decode_len <=? offset then Some (rev acc, offset)
      else
        match dec offset with
        | DOk len => loop f (offset + len) ((offset, KValid) :: acc)
        | DExhausted c => Some (rev acc, offset + c)
        | DInvalid c =>
            let acc' := (offset, KInvalid) :: acc in
            let offset' := offset + adj in
            if nbytes <? offset' then Some (rev acc', offset + c)     (* bytes.get(offset..) is None: the old reader stays *)
            else loop f offset' acc'
        end
  end.

Definition listing : option (list (N * kind) * N) := loop (N.to_nat nbytes + 2) 0 [].
End Loop.
