(* Model of lookups through a Breakpad index (samply-symbols/src/breakpad/symbol_map.rs:286-371 lookup_sync,
   ItemCache::get_string, get_public_info / get_func_info; index.rs: BreakpadFuncSymbol::parse, parse_func_data_line,
   parse_inline_line_remainder, get_innermost_sourceloc, get_inlinee_at_depth), after the fixes for F-C10 and F-C08c.
   `text` is the .sym file; entries of the index point into it.  Definitions only. *)
From SV Require Import Lib.Bytes Model.LineBuffer Model.BreakpadIndex.
Open Scope N_scope.

(* read_line_and_advance without the CR stripping: the bytes before the first '\n' and the rest after it *)
Fixpoint cut_line (s : bytes) : bytes * bytes :=
  match s with
  | [] => ([], [])
  | c :: r => if c =? NL then ([], r) else let '(a, b) := cut_line r in (c :: a, b)
  end.

(* the lines the Tokenizer loop of BreakpadFuncSymbol::parse visits *)
Fixpoint block_lines (fuel : nat) (s : bytes) : list bytes :=
  match fuel with
  | O => []
  | S f => match s with [] => [] | _ => let '(l, r) := cut_line s in l :: block_lines f r end
  end.

Record sline := mkSl { sl_addr : N; sl_size : N; sl_line : N; sl_file : N }.
Record inlinee := mkIn { in_depth : N; in_addr : N; in_size : N; in_call_file : N; in_call_line : N; in_origin : N }.

(* parse_func_data_line: <hex u64 addr> <hex u32 size> <dec line> <dec file> *)
Definition parse_data_line (s : bytes) : option sline :=
  match hex_u64 s with
  | Some (a, r1) => match space1 r1 with
    | Some r2 => match hex_u32 r2 with
      | Some (sz, r3) => match space1 r3 with
        | Some r4 => match decimal_u32 r4 with
          | Some (ln, r5) => match space1 r5 with
            | Some r6 => match decimal_u32 r6 with
              | Some (fl, _) => Some (mkSl (a mod 4294967296) sz ln fl)
              | None => None end
            | None => None end
          | None => None end
        | None => None end
      | None => None end
    | None => None end
  | None => None
  end.

(* the [<address> <size>]+ tail of an INLINE record; None = parse error *)
Fixpoint parse_pairs (fuel : nat) (d cl cf o : N) (s : bytes) : option (list inlinee) :=
  match fuel with
  | O => None
  | S f =>
      match hex_u32 s with
      | Some (a, r1) => match space1 r1 with
        | Some r2 => match hex_u32 r2 with
          | Some (sz, r3) =>
              match space1 r3 with
              | Some r4 => match parse_pairs f d cl cf o r4 with Some l => Some (mkIn d a sz cf cl o :: l) | None => None end
              | None => Some [mkIn d a sz cf cl o]
              end
          | None => None end
        | None => None end
      | None => None
      end
  end.

(* parse_inline_line_remainder, after the INLINE token *)
Definition parse_inline (s : bytes) : option (list inlinee) :=
  match space1 s with
  | Some r1 => match decimal_u32 r1 with
    | Some (d, r2) => match space1 r2 with
      | Some r3 => match decimal_u32 r3 with
        | Some (cl, r4) => match space1 r4 with
          | Some r5 => match decimal_u32 r5 with
            | Some (cf, r6) => match space1 r6 with
              | Some r7 => match decimal_u32 r7 with
                | Some (o, r8) => match space1 r8 with
                  | Some r9 => parse_pairs (S (List.length r9)) d cl cf o r9
                  | None => None end
                | None => None end
              | None => None end
            | None => None end
          | None => None end
        | None => None end
      | None => None end
    | None => None end
  | None => None
  end.

Record func_info := mkFi { fi_name : bytes; fi_size : N; fi_lines : list sline; fi_inlinees : list inlinee }.

(* the body of a FUNC block; None = ParsingInline error *)
Fixpoint parse_body (ls : list bytes) : option (list sline * list inlinee) :=
  match ls with
  | [] => Some ([], [])
  | l :: r =>
      match parse_body r with
      | None => None
      | Some (sl, il) =>
          match starts_with t_INLINE_ORIGIN l with
          | Some _ => Some (sl, il)
          | None =>
              match starts_with t_INLINE l with
              | Some rest => match parse_inline rest with Some ins => Some (sl, ins ++ il) | None => None end
              | None => match parse_data_line l with Some x => Some (x :: sl, il) | None => Some (sl, il) end
              end
          end
      end
  end.

Definition parse_func (block : bytes) : option func_info :=
  let '(first, rest) := cut_line block in
  match func_line (strip_cr first) with
  | Some (_, size, name) =>
      match parse_body (block_lines (S (List.length rest)) rest) with
      | Some (sl, il) => Some (mkFi name size sl il)
      | None => None
      end
  | None => None
  end.

(* get_innermost_sourceloc on ascending line records: the last record with address <= addr *)
Fixpoint last_line_le (ls : list sline) (a : N) (best : option sline) : option sline :=
  match ls with
  | [] => best
  | x :: r => if sl_addr x <=? a then last_line_le r a (Some x) else last_line_le r a best
  end.

(* get_inlinee_at_depth: the greatest (depth, address) key <= (depth, addr); must have that depth and contain addr *)
Definition key_le (x : inlinee) (d a : N) : bool := (in_depth x <? d) || ((in_depth x =? d) && (in_addr x <=? a)).
Definition key_lt (x y : inlinee) : bool := (in_depth x <? in_depth y) || ((in_depth x =? in_depth y) && (in_addr x <? in_addr y)).
Fixpoint best_inlinee (l : list inlinee) (d a : N) (best : option inlinee) : option inlinee :=
  match l with
  | [] => best
  | x :: r =>
      if key_le x d a then
        match best with
        | Some b => if key_lt b x then best_inlinee r d a (Some x) else best_inlinee r d a best
        | None => best_inlinee r d a (Some x)
        end
      else best_inlinee r d a best
  end.
Definition inlinee_at_depth (l : list inlinee) (d a : N) : option inlinee :=
  match best_inlinee l d a None with
  | Some x => if (in_depth x =? d) && (in_addr x + in_size x <? 4294967296) && (a <? in_addr x + in_size x) then Some x else None
  | None => None
  end.

(* ItemCache::get_string: entry by index, read the line, parse it *)
Fixpoint find_f (l : list fentry) (idx : N) : option fentry :=
  match l with [] => None | x :: r => if f_index x =? idx then Some x else find_f r idx end.
Definition get_string (text : bytes) (tag : bytes) (l : list fentry) (idx : N) : option bytes :=
  match find_f l idx with
  | Some e => match sub text (f_off e) (f_len e) with
              | Some line => match idx_line tag line with Some (_, name) => Some name | None => None end
              | None => None end
  | None => None
  end.

Definition frame := (option bytes * option bytes * option N)%type.     (* function, file, line *)
Inductive lres :=
| LNone
| LSome (addr : N) (size : option N) (name : bytes) (frames : option (list frame))
| LPanic.

Fixpoint inline_frames (fuel : nat) (text : bytes) (ix : index) (fi : func_info) (a depth : N) (name : option bytes)
  : list frame * option bytes :=
  match fuel with
  | O => ([], name)
  | S f =>
      match inlinee_at_depth (fi_inlinees fi) depth a with
      | Some x =>
          let file := get_string text t_FILE (i_files ix) (in_call_file x) in
          let '(rest, nm) := inline_frames f text ix fi a (depth + 1) (get_string text t_INLINE_ORIGIN (i_origins ix) (in_origin x)) in
          ((name, file, Some (in_call_line x)) :: rest, nm)
      | None => ([], name)
      end
  end.

(* binary search in the sorted, unique address list: the last symbol with address <= a, and the next one *)
Fixpoint find_sym (l : list sentry) (a : N) (best : option sentry) : option sentry * option sentry :=
  match l with
  | [] => (best, None)
  | x :: r => if s_addr x <=? a then find_sym r a (Some x) else (best, Some x)
  end.

Definition lookup (text : bytes) (ix : index) (a : N) : lres :=
  match find_sym (i_symbols ix) a None with
  | (None, _) => LNone
  | (Some s, next) =>
      if s_kind s =? 0 then
        match sub text (s_off s) (s_len s) with
        | Some line =>
            match public_line line with
            | Some (_, name) =>
                LSome (s_addr s) (match next with Some n => Some (s_addr n - s_addr s) | None => None end) name None
            | None => LNone end
        | None => LNone end
      else
        match sub text (s_off s) (s_len s) with
        | Some block =>
            match parse_func block with
            | Some fi =>
                if N.min (s_addr s + fi_size fi) 4294967295 <=? a then LNone       (* symbol_address.saturating_add(info.size) *)
                else
                  let '(frames, nm) := inline_frames (S (List.length (fi_inlinees fi))) text ix fi a 0 (Some (fi_name fi)) in
                  let last :=
                    match last_line_le (fi_lines fi) a None with
                    | Some sl => (nm, get_string text t_FILE (i_files ix) (sl_file sl), Some (sl_line sl))
                    | None => (nm, None, None)
                    end in
                  LSome (s_addr s) (Some (fi_size fi)) (fi_name fi) (Some (rev (frames ++ [last])))
            | None => LNone end
        | None => LNone end
  end.
