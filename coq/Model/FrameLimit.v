(* Model of samply/src/shared/stack_depth_limiting_frame_iter.rs (should_elide_frames, the three-state iterator),
   pass 1 of stack_converter.rs (markers yield no frame; the optional extra first frame is emitted first and is
   not part of the length hint) and of the marker removal in process_sample_data.rs::flush_samples_to_profile
   (after the "fix: do not count truncated-stack markers ..." commit).  Definitions only. *)
From Coq Require Export List NArith Arith Bool.
From SV Require Import Generated.Consts.
Export ListNotations.

(* the const generic argument in `should_elide_frames::<200>(full_len)` *)
Definition limit_n : nat := N.to_nat c_frame_limit_n.

(* stack_depth_limiting_frame_iter.rs:14-21 *)
Definition should_elide (n full_len : nat) : option (nat * nat) :=
  if n + n + n / 2 <=? full_len then Some (n, (full_len - n - n / 2) / n * n) else None.

Inductive outf := Frame (x : N) | Placeholder (k : nat).

(* State BeforeElidedPiece { index, first_elided_frame = first, first_frame_after_elision = after }:
   replay of next() until the inner iterator is exhausted.  When the inner iterator runs dry inside the
   skip loop the `?` returns None before the frame just pulled has been handed out. *)
Fixpoint before (idx first after k : nat) (rest : list N) : list outf :=
  match rest with
  | [] => []
  | f :: rest' =>
      if S idx =? first then
        let need := after - S idx in
        if need <=? length rest' then Frame f :: Placeholder k :: map Frame (skipn need rest')
        else []
      else Frame f :: before (S idx) first after k rest'
  end.

(* StackDepthLimitingFrameIter::new + repeated next(), for an inner iterator that yields `fs` and whose size_hint is `hint` *)
Definition limit (n hint : nat) (fs : list N) : list outf :=
  match should_elide n hint with
  | Some (first, k) => before 0 first (first + k) k fs
  | None => map Frame fs
  end.

(* raw stack, root first: Some address | None = TruncatedStackMarker *)
Definition raw := list (option N).

Fixpoint drop_markers (r : raw) : list N :=
  match r with
  | [] => []
  | Some x :: r' => x :: drop_markers r'
  | None :: r' => drop_markers r'
  end.

(* what reaches the profile for one sample: `extra` is the optional per-CPU label frame *)
Definition convert (n : nat) (r : raw) (extra : option N) : list outf :=
  let fr := drop_markers r in
  limit n (length fr) (match extra with Some x => x :: fr | None => fr end).

Definition true_frames (r : raw) (extra : option N) : list N :=
  match extra with Some x => x :: drop_markers r | None => drop_markers r end.
