(* Model of the profile's category table (fxprof-processed-profile/src/category.rs InternalCategory / index_for_subcategory and
   profile.rs Profile::new / handle_for_category / handle_for_subcategory, and the IntoSubcategoryHandle impls of Category,
   CategoryHandle, Subcategory and SubcategoryHandle).  Category and subcategory names are string content ids, colours are numbered.
   Definitions only. *)
From SV Require Import Model.ProfileTables.
From Coq Require Import NArith.
Local Open Scope N_scope.

Record cat := mkCat { c_name : N; c_color : N; c_subs : list N }.       (* InternalCategory: name, color, subcategories *)

(* Equivalent<Category> for InternalCategory: the identity of a category is (name, color); its subcategory list takes no part *)
Definition cat_is (n c : N) (x : cat) : bool := (c_name x =? n) && (c_color x =? c).
Fixpoint find_cat (n c : N) (l : list cat) : option nat :=
  match l with [] => None | x :: r => if cat_is n c x then Some 0%nat else option_map S (find_cat n c r) end.

Fixpoint set_subs (l : list cat) (i : nat) (subs : list N) : list cat :=
  match l, i with
  | [], _ => []
  | x :: r, O => mkCat (c_name x) (c_color x) subs :: r
  | x :: r, S j => x :: set_subs r j subs
  end.

Section Categories.
  Variable other : N.          (* the content id of the string "Other" *)
  Variable gray : N.           (* the number of CategoryColor::Gray *)

  (* Profile::new: the table starts with the category Other (gray); InternalCategory::new: every category starts with the subcategory "Other" *)
  Definition cats_init : list cat := [mkCat other gray [other]].

  (* Profile::handle_for_category: look (name, color) up, append a fresh category when absent; the handle is the index *)
  Definition handle_for_category (l : list cat) (n c : N) : nat * list cat :=
    match find_cat n c l with Some i => (i, l) | None => (length l, l ++ [mkCat n c [other]]) end.

  (* Profile::handle_for_subcategory: categories.get_index_mut2(handle).unwrap(), then index_for_subcategory = insert_full(name).0 *)
  Definition handle_for_subcategory (l : list cat) (ci : nat) (s : N) : option ((nat * nat) * list cat) :=
    match nth_error l ci with
    | None => None
    | Some x => let '(si, subs) := intern N.eqb (c_subs x) s in Some ((ci, si), set_subs l ci subs)
    end.

  (* what callers do; every call yields a SubcategoryHandle (category index, subcategory index) *)
  Inductive cop :=
  | CCat (n c : N)                 (* handle_for_category(Category(n, c)) - also a Category value passed where a subcategory is expected; default subcategory *)
  | CSub (k : nat) (s : N)         (* handle_for_subcategory(the category handle the k-th call returned, s) *)
  | CSubVal (n c s : N).           (* a Subcategory(Category(n, c), s) value passed where a subcategory is expected *)

  Definition cstate := (list cat * list (nat * nat))%type.      (* the table, and the handles returned so far in call order *)
  Definition cstep (st : cstate) (o : cop) : option cstate :=
    let '(l, hs) := st in
    match o with
    | CCat n c => let '(i, l') := handle_for_category l n c in Some (l', hs ++ [(i, 0%nat)])
    | CSub k s =>
        match nth_error hs k with
        | None => None
        | Some h => match handle_for_subcategory l (fst h) s with Some (h', l') => Some (l', hs ++ [h']) | None => None end
        end
    | CSubVal n c s =>
        let '(i, l') := handle_for_category l n c in
        match handle_for_subcategory l' i s with Some (h', l'') => Some (l'', hs ++ [h']) | None => None end
    end.
  Fixpoint crun (st : cstate) (ops : list cop) : option cstate :=
    match ops with [] => Some st | o :: r => match cstep st o with Some st' => crun st' r | None => None end end.

  (* what each call names: (category name, colour, subcategory name) *)
  Definition name_of (names : list (N * N * N)) (o : cop) : N * N * N :=
    match o with
    | CCat n c => (n, c, other)
    | CSub k s => let '(n, c, _) := nth k names (0, 0, 0) in (n, c, s)
    | CSubVal n c s => (n, c, s)
    end.
  Definition names_of (ops : list cop) : list (N * N * N) := fold_left (fun nm o => nm ++ [name_of nm o]) ops [].

  (* the API's discipline: a handle is used after it was obtained *)
  Fixpoint cops_ok (done : nat) (ops : list cop) : Prop :=
    match ops with
    | [] => True
    | o :: r => match o with CSub k _ => (k < done)%nat | _ => True end /\ cops_ok (S done) r
    end.

  (* the (name, colour, subcategory name) a handle denotes in a table - what meta.categories[ci].subcategories[si] says *)
  Definition denotes (l : list cat) (h : nat * nat) (nm : N * N * N) : Prop :=
    exists x, nth_error l (fst h) = Some x /\ c_name x = fst (fst nm) /\ c_color x = snd (fst nm) /\ nth_error (c_subs x) (snd h) = Some (snd nm).
End Categories.
