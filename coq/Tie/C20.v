(* Verdict function for the C20 correspondence run. *)
From SV Require Import Generated.Consts Model.AsmDecode.
Open Scope N_scope.

Fixpoint oracle_get (l : list (N * dres)) (off : N) : dres :=
  match l with
  | [] => DExhausted 0
  | (o, r) :: rest => if o =? off then r else oracle_get rest off
  end.

Definition kind_eqb (a b : kind) : bool :=
  match a, b with KValid, KValid => true | KInvalid, KInvalid => true | _, _ => false end.

Fixpoint listed_eqb (a b : list (N * kind)) : bool :=
  match a, b with
  | [], [] => true
  | (o, k) :: a', (o', k') :: b' => (o =? o') && kind_eqb k k' && listed_eqb a' b'
  | _, _ => false
  end.

(* boolean form of Proofs.AsmDecodeProofs.chain *)
Fixpoint chainb (dec : N -> dres) (adj decode_len start : N) (l : list (N * kind)) : bool :=
  match l with
  | [] => true
  | (o, k) :: r =>
      let step := match k with KValid => match dec o with DOk len => len | _ => 0 end | KInvalid => adj end in
      (o =? start) && (start <? decode_len) && (0 <? step) &&
      (match k, dec start with KValid, DOk _ => true | KInvalid, DInvalid _ => true | _, _ => false end) &&
      chainb dec adj decode_len (start + step) r
  end.

(* where the listed chain ends: the offset after the last listed instruction *)
Fixpoint chain_end (dec : N -> dres) (adj start : N) (l : list (N * kind)) : N :=
  match l with
  | [] => start
  | (o, k) :: r =>
      let step := match k with KValid => match dec o with DOk len => len | _ => 0 end | KInvalid => adj end in
      chain_end dec adj (start + step) r
  end.
(* "a listing of the requested bytes": it ends only where the requested length is reached or the binary's bytes run out - not in front of an
   instruction (decodable or not) that starts inside the requested length *)
Definition complete (dec : N -> dres) (adj decode_len : N) (l : list (N * kind)) : bool :=
  let e := chain_end dec adj 0 l in
  (decode_len <=? e) || match dec e with DExhausted _ => true | _ => false end.

Definition oracle_ok (nbytes : N) (l : list (N * dres)) : bool :=
  forallb (fun '(o, r) => match r with
                          | DOk len => (0 <? len) && (o + len <=? nbytes)
                          | DInvalid c => 0 <? c
                          | DExhausted _ => true
                          end) l.

Definition has_invalid (l : list (N * kind)) : bool :=
  existsb (fun '(_, k) => kind_eqb k KInvalid) l.

(* response: None = the request failed (error JSON); Some (start, size, listed) otherwise.
   0 ok / 1 satisfies the property but differs from the model / 2 violates the property /
   3 not judged: request failed, decoder assumption violated, or the listing extends beyond the oracle window;
   +10 non-trivial: the listing contains an invalid instruction, or continuation extended the length, or alignment moved the start *)
Definition verdict (c : arch * N * N * bool * option N * N * N * list (N * dres) * option (N * N * list (N * kind))) : N :=
  let '(a, start, size, cont, fend, nbytes, window, oracle, resp) := c in
  let dec := oracle_get oracle in
  let dl := decode_len_of start size cont fend in
  match resp with
  | None => 3
  | Some (r_start, r_size, listed) =>
      (if has_invalid listed || negb (dl =? size) || negb (align_start a start =? start) then 10 else 0) +
      (if negb (oracle_ok nbytes oracle) || ((window <? nbytes) && (window <? dl + c_max_instr_len)) then 3
       else if (r_start =? align_start a start) && chainb dec (adjust a) dl 0 listed &&
               forallb (fun '(o, _) => o <? r_size) listed && complete dec (adjust a) dl listed
            then (match listing dec nbytes (adjust a) dl with
                  | Some (ml, ms) => if listed_eqb ml listed && (ms =? r_size) then 0 else 1
                  | None => 1
                  end)
            else 2)
  end.
