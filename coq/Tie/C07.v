(* Verdict function for the C07 correspondence run.
   case = (jobs, oracle table [(lib, loads?, [(address, direct lookup result)])], observed response). *)
From SV Require Import Model.Symbolicate.
Open Scope N_scope.

Definition on_eqb (a b : option N) : bool :=
  match a, b with Some x, Some y => x =? y | None, None => true | _, _ => false end.
Definition dframe_eqb (x y : dframe) : bool :=
  let '(a1, b1, c1) := x in let '(a2, b2, c2) := y in on_eqb a1 a2 && on_eqb b1 b2 && on_eqb c1 c2.
Fixpoint list_eqb {A} (e : A -> A -> bool) (x y : list A) : bool :=
  match x, y with [], [] => true | a :: x', b :: y' => e a b && list_eqb e x' y' | _, _ => false end.

(* JSON cannot distinguish an absent debug_info from one whose fields are all absent *)
Definition norm_debug (d : option debug_info) : option debug_info :=
  match d with
  | Some (mkDi None None []) => None
  | x => x
  end.
Definition debug_eqb (a b : option debug_info) : bool :=
  match norm_debug a, norm_debug b with
  | Some x, Some y => on_eqb (di_file x) (di_file y) && on_eqb (di_line x) (di_line y) && list_eqb dframe_eqb (di_inlines x) (di_inlines y)
  | None, None => true
  | _, _ => false
  end.
Definition symbol_eqb (a b : option symbol) : bool :=
  match a, b with
  | Some x, Some y => (sy_function x =? sy_function y) && (sy_offset x =? sy_offset y) && on_eqb (sy_size x) (sy_size y) && debug_eqb (sy_debug x) (sy_debug y)
  | None, None => true
  | _, _ => false
  end.
Definition rframe_eqb (a b : rframe) : bool :=
  (rf_index a =? rf_index b) && (rf_offset a =? rf_offset b) && (rf_module a =? rf_module b) && symbol_eqb (rf_symbol a) (rf_symbol b).

Definition oracle := list (lib * bool * list (N * option addr_info)).

Fixpoint o_find (o : oracle) (l : lib) : option (bool * list (N * option addr_info)) :=
  match o with [] => None | (k, b, t) :: r => if lib_eqb k l then Some (b, t) else o_find r l end.
Definition o_load (o : oracle) (l : lib) : bool := match o_find o l with Some (b, _) => b | None => false end.
Definition o_look (o : oracle) (l : lib) (a : N) : option addr_info :=
  match o_find o l with
  | Some (_, t) => (fix go (t : list (N * option addr_info)) := match t with [] => None | (k, v) :: r => if k =? a then v else go r end) t
  | None => None
  end.

Definition sane (o : oracle) : bool :=
  forallb (fun '(_, _, t) => forallb (fun '(a, v) => match v with
                                                       | Some ai => (ai_sym_addr ai <=? a) && match ai_frames ai with Some [] => false | _ => true end
                                                       | None => true end) t) o.

Inductive observed := OErr | OBad | OOk (r : list (list (list rframe) * list (lib * bool) * list lib)).   (* stacks, found_modules, module_errors keys *)

Definition mem_lib (l : lib) (ls : list lib) : bool := existsb (lib_eqb l) ls.

(* the property, on one observed job result *)
Definition chk_job (o : oracle) (j : job) (r : list (list rframe) * list (lib * bool) * list lib) : bool :=
  let '(st, found, errs) := r in
  list_eqb (list_eqb rframe_eqb) st
           (map (fun s => map (fun '(fi, fr) => spec_frame (o_load o) (o_look o) (memory_map j) fi fr) (index_from 0 s)) (stacks j)) &&
  forallb (fun '(l, b) => Bool.eqb b (o_load o l) && mem_lib l (memory_map j) && Bool.eqb (negb b) (mem_lib l errs)) found &&
  forallb (fun l => existsb (fun '(l', b) => lib_eqb l l' && negb b) found) errs &&
  forallb (forallb (fun '(idx, _) => match nth_error (memory_map j) (N.to_nat idx) with
                                     | Some l => existsb (fun '(l', _) => lib_eqb l l') found | None => false end)) (stacks j).

Fixpoint all2 {A B} (f : A -> B -> bool) (x : list A) (y : list B) : bool :=
  match x, y with [], [] => true | a :: x', b :: y' => f a b && all2 f x' y' | _, _ => false end.

Definition found_set_eqb (a b : list (lib * bool)) : bool :=
  forallb (fun '(l, v) => existsb (fun '(l', v') => lib_eqb l l' && Bool.eqb v v') b) a &&
  forallb (fun '(l, v) => existsb (fun '(l', v') => lib_eqb l l' && Bool.eqb v v') a) b.

(* 0 ok / 1 satisfies the property, differs from the model (found_modules set) / 2 violates the property / 3 oracle not sane;
   +10 non-trivial: more than one job or a repeated / failing module, and at least one frame with debug info *)
Definition verdict (c : list job * oracle * observed) : N :=
  let '(js, o, ob) := c in
  let m := query (o_load o) (o_look o) js in
  (if ((1 <? N.of_nat (length js)) || existsb (fun '(_, b, _) => negb b) o) &&
      existsb (fun '(_, _, t) => existsb (fun '(_, v) => match v with Some ai => match ai_frames ai with Some _ => true | None => false end | None => false end) t) o
   then 10 else 0) +
  (if negb (sane o) then 3
   else if negb (forallb indices_ok js) then (match ob with OErr => 0 | _ => 2 end)
   else match ob with
        | OOk rs =>
            if all2 (chk_job o) js rs then
              (match m with
               | ROk mrs => if all2 (fun mr r => found_set_eqb (jr_found mr) (snd (fst r))) mrs rs then 0 else 1
               | _ => 1 end)
            else 2
        | _ => 2
        end).
