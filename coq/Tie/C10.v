(* Verdict function for the C10 correspondence run.
   case = (.sym text, index bytes produced by the implementation (None = error), EQ, RT, LKEQ flags, lookups (address, observed result)). *)
From SV Require Import Lib.Bytes Model.LineBuffer Model.BreakpadIndex Model.BreakpadIndexParse Model.BreakpadLookup Spec.BreakpadText.
Open Scope N_scope.

Definition obytes_eqb (a b : option bytes) : bool :=
  match a, b with Some x, Some y => bytes_eqb x y | None, None => true | _, _ => false end.
Definition on_eqb (a b : option N) : bool :=
  match a, b with Some x, Some y => x =? y | None, None => true | _, _ => false end.
Definition frame_eqb (x y : frame) : bool :=
  let '(f1, p1, l1) := x in let '(f2, p2, l2) := y in obytes_eqb f1 f2 && obytes_eqb p1 p2 && on_eqb l1 l2.
Fixpoint frames_eqb (a b : list frame) : bool :=
  match a, b with [], [] => true | x :: a', y :: b' => frame_eqb x y && frames_eqb a' b' | _, _ => false end.
Definition lres_eqb (a b : lres) : bool :=
  match a, b with
  | LNone, LNone => true
  | LPanic, LPanic => true
  | LSome a1 s1 n1 f1, LSome a2 s2 n2 f2 =>
      (a1 =? a2) && on_eqb s1 s2 && bytes_eqb n1 n2 &&
      match f1, f2 with Some x, Some y => frames_eqb x y | None, None => true | _, _ => false end
  | _, _ => false
  end.

(* 0 ok / 1 lookups differ from the model on a file outside the well-formedness hypothesis / 2 property violated:
   chunk dependence, round-trip failure, stored-index vs self-index disagreement, or (well-formed file) disagreement with the text /
   3 outside the hypothesis and in agreement with the model / 4 only the index bytes differ from the model's;
   +10 non-trivial: well-formed file with at least one FUNC that has an inline record and a lookup that returns frames *)
Definition verdict (c : bytes * option bytes * bool * bool * bool * list (N * lres)) : N :=
  let '(text, idx_bytes, eq, rt, lkeq, lookups) := c in
  let lines := fst (split_lines text) in
  let rs := match lines with [] => [] | _ :: ls => map (fun x => classify (snd x)) ls end in     (* = records text *)
  let mi := index_of_text text in
  let wf := wf_records (match lines with (_, first) :: _ => Some first | [] => None end) rs in
  (* duplicate symbol addresses / indices: which duplicate survives sort_unstable + dedup is unspecified, so such files are not compared *)
  let ambiguous := negb (distinctb (map sym_addr (syms_of rs))) ||
                   negb (distinctb (flat_map (fun r => match r with RFile i _ => [i] | _ => [] end) rs)) ||
                   negb (distinctb (flat_map (fun r => match r with ROrigin i _ => [i] | _ => [] end) rs)) in
  let model_ok := ambiguous || forallb (fun '(a, r) => match mi with Some ix => lres_eqb (lookup text ix a) r | None => true end) lookups in
  let text_ok := forallb (fun '(a, r) => lres_eqb (text_lookup_rs rs a) r) lookups in
  let bytes_ok := match mi, idx_bytes with
                  | Some ix, Some b => bytes_eqb (serialize ix) b
                  | None, None => true
                  | _, _ => false end in
  (* the model of parse_symindex_file reads the implementation's index bytes back into tables that serialize to the same bytes *)
  let parse_ok := match idx_bytes with
                  | Some b => match parse_symindex b with Some p => bytes_eqb (serialize p) b | None => false end
                  | None => true end in
  (if wf && existsb (fun '(_, r) => match r with LSome _ _ _ (Some (_ :: _ :: _)) => true | _ => false end) lookups then 10 else 0) +
  (if negb eq || negb rt || negb lkeq then 2
   else if negb parse_ok then 1
   else if wf then (if text_ok then (if model_ok then (if bytes_ok then 0 else 4) else 1) else 2)
   else (if model_ok then (if bytes_ok || ambiguous then 3 else 4) else 1)).

(* mutated .symindex files: the model of parse_symindex_file and the implementation agree on acceptance, and on the tables read
   (compared through their canonical re-serialization).  The model covers the tables, not the MODULE line inside the module-info
   text, so an implementation error of that kind on a file the model accepts is not a difference. *)
Definition verdict_idx (c : bytes * option bytes * bool) : N :=
  let '(b, obs, module_line_error) := c in
  match parse_symindex b, obs with
  | None, None => if module_line_error then 1 else 0
  | None, Some _ => 1
  | Some p, Some ob => if bytes_eqb (serialize p) ob then 0 else 1
  | Some _, None => if module_line_error then 0 else 1
  end.
