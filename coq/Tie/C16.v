(* Verdict function for the C16 correspondence run: replays an observed trace of the real create_file_cleanly in the model
   (conformance: each reported step is the step the model takes, and dest / dest.part / dest.lock look as the model says) and
   decides the property on the observations themselves. *)
From SV Require Import Model.FileCreation.
From Coq Require Import NArith.

Inductive tev := TRun (c label : nat) | TKill (cs : list nat) | TStuck (cs : list nat).
Definition obs := (option (list chunk) * option (list chunk) * bool)%type.

Definition plan_of (ps : list (nat * (nat * bool))) (c : nat) : nat * bool :=
  match find (fun x => Nat.eqb (fst x) c) ps with Some (_, p) => p | None => (0, false) end.

Definition chunk_eqb (a b : chunk) : bool := Nat.eqb (fst a) (fst b) && Nat.eqb (snd a) (snd b).
Fixpoint content_eqb (a b : list chunk) : bool :=
  match a, b with [], [] => true | x :: a', y :: b' => chunk_eqb x y && content_eqb a' b' | _, _ => false end.
Definition ocontent_eqb (a b : option (list chunk)) : bool :=
  match a, b with None, None => true | Some x, Some y => content_eqb x y | _, _ => false end.

Definition is_complete (ps : list (nat * (nat * bool))) (l : list chunk) : bool :=
  existsb (fun x => snd (snd x) && content_eqb l (chunks_of (fst x) (fst (snd x)))) ps.

(* the label the hook reports for a transition *)
Definition label (p q : pc) : nat :=
  match p, q with
  | Idle, WaitLock _ => 0
  | WaitLock _, Locked _ => 1
  | Locked _, Checked _ => 2
  | Locked _, ExLocked _ => 3
  | Checked _, Writing _ _ _ => 4
  | Writing _ _ _, Writing _ _ _ => 5
  | Writing _ _ _, Written _ => 6
  | Writing _ _ _, WFailed _ => 7
  | Written _, Renamed _ => 8
  | Written _, WFailed _ => 9
  | WFailed _, WFailed2 _ => 10
  | WFailed2 _, Done RFailed => 11
  | Renamed _, SuccUnlocked => 12
  | SuccUnlocked, Done RWritten => 13
  | ExLocked _, ExUnlocked => 14
  | ExUnlocked, ExHandling => 15
  | ExHandling, Done RExisting => 16
  | _, _ => 99
  end.

Definition obs_of (s : st) : obs :=
  (option_map (content s) (dest s), option_map (content s) (part s), match lockp s with Some _ => true | None => false end).
Definition obs_eqb (a b : obs) : bool :=
  let '(d1, p1, l1) := a in let '(d2, p2, l2) := b in ocontent_eqb d1 d2 && ocontent_eqb p1 p2 && Bool.eqb l1 l2.

Record acc := mkAcc { conform : bool; prop_ok : bool; nontriv : bool; first_dest : option (list chunk); written : nat; retry_ok : bool }.

Definition active (p : pc) : bool := negb (quiescent p).
Definition others_active (s : st) (ids : list nat) (c : nat) : bool :=
  existsb (fun k => negb (Nat.eqb k c) && active (procs s k)) ids.

Definition check_obs (ps : list (nat * (nat * bool))) (a : acc) (o : obs) : acc :=
  let '(d, _, _) := o in
  match d with
  | None => match first_dest a with
            | None => a
            | Some _ => mkAcc (conform a) false (nontriv a) (first_dest a) (written a) (retry_ok a)      (* the destination vanished *)
            end
  | Some l =>
      let ok := is_complete ps l && match first_dest a with None => true | Some l0 => content_eqb l0 l end in
      mkAcc (conform a) (prop_ok a && ok) (nontriv a) (match first_dest a with None => Some l | x => x end) (written a) (retry_ok a)
  end.

Definition dest_complete_now (ps : list (nat * (nat * bool))) (o : obs) : bool :=
  match o with (Some l, _, _) => is_complete ps l | _ => false end.

Definition retry_id := 99.

Fixpoint replay (ps : list (nat * (nat * bool))) (ids : list nat) (tr : list (tev * obs)) (s : st) (a : acc) : acc :=
  match tr with
  | [] => a
  | (e, o) :: rest =>
      let plan := plan_of ps in
      let '(s', a1) :=
        match e with
        | TRun c 17 =>
            (s, mkAcc (conform a && match procs s c with Done RWritten => true | _ => false end)
                      (prop_ok a && dest_complete_now ps o && Nat.eqb (written a) 0) (nontriv a) (first_dest a) (S (written a))
                      (retry_ok a || Nat.eqb c retry_id))
        | TRun c 18 =>
            (s, mkAcc (conform a && match procs s c with Done RFailed => true | _ => false end) (prop_ok a) (nontriv a) (first_dest a) (written a) (retry_ok a))
        | TRun c lab =>
            let s' := step plan s (if Nat.eqb lab 9 then RunRenameFail c else Run c) in
            let contention := match procs s c, procs s' c with
                              | Idle, WaitLock li => match holder s' li with Some _ => true | None => false end
                              | Writing _ _ _, WFailed _ => others_active s ids c
                              | _, _ => false
                              end in
            (s', mkAcc (conform a && Nat.eqb (label (procs s c) (procs s' c)) lab)
                       (prop_ok a && (if Nat.eqb lab 16 then dest_complete_now ps o else true))
                       (nontriv a || contention) (first_dest a) (written a)
                       (retry_ok a || (Nat.eqb lab 16 && Nat.eqb c retry_id)))
        | TKill cs =>
            let s' := fold_left (fun x c => step plan x (Kill c)) cs s in
            (s', mkAcc (conform a) (prop_ok a) (nontriv a || existsb (fun k => active (procs s' k)) ids) (first_dest a) (written a) (retry_ok a))
        | TStuck _ => (s, mkAcc (conform a) false (nontriv a) (first_dest a) (written a) (retry_ok a))
        end in
      let a2 := check_obs ps (mkAcc (conform a1 && obs_eqb (obs_of s') o) (prop_ok a1) (nontriv a1) (first_dest a1) (written a1) (retry_ok a1)) o in
      replay ps ids rest s' a2
  end.

(* 0 ok / 1 the trace is not a run of the model / 2 the property fails on the observations; +10 non-trivial *)
Definition verdict (x : list (nat * (nat * bool)) * list (tev * obs)) : N :=
  let '(ps, tr) := x in
  let a := replay ps (map fst ps) tr init (mkAcc true true false None 0 false) in
  ((if nontriv a then 10 else 0) +
   (if negb (prop_ok a && retry_ok a) then 2 else if conform a then 0 else 1))%N.

(* a caller of create_file_cleanly end to end (wholesym writing a derived .symindex file): what is at the final path after a first attempt whose
   writes may fail, and after a retry without failures.  0 = nothing, 1 = the complete contents, 2 = anything else.
   The property: never anything else at the final path; a failed attempt does not keep the retry from succeeding. *)
Definition verdict_caller (x : N * N * bool) : N :=
  let '(first, retry, ok2) := x in
  (10 + (if (first =? 2) || negb (retry =? 1) || negb ok2 then 2 else 0))%N.
