(* Verdict function for the C04 correspondence run.
   case = (history, observed serialized rows (delta_ns, stack, weight, cpu), bad?) where bad = panic, negative /
   non-finite delta, or columns of unequal length.
   chk: reading the rows back (running sums of the deltas) gives a permutation of the history's effective entries.
   (Nondecreasing times and non-negative deltas are forced by the representation: deltas are naturals.) *)
From SV Require Import Model.SampleTable Spec.SampleTableSpec.
Open Scope N_scope.

Definition entry_eqb (a b : entry) : bool :=
  (e_t a =? e_t b) && (e_stack a =? e_stack b) && (e_cpu a =? e_cpu b) && (e_w a =? e_w b)%Z.

Fixpoint remove_first (e : entry) (l : list entry) : option (list entry) :=
  match l with
  | [] => None
  | x :: r => if entry_eqb e x then Some r
              else match remove_first e r with Some r' => Some (x :: r') | None => None end
  end.

Fixpoint permb (a b : list entry) : bool :=
  match a with
  | [] => match b with [] => true | _ => false end
  | e :: r => match remove_first e b with Some b' => permb r b' | None => false end
  end.

Definition row_eqb (x y : row) : bool :=
  let '(d, s, w, c) := x in let '(d', s', w', c') := y in
  (d =? d') && (s =? s') && (w =? w')%Z && (c =? c').

Fixpoint rows_eqb (x y : list row) : bool :=
  match x, y with
  | [], [] => true
  | a :: x', b :: y' => row_eqb a b && rows_eqb x' y'
  | _, _ => false
  end.

Definition chk (ops : list op) (rows : list row) : bool :=
  match effective ops with
  | Some eff => permb (rows_to_entries 0 rows) eff
  | None => false
  end.

Fixpoint has_merge_into (lz : bool) (ops : list op) : bool :=
  match ops with
  | [] => false
  | OAdd _ _ c _ :: r => has_merge_into (c =? 0) r
  | OMerge _ _ :: r => lz || has_merge_into true r
  end.

(* 0 ok / 2 property violated / 4 satisfies the property, raw row order differs from the model (ties; recorded only)
   +10 non-trivial: the table ended up unsorted in memory (out-of-order history) or a merge extended an entry *)
Definition verdict (c : list op * list row * bool) : N :=
  let '(ops, rows, bad) := c in
  let tb := tbl (th_run ops) in
  (if negb (sorted_flag tb) || has_merge_into false ops then 10 else 0) +
  (if bad || negb (chk ops rows) then 2
   else if rows_eqb rows (fst (serialize tb)) then 0 else 4).
