(* Verdict function for the C02 correspondence run (flush level).
   case = (queued mapping ops with timestamps, samples (timestamp, frames root first), observed resolved stacks, panicked?). *)
From SV Require Import Model.LibMappings Spec.LibMappingsSpec Model.Attribution Spec.AttributionSpec.
Open Scope N_scope.

Definition rframe_eqb (a b : rframe) : bool :=
  match a, b with
  | RInLib l r, RInLib l' r' => (l =? l') && (r =? r')
  | RRaw x, RRaw y => x =? y
  | RPanic, RPanic => true
  | _, _ => false
  end.

Fixpoint list_eqb {A} (eqb : A -> A -> bool) (x y : list A) : bool :=
  match x, y with
  | [], [] => true
  | a :: x', b :: y' => eqb a b && list_eqb eqb x' y'
  | _, _ => false
  end.

Definition stacks_eqb := list_eqb (list_eqb rframe_eqb).

Definition is_rpanic (r : rframe) : bool := match r with RPanic => true | _ => false end.
Definition is_inlib (r : rframe) : bool := match r with RInLib _ _ => true | _ => false end.

(* 0 ok / 1 differs from the model / 2 contradicts the specification / 3 outside the hypotheses (and agrees with the model);
   +10 non-trivial: some frame resolves into a library and some mapping op is timestamped at or after some sample *)
Definition verdict (c : list (N * qop) * list (N * list sframe) * list (list rframe) * bool) : N :=
  let '(q, samples, observed, panicked) := c in
  let sp := spec_flush q samples in
  let md := flush [] q samples in
  let in_hyp := forallb wf_qopb q && sorted_fromb 0 (map fst q) && sorted_fromb 0 (map fst samples)
                && negb (existsb (existsb is_rpanic) sp) in
  let model_ok := if existsb (existsb is_rpanic) md then panicked else negb panicked && stacks_eqb md observed in
  (if existsb (existsb is_inlib) sp &&
      existsb (fun '(t', _) => existsb (fun '(t, _) => t <=? t') samples) q then 10 else 0) +
  (if in_hyp then
     (if negb panicked && stacks_eqb sp observed then (if model_ok then 0 else 1) else 2)
   else (if model_ok then 3 else 1)).
