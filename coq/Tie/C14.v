(* Verdict function for the C14 correspondence run.
   A case is a list of samples flushed together; each sample = (extra label frame?, raw stack as segments, observed output as segments).
   chk_sample is the property text with its literals (500 / 200 / 100..300 / 501):
     depth < 500  -> unchanged;  depth > 500 -> 200 root frames ++ [placeholder k] ++ leaf (a suffix), 100 <= |leaf| <= 300,
     200 + k + |leaf| = depth;  depth = 500 -> either (an extra label frame is not part of the length hint);  output depth <= 501. *)
From SV Require Import Model.FrameLimit.
From Coq Require Import NArith.

Definition extra_id : N := 18446744073709551616%N.   (* 2^64: cannot collide with an address *)

Inductive seg := Seg (count start step : N) | Mark.
Inductive oseg := ORun (start count step : N) | OE (k : N) | OX | OBad.

Fixpoint arith (count : nat) (start step : N) : list N :=
  match count with O => [] | S c => start :: arith c (start + step)%N step end.

Fixpoint expand_raw (l : list seg) : raw :=
  match l with
  | [] => []
  | Seg c s st :: r => map Some (arith (N.to_nat c) s st) ++ expand_raw r
  | Mark :: r => None :: expand_raw r
  end.

Fixpoint expand_obs (l : list oseg) : option (list outf) :=
  match l with
  | [] => Some []
  | OBad :: _ => None
  | x :: r =>
      match expand_obs r with
      | None => None
      | Some t =>
          Some (match x with
                | ORun s c st => map Frame (arith (N.to_nat c) s st) ++ t
                | OE k => Placeholder (N.to_nat k) :: t
                | OX => Frame extra_id :: t
                | OBad => t
                end)
      end
  end.

Definition outf_eqb (a b : outf) : bool :=
  match a, b with
  | Frame x, Frame y => N.eqb x y
  | Placeholder j, Placeholder k => Nat.eqb j k
  | _, _ => false
  end.

Fixpoint outs_eqb (a b : list outf) : bool :=
  match a, b with
  | [], [] => true
  | x :: a', y :: b' => outf_eqb x y && outs_eqb a' b'
  | _, _ => false
  end.

(* split at the first placeholder *)
Fixpoint split_ph (l : list outf) : option (list outf * nat * list outf) :=
  match l with
  | [] => None
  | Placeholder k :: r => Some ([], k, r)
  | Frame x :: r => match split_ph r with Some (a, k, b) => Some (Frame x :: a, k, b) | None => None end
  end.

Definition chk_sample (fs : list N) (out : list outf) : bool :=
  let L := length fs in
  let unchanged := outs_eqb out (map Frame fs) in
  let elided :=
    match split_ph out with
    | Some (pre, k, post) =>
        outs_eqb pre (map Frame (firstn 200 fs)) && outs_eqb post (map Frame (skipn (200 + k) fs)) &&
        (0 <? k) && (100 <=? length post) && (length post <=? 300) && (200 + k + length post =? L)
    | None => false
    end in
  (length out <=? 501) && (if L <? 500 then unchanged else if 500 <? L then elided else unchanged || elided).

Definition sample := (bool * list seg * list oseg)%type.

Definition sample_verdict (s : sample) : N :=
  let '(extra, segs, obs) := s in
  let r := expand_raw segs in
  let ex := if extra then Some extra_id else None in
  let fs := true_frames r ex in
  match expand_obs obs with
  | None => 2%N
  | Some out =>
      if chk_sample fs out then (if outs_eqb out (convert limit_n r ex) then 0%N else 1%N) else 2%N
  end.

(* 0 ok / 1 satisfies the property but differs from the model / 2 violates the property; +10 non-trivial: some sample is deep (>= 500 frames) *)
Definition verdict (c : list sample) : N :=
  let vs := map sample_verdict c in
  ((if existsb (fun s : sample => let '(extra, segs, _) := s in Nat.leb 500 (length (drop_markers (expand_raw segs)))) c then 10 else 0) +
   (if existsb (N.eqb 2) vs then 2 else if existsb (N.eqb 1) vs then 1 else 0))%N.
