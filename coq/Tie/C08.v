(* Verdict function for the CodeId::from_str stream of the C08 correspondence run: case = (UTF-8 bytes, observed outcome). *)
From SV Require Import Lib.Bytes Model.CodeIdStr.
Open Scope N_scope.

Fixpoint ns_eqb (a b : list N) : bool :=
  match a, b with [], [] => true | x :: a', y :: b' => (x =? y) && ns_eqb a' b' | _, _ => false end.

Definition code_id_eqb (a b : code_id) : bool :=
  match a, b with
  | CPe t z, CPe t' z' => (t =? t') && (z =? z')
  | CUuid x, CUuid y => ns_eqb x y
  | CElf x, CElf y => ns_eqb x y
  | CErr, CErr => true
  | CPanic, CPanic => true
  | _, _ => false
  end.

(* 0 ok / 1 differs from the model without panicking / 2 the implementation panicked; +10 non-trivial: the text contains a multi-byte character *)
Definition verdict (c : bytes * code_id) : N :=
  let '(s, ob) := c in
  (if existsb (fun b => 128 <=? b) s then 10 else 0) +
  (if is_cpanic ob then 2 else if code_id_eqb (code_id_from_str s) ob then 0 else 1).
