(* Verdict function for the C03 correspondence run: the API calls that were made and the tables of the serialized profile. *)
From SV Require Import Model.ProfileTables Model.FrameTables Model.MarkerTable Model.Categories.
Open Scope N_scope.

Definition othread := ((N * N) * (N * N) * bool * thread_json * list stack_key * list (N * option nat) * list (option nat))%type.
   (* pid string, tid string, isMainThread, tables, stack table, samples (time, stack), marker stacks *)

(* observed per-thread tables: stringArray (content ids), resourceTable.lib / name, funcTable.name / resource, frameTable.func / address / nativeSymbol,
   nativeSymbols.libIndex / address / name *)
Definition otables := (list N * list nat * list nat * list nat * list (option nat) * list nat * list (option N) * list (option nat) * list nat * list N * list nat *
                        (list (option nat) * list (option N) * list (option N) * list N) * (list nat * list nat) * (list bool * list bool))%type.
   (* ... and funcTable.fileName, frameTable.line / column / inlineDepth; frameTable.category / subcategory; funcTable.isJS / relevantForJS *)

Record c03case := mkCase {
  cp_procs : list (N * N);                                   (* pid, start *)
  cp_threads : list (nat * N * N * bool * option N);         (* process handle, tid, start, main, name *)
  cp_samples : list (nat * N * list nat);                    (* thread handle, time, frames root first (content ids) *)
  cp_mstacks : list (nat * list nat);                        (* thread handle, frames of a marker stack *)
  cp_visible : list nat; cp_selected : list nat; cp_counters : list nat;
  ob_threads : list othread;
  ob_visible : list nat; ob_selected : list nat;
  ob_counters : list (nat * (N * N));                        (* mainThreadIndex, pid string *)
  cp_reqs : list (nat * freq);                               (* thread handle, request - in call order; FNative carries the library HANDLE *)
  ob_libs : list nat;                                        (* library handles in the order of the JSON libs array *)
  ob_tables : list otables;                                  (* per JSON thread *)
  cp_mops : list (option nat * N * mop);                     (* in call order: (None, 0, MReg schema) | (Some thread handle, name, MAdd type values) *)
  ob_markers : list (list (N * list N));                     (* per JSON thread: per marker (name, field values in schema order) *)
  cp_other : N; cp_gray : N;                                 (* content id of the string "Other", number of the colour gray *)
  cp_cops : list cop;                                        (* category / subcategory requests in call order (by handle and by value) *)
  cp_req_sc : list (option nat);                             (* per request of cp_reqs: the subcategory handle it was given - None = CategoryHandle::OTHER, Some j = what the j-th cp_cops call returned *)
  ob_cats : list (N * N * list N);                           (* meta.categories: name, colour, subcategories *)
  cp_mcats : list (nat * option nat);                        (* per add_marker call: thread handle, the category of the marker's schema (None = Other, Some j = what the j-th cp_cops call returned) *)
  ob_mcats : list (list nat);                                (* per JSON thread: markers.category *)
  cp_req_fl : list N;                                        (* per request of cp_reqs: the frame flags it was given (bit 0 IS_JS, bit 1 IS_RELEVANT_FOR_JS) *)
  cp_allocs : list (nat * N * list nat);                     (* add_allocation_sample: thread handle, time, frames root first (content ids) *)
  ob_allocs : list (list (N * option nat)) }.                (* per JSON thread: nativeAllocations (time, stack); [] when the table is absent *)

Fixpoint listnat_eqb (a b : list nat) : bool :=
  match a, b with [], [] => true | x :: a', y :: b' => Nat.eqb x y && listnat_eqb a' b' | _, _ => false end.

Fixpoint listN_eqb (a b : list N) : bool :=
  match a, b with [], [] => true | x :: a', y :: b' => (x =? y) && listN_eqb a' b' | _, _ => false end.
Fixpoint liston_eqb (a b : list (option nat)) : bool :=
  match a, b with
  | [], [] => true
  | None :: a', None :: b' => liston_eqb a' b'
  | Some x :: a', Some y :: b' => Nat.eqb x y && liston_eqb a' b'
  | _, _ => false end.
Fixpoint listoN_eqb (a b : list (option N)) : bool :=
  match a, b with
  | [], [] => true
  | None :: a', None :: b' => listoN_eqb a' b'
  | Some x :: a', Some y :: b' => (x =? y) && listoN_eqb a' b'
  | _, _ => false end.

(* GlobalLibTable::index_for_used_lib: libraries are numbered in the order of their first use by any thread *)
Definition used_libs (reqs : list (nat * freq)) : list nat :=
  fold_left (fun u r => match snd r with
                        | FNative lib _ _ _ => snd (intern Nat.eqb u lib) | FNativeSym lib _ _ _ _ => snd (intern Nat.eqb u lib)
                        | FNs lib _ _ => snd (intern Nat.eqb u lib)
                        | FSymbolicated (Some (lib, _)) _ _ _ _ _ _ _ _ _ => snd (intern Nat.eqb u lib)
                        | _ => u end) reqs [].
Definition translate (used : list nat) (r : freq) : freq :=
  match r with
  | FNative lib rel h n => FNative (match index_of Nat.eqb lib used with Some i => i | None => 0%nat end) rel h n
  | FNativeSym lib rel a sn n => FNativeSym (match index_of Nat.eqb lib used with Some i => i | None => 0%nat end) rel a sn n
  | FNs lib a sn => FNs (match index_of Nat.eqb lib used with Some i => i | None => 0%nat end) a sn
  | FSymbolicated addr hx nslib nsaddr nm fl ln cl d ln2 =>
      FSymbolicated (option_map (fun x => (match index_of Nat.eqb (fst x) used with Some i => i | None => 0%nat end, snd x)) addr) hx
                    (match index_of Nat.eqb nslib used with Some i => i | None => 0%nat end) nsaddr nm fl ln cl d ln2
  | x => x
  end.
Definition model_tables (reqs : list (nat * freq * (nat * nat * N))) (h : nat) : otables :=
  let used := used_libs (map fst reqs) in
  let t := run_reqs (map (fun r => (translate used (snd (fst r)), snd r)) (filter (fun r => Nat.eqb (fst (fst r)) h) reqs)) in
  (tt_strings t, tt_res_lib t, tt_res_name t, map fu_name (tt_funcs t), tt_func_res t, tt_frame_func t, map (fun k => option_map ni_rel (fk_native k)) (tt_frames t),
   map (fun k => match fk_native k with Some ni => ni_ns ni | None => None end) (tt_frames t), map fst (tt_ns t), map snd (tt_ns t), tt_ns_name t,
   (map fu_file (tt_funcs t), map fk_line (tt_frames t), map fk_col (tt_frames t), map (fun k => match fk_native k with Some ni => ni_depth ni | None => 0 end) (tt_frames t)),
   (map (fun k => fst (fk_sub k)) (tt_frames t), map (fun k => snd (fk_sub k)) (tt_frames t)),
   (map (fun k => N.testbit (fu_flags k) 0) (tt_funcs t), map (fun k => N.testbit (fu_flags k) 1) (tt_funcs t))).
Fixpoint listbool_eqb (a b : list bool) : bool :=
  match a, b with [], [] => true | x :: a', y :: b' => Bool.eqb x y && listbool_eqb a' b' | _, _ => false end.
Definition otables_eqb (a b : otables) : bool :=
  let '(s1, rl1, rn1, fn1, fr1, ff1, fa1, fs1, nl1, na1, nn1, (fl1, ln1, cl1, dp1), (ca1, sb1), (js1, rj1)) := a in
  let '(s2, rl2, rn2, fn2, fr2, ff2, fa2, fs2, nl2, na2, nn2, (fl2, ln2, cl2, dp2), (ca2, sb2), (js2, rj2)) := b in
  listN_eqb s1 s2 && listnat_eqb rl1 rl2 && listnat_eqb rn1 rn2 && listnat_eqb fn1 fn2 && liston_eqb fr1 fr2 && listnat_eqb ff1 ff2 && listoN_eqb fa1 fa2 &&
  liston_eqb fs1 fs2 && listnat_eqb nl1 nl2 && listN_eqb na1 na2 && listnat_eqb nn1 nn2 &&
  liston_eqb fl1 fl2 && listoN_eqb ln1 ln2 && listoN_eqb cl1 cl2 && listN_eqb dp1 dp2 && listnat_eqb ca1 ca2 && listnat_eqb sb1 sb2 && listbool_eqb js1 js2 && listbool_eqb rj1 rj2.

(* markers of thread h as the model stores and serializes them: every registration, and this thread's add_marker calls *)
Definition model_markers (mops : list (option nat * N * mop)) (h : nat) : option (list (N * list N)) :=
  let mine := filter (fun x => match fst (fst x) with None => true | Some t => Nat.eqb t h end) mops in
  let names := flat_map (fun x => match fst (fst x) with None => [] | Some _ => [snd (fst x)] end) mine in
  match mrun m_init (map snd mine) with
  | Some s => match serialize_markers s with Some d => Some (combine names d) | None => None end
  | None => None
  end.
Fixpoint markers_eqb (a b : list (N * list N)) : bool :=
  match a, b with
  | [], [] => true
  | (n1, v1) :: a', (n2, v2) :: b' => (n1 =? n2) && listN_eqb v1 v2 && markers_eqb a' b'
  | _, _ => false
  end.

Definition id_eqb (a b : N * N) : bool := (fst a =? fst b) && (snd a =? snd b).
Definition ot_pid (o : othread) := let '(p, _, _, _, _, _, _) := o in p.
Definition ot_tid (o : othread) := let '(_, t, _, _, _, _, _) := o in t.
Definition ot_main (o : othread) := let '(_, _, m, _, _, _, _) := o in m.
Definition ot_json (o : othread) := let '(_, _, _, j, _, _, _) := o in j.
Definition ot_stacks (o : othread) := let '(_, _, _, _, s, _, _) := o in s.
Definition ot_samples (o : othread) := let '(_, _, _, _, _, s, _) := o in s.
Definition ot_mstacks (o : othread) := let '(_, _, _, _, _, _, s) := o in s.

Fixpoint nodup_ids (l : list (N * N)) : bool :=
  match l with [] => true | x :: r => negb (existsb (id_eqb x) r) && nodup_ids r end.
(* the observed thread carrying a given tid string *)
Definition find_thread (os : list othread) (tid : N * N) : option (nat * othread) :=
  find (fun x => id_eqb (ot_tid (snd x)) tid) (combine (seq 0 (length os)) os).

(* threads of one process are adjacent, and a main thread, if the block has one, comes first *)
Fixpoint blocks_ok (prev : option (N * N)) (seen : list (N * N)) (nonmain_seen : bool) (os : list othread) : bool :=
  match os with
  | [] => true
  | o :: r =>
      let p := ot_pid o in
      match prev with
      | Some q => if id_eqb p q
                  then (if ot_main o then negb nonmain_seen else true) && blocks_ok prev seen (nonmain_seen || negb (ot_main o)) r
                  else negb (existsb (id_eqb p) seen) && blocks_ok (Some p) (p :: seen) (negb (ot_main o)) r
      | None => blocks_ok (Some p) (p :: seen) (negb (ot_main o)) r
      end
  end.

(* the category table the model ends with, against meta.categories *)
Fixpoint cats_eqb (a : list cat) (b : list (N * N * list N)) : bool :=
  match a, b with
  | [], [] => true
  | x :: a', (n, c, subs) :: b' => (c_name x =? n) && (c_color x =? c) && listN_eqb (c_subs x) subs && cats_eqb a' b'
  | _, _ => false
  end.
(* every (category, subcategory) stored in a frame row exists in meta.categories *)
Definition subs_in_range (cats : list (N * N * list N)) (o : otables) : bool :=
  let '(_, _, _, _, _, _, _, _, _, _, _, _, (ca, sb), _) := o in
  Nat.eqb (length ca) (length sb) &&
  forallb (fun x => match nth_error cats (fst x) with Some (_, _, subs) => Nat.ltb (snd x) (length subs) | None => false end) (combine ca sb).

Definition verdict_with (allocs : list (nat * N * list nat)) (c : c03case) : N :=
  let os := ob_threads c in
  (* model: unique strings, order *)
  let m_pids := make_all_unique [] (map fst (cp_procs c)) in
  let m_tids := make_all_unique [] (map (fun t => let '(_, tid, _, _, _) := t in tid) (cp_threads c)) in
  let pkeys := map (fun x => (snd (fst x), snd x)) (combine (cp_procs c) m_pids) in
  let tkeys := map (fun x => let '(ph, _, st, mn, nm) := fst x in (ph, (negb mn, st, nm, snd x))) (combine (cp_threads c) m_tids) in
  let m_order := sorted_threads pkeys tkeys in
  let tid_of h := nth h m_tids (0, 0) in
  let pid_of_thread h := nth (fst (nth h tkeys (0%nat, (false, 0, None, (0, 0))))) m_pids (0, 0) in
  (* (a) well-formed tables *)
  let wf := forallb (fun o => chk_thread (ot_json o)) os in
  (* (b) ids unique *)
  let uniq := nodup_ids (map ot_tid os) && nodup_ids (m_pids) in
  (* (c) thread references denote the named threads; blocks *)
  let ref_ok (named : list nat) (obs : list nat) :=
    Nat.eqb (length named) (length obs) &&
    forallb (fun x => match nth_error os (snd x) with Some o => id_eqb (ot_tid o) (tid_of (fst x)) | None => false end) (combine named obs) in
  let counters_ok :=
    Nat.eqb (length (cp_counters c)) (length (ob_counters c)) &&
    forallb (fun x => let ph := fst x in let '(idx, pidstr) := snd x in
                      id_eqb pidstr (nth ph m_pids (0, 0)) &&
                      (* when the process has threads the index is its first thread *)
                      (if existsb (fun t => Nat.eqb (fst t) ph) tkeys
                       then match nth_error os idx with
                            | Some o => id_eqb (ot_pid o) pidstr && match idx with O => true | S j => match nth_error os j with Some o' => negb (id_eqb (ot_pid o') pidstr) | None => false end end
                            | None => false end
                       else true)) (combine (cp_counters c) (ob_counters c)) in
  let refs := ref_ok (cp_visible c) (ob_visible c) && ref_ok (cp_selected c) (ob_selected c) && counters_ok && blocks_ok None [] false os in
  (* (d) canonical interning: walking the stack of each sample gives back the frames the caller supplied *)
  let canon :=
    forallb (fun s => let '(h, time, frames) := s in
                      match find_thread os (tid_of h) with
                      | Some (_, o) => existsb (fun sm => (fst sm =? time) && listnat_eqb (frames_of (ot_stacks o) (snd sm)) frames) (ot_samples o)
                      | None => false
                      end) (cp_samples c) &&
    forallb (fun s => let '(h, frames) := s in
                      match find_thread os (tid_of h) with
                      | Some (_, o) => existsb (fun st => listnat_eqb (frames_of (ot_stacks o) st) frames) (ot_mstacks o)
                      | None => false
                      end) (cp_mstacks c) &&
    (* allocation samples are kept on the first thread of the process (Process::thread_handle_for_allocations); walking the stored stack
       in that thread's stack table gives the frames the caller supplied *)
    Nat.eqb (length (ob_allocs c)) (length os) &&
    forallb (fun s => let '(h, time, frames) := s in
                      let ph := fst (nth h tkeys (0%nat, (false, 0, None, (0, 0)))) in
                      match find (fun i => Nat.eqb (fst (nth i tkeys (0%nat, (false, 0, None, (0, 0))))) ph) (seq 0 (length tkeys)) with
                      | Some a =>
                          match find_thread os (tid_of a) with
                          | Some (idx, o) => existsb (fun row => (fst row =? time) && listnat_eqb (frames_of (ot_stacks o) (snd row)) frames) (nth idx (ob_allocs c) [])
                          | None => false
                          end
                      | None => false
                      end) allocs in
  (* model conformance: same order of threads, same pid strings *)
  let conform :=
    Nat.eqb (length os) (length m_order) &&
    forallb (fun x => match nth_error os (fst x) with Some o => id_eqb (ot_tid o) (tid_of (snd x)) && id_eqb (ot_pid o) (pid_of_thread (snd x)) | None => false end)
            (combine (seq 0 (length m_order)) m_order) &&
    (* a counter's mainThreadIndex is the model's first_thread_index of its process (when the process has threads) *)
    forallb (fun x => let ph := fst x in
                      if existsb (fun t => Nat.eqb (fst t) ph) tkeys
                      then match first_thread_index pkeys tkeys ph with Some i => Nat.eqb i (fst (snd x)) | None => false end
                      else true) (combine (cp_counters c) (ob_counters c)) in
  (* L1: the frame / func / resource / string tables and the used-library order are exactly the model's *)
  let cres := crun (cp_other c) (cats_init (cp_other c) (cp_gray c), []) (cp_cops c) in
  let hs := match cres with Some st => snd st | None => [] end in
  let reqs3 := map (fun x => (fst x, (match fst (snd x) with None => (0%nat, 0%nat) | Some j => nth j hs (0%nat, 0%nat) end, snd (snd x))))
                   (combine (cp_reqs c) (combine (cp_req_sc c) (cp_req_fl c))) in
  let tables_ok :=
    listnat_eqb (used_libs (cp_reqs c)) (ob_libs c) &&
    Nat.eqb (length (ob_tables c)) (length m_order) &&
    Nat.eqb (length (cp_reqs c)) (length (cp_req_sc c)) && Nat.eqb (length (cp_reqs c)) (length (cp_req_fl c)) &&
    forallb (fun x => otables_eqb (model_tables reqs3 (fst x)) (snd x)) (combine m_order (ob_tables c)) &&
    (* the category table: the model's (Model/Categories.v) *)
    match cres with Some st => cats_eqb (fst st) (ob_cats c) | None => false end in
  let subs_ok := forallb (subs_in_range (ob_cats c)) (ob_tables c) in
  (* every marker's name and field values are the ones its add_marker call supplied (model: Model/MarkerTable.v) *)
  let markers_ok :=
    Nat.eqb (length (ob_mcats c)) (length m_order) &&
    forallb (fun x => listnat_eqb (map (fun m => match snd m with None => 0%nat | Some j => fst (nth j hs (0%nat, 0%nat)) end)
                                       (filter (fun m => Nat.eqb (fst m) (fst x)) (cp_mcats c))) (snd x)) (combine m_order (ob_mcats c)) &&
    Nat.eqb (length (ob_markers c)) (length m_order) &&
    forallb (fun x => match model_markers (cp_mops c) (fst x) with Some l => markers_eqb l (snd x) | None => false end)
            (combine m_order (ob_markers c)) in
  (if (2 <=? N.of_nat (length (cp_threads c))) && (1 <=? N.of_nat (length (cp_samples c))) then 10 else 0) +
  (if negb (wf && uniq && refs && canon && subs_ok) then 2 else if conform && tables_ok && markers_ok then 0 else 1).

Definition verdict (c : c03case) : N := verdict_with (cp_allocs c) c.

(* known finding F-C03a concerns allocation samples added for a thread that is not the first thread of its process: the verdict with the
   allocation clause restricted to the samples of first threads.  A history of that class is the recorded finding only if this verdict is
   not 2 - i.e. nothing else of the property fails on it. *)
Definition thread_proc (c : c03case) (h : nat) : option nat :=
  match nth_error (cp_threads c) h with Some t => let '(ph, _, _, _, _) := t in Some ph | None => None end.
Definition is_first_thread (c : c03case) (h : nat) : bool :=
  match thread_proc c h with
  | Some ph => match find (fun i => match thread_proc c i with Some q => Nat.eqb q ph | None => false end) (seq 0 (length (cp_threads c))) with
               | Some a => Nat.eqb a h
               | None => false end
  | None => false
  end.
Definition verdict_sans_f03a (c : c03case) : N :=
  verdict_with (filter (fun s => is_first_thread c (fst (fst s))) (cp_allocs c)) c.
