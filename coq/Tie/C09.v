(* Verdict function for the C09 correspondence run.
   case = (module loads?, frames of the offset as the direct lookup gives them (API spelling, raw path),
           requested path, observed: the debug-info paths whose files the helper was asked to load, response class). *)
From SV Require Import Model.Symbolicate Model.SourceApi.
Open Scope N_scope.

Definition src_eqb (a b : src_outcome) : bool :=
  match a, b with
  | SRead x, SRead y => x =? y
  | SNoSymbols, SNoSymbols | SNoDebugInfo, SNoDebugInfo | SInvalidPath, SInvalidPath => true
  | _, _ => false
  end.

(* observed: reads = list of raw paths loaded because of the request; resp: 0 = source returned or file-read error, 1 = refused/other error *)
Definition verdict (c : bool * option (list (option sfile)) * N * list N * N) : N :=
  let '(loads, frames, requested, reads, resp) := c in
  let l := (0, 0) in
  let m := source_query (fun _ => loads) (fun _ _ => frames) l 0 requested in
  let listed := reported_paths (fun _ _ => frames) l 0 in
  let is_listed := existsb (N.eqb requested) listed in
  (if negb is_listed && existsb (fun p => negb (p =? requested)) listed then 10 else 0) +
  (* the property: nothing is read unless the requested path is exactly a listed one, and then only that frame's raw path *)
  (match m with
   | SRead raw => if forallb (N.eqb raw) reads && negb (Nat.eqb (length reads) 0) then 0 else 2
   | _ => match reads with [] => (if resp =? 1 then 0 else 2) | _ => 2 end
   end).
