(* Verdict functions for the end-to-end converter run (C01: sample conservation; C17: names and lifetimes).
   A case = the record history (in the order the importer processes it) and what out.json shows per thread entry. *)
From SV Require Import Model.Converter Model.ConverterReuse.
Open Scope N_scope.

(* observed thread entry: (pid, sfx), (tid, sfx), process name, thread name, process start / end, thread start / end, main?, sample times (ns), all weights 1? *)
Definition oentry := ((N * N) * (N * N) * pname * tname * N * option N * N * option N * bool * list N * bool)%type.

Definition pname_eqb (a b : pname) : bool :=
  match a, b with NGiven x, NGiven y => x =? y | NPid x, NPid y => x =? y | _, _ => false end.
Definition tname_eqb (a b : tname) : bool :=
  match a, b with
  | TNProc x, TNProc y => pname_eqb x y | TNGiven x, TNGiven y => x =? y
  | TNFallback a1 a2, TNFallback b1 b2 => (a1 =? b1) && (a2 =? b2) | _, _ => false end.
Definition oN_eqb (a b : option N) : bool := match a, b with None, None => true | Some x, Some y => x =? y | _, _ => false end.

Fixpoint insert (x : N) (l : list N) : list N := match l with [] => [x] | y :: r => if x <=? y then x :: l else y :: insert x r end.
Definition sortN (l : list N) : list N := fold_right insert [] l.
Fixpoint listN_eqb (a b : list N) : bool :=
  match a, b with [] , [] => true | x :: a', y :: b' => (x =? y) && listN_eqb a' b' | _, _ => false end.

Definition key_eqb (a b : (N * N) * (N * N)) : bool :=
  (fst (fst a) =? fst (fst b)) && (snd (fst a) =? snd (fst b)) && (fst (snd a) =? fst (snd b)) && (snd (snd a) =? snd (snd b)).

Definition entry_names_times_eqb (m : shown) (o : oentry) : bool :=
  let '(_, _, pn, tn, ps, pe, ts, te, mn, _, _) := o in
  pname_eqb (sh_pname m) pn && tname_eqb (sh_tname m) tn && (sh_pstart m =? ps) && oN_eqb (sh_pend m) pe &&
  (sh_tstart m =? ts) && oN_eqb (sh_tend m) te && Bool.eqb (sh_main m) mn.
Definition entry_samples_eqb (m : shown) (o : oentry) : bool :=
  let '(_, _, _, _, _, _, _, _, _, sm, _) := o in listN_eqb (sortN (sh_samples m)) (sortN sm).

Definition okey (o : oentry) : (N * N) * (N * N) := let '(p, t, _, _, _, _, _, _, _, _, _) := o in (p, t).
Definition osamples (o : oentry) : list N := let '(_, _, _, _, _, _, _, _, _, sm, _) := o in sm.
Definition oweights_ok (o : oentry) : bool := let '(_, _, _, _, _, _, _, _, _, _, w) := o in w.

Definition find_model (ms : list shown) (k : (N * N) * (N * N)) : option shown :=
  find (fun m => key_eqb (sh_pid m, sh_tid m) k) ms.

(* model conformance: same entries; `f` selects the aspect compared *)
Definition conform (f : shown -> oentry -> bool) (ms : list shown) (os : list oentry) : bool :=
  Nat.eqb (length ms) (length os) &&
  forallb (fun o => match find_model ms (okey o) with Some m => f m o | None => false end) os.

(* ---- C01, decided on the observations: the multiset of (pid, tid, time) of all output samples equals that of the accepted input samples ---- *)
Definition triple := (N * N * N)%type.
Definition triple_leb (a b : triple) : bool :=
  let '(a1, a2, a3) := a in let '(b1, b2, b3) := b in
  if a1 <? b1 then true else if b1 <? a1 then false else if a2 <? b2 then true else if b2 <? a2 then false else a3 <=? b3.
Fixpoint tinsert (x : triple) (l : list triple) : list triple := match l with [] => [x] | y :: r => if triple_leb x y then x :: l else y :: tinsert x r end.
Definition tsort (l : list triple) : list triple := fold_right tinsert [] l.
Fixpoint tlist_eqb (a b : list triple) : bool :=
  match a, b with
  | [], [] => true
  | (a1, a2, a3) :: a', (b1, b2, b3) :: b' => (a1 =? b1) && (a2 =? b2) && (a3 =? b3) && tlist_eqb a' b'
  | _, _ => false
  end.

(* specification of "accepted": not the idle thread, and not an exact repeat of the previous sample time of the same live thread *)
Fixpoint spec_accepted (origin : N) (rs : list record) (last : list ((N * N) * N)) : list triple :=
  match rs with
  | [] => []
  | r :: rest =>
      let drop_pid pid := filter (fun e => negb (fst (fst e) =? pid)) last in
      let drop_thread pid tid := filter (fun e => negb ((fst (fst e) =? pid) && (snd (fst e) =? tid))) last in
      match r with
      | RSample pid tid ts =>
          if tid =? 0 then spec_accepted origin rest last
          else match find (fun e => (fst (fst e) =? pid) && (snd (fst e) =? tid)) last with
               | Some (_, l) => if l =? ts then spec_accepted origin rest last
                                else (pid, tid, ts - origin) :: spec_accepted origin rest (((pid, tid), ts) :: drop_thread pid tid)
               | None => (pid, tid, ts - origin) :: spec_accepted origin rest (((pid, tid), ts) :: last)
               end
      | RExit pid tid _ => spec_accepted origin rest (if tid =? pid then drop_pid pid else drop_thread pid tid)
      | RComm pid tid _ true _ => spec_accepted origin rest (if tid =? pid then drop_pid pid else drop_thread pid tid)
      | _ => spec_accepted origin rest last
      end
  end.

Definition observed_triples (os : list oentry) : list triple :=
  flat_map (fun o => map (fun t => (fst (fst (okey o)), fst (snd (okey o)), t)) (osamples o)) os.

Definition nontrivial (rs : list record) : bool :=
  existsb (fun r => match r with RExit _ _ _ => true | RComm _ _ _ true _ => true | _ => false end) rs &&
  (2 <=? N.of_nat (length (filter (fun r => match r with RSample _ _ _ => true | _ => false end) rs))).

Definition verdict_c01 (x : N * list record * list oentry) : N :=
  let '(origin, rs, os) := x in
  let ms := show (run origin rs) in
  let prop := tlist_eqb (tsort (observed_triples os)) (tsort (spec_accepted origin rs [])) && forallb oweights_ok os in
  (if nontrivial rs then 10 else 0) + (if negb prop then 2 else if conform entry_samples_eqb ms os then 0 else 1).

(* recordings with CONTEXT_SWITCH records: every accepted input sample appears exactly once on its (pid, tid) with weight 1 (the property allows
   further samples there); conformance as before - in the model such records only touch the process / thread tables *)
Definition triple_eqb (a b : triple) : bool :=
  let '(a1, a2, a3) := a in let '(b1, b2, b3) := b in (a1 =? b1) && (a2 =? b2) && (a3 =? b3).
Definition tcount (t : triple) (l : list triple) : nat := length (filter (triple_eqb t) l).
Definition verdict_c01_sw (x : N * list record * list oentry) : N :=
  let '(origin, rs, os) := x in
  let ms := show (run origin rs) in
  let acc := spec_accepted origin rs [] in
  let obs := observed_triples os in
  let prop := forallb (fun t => Nat.eqb (tcount t obs) (tcount t acc)) acc && forallb oweights_ok os in
  (if nontrivial rs && existsb (fun r => match r with RSwitch _ _ => true | _ => false end) rs then 10 else 0) +
  (if negb prop then 2 else if conform entry_samples_eqb ms os then 0 else 1).

(* the same decision for runs with --reuse-threads (reuse = true: a sample may be merged into the entry of an earlier, exited process or
   thread, so only the multiset of times is compared for the property; the model of recycling, Model/ConverterReuse.v, says which entry) and / or
   --fold-recursive-prefix (entries and times as by default) *)
Definition verdict_c01_flags (x : bool * (N * list record * list oentry)) : N :=
  let '(reuse, (origin, rs, os)) := x in
  let strip (l : list triple) : list triple := if reuse then map (fun t => let '(_, _, tm) := t in (0, 0, tm)) l else l in
  let prop := tlist_eqb (tsort (strip (observed_triples os))) (tsort (strip (spec_accepted origin rs []))) && forallb oweights_ok os in
  let ms := if reuse then r_show (rrun origin rs) else show (run origin rs) in
  (if nontrivial rs then 10 else 0) + (if negb prop then 2 else if conform entry_samples_eqb ms os then 0 else 1).

(* ---- C17, decided on the observations (partial oracle: three clauses of the property that need no model) ---- *)
Definition touches (pid tid : N) (r : record) : bool :=
  match r with
  | RFork p _ t _ _ => (p =? pid) && (t =? tid)
  | RExit p t _ => (p =? pid) && ((t =? tid) || (t =? p))
  | RComm p t _ ex _ => (p =? pid) && ((t =? tid) || (ex && (t =? p)))
  | _ => false
  end.
(* (a) a thread renamed by its last record-of-interest and never ended: some entry with these numeric ids carries that name and has no end time *)
Fixpoint last_comm_clause (rs : list record) (os : list oentry) : bool :=
  match rs with
  | [] => true
  | RComm pid tid name false _ :: rest =>
      (if existsb (touches pid tid) rest then true
       else existsb (fun o : oentry => let '(p, t, pn, tn, _, _, _, te, mn, _, _) := o in
                              (fst p =? pid) && (fst t =? tid) && (match te with None => true | Some _ => false end) &&
                              (if mn then pname_eqb pn (NGiven name) else tname_eqb tn (TNGiven name))) os)
      && last_comm_clause rest os
  | _ :: rest => last_comm_clause rest os
  end.
Definition count_ids (pid tid : N) (rs : list record) : nat :=
  length (filter (fun r => match r with
                           | RFork p _ t _ _ => (p =? pid) && (t =? tid) | RExit p t _ => (p =? pid) && (t =? tid)
                           | RComm p t _ _ _ => (p =? pid) && (t =? tid) | RSample p t _ => (p =? pid) && (t =? tid) | RMmap p t => (p =? pid) && (t =? tid) | RSwitch p t => (p =? pid) && (t =? tid) end) rs).
(* (b) a non-main thread whose first record is its FORK and whose last is its EXIT, whose process's main thread neither exits nor execs in between,
       and whose tid is used by no other incarnation: its entry starts at the FORK time and ends at the EXIT time *)
Fixpoint lifetimes_clause (origin : N) (before rs : list record) (os : list oentry) : bool :=
  match rs with
  | [] => true
  | RFork pid ppid tid ptid ts :: rest =>
      (if (pid =? ppid) && negb (tid =? pid) && Nat.eqb (count_ids pid tid before) 0 then
         match find (fun r => match r with RExit p t _ => (p =? pid) && (t =? tid) | _ => false end) rest with
         | Some (RExit _ _ te) =>
             (* nothing else about this tid anywhere else; the main thread does not exec (its EXIT before the thread's own EXIT is the shape of finding F-C17) *)
             let idx_ok := negb (existsb (fun r => match r with RComm p t _ true _ => (p =? pid) && (t =? p) | _ => false end) rest)
                           && negb (existsb (fun r => match r with RFork p _ t _ _ => (t =? tid) && negb (p =? pid) | RSample p t _ => (t =? tid) && negb (p =? pid)
                                                                   | RComm p t _ _ _ => (t =? tid) && negb (p =? pid) | RExit p t _ => (t =? tid) && negb (p =? pid) | RMmap p t => (t =? tid) && negb (p =? pid) | RSwitch p t => (t =? tid) && negb (p =? pid) end) (before ++ rest))
                           && Nat.eqb (length (filter (fun r => match r with RFork p _ t _ _ => (p =? pid) && (t =? tid) | _ => false end) rest)) 0
                           && Nat.eqb (length (filter (fun r => match r with RExit p t _ => (p =? pid) && (t =? tid) | _ => false end) rest)) 1 in
             if idx_ok then
               existsb (fun o : oentry => let '(p, t, _, _, _, _, tst, ten, _, _, _) := o in
                                 (fst p =? pid) && (fst t =? tid) && (tst =? ts - origin) && oN_eqb ten (Some (te - origin))) os
             else true
         | _ => true
         end
       else true) && lifetimes_clause origin (before ++ [RFork pid ppid tid ptid ts]) rest os
  | r :: rest => lifetimes_clause origin (before ++ [r]) rest os
  end.
(* (c) samples of a pid before and after an EXEC of its main thread are under different process entries *)
Definition exec_clause (origin : N) (rs : list record) (os : list oentry) : bool :=
  forallb (fun r => match r with
                    | RComm pid tid _ true ts =>
                        if (tid =? pid) && negb (ts =? 0) then
                          forallb (fun o : oentry => let '(p, _, _, _, _, _, _, _, _, sm, _) := o in
                                            if fst p =? pid then negb (existsb (fun t => t <? ts - origin) sm && existsb (fun t => ts - origin <? t) sm) else true) os
                        else true
                    | _ => true
                    end) rs.

(* (d) a thread forked by a renamed non-main thread, never renamed itself: it is shown under the forking thread's name at that time *)
Fixpoint last_name_of (pid tid : N) (before : list record) (acc : option N) : option N :=
  match before with
  | [] => acc
  | RComm p t name false _ :: rest => last_name_of pid tid rest (if (p =? pid) && (t =? tid) then Some name else acc)
  | RComm p t _ true _ :: rest => last_name_of pid tid rest (if (p =? pid) && ((t =? tid) || (t =? p)) then None else acc)
  | RExit p t _ :: rest => last_name_of pid tid rest (if (p =? pid) && ((t =? tid) || (t =? p)) then None else acc)
  | RFork p _ t _ _ :: rest => last_name_of pid tid rest (if (p =? pid) && (t =? tid) then None else acc)
  | _ :: rest => last_name_of pid tid rest acc
  end.
Fixpoint fork_inherit_clause (before rs : list record) (os : list oentry) : bool :=
  match rs with
  | [] => true
  | RFork pid ppid tid ptid ts :: rest =>
      (if (pid =? ppid) && negb (tid =? pid) && negb (ptid =? pid) && Nat.eqb (count_ids pid tid before) 0 then
         match last_name_of pid ptid before None with
         | Some name =>
             let alone := negb (existsb (fun r => match r with
                                                   | RComm p t _ _ _ => ((p =? pid) && ((t =? tid) || (t =? p))) || ((t =? tid) && negb (p =? pid))
                                                   | RFork p _ t _ _ => (t =? tid)
                                                   | RExit p t _ => (p =? pid) && (t =? p)
                                                   | RSample p t _ => (t =? tid) && negb (p =? pid)
                                                   | RMmap p t => (t =? tid) && negb (p =? pid)
                                                   | RSwitch p t => (t =? tid) && negb (p =? pid)
                                                   end) rest)
                          && negb (existsb (fun r => match r with RFork p _ t _ _ => t =? tid | RSample p t _ => t =? tid | RComm p t _ _ _ => t =? tid
                                                                  | RExit p t _ => t =? tid | RMmap p t => t =? tid | RSwitch p t => t =? tid end) before) in
             if alone then existsb (fun o : oentry => let '(p, t, _, tn, _, _, _, _, _, _, _) := o in (fst p =? pid) && (fst t =? tid) && tname_eqb tn (TNGiven name)) os
             else true
         | None => true
         end
       else true) && fork_inherit_clause (before ++ [RFork pid ppid tid ptid ts]) rest os
  | r :: rest => fork_inherit_clause (before ++ [r]) rest os
  end.

Definition verdict_c17 (x : N * list record * list oentry) : N :=
  let '(origin, rs, os) := x in
  let ms := show (run origin rs) in
  let prop := last_comm_clause rs os && lifetimes_clause origin [] rs os && exec_clause origin rs os && fork_inherit_clause [] rs os in
  (if existsb (fun r => match r with RComm _ _ _ _ _ => true | _ => false end) rs && existsb (fun r => match r with RFork _ _ _ _ _ => true | _ => false end) rs then 10 else 0) +
  (if negb prop then 2 else if conform entry_names_times_eqb ms os then 0 else 1).

(* for histories of the class of known finding F-C17 (a thread outliving its process's main thread): does the output equal what the model -
   which transcribes the code as built, that simplification included - yields?  1 = yes (the recorded finding and nothing else), 0 = no *)
Definition verdict_c17_asbuilt (x : N * list record * list oentry) : N :=
  let '(origin, rs, os) := x in
  if conform entry_names_times_eqb (show (run origin rs)) os then 1 else 0.
