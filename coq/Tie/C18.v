(* Verdict function for the C18 correspondence run.
   case = (profile: None | Some is_gz, token bytes, request, observed response, rejected-by-the-HTTP-parser?). *)
From SV Require Import Generated.Consts Model.Server.
Open Scope N_scope.

Definition body_eqb (a b : body) : bool :=
  match a, b with BEmpty, BEmpty | BLanding, BLanding | BProfile, BProfile | BApi, BApi => true | _, _ => false end.

Definition has_cors (r : response) : bool := allow_origin r || allow_methods r || max_age r || allow_headers r.

(* the property, on an observed response *)
Definition chk (token : list N) (rq : request) (ob : response) : bool :=
  match strip_prefix (path_prefix token) (r_path rq) with
  | None =>
      negb (has_cors ob) &&
      (body_eqb (rbody ob) BEmpty || (body_eqb (rbody ob) BLanding && meth_eqb (r_method rq) GET && bytes_eqb (r_path rq) [slash]))
  | Some _ => true
  end.

Definition l2_eqb (a b : response) : bool :=
  (status a =? status b) && body_eqb (rbody a) (rbody b) && Bool.eqb (allow_origin a) (allow_origin b).
Definition l1_eqb (a b : response) : bool :=
  l2_eqb a b && Bool.eqb (allow_methods a) (allow_methods b) && Bool.eqb (max_age a) (max_age b) &&
  Bool.eqb (allow_headers a) (allow_headers b) && Bool.eqb (allow a) (allow b) && Bool.eqb (gzip a) (gzip b).

Definition token_ok (t : list N) : bool :=
  Nat.eqb (length t) (N.to_nat ((c_token_bytes * 8 - 1) / 5 + 1)) && forallb (fun c => existsb (N.eqb c) base32_chars) t.

(* 0 ok / 1 differs from the model in status, body class or Allow-Origin / 2 violates the property / 4 differs only in secondary headers
   or was rejected by the HTTP parser before routing; +10 non-trivial: the path mentions the token without having it as a prefix,
   or is a prefix-only variant *)
Definition verdict (c : option bool * list N * request * response * bool * bool) : N :=
  let '(profile, token, rq, ob, rejected, mentions_token) := c in
  let m := route profile token rq in
  (if mentions_token then 10 else 0) +
  (if negb (token_ok token) || negb (chk token rq ob) then 2
   else if rejected then 4
   else if l1_eqb m ob then 0 else if l2_eqb m ob then 4 else 1).
