(* Verdict function for the C12 correspondence run.
   A case is (I, events, observed outputs, observed final on/off accumulators, panicked?).
   The checker `chk` is the boolean form of the property (conservation sums against the history
   specification, remainder < I, group shape/order/containment); Proofs/ContextSwitchProofs.v shows it accepts the model. *)
From SV Require Import Model.ContextSwitch Spec.ContextSwitchSpec.
Open Scope N_scope.

Definition out_eqb (x y : out) : bool :=
  match x, y with
  | ONothing, ONothing => true
  | OGroup a b c, OGroup a' b' c' => (a =? a') && (b =? b') && (c =? c')
  | ODelta d, ODelta d' => d =? d'
  | _, _ => false
  end.

Fixpoint outs_eqb (x y : list out) : bool :=
  match x, y with
  | [], [] => true
  | a :: x', b :: y' => out_eqb a b && outs_eqb x' y'
  | _, _ => false
  end.

Fixpoint groups_okb (I prev_end : N) (os : list out) : bool :=
  match os with
  | [] => true
  | OGroup b e c :: r => (prev_end <=? b) && (b <=? e) && (1 <=? c) && (e - b =? (c - 1) * I) && groups_okb I e r
  | _ :: r => groups_okb I prev_end r
  end.

(* each group lies strictly after the start of the sleep that triggered it and not after its emission time *)
Fixpoint inside_sleepb (cur : option N) (evs : list ev) (os : list out) : bool :=
  match evs, os with
  | [], [] => true
  | e :: evs', o :: os' =>
      let ok :=
        match o with
        | OGroup b en _ =>
            match cur, e with
            | Some t0, SwIn t => (t0 <? b) && (en <=? t)
            | Some t0, Sample t => (t0 <? b) && (en <=? t)
            | _, _ => false
            end
        | _ => true
        end in
      ok && inside_sleepb (sleep_start_from cur (timed [e])) evs' os'
  | _, _ => false
  end.

Definition chk (I : N) (evs : list ev) (os : list out) (fin_on fin_off : N) : bool :=
  let l := timed evs in
  (sum_deltas os + fin_on =? running l) &&
  (sum_counts os * I + fin_off + pending_sleep l =? sleeping l) &&
  (fin_off <? I) &&
  groups_okb I 0 os &&
  inside_sleepb None evs os.

Fixpoint odd_branch (s : tstate) (evs : list ev) : bool :=
  match evs with
  | [] => false
  | SwOut t :: r => match s with Off _ => true | _ => odd_branch (Off t) r end
  | SwIn t :: r => match s with On _ => true | _ => odd_branch (On t) r end
  | Sample t :: r => odd_branch (On t) r
  | Consume :: r => odd_branch s r
  end.

Definition has_group (os : list out) : bool :=
  existsb (fun o => match o with OGroup _ _ _ => true | _ => false end) os.

(* 0 ok / 1 differs from model but satisfies the property / 2 violates the property / 3 outside hypotheses; +10 non-trivial *)
Definition verdict (c : N * list ev * list out * N * N * bool) : N :=
  let '(iv, evs, os, fin_on, fin_off, panicked) := c in
  let '(s', mos) := run iv cs_init evs in
  (if has_group mos && odd_branch Unknown evs then 10 else 0) +
  (if (iv =? 0) || negb (nondecreasing_fromb 0 (timed evs)) then 3
   else if panicked || negb (chk iv evs os fin_on fin_off) then 2
   else if outs_eqb mos os && (on_acc s' =? fin_on) && (off_acc s' =? fin_off) then 0
   else 1).

(* End to end through the converter (`samply import` of a recording with context-switch records): the events of one thread in record order -
   every PERF_RECORD_SWITCH in / out, whatever further flags the out record carries, and every main-event sample, after which the converter
   takes the accumulated CPU time (Consume) and stores it with the sample - and the CPU deltas of the thread's samples as serialized (ns).
   Property clause decided on the observation: the deltas handed out sum to exactly the time the thread was observed running up to its last
   sample.  0 ok / 1 differs from the model only / 2 the clause fails (or the import failed); +10 non-trivial: a switch-out precedes a sample *)
Definition deltas_of (os : list out) : list N := flat_map (fun o => match o with ODelta d => [d] | _ => [] end) os.
Fixpoint listN_eqb (a b : list N) : bool :=
  match a, b with [], [] => true | x :: a', y :: b' => (x =? y) && listN_eqb a' b' | _, _ => false end.
Definition verdict_e2e (c : N * list ev * list N * bool) : N :=
  let '(iv, evs, obs, failed) := c in
  let '(_, mos) := run iv cs_init evs in
  (if existsb (fun e => match e with SwOut _ => true | _ => false end) evs && negb (match obs with [] => true | _ => false end) then 10 else 0) +
  (if failed || negb (fold_right N.add 0 obs =? running (timed evs)) then 2
   else if listN_eqb (deltas_of mos) obs then 0 else 1).

(* End to end in the converter's OTHER off-CPU mode (no context-switch records, but a sched:sched_switch tracepoint event recorded next to the main
   event - `simpleperf record --trace-offcpu`, `perf record -e cpu-clock -e sched:sched_switch`): a sched_switch sample of the thread is its
   switch-out, the next main-event sample ends the sleep; here the off-CPU samples reach the profile (the sched_switch sample's stack is theirs).
   Events of one thread: SwOut t (a sched_switch sample) | Sample t (a main-event sample).  Observed: every sample of the thread's table as
   (time, CPU delta, weight), ns.  Decided on the observation: the CPU deltas handed out sum to exactly the time observed running up to the last sample,
   and the weights beyond one per main-event sample sum to the sleeping time divided by the interval (the remainder, below one interval, is carried).
   Conformance: the table is, as a multiset, what the handler model yields when driven the way handle_main_event_sample drives it (a group is
   followed by consume_cpu_delta for its first sample; a group of more than one sample gets a rest sample at its end with the remaining weight).
   0 ok / 1 differs from the model only / 2 a clause fails (or the import failed); +10 non-trivial: some sleep yields an off-CPU sample *)
Definition obs3 := (N * N * N)%type.
Definition consume (s : cs) : cs := mkCs (st s) 0 (off_acc s) (bad s).
Fixpoint sched_expect (I : N) (s : cs) (evs : list ev) : list obs3 :=
  match evs with
  | [] => []
  | SwOut t :: r => sched_expect I (switch_out t s) r
  | Sample t :: r =>
      let '(s1, o) := switch_in I t s in
      let '(s2, pre) :=
        match o with
        | OGroup b e c => (consume s1, (b, on_acc s1, 1) :: (if 1 <? c then [(e, 0, c - 1)] else []))
        | _ => (s1, [])
        end in
      pre ++ (t, on_acc s2, 1) :: sched_expect I (consume s2) r
  | _ :: r => sched_expect I s r
  end.
Definition obs3_eqb (a b : obs3) : bool :=
  let '(a1, a2, a3) := a in let '(b1, b2, b3) := b in (a1 =? b1) && (a2 =? b2) && (a3 =? b3).
Definition count3 (x : obs3) (l : list obs3) : nat := length (filter (obs3_eqb x) l).
Definition same_multiset3 (a b : list obs3) : bool :=
  Nat.eqb (length a) (length b) && forallb (fun x => Nat.eqb (count3 x a) (count3 x b)) a.
Definition verdict_e2e_sched (c : N * list ev * list obs3 * bool) : N :=
  let '(iv, evs, obs, failed) := c in
  let l := timed evs in
  let exp := sched_expect iv cs_init evs in
  let nmain := N.of_nat (length (filter (fun e => match e with Sample _ => true | _ => false end) evs)) in
  let wsum := fold_right N.add 0 (map (fun x : obs3 => snd x) obs) in
  let dsum := fold_right N.add 0 (map (fun x : obs3 => snd (fst x)) obs) in
  (if N.ltb nmain (N.of_nat (length exp)) then 10 else 0) +
  (if failed || negb (dsum =? running l) || negb (nmain <=? wsum) || negb (wsum - nmain =? (sleeping l - pending_sleep l) / iv) then 2
   else if same_multiset3 exp obs then 0 else 1).
