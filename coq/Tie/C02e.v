(* Verdict function for the end-to-end half of C02: record history (as the importer processes it) and the resolved frames of every
   sample of out.json. *)
From SV Require Import Generated.Consts Model.LibMappings Spec.LibMappingsSpec Model.Attribution Spec.AttributionSpec Model.ConverterMaps Tie.C02.
Open Scope N_scope.

Definition osample := (N * N * list rframe)%type.      (* pid, raw time, frames root first *)

Definition osample_leb (a b : osample) : bool :=
  let '(p1, t1, _) := a in let '(p2, t2, _) := b in if p1 <? p2 then true else if p2 <? p1 then false else t1 <=? t2.
Fixpoint oinsert (x : osample) (l : list osample) : list osample :=
  match l with [] => [x] | y :: r => if osample_leb x y then x :: l else y :: oinsert x r end.
Definition osort (l : list osample) : list osample := fold_right oinsert [] l.
Fixpoint olist_eqb (a b : list osample) : bool :=
  match a, b with
  | [], [] => true
  | (p1, t1, f1) :: a', (p2, t2, f2) :: b' => (p1 =? p2) && (t1 =? t2) && list_eqb rframe_eqb f1 f2 && olist_eqb a' b'
  | _, _ => false
  end.

(* the specification, without the model's bookkeeping: a sample is attributed by the C11 history specification applied to the queue its
   process has when the sample's process incarnation ends (next exec / main-thread exit of that pid, or the end of the recording) *)
Fixpoint ends_at (pid : N) (rest : list mrec) (n : nat) : nat :=
  match rest with
  | [] => n
  | MExec p :: r | MExitMain p :: r => if p =? pid then n else ends_at pid r (S n)
  | _ :: r => ends_at pid r (S n)
  end.
Fixpoint spec_output (all : list mrec) (i : nat) (rest : list mrec) : list osample :=
  match rest with
  | [] => []
  | MSample pid ts ip kernel chain :: r =>
      let j := ends_at pid r (S i) in
      let q := queue_of (rev (firstn j all)) pid in
      (pid, ts, spec_stack q ts (sample_frames ip kernel chain)) :: spec_output all (S i) r
  | _ :: r => spec_output all (S i) r
  end.

Definition has_inlib (l : list osample) : bool := existsb (fun x => existsb is_inlib (snd x)) l.

Definition verdict_e2e (c : list mrec * list osample) : N :=
  let '(rs, observed) := c in
  let sp := osort (spec_output rs 0 rs) in
  let md := osort (moutput (mrun rs)) in
  let ob := osort observed in
  (if has_inlib sp && existsb (fun r => match r with MFork _ _ => true | MExec _ => true | _ => false end) rs then 10 else 0) +
  (if olist_eqb sp ob then (if olist_eqb md ob then 0 else 1) else 2).
