(* Verdict function for the C19 correspondence run.
   CCodec: a code id, the string the implementation printed for it and what the implementation read back.
   CProfile: the libs[] objects of a profile written by the real serializer (keys in file order, string or null values),
             and per library what the server answered when asked for it by (debugName, breakpadId):
             found?, and did every answered function equal a direct lookup in the file at the recorded path? *)
From Coq Require Import String.
From SV Require Import Lib.Bytes Lib.LibFields Generated.Consts Model.CodeIdStr Model.LibIdentity.
Open Scope N_scope.

Definition ocid_eqb (a b : option cid) : bool :=
  match a, b with
  | None, None => true
  | Some (IdPe t z), Some (IdPe t' z') => (t =? t') && (z =? z')
  | Some (IdUuid x), Some (IdUuid y) => bytes_eqb x y
  | Some (IdElf x), Some (IdElf y) => bytes_eqb x y
  | _, _ => false
  end.

Inductive c19case :=
| CCodec (c : cid) (printed : bytes) (reparsed : option cid)
| CProfile (objs : list (list (string * jval))) (answers : list (bytes * bytes * option bytes * bool * bool)).
   (* answers: debugName, breakpadId, recorded path (from the JSON), server found the module, all names equal the direct lookup *)

Fixpoint keys_eqb (a b : list string) : bool :=
  match a, b with [], [] => true | x :: a', y :: b' => String.eqb x y && keys_eqb a' b' | _, _ => false end.

Definition obytes_eqb (a b : option bytes) : bool :=
  match a, b with None, None => true | Some x, Some y => bytes_eqb x y | _, _ => false end.

Definition verdict (c : c19case) : N :=
  match c with
  | CCodec c printed reparsed =>
      let same := ocid_eqb reparsed (Some c) in
      let model_ok := bytes_eqb (cid_to_str c) printed && ocid_eqb (cid_reparse c) reparsed in
      (if cid_unambiguous c then 0 else 10) + (if negb same then 2 else if model_ok then 0 else 1)
  | CProfile objs answers =>
      let tbl := known_libs bytes (fun s => Some s) objs [] in
      let writer_ok := forallb (fun o => keys_eqb (map fst o) (map fst c_lib_writer)) objs in
      let per := map (fun a =>
                        let '(dn, bp, path, found, names_ok) := a in
                        let predicted := first_binary_candidate bytes bytes_eqb tbl (dn, bp) in
                        (* the property: the library is known and the answers are those of the recorded binary *)
                        if negb (found && names_ok) then 2
                        (* several libs[] entries may carry the same (debugName, breakpadId): the table keeps one of them (C19_known: some l' with the same key) *)
                        else if existsb (fun b => let '(dn', bp', path', _, _) := b in
                                                  bytes_eqb dn dn' && bytes_eqb bp bp' && obytes_eqb predicted path' && (match predicted with Some _ => true | None => false end)) answers
                             then 0 else 1) answers in
      (if 2 <=? N.of_nat (length answers) then 10 else 0) +
      (if existsb (N.eqb 2) per then 2 else if existsb (N.eqb 1) per || negb writer_ok then 1 else 0)
  end.
