(* Verdict function for the C15 correspondence run.
   case = (ops, observed snapshots after every Evict/Restart: rows in rowid order, files inside, files outside; panicked?). *)
From SV Require Import Model.Quota.
Open Scope N_scope.

Definition row_eqb (a b : row) : bool := (r_key a =? r_key b) && (r_size a =? r_size b) && (r_age a =? r_age b).

Fixpoint rows_eqb (a b : list row) : bool :=
  match a, b with [], [] => true | x :: a', y :: b' => row_eqb x y && rows_eqb a' b' | _, _ => false end.

Fixpoint remove_row (x : row) (l : list row) : option (list row) :=
  match l with
  | [] => None
  | y :: t => if row_eqb x y then Some t else match remove_row x t with Some t' => Some (y :: t') | None => None end
  end.
Fixpoint rows_permb (a b : list row) : bool :=
  match a with
  | [] => match b with [] => true | _ => false end
  | x :: a' => match remove_row x b with Some b' => rows_permb a' b' | None => false end
  end.

Definition subsetb (a b : list N) : bool := forallb (fun x => existsb (N.eqb x) b) a.
Definition set_eqb (a b : list N) : bool := subsetb a b && subsetb b a.

Definition snap := (list row * list N * list N)%type.

Fixpoint snaps_l2 (m : list state) (o : list snap) : bool :=
  match m, o with
  | [], [] => true
  | s :: m', (r, i, ou) :: o' => rows_permb (rows s) r && set_eqb (disk_in s) i && set_eqb (disk_out s) ou && snaps_l2 m' o'
  | _, _ => false
  end.
Fixpoint snaps_l1 (m : list state) (o : list snap) : bool :=
  match m, o with
  | [], [] => true
  | s :: m', (r, _, _) :: o' => rows_eqb (rows s) r && snaps_l1 m' o'
  | _, _ => false
  end.

Fixpoint evicted_something (st : state) (ops : list op) : bool :=
  match ops with
  | [] => false
  | o :: r => let st' := step st o in
              (match o with Evict => negb (Nat.eqb (length (rows st')) (length (rows st))) | _ => false end) || evicted_something st' r
  end.

(* 0 ok / 2 the observed inventory or disk differs from what the (proved) eviction model yields / 4 only the rowid order differs;
   +10 non-trivial: some eviction pass removed at least one row *)
Definition verdict (c : list op * list snap * bool) : N :=
  let '(ops, observed, panicked) := c in
  let m := run init ops in
  (if evicted_something init ops then 10 else 0) +
  (if panicked || negb (snaps_l2 m observed) then 2 else if snaps_l1 m observed then 0 else 4).
