(* Verdict function for the C13 correspondence run.
   case = (file length, positions of byte 0, positions of byte 10, ops, observed outcomes).
   File bytes: 0 / 10 at the listed positions, 1 + (i mod 7) elsewhere.  The checker is the specification `spec`
   itself (the property demands the exact bytes / clean failure); the model `run` is compared as well. *)
From SV Require Import Generated.Consts Model.ChunkCache.
Open Scope N_scope.

Definition file_of (zs ts : list N) (i : N) : N :=
  if existsb (N.eqb i) zs then 0 else if existsb (N.eqb i) ts then 10 else 1 + i mod 7.

Inductive obs := OK (n : N) | OW (n : N) | OE | OP.

Definition op_start (o : op) : N := match o with ReadAt off _ => off | ReadUntil s _ _ => s | ReadInto off _ => off end.

Definition matches (o : op) (expected : outcome) (ob : obs) : bool :=
  match expected, ob with
  | Ok a n, OK m => (a =? op_start o) && (n =? m)
  | Err, OE => true
  | Panic, OP => true
  | _, _ => false
  end.

Fixpoint all_match (ops : list op) (exp : list outcome) (obsl : list obs) : bool :=
  match ops, exp, obsl with
  | [], [], [] => true
  | o :: ops', e :: exp', b :: obs' => matches o e b && all_match ops' exp' obs'
  | _, _, _ => false
  end.

Fixpoint final_state (chunk maxlen : N) (file : N -> N) (flen : N) (st : state) (ops : list op) : state :=
  match ops with [] => st | o :: r => final_state chunk maxlen file flen (fst (step chunk maxlen file flen st o)) r end.

(* 0 ok / 1 satisfies the specification but differs from the model (impossible: both are functions of the case) /
   2 contradicts the specification; +10 non-trivial: some buffer starts in the middle of a chunk (a read that started
   inside a cached buffer and ran past its end) or the string cache was populated *)
Definition verdict (c : N * list N * list N * list op * list obs) : N :=
  let '(flen, zs, ts, ops, obsl) := c in
  let file := file_of zs ts in
  let fin := final_state c_chunk_size c_max_len_incl_delim file flen init ops in
  (if existsb (fun '(bs, _) => negb (bs mod c_chunk_size =? 0)) (bufs fin) || negb (Nat.eqb (length (scache fin)) 0) then 10 else 0) +
  (if negb (all_match ops (map (spec c_max_len_incl_delim file flen) ops) obsl) then 2
   else if all_match ops (run c_chunk_size c_max_len_incl_delim file flen init ops) obsl then 0 else 1).

(* several threads on one shared cache: each thread's calls and what it observed (the worst outcome over many rounds).  The specification
   does not depend on the history, so every thread must see `spec` of its own calls whatever the other threads do (Properties/C13.v,
   C13_schedule_independent).  +10: at least two threads made a call *)
Definition verdict_mt (c : N * list N * list N * list (list op * list obs)) : N :=
  let '(flen, zs, ts, threads) := c in
  let file := file_of zs ts in
  (if 2 <=? N.of_nat (length (filter (fun t => negb (Nat.eqb (length (fst t)) 0)) threads)) then 10 else 0) +
  (if forallb (fun t => all_match (fst t) (map (spec c_max_len_incl_delim file flen) (fst t)) (snd t)) threads then 0 else 2).

(* histories with injected source failures: evs = (a failure of the next source read is armed before the call, call); observed = (outcome, the
   source failed during this call).  Property: a call during which the source did not fail answers as specified; one during which it failed
   answers Err (or, if it did not need the failed read, as specified) - never a panic, never other bytes.  Conformance: the same calls meet the
   failures as in the model (Model/ChunkCache.v run_f) and answer the same.  +10: some call met a failure *)
Fixpoint all2 {A B} (f : A -> B -> bool) (l1 : list A) (l2 : list B) : bool :=
  match l1, l2 with [], [] => true | a :: r1, b :: r2 => f a b && all2 f r1 r2 | _, _ => false end.
Definition verdict_f (c : N * list N * list N * list (bool * op) * list (obs * bool)) : N :=
  let '(flen, zs, ts, evs, obsl) := c in
  let file := file_of zs ts in
  let sp o := spec c_max_len_incl_delim file flen o in
  let model := run_f c_chunk_size c_max_len_incl_delim file flen init false evs in
  let prop := all2 (fun (ev : bool * op) (ob : obs * bool) => if snd ob then (match fst ob with OE => true | _ => matches (snd ev) (sp (snd ev)) (fst ob) end)
                                 else matches (snd ev) (sp (snd ev)) (fst ob)) evs obsl in
  let conf := all2 (fun (evm : (bool * op) * (outcome * bool)) (ob : obs * bool) => Bool.eqb (snd (snd evm)) (snd ob) && matches (snd (fst evm)) (fst (snd evm)) (fst ob)) (combine evs model) obsl in
  (if existsb (fun ob : obs * bool => snd ob) obsl then 10 else 0) + (if negb prop then 2 else if conf then 0 else 1).
