(* Verdict function for the C06 correspondence run.  Ids are interned.
   sym case = (requested debug id, standalone outcome of every candidate, observed: selected (id, candidate index) or failure)
   bin case = (request, standalone outcomes, observed selected (debug id, code id) or failure)
   companion case = (accepted?, ids matched?) *)
From SV Require Import Model.Candidates.
Open Scope N_scope.

Definition on_eqb (a b : option N) : bool := match a, b with Some x, Some y => x =? y | None, None => true | _, _ => false end.

Inductive c06case :=
| CSym (req : N) (cs : list cand) (sel : option (N * nat))
| CBin (r : breq) (cs : list bcand) (sel : option (option N * option N))
| CComp (accepted idmatch pristine : bool)
| CFat (disamb : option N) (members : list (option N)) (obs : option N).      (* obs = debug id of the member that was loaded *)

(* 0 ok / 1 right id but not the candidate the model selects / 2 the property is violated (a file of another build was served, or a matching candidate was refused);
   +10 non-trivial: the first candidate is not the one selected, or nothing matches while parsable decoys exist *)
Definition verdict (c : c06case) : N :=
  match c with
  | CSym req cs sel =>
      let m := select_symbol_map req cs 0 in
      (match m with Some (S _) => 10 | None => if existsb (fun x => match x with COk _ => true | CErr => false end) cs then 10 else 0 | _ => 0 end) +
      (match sel, m with
       | Some (id, i), Some k => if id =? req then (if Nat.eqb i k then 0 else 1) else 2
       | None, None => 0
       | Some (id, _), None => 2
       | None, Some _ => 2
       end)
  | CBin r cs sel =>
      let m := select_binary r cs 0 in
      (match m with Some (S _) => 10 | None => if existsb (fun x => match x with BOk _ _ => true | BErr => false end) cs then 10 else 0 | _ => 0 end) +
      (match sel, m with
       | Some (d, k), Some _ => if bmatch r (BOk d k) then 0 else 2
       | None, None => 0
       | Some _, None => 2
       | None, Some _ => 2
       end)
  (* "used only if the id matches": accepted without a match is the violation; an unmodified companion must be accepted (else the run shows nothing);
     a companion with matching id whose damaged contents yield no frames is recorded only *)
  | CComp accepted idmatch pristine =>
      (if idmatch then 0 else 10) +
      (if accepted then (if idmatch then 0 else 2) else (if idmatch then (if pristine then 1 else 4) else 0))
  | CFat d members obs =>
      let m := fat_select d members in
      (match d, members with Some _, _ :: _ :: _ => 10 | Some _, [_] => (match m with FNoMatch => 10 | _ => 0 end) | _, _ => 0 end) +
      (match obs, d with
       | Some id, Some r => if id =? r then (match m with FMember i => if on_eqb (nth i members None) (Some id) then 0 else 1 | _ => 1 end) else 2
       | Some id, None => match m with FMember i => if on_eqb (nth i members None) (Some id) then 0 else 1 | _ => 1 end
       | None, _ => match m with FMember _ => (match d with Some _ => 2 | None => 1 end) | _ => 0 end
       end)
  end.
