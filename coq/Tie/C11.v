(* Verdict function evaluated (vm_compute) on every case of the C11 correspondence run.
   0 = implementation agrees with specification and model
   1 = implementation satisfies the specification but differs from the model (cannot happen here: both are functions)
   2 = implementation output contradicts the specification (the property fails on this input)
   3 = case outside the property's hypotheses (empty range, or relative address beyond 32 bits)
   +10 when the case is non-trivial: at least one Add evicted an existing mapping. *)
From SV Require Import Model.LibMappings Spec.LibMappingsSpec.
Open Scope N_scope.

Fixpoint list_eqb {A} (eqb : A -> A -> bool) (x y : list A) : bool :=
  match x, y with
  | [], [] => true
  | a :: x', b :: y' => eqb a b && list_eqb eqb x' y'
  | _, _ => false
  end.

Definition is_panic (o : obs) : bool := match o with OPanic => true | _ => false end.

Fixpoint evictions (kernel proc : lm) (acts : list action) : N :=
  match acts with
  | [] => 0
  | AOp o :: r =>
      let p' := step proc o in
      (match o with Add _ => N.of_nat (length proc) + 1 - N.of_nat (length p') | _ => 0 end)
      + evictions kernel p' r
  | AKOp o :: r =>
      let k' := step kernel o in
      (match o with Add _ => N.of_nat (length kernel) + 1 - N.of_nat (length k') | _ => 0 end)
      + evictions k' proc r
  | _ :: r => evictions kernel proc r
  end.

Definition verdict (debug : bool) (c : list action * list obs) : N :=
  let (acts, observed) := c in
  let spec := spec_actions true [] [] acts in
  (if 0 <? evictions [] [] acts then 10 else 0) +
  (if negb (forallb wf_action acts) || existsb is_panic spec then 3
   else if list_eqb obs_eqb (spec_actions debug [] [] acts) observed then
     (if list_eqb obs_eqb (run_actions debug [] [] acts) observed then 0 else 1)
   else 2).
