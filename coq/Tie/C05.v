(* Verdict functions for the C05 correspondence run.
   Object symbol maps (ELF / Mach-O / PE): case = (image base, file ranges, a window of the dumped entry list containing the neighbours of
   every looked-up address, lookups (address in one of the three forms, observed (start, size, name is the demangled entry name?, start is enumerated?)),
   threads agreed?).  Other maps (Breakpad, jitdump): the enumeration / the generator's ground truth take the place of the dump. *)
From SV Require Import Model.SymbolList.
Open Scope N_scope.

Definition obs := option (N * option N * bool * bool).

Definition to_rel (base : N) (ranges : list (N * N * N)) (a : addr) : option N :=
  match a with
  | ARel r => if base + r <? two64 then Some r else None
  | ASvma v => if (base <=? v) && (v - base <? two32) then Some (v - base) else None
  | AOff o => match off_to_svma ranges o with
              | Some v => if (base <=? v) && (v - base <? two32) then Some (v - base) else None
              | None => None end
  end.

(* the property on one observed lookup, against the enumeration (entries that are not end markers) *)
Definition chk_one (base : N) (ranges : list (N * N * N)) (entries : list entry) (a : addr) (o : obs) : bool :=
  match o with
  | None => true
  | Some (start, size, name_ok, enumerated) =>
      match to_rel base ranges a with
      | None => false
      | Some r =>
          (start <=? r) && match size with Some z => r <? start + z | None => true end &&
          name_ok && enumerated &&
          existsb (fun x => (fst x =? start) && negb (is_end (snd x))) entries &&
          negb (existsb (fun x => negb (is_end (snd x)) && (start <? fst x) && (fst x <=? r)) entries)
      end
  end.

(* "the answer is the same whether the address is given as relative address, stated virtual address or file offset": any two lookups of one
   case that denote the same relative address (a file offset denotes the address its segment range maps it to) were answered alike *)
Definition obs_same (o1 o2 : obs) : bool :=
  match o1, o2 with
  | None, None => true
  | Some (s1, z1, _, _), Some (s2, z2, _, _) =>
      (s1 =? s2) && match z1, z2 with Some a, Some b => a =? b | None, None => true | _, _ => false end
  | _, _ => false
  end.
Definition forms_agree (base : N) (ranges : list (N * N * N)) (lookups : list (addr * obs)) : bool :=
  forallb (fun '(a1, o1) =>
    match to_rel base ranges a1 with
    | None => true
    | Some r1 => forallb (fun '(a2, o2) => match to_rel base ranges a2 with
                                           | Some r2 => if r1 =? r2 then obs_same o1 o2 else true
                                           | None => true end) lookups
    end) lookups.

Definition model_eq (base : N) (ranges : list (N * N * N)) (entries : list entry) (a : addr) (o : obs) : bool :=
  match lookup base ranges entries a, o with
  | Some (s, e), Some (start, Some z, _, _) => (s =? start) && (e - s =? z)
  | None, None => true
  | _, _ => false
  end.

Fixpoint strictb (lo : option N) (l : list entry) : bool :=
  match l with [] => true | x :: r => (match lo with Some v => v <? fst x | None => true end) && strictb (Some (fst x)) r end.

(* 0 ok / 1 differs from the model but satisfies the property / 2 violates the property (containment, enumeration, name, forms, threads) /
   +10 non-trivial: some lookup falls into dead space after an end marker, or uses the file-offset form successfully *)
Definition verdict_obj (c : bool * N * list (N * N * N) * list entry * list (addr * obs) * bool) : N :=
  let '(has_dump, base, ranges, entries, lookups, threads_ok) := c in
  (if existsb (fun '(a, o) => match a, o with AOff _, Some _ => true | _, _ => false end) lookups ||
      existsb (fun '(a, o) => match o, to_rel base ranges a with
                              | None, Some r => match find_le entries r None with (Some (_, KEnd), _) => true | _ => false end
                              | _, _ => false end) lookups then 10 else 0) +
  (if negb threads_ok || negb (forallb (fun '(a, o) => chk_one base ranges entries a o) lookups) || negb (forms_agree base ranges lookups) ||
      (has_dump && negb (strictb None entries)) then 2
   else if has_dump && negb (forallb (fun '(a, o) => model_eq base ranges entries a o) lookups) then 1
   else 0).

(* jitdump: ground truth entries from the generator; lookups in relative and file-offset form, observed (function start, size) *)
Inductive jaddr := JRel (a : N) | JOff (o : N).
Definition verdict_jit (c : list jentry * list (jaddr * option (N * N)) * bool) : N :=
  let '(entries, lookups, threads_ok) := c in
  (if existsb (fun '(a, o) => match a, o with JOff _, Some _ => true | _, _ => false end) lookups then 10 else 0) +
  (if negb threads_ok ||
      negb (forallb (fun '(a, o) =>
              let m := match a with JRel r => jlookup_rel entries r | JOff f => jlookup_off entries f end in
              match m, o with
              | Some (s, _), Some (start, size) =>
                  (s =? start) && existsb (fun x => (je_rel x =? s) && (je_len x =? size)) entries
              | None, None => true
              | _, _ => false
              end) lookups)
   then 2 else 0).
