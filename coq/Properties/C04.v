(* C04 — Serialized sample and counter tables are chronological and lossless. *)
From SV Require Import Model.SampleTable Spec.SampleTableSpec Proofs.SampleTableProofs Tie.C04.
From Coq Require Import Permutation.
Open Scope N_scope.

(* For every history of add_sample / add_sample_same_stack_zero_cpu calls (any timestamps, weights of either sign,
   any CPU deltas; counters are the add-only instance), serialization
   - does not panic and no time-delta subtraction underflows (deltas are finite and non-negative),
   - reading the rows back by running sums gives nondecreasing timestamps,
   - the rows read back are a permutation of the history's effective entries: each keeps its time, stack, weight, CPU delta,
   - total weight and total CPU equal the sums of what was added. *)
Theorem C04_serialized_table :
  forall ops : list op,
    let '(rows, underflow) := serialize (tbl (th_run ops)) in
    let back := rows_to_entries 0 rows in
    panicked (th_run ops) = false /\ underflow = false /\
    nondecreasing_t 0 back /\
    (exists eff, effective ops = Some eff /\ Permutation back eff) /\
    sum_w back = fold_right (fun o a => (op_w o + a)%Z) 0%Z ops /\
    sum_cpu back = fold_right (fun o a => op_cpu o + a) 0 ops.
Proof. exact serialized_table. Qed.

Theorem C04_checker_accepts_model :
  forall ops : list op, chk ops (fst (serialize (tbl (th_run ops)))) = true.
Proof. exact checker_accepts_model. Qed.

Theorem C04_checker_sound :
  forall (ops : list op) (rows : list row),
    chk ops rows = true ->
    exists eff, effective ops = Some eff /\ Permutation (rows_to_entries 0 rows) eff.
Proof. exact checker_sound. Qed.

Print Assumptions C04_serialized_table.
Print Assumptions C04_checker_accepts_model.
Print Assumptions C04_checker_sound.

(* Non-vacuity / regression witness: the two histories that broke the original code. *)
Example ex_f_c04 :
  serialize (tbl (th_run [OAdd 10 1 0 1; OMerge 20 1; OAdd 15 2 5 1]))
  = ([(15, 2, 1%Z, 5); (5, 1, 2%Z, 0)], false).
Proof. vm_compute. reflexivity. Qed.
Example ex_f_c04_mirror :
  serialize (tbl (th_run [OAdd 10 1 0 1; OAdd 20 2 0 1; OMerge 5 1]))
  = ([(5, 2, 2%Z, 0); (5, 1, 1%Z, 0)], false).
Proof. vm_compute. reflexivity. Qed.
