(* C04 — Serialized sample and counter tables are chronological and lossless. *)
From SV Require Import Model.SampleTable Spec.SampleTableSpec Proofs.SampleTableProofs Tie.C04 Generated.SampleTableGen Proofs.SampleTableGenProofs.
From Coq Require Import Permutation.
Open Scope N_scope.

(* For every history of add_sample / add_sample_same_stack_zero_cpu calls (any timestamps, weights of either sign,
   any CPU deltas; counters are the add-only instance), serialization
   - does not panic and no time-delta subtraction underflows (deltas are finite and non-negative),
   - reading the rows back by running sums gives nondecreasing timestamps,
   - the rows read back are a permutation of the history's effective entries: each keeps its time, stack, weight, CPU delta,
   - total weight and total CPU equal the sums of what was added. *)
Theorem C04_serialized_table :
  forall ops : list op,
    let '(rows, underflow) := serialize (tbl (th_run ops)) in
    let back := rows_to_entries 0 rows in
    panicked (th_run ops) = false /\ underflow = false /\
    nondecreasing_t 0 back /\
    (exists eff, effective ops = Some eff /\ Permutation back eff) /\
    sum_w back = fold_right (fun o a => (op_w o + a)%Z) 0%Z ops /\
    sum_cpu back = fold_right (fun o a => op_cpu o + a) 0 ops.
Proof. exact serialized_table. Qed.

Theorem C04_checker_accepts_model :
  forall ops : list op, chk ops (fst (serialize (tbl (th_run ops)))) = true.
Proof. exact checker_accepts_model. Qed.

Theorem C04_checker_sound :
  forall (ops : list op) (rows : list row),
    chk ops rows = true ->
    exists eff, effective ops = Some eff /\ Permutation (rows_to_entries 0 rows) eff.
Proof. exact checker_sound. Qed.

(* The tie by translation for how the table is filled.  tools/xlate_st.py re-reads fxprof-processed-profile/src/sample_table.rs on every run and emits
   SampleTable::new, add_sample and modify_last_sample, statement by statement, over the struct's own fields: four parallel columns, the
   sortedness flag, the last timestamp (Generated/SampleTableGen.v; None = unwrap() on an empty column or an index out of bounds).  Read row by row
   (abs), the columns after ANY history of calls are the model's entry list after the same history, a call panics exactly when the model's does, and
   the flag and the last timestamp agree - so C04_serialized_table, stated over the model's table, is about the table the translated code builds. *)
Theorem C04_translation_history :
  forall calls : list tcall,
    option_map abs (fold_left g_tstep calls (Some g_new)) = fold_left m_tstep calls (Some table_init).
Proof. exact g_history_abs. Qed.

Theorem C04_translation_add :
  forall (g : gtable) (t s c : N) (w : Z), wf g ->
    abs (g_add_sample g t s c w) = t_add (abs g) (mkEntry t s c w) /\ wf (g_add_sample g t s c w).
Proof. exact g_add_sample_abs. Qed.

Theorem C04_translation_modify :
  forall (g : gtable) (t : N) (w : Z), wf g ->
    option_map abs (g_modify_last_sample g t w) = t_modify_last (abs g) t w /\
    (forall g', g_modify_last_sample g t w = Some g' -> wf g').
Proof. exact g_modify_last_sample_abs. Qed.

Print Assumptions C04_serialized_table.
Print Assumptions C04_translation_history.
Print Assumptions C04_translation_add.
Print Assumptions C04_translation_modify.
Print Assumptions C04_checker_accepts_model.
Print Assumptions C04_checker_sound.

(* Non-vacuity / regression witness: the two histories that broke the original code. *)
Example ex_f_c04 :
  serialize (tbl (th_run [OAdd 10 1 0 1; OMerge 20 1; OAdd 15 2 5 1]))
  = ([(15, 2, 1%Z, 5); (5, 1, 2%Z, 0)], false).
Proof. vm_compute. reflexivity. Qed.
Example ex_f_c04_mirror :
  serialize (tbl (th_run [OAdd 10 1 0 1; OAdd 20 2 0 1; OMerge 5 1]))
  = ([(5, 2, 2%Z, 0); (5, 1, 1%Z, 0)], false).
Proof. vm_compute. reflexivity. Qed.


(* Non-vacuity for the translation: the history that broke the original code (a merge that moves the last sample's time, then an earlier sample)
   leaves the translated table unsorted-flagged, as the repaired code must. *)
Example ex_translation_f_c04 :
  option_map g_sorted (fold_left g_tstep [TAdd 10 1 0 1; TModify 20 1; TAdd 15 2 5 1] (Some g_new)) = Some false.
Proof. vm_compute. reflexivity. Qed.
