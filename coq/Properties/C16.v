(* C16 — cache files created through create_file_cleanly appear atomically: complete or not at all.
   All statements quantify over every event list: any number of creators, any interleaving of their protocol steps,
   kills (= abrupt termination or cancellation) at any point, failing write functions and failing renames. *)
From SV Require Import Model.FileCreation Proofs.FileCreationProofs.

(* at every instant the final path is absent or holds the complete contents of one successful write *)
Theorem C16_atomic_visibility :
  forall (plan : nat -> nat * bool) (evs : list event) (d : nat),
    dest (run plan evs init) = Some d -> complete plan (run plan evs init) d.
Proof. exact atomic_visibility. Qed.

(* ... and once it is there it never changes again *)
Theorem C16_stable :
  forall (plan : nat -> nat * bool) (evs evs2 : list event) (d : nat),
    dest (run plan evs init) = Some d ->
    dest (run plan evs2 (run plan evs init)) = Some d /\
    content (run plan evs2 (run plan evs init)) d = content (run plan evs init) d.
Proof. intros plan evs evs2 d H. apply dest_stable; [apply reachable_inv | exact H]. Qed.

(* the contents are installed at most once, and the writers exclude each other *)
Theorem C16_at_most_once :
  forall (plan : nat -> nat * bool) (evs : list event), renames (run plan evs init) <= 1.
Proof. exact at_most_one_rename. Qed.
Theorem C16_mutex :
  forall (plan : nat -> nat * bool) (evs : list event) (c c' : nat),
    critical (procs (run plan evs init) c) = true -> critical (procs (run plan evs init) c') = true -> c = c'.
Proof. exact mutex_reachable. Qed.

(* every caller that returns success sees the complete file *)
Theorem C16_success_sees_complete :
  forall (plan : nat -> nat * bool) (evs : list event) (c : nat),
    (procs (run plan evs init) c = Done RWritten \/ procs (run plan evs init) c = Done RExisting \/ procs (run plan evs init) c = ExHandling) ->
    exists d, dest (run plan evs init) = Some d /\ complete plan (run plan evs init) d.
Proof. exact success_sees_complete. Qed.

(* failed or killed attempts do not prevent a later attempt from succeeding *)
Theorem C16_retry :
  forall (plan : nat -> nat * bool) (evs : list event) (c n : nat),
    let s := run plan evs init in
    (forall x, quiescent (procs s x) = true) -> procs s c = Idle -> plan c = (n, true) ->
    let s' := run_alone plan (n + 8) s c in
    (procs s' c = Done RWritten \/ procs s' c = Done RExisting) /\ exists d, dest s' = Some d /\ complete plan s' d.
Proof. exact retry. Qed.

Print Assumptions C16_atomic_visibility.
Print Assumptions C16_stable.
Print Assumptions C16_at_most_once.
Print Assumptions C16_mutex.
Print Assumptions C16_success_sees_complete.
Print Assumptions C16_retry.

(* non-vacuity: creator 1's write function fails after one chunk while 2 waits for the lock; 2 is killed mid-write; 3 arrives,
   finds the left-over temp file, truncates it, writes and renames; the destination then holds exactly 3's two chunks; creator 4,
   all others being quiescent, finds it *)
Definition ex_plan (c : nat) : nat * bool := match c with 1 => (1, false) | 2 => (3, true) | 3 => (2, true) | _ => (2, true) end.
Definition ex_evs : list event :=
  [Run 1; Run 1; Run 1; Run 1; Run 2; Run 2; Run 1; Run 1; Run 1; Run 1;        (* 1 fails; 2 blocked until 1 drops the lock *)
   Run 2; Run 2; Run 2; Run 2; Kill 2;                                           (* 2 locks, checks, opens, writes one chunk, dies *)
   Run 3; Run 3; Run 3; Run 3; Run 3; Run 3; Run 3; Run 3; Run 3; Run 3].
Example ex_c16 :
  let s := run ex_plan ex_evs init in
  option_map (content s) (dest s) = Some [(3, 0); (3, 1)] /\ procs s 1 = Done RFailed /\ procs s 2 = Dead /\ procs s 3 = Done RWritten /\
  renames s = 1 /\ lockp s = None /\
  procs (run_alone ex_plan 10 s 4) 4 = Done RExisting.
Proof. vm_compute. repeat split. Qed.
