(* C06 — Symbols and binaries are only ever served from files of the requested build. *)
From SV Require Import Model.Candidates Proofs.CandidatesProofs.
From Coq Require Import Arith.
Open Scope N_scope.

(* whatever candidates exist and in whatever order: a returned symbol map is the first candidate that carries exactly the requested debug id *)
Theorem C06_symbol_map_id :
  forall (req : N) (cs : list cand) (k : nat),
    select_symbol_map req cs 0 = Some k ->
    nth_error cs k = Some (COk req) /\ forall j, (j < k)%nat -> nth_error cs j <> Some (COk req).
Proof.
  intros req cs k H. destruct (select_symbol_map_spec req cs 0 k H) as [_ [H2 H3]].
  rewrite Nat.sub_0_r in *. split; assumption.
Qed.

(* if no candidate matches the request fails - no fallback to a mismatching file *)
Theorem C06_no_fallback :
  forall (req : N) (cs : list cand), select_symbol_map req cs 0 = None <-> ~ In (COk req) cs.
Proof. intros. apply select_symbol_map_none. Qed.

(* binaries: by debug id when one is given, else by code id *)
Theorem C06_binary_id :
  forall (rq : breq) (cs : list bcand) (k : nat),
    select_binary rq cs 0 = Some k ->
    (exists c, nth_error cs k = Some c /\ bmatch rq c = true) /\
    (forall j c, (j < k)%nat -> nth_error cs j = Some c -> bmatch rq c = false).
Proof.
  intros rq cs k H. destruct (select_binary_spec rq cs 0 k H) as [_ [H2 H3]].
  rewrite Nat.sub_0_r in *. split; assumption.
Qed.
Theorem C06_binary_no_fallback :
  forall (rq : breq) (cs : list bcand), select_binary rq cs 0 = None <-> forall c, In c cs -> bmatch rq c = false.
Proof. intros. apply select_binary_none. Qed.

(* companions *)
Theorem C06_debuglink : forall e a, debuglink_accept e a = true <-> a = e.
Proof. intros. unfold debuglink_accept. split; intros H; [apply N.eqb_eq; exact H|subst; apply N.eqb_refl]. Qed.

(* a supplementary (dwz) file is used only when it carries exactly the build id named by .gnu_debugaltlink *)
Theorem C06_supplementary : forall wanted found, supplementary_accept wanted found = true <-> found = Some wanted.
Proof. exact supplementary_accept_spec. Qed.

(* fat archives: with a debug id as disambiguator only a member carrying that id is selected, never "the only member" *)
Theorem C06_fat_member :
  forall d members i, fat_select (Some d) members = FMember i -> nth_error members i = Some (Some d).
Proof. exact fat_select_spec. Qed.

Print Assumptions C06_symbol_map_id.
Print Assumptions C06_no_fallback.
Print Assumptions C06_binary_id.
Print Assumptions C06_binary_no_fallback.
Print Assumptions C06_debuglink.
Print Assumptions C06_supplementary.
Print Assumptions C06_fat_member.

Example ex_c06 :
  select_symbol_map 7 [COk 3; CErr; COk 7; COk 7] 0 = Some 2%nat /\ select_symbol_map 7 [COk 3; CErr] 0 = None /\
  fat_select (Some 9) [Some 4] = FNoMatch /\ fat_select None [Some 4] = FMember 0.
Proof. repeat split. Qed.
