(* C19 — a saved profile carries enough library identity for the server to symbolicate it.
   The breakpad-id codec of the debugid crate is a section variable (its round trip a hypothesis, exercised by the tie);
   the serializer's key/field table and the pre-parser's struct are translated from the sources on every run (Generated/Consts.v),
   so renaming or dropping a field on either side breaks these proofs. *)
From Coq Require Import String.
From SV Require Import Lib.Bytes Lib.LibFields Generated.Consts Model.CodeIdStr Model.LibIdentity Proofs.LibIdentityProofs Proofs.CodeIdCodec.
Open Scope N_scope.

Section C19.
  Variable did : Type.
  Variable bp_print : did -> bytes.
  Variable bp_parse : bytes -> option did.
  Hypothesis bp_roundtrip : forall d, bp_parse (bp_print d) = Some d.
  Variable did_eqb : did -> did -> bool.
  Hypothesis did_eqb_spec : forall a b, did_eqb a b = true <-> a = b.

  (* every library written by the serializer is read back with the same debug name, debug id, paths, name, arch and code id
     (the last under the codec condition: see C19_code_id_refuted) *)
  Theorem C19_lib_roundtrip :
    forall l : lib did, code_id_ok did l -> preparse_lib did bp_parse (ser_lib did bp_print l) = Some (info_of did l).
  Proof. exact (lib_roundtrip did bp_print bp_parse bp_roundtrip). Qed.

  (* in particular a library without build id / code id is not dropped *)
  Theorem C19_no_code_id_still_known :
    forall l : lib did, l_code_id did l = None -> preparse_lib did bp_parse (ser_lib did bp_print l) = Some (info_of did l).
  Proof. exact (lib_without_code_id_known did bp_print bp_parse bp_roundtrip). Qed.

  (* after pre-parsing a whole profile, a request naming any of its libraries by (debugName, debugId) finds the recorded
     binary path first and the recorded debug path *)
  Theorem C19_known :
    forall libs : list (lib did), (forall l, In l libs -> code_id_ok did l) ->
    forall l, In l libs ->
      exists l', In l' libs /\ key_of did l' = key_of did l /\
        first_binary_candidate did did_eqb (known_libs did bp_parse (map (ser_lib did bp_print) libs) []) (key_of did l) = Some (l_path did l') /\
        debug_file_candidate did did_eqb (known_libs did bp_parse (map (ser_lib did bp_print) libs) []) (key_of did l) = Some (l_debug_path did l').
  Proof. exact (known_paths did bp_print bp_parse bp_roundtrip did_eqb did_eqb_spec). Qed.
End C19.

(* the code-id string codec: printing then parsing gives the id back, for EVERY PE code id, Mach-O UUID and ELF build id outside the
   ambiguous class (ELF build ids of at most 8 bytes, or of 16 bytes whose hex has no letter) *)
Theorem C19_code_id_codec : forall c : cid, cid_wf c -> cid_unambiguous c = true -> cid_reparse c = Some c.
Proof. exact code_id_roundtrip. Qed.

(* hence the record round trip needs no hypothesis about the code id beyond well-formedness and unambiguity *)
Theorem C19_lib_roundtrip_unconditional :
  forall (did : Type) (bp_print : did -> bytes) (bp_parse : bytes -> option did), (forall d, bp_parse (bp_print d) = Some d) ->
  forall l : lib did, (match l_code_id did l with Some c => cid_wf c /\ cid_unambiguous c = true | None => True end) ->
    preparse_lib did bp_parse (ser_lib did bp_print l) = Some (info_of did l).
Proof.
  intros did bp_print bp_parse Hrt l H. apply (C19_lib_roundtrip did bp_print bp_parse Hrt). unfold code_id_ok.
  destruct (l_code_id did l) as [c|]; [|exact I]. destruct H as [H1 H2]. apply code_id_roundtrip; assumption.
Qed.

(* the code-id string format is ambiguous (finding F-C19): an 8-byte ELF build id is read back as a PE code id, a 16-byte
   one whose hex has no letter as a Mach-O UUID, one shorter than 5 bytes not at all *)
Theorem C19_code_id_refuted :
  cid_reparse (IdElf [0; 17; 34; 51; 68; 85; 102; 119]) = Some (IdPe 1122867 1146447479) /\
  cid_reparse (IdElf [0; 17; 34; 51; 68; 85; 102; 119; 136; 153; 0; 17; 34; 51; 68; 85]) = Some (IdUuid [0; 17; 34; 51; 68; 85; 102; 119; 136; 153; 0; 17; 34; 51; 68; 85]) /\
  cid_reparse (IdElf [170; 187]) = None /\
  cid_unambiguous (IdElf [0; 17; 34; 51; 68; 85; 102; 119]) = false /\ cid_unambiguous (IdElf [170; 187]) = false.
Proof. vm_compute. repeat split. Qed.

Print Assumptions C19_lib_roundtrip.
Print Assumptions C19_no_code_id_still_known.
Print Assumptions C19_known.
Print Assumptions C19_code_id_codec.
Print Assumptions C19_lib_roundtrip_unconditional.
Print Assumptions C19_code_id_refuted.

(* non-vacuity: concrete ids of all three kinds do survive the string format *)
Example ex_c19 :
  cid_reparse (IdPe 1589279893 6000640) = Some (IdPe 1589279893 6000640) /\
  cid_reparse (IdElf [108; 151; 78; 190; 82; 50; 238; 70; 157; 107; 120; 71; 166; 112; 178; 169; 86; 248; 174; 222]) =
    Some (IdElf [108; 151; 78; 190; 82; 50; 238; 70; 157; 107; 120; 71; 166; 112; 178; 169; 86; 248; 174; 222]) /\
  cid_reparse (IdUuid [0; 17; 34; 51; 68; 85; 102; 119; 136; 153; 170; 187; 204; 221; 238; 255]) =
    Some (IdUuid [0; 17; 34; 51; 68; 85; 102; 119; 136; 153; 170; 187; 204; 221; 238; 255]).
Proof. vm_compute. repeat split. Qed.
