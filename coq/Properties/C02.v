(* C02 — Frames are attributed to the library mapped at that address at sample time (flush level:
   LibMappingOpQueue replay + stack conversion passes 1-2, i.e. what ProcessSampleData::flush_samples_to_profile does
   with the mapping operations and samples the converter queued). *)
From SV Require Import Generated.Consts Model.LibMappings Spec.LibMappingsSpec Model.Attribution Spec.AttributionSpec Proofs.AttributionProofs.
Open Scope N_scope.

(* the comparison in next_op_if_at_or_before, regenerated from the source: an op stamped exactly at the sample time applies *)
Theorem C02_cutoff_constant : c_op_cutoff_inclusive = true.
Proof. exact cutoff_inclusive. Qed.

(* For time-ordered mapping operations (non-empty ranges) and time-ordered samples, every frame of every sample resolves, in
   root-to-leaf order, to what the history specification of C11 gives for the operations announced at or before the sample's
   timestamp, at the frame's lookup address (ip; return address - 1; adjusted return address as is); user frames covered by no
   mapping and kernel frames stay raw; relative address = relative start + (address - start). *)
Theorem C02_attribution :
  forall (q : list (N * qop)) (samples : list (N * list sframe)),
    forallb wf_qopb q = true -> sorted_from 0 (map fst q) -> sorted_from 0 (map fst samples) ->
    flush [] q samples = spec_flush q samples.
Proof. exact flush_is_spec. Qed.

(* a mapping whose record carries a later timestamp than a sample never changes how that sample is attributed *)
Theorem C02_later_mmap_irrelevant :
  forall (q extra : list (N * qop)) (t : N) (fs : list sframe),
    Forall (fun x => t < fst x) extra ->
    spec_stack (q ++ extra) t fs = spec_stack q t fs.
Proof.
  intros q extra t fs H. apply later_ops_irrelevant.
  rewrite ops_upto_app, (ops_upto_later t extra H), app_nil_r. reflexivity.
Qed.

(* lookup addresses *)
Theorem C02_lookup_addresses :
  forall a md, lookup_addr (SIp a md) = Some (a, md) /\ lookup_addr (SRet a md) = Some (a - 1, md) /\
               lookup_addr (SAdj a md) = Some (a, md) /\ lookup_addr SMarker = None.
Proof. intros. repeat split. Qed.

Print Assumptions C02_cutoff_constant.
Print Assumptions C02_attribution.
Print Assumptions C02_later_mmap_irrelevant.
Print Assumptions C02_lookup_addresses.

Example ex_c02 :
  let q := [(5, QOp (Add (mkMapping 1000 2000 64 3))); (9, QOp Clear)] in
  spec_flush q [(4, [SRet 1500 User; SIp 1600 User]); (5, [SRet 1500 User; SRet 1 User; SIp 1500 Kernel; SIp 1600 User]); (9, [SIp 1600 User])]
  = [[RRaw 1499; RRaw 1600]; [RInLib 3 563; RRaw 0; RRaw 1500; RInLib 3 664]; [RRaw 1600]].
Proof. vm_compute. reflexivity. Qed.
