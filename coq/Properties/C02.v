(* C02 — Frames are attributed to the library mapped at that address at sample time.
   Flush level: LibMappingOpQueue replay + stack conversion passes 1-2 (what ProcessSampleData::flush_samples_to_profile does with the
   mapping operations and samples the converter queued).  Converter level: how MMAP2 / FORK / EXEC records build those queues, the
   relative start of a mapping, the call chain -> frame list translation, and the composition for time-ordered recordings. *)
From SV Require Import Generated.Consts Model.LibMappings Spec.LibMappingsSpec Model.Attribution Spec.AttributionSpec Proofs.AttributionProofs.
From SV Require Import Model.ConverterMaps Proofs.ConverterMapsProofs Generated.VmaBiasGen Proofs.VmaBiasGenProofs Generated.OpQueueGen Proofs.OpQueueGenProofs.
From Coq Require Import ZArith.
Open Scope N_scope.

(* the comparison in next_op_if_at_or_before, regenerated from the source: an op stamped exactly at the sample time applies *)
Theorem C02_cutoff_constant : c_op_cutoff_inclusive = true.
Proof. exact cutoff_inclusive. Qed.

(* For time-ordered mapping operations (non-empty ranges) and time-ordered samples, every frame of every sample resolves, in
   root-to-leaf order, to what the history specification of C11 gives for the operations announced at or before the sample's
   timestamp, at the frame's lookup address (ip; return address - 1; adjusted return address as is); user frames covered by no
   mapping and kernel frames stay raw; relative address = relative start + (address - start). *)
Theorem C02_attribution :
  forall (q : list (N * qop)) (samples : list (N * list sframe)),
    forallb wf_qopb q = true -> sorted_from 0 (map fst q) -> sorted_from 0 (map fst samples) ->
    flush [] q samples = spec_flush q samples.
Proof. exact flush_is_spec. Qed.

(* a mapping whose record carries a later timestamp than a sample never changes how that sample is attributed *)
Theorem C02_later_mmap_irrelevant :
  forall (q extra : list (N * qop)) (t : N) (fs : list sframe),
    Forall (fun x => t < fst x) extra ->
    spec_stack (q ++ extra) t fs = spec_stack q t fs.
Proof.
  intros q extra t fs H. apply later_ops_irrelevant.
  rewrite ops_upto_app, (ops_upto_later t extra H), app_nil_r. reflexivity.
Qed.

(* lookup addresses *)
Theorem C02_lookup_addresses :
  forall a md, lookup_addr (SIp a md) = Some (a, md) /\ lookup_addr (SRet a md) = Some (a - 1, md) /\
               lookup_addr (SAdj a md) = Some (a, md) /\ lookup_addr SMarker = None.
Proof. intros. repeat split. Qed.

(* ---- converter level ---- *)
(* for EVERY record history the queue of a process is: the mappings announced for that pid since its last exec, in arrival order,
   after the queue inherited from its parent at fork time *)
Theorem C02_queue_history : forall (rs : list mrec) (pid : N), mp_queue (mget (mrun rs) pid) = queue_of (rev rs) pid.
Proof. exact queue_spec. Qed.
Theorem C02_fork_inherits : forall rs pid ppid, (pid =? ppid) = false -> queue_of (MFork pid ppid :: rev rs) pid = queue_of (rev rs) ppid.
Proof. exact fork_inherits. Qed.
Theorem C02_exec_clears : forall rs pid, queue_of (MExec pid :: rev rs) pid = [].
Proof. exact exec_clears. Qed.

(* relative start: page offset when the binary is absent; when it is present, relative start + offset into the mapping is the SVMA of
   that byte's file offset minus the image base (the relative address C05's symbol tables use) *)
Theorem C02_rel_start_offset : forall start len pgoff, rel_start None start len pgoff = Some (pgoff mod 2 ^ 32).
Proof. exact rel_start_absent. Qed.
Theorem C02_rel_start_segments :
  forall segs start len pgoff s rel x,
  ref_seg segs pgoff len = Some s -> rel_start (Some segs) start len pgoff = Some rel ->
  start <= x -> x < start + len ->
  let svma_x := (Z.of_N (sg_svma s) + (Z.of_N pgoff + (Z.of_N x - Z.of_N start) - Z.of_N (sg_off s)))%Z in
  (0 <= Z.of_N (sg_svma s) + Z.of_N pgoff - Z.of_N (sg_off s) - Z.of_N (base_svma segs) < 2 ^ 32)%Z ->
  (Z.of_N start + Z.of_N (sg_off s) - Z.of_N pgoff - Z.of_N (sg_svma s) >= 0)%Z -> (Z.of_N start < 2 ^ 63)%Z -> (Z.of_N (base_svma segs) < 2 ^ 62)%Z ->
  (Z.of_N (sg_off s) < 2 ^ 62)%Z -> (Z.of_N (sg_svma s) < 2 ^ 62)%Z -> (Z.of_N pgoff < 2 ^ 62)%Z ->
  (Z.of_N rel + (Z.of_N x - Z.of_N start) = svma_x - Z.of_N (base_svma segs))%Z.
Proof. exact rel_start_segments. Qed.

(* call chains: the leaf is looked up at its address, every caller at return address - 1, order preserved root to leaf;
   a context marker only switches the mode of the frames after it *)
Theorem C02_call_chain_order :
  forall ip kernel a chain, (forall x, In x (a :: chain) -> x < PERF_CONTEXT_MAX) ->
  sample_frames ip kernel (a :: chain) = rev (SIp a (if kernel then Kernel else User) :: map (fun x => SRet x (if kernel then Kernel else User)) chain).
Proof. exact sample_frames_plain. Qed.

(* composition: in a time-ordered recording every sample of every process incarnation is attributed as the C11 history specification
   says for the operations queued at or before its time *)
Theorem C02_e2e_attribution :
  forall rs, time_ordered 0 rs ->
  forall pid p, In (pid, p) (incarnations (mrun rs)) -> flush [] (mp_queue p) (mp_samples p) = spec_flush (mp_queue p) (mp_samples p).
Proof. exact e2e_attribution. Qed.

(* The tie by translation for the bias of a mapped file.  tools/xlate_vb.py re-reads samply/src/linux_shared/svma_file_range.rs on every run and emits
   SvmaFileRange::encompasses_file_range, ::is_encompassed_by_file_range and compute_vma_bias_impl as Gallina (Generated/VmaBiasGen.v; u64 `+` and
   `-` checked as in a debug build, `wrapping_sub` wrapping, `iter().find` = the FIRST segment satisfying the closure, `||` short-circuit).  Whatever
   the translation returns without panicking is what the model's vma_bias - on which rel_start and C02_rel_start_segments rest - returns ... *)
Theorem C02_vma_bias_translation_sound :
  forall (segs : list seg) (off avma size : N) (r : option N),
    g_compute_vma_bias_impl segs off avma size = Some r -> r = vma_bias segs off avma size.
Proof. exact g_vma_bias_sound. Qed.

(* ... and it does not panic while the file ranges and the mapped address stay inside u64 and no segment that begins before the mapping's file offset
   would have to begin below address 0 *)
Theorem C02_vma_bias_translation_total :
  forall (segs : list seg) (off avma size : N),
    Forall (seg_in_range off avma) segs -> off + size < 2 ^ 64 ->
    g_compute_vma_bias_impl segs off avma size = Some (vma_bias segs off avma size).
Proof. exact g_vma_bias_total. Qed.

(* The tie by translation for the replay of the queued operations.  tools/xlate_ho.py re-reads samply/src/shared/lib_mappings.rs on every run and emits
   LibMappingOpQueueIter::next_op_if_at_or_before, LibMappingOp::apply_to (Add / Move / Remove / Clear, statement by statement over the table) and the
   regular-library loop of LibMappingsHierarchy::process_ops as Gallina (Generated/OpQueueGen.v).  They compute what the model computes: the operations
   stamped at or before the sample's time are applied, in order, each with the effect C02_attribution assumes. *)
Theorem C02_op_replay_translation_agrees :
  forall (ts : N) (q : list (N * qop)) (m : lm), g_process_ops ts m q = process_ops ts m q.
Proof. intros ts q m. exact (g_process_ops_eq ts q C02_cutoff_constant m). Qed.

Theorem C02_apply_op_translation_agrees :
  forall (m : lm) (q : qop), g_apply_to m q = apply_qop m q.
Proof. exact g_apply_to_eq. Qed.

Print Assumptions C02_cutoff_constant.
Print Assumptions C02_op_replay_translation_agrees.
Print Assumptions C02_apply_op_translation_agrees.
Print Assumptions C02_vma_bias_translation_sound.
Print Assumptions C02_vma_bias_translation_total.
Print Assumptions C02_queue_history.
Print Assumptions C02_fork_inherits.
Print Assumptions C02_exec_clears.
Print Assumptions C02_rel_start_offset.
Print Assumptions C02_rel_start_segments.
Print Assumptions C02_call_chain_order.
Print Assumptions C02_e2e_attribution.
Print Assumptions C02_attribution.
Print Assumptions C02_later_mmap_irrelevant.
Print Assumptions C02_lookup_addresses.

Example ex_c02 :
  let q := [(5, QOp (Add (mkMapping 1000 2000 64 3))); (9, QOp Clear)] in
  spec_flush q [(4, [SRet 1500 User; SIp 1600 User]); (5, [SRet 1500 User; SRet 1 User; SIp 1500 Kernel; SIp 1600 User]); (9, [SIp 1600 User])]
  = [[RRaw 1499; RRaw 1600]; [RInLib 3 563; RRaw 0; RRaw 1500; RInLib 3 664]; [RRaw 1600]].
Proof. vm_compute. reflexivity. Qed.

(* the converter level on a concrete recording: a mapping inherited across fork, cleared by exec, looked up at ip and return address - 1 *)
Example ex_c02_e2e :
  let rs := [MExec 100; MMmap 100 1005 4096 8192 4096 None 3; MSample 100 1010 4660 false [4660; 8193; 20480];
             MFork 200 100; MSample 200 1020 4660 false [4660]; MExec 200; MSample 200 1030 4660 false [4660]] in
  moutput (mrun rs) = [(200, 1020, [RInLib 3 4660]); (100, 1010, [RRaw 20479; RInLib 3 8192; RInLib 3 4660]); (200, 1030, [RRaw 4660])].
Proof. vm_compute. reflexivity. Qed.

(* Non-vacuity for the translated bias: a file with packed segments (code at file offset 0, data beginning in the same file page with another
   address - offset difference), mapped as a whole at 0x7e0000000000: the code segment, found first, is the reference. *)
Example ex_vma_bias_packed :
  g_compute_vma_bias_impl [mkSeg 0 0 1520; mkSeg 7736 3640 776] 0 138538465099776 8192 = Some (Some 138538465099776) /\
  Forall (seg_in_range 0 138538465099776) [mkSeg 0 0 1520; mkSeg 7736 3640 776].
Proof. split; [vm_compute; reflexivity|]. repeat constructor; cbv; try discriminate; intros; try discriminate; auto. Qed.
