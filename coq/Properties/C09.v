(* C09 — /source/v1 only ever reads files named by the debug info of the queried address. *)
From SV Require Import Model.Symbolicate Model.SourceApi Proofs.SourceApiProofs.
Open Scope N_scope.

Theorem C09_only_listed :
  forall load frames l offset requested raw,
    source_query load frames l offset requested = SRead raw ->
    load l = true /\
    exists fs pre post, frames l offset = Some fs /\ fs = pre ++ Some (requested, raw) :: post /\
      forall f, In f pre -> match f with Some (api, _) => api <> requested | None => True end.
Proof. exact only_listed. Qed.

Theorem C09_refused_reads_nothing :
  forall load frames l offset requested,
    ~ In requested (reported_paths frames l offset) ->
    forall raw, source_query load frames l offset requested <> SRead raw.
Proof. exact refused_reads_nothing. Qed.

Theorem C09_symbolicate_paths_accepted :
  forall load frames l offset p,
    load l = true -> In p (reported_paths frames l offset) -> exists raw, source_query load frames l offset p = SRead raw.
Proof. exact reported_paths_accepted. Qed.

Print Assumptions C09_only_listed.
Print Assumptions C09_refused_reads_nothing.
Print Assumptions C09_symbolicate_paths_accepted.

Example ex_c09 :
  let frames := fun (_ : lib) (_ : N) => Some [Some (5, 50); None; Some (6, 60); Some (5, 51)] in
  map (source_query (fun _ => true) frames (0, 0) 0) [5; 6; 7; 50] = [SRead 50; SRead 60; SInvalidPath; SInvalidPath].
Proof. vm_compute. reflexivity. Qed.
