(* C07 — /symbolicate/v5 answers every requested frame, in request shape, truthfully. *)
From SV Require Import Model.Symbolicate Proofs.SymbolicateProofs.
Open Scope N_scope.

(* a frame that references a module index outside the memory map yields an error response, never a partial one *)
Theorem C07_bad_index :
  forall load look (js : list job), forallb indices_ok js = false -> query load look js = RErr.
Proof. exact query_bad_index. Qed.

(* For every request whose module indices are valid (any number of jobs, repeated / unknown / malformed-id / unused modules, stacks
   of any length, the same module shared between jobs) and every sane symbol oracle: the response has one result per job, one stack per
   stack, one frame per frame in the same order, each echoing position, module name and offset and carrying exactly what a direct
   lookup of that module and offset yields (nothing for modules that cannot be loaded) - and none of the unwrap()/index/subtraction
   sites panics. *)
Theorem C07_shape_and_truth :
  forall load look (js : list job),
    oracle_sane look -> forallb indices_ok js = true ->
    exists req, gather_jobs js [] = Some req /\
      let results := map (fun '(k, addrs) => (k, symbolicate_lib load look k addrs)) req in
      query load look js = ROk (map (fun j => mkJr (spec_stacks load look j) (found_of results j)) js).
Proof. intros load look js Hs Hv. exact (query_ok load look Hs js Hv). Qed.

(* found_modules entries concern modules of the job's memory map that some frame references, and say whether the module loaded *)
Theorem C07_found_modules :
  forall load look (req : list (lib * list N)) (j : job) l b,
    let results := map (fun '(k, addrs) => (k, symbolicate_lib load look k addrs)) req in
    In (l, b) (found_of results j) -> In l (memory_map j) /\ b = load l /\ amap_get req l <> None.
Proof. exact found_of_spec. Qed.

Print Assumptions C07_bad_index.
Print Assumptions C07_shape_and_truth.
Print Assumptions C07_found_modules.

(* Non-vacuity: two jobs sharing a module, an unloadable module, an address without symbol. *)
Example ex_c07 :
  let load := fun l : lib => fst l =? 1 in
  let look := fun (l : lib) a => if a =? 100 then Some (mkAi 96 7 (Some 16) (Some [(Some 9, Some 3, Some 0); (Some 7, Some 4, Some 12)])) else None in
  query load look [mkJob [(1, 1); (2, 2)] [[(0, 100); (1, 5)]]; mkJob [(1, 1)] [[(0, 101)]; []]]
  = ROk [mkJr [[mkRf 0 100 1 (Some (mkSym 7 4 (Some 16) (Some (mkDi (Some 4) (Some 12) [(Some 9, Some 3, None)])))); mkRf 1 5 2 None]]
              [((1, 1), true); ((2, 2), false)];
         mkJr [[mkRf 0 101 1 None]; []] [((1, 1), true)]].
Proof. vm_compute. reflexivity. Qed.
