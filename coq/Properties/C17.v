(* C17 — process/thread names and lifetimes follow the COMM, EXEC, FORK and EXIT records (default options).
   Stated as the effect of each record on the live table and on the profile entries, for every state the converter can be in
   (WF holds in every reachable state: C17_reachable_wf); composed over a history these give the property's clauses.
   The clause "a thread's end time is the time of its EXIT record" does not survive the EXIT of the main thread (finding F-C17):
   C17_exit_main_ends_all shows that the main thread's EXIT removes the whole process from the live table. *)
From SV Require Import Model.Converter Proofs.ConverterProofs Proofs.ConverterNames Proofs.ConverterFrozen Proofs.ConverterKeys.
Open Scope N_scope.

Theorem C17_reachable_wf : forall origin rs, WF (run origin rs).
Proof. intros origin rs. exact (proj1 (run_from_wf origin rs (init origin) (wf_init origin))). Qed.

(* entries keep their identity: pid / tid strings, owner process and main-thread flag of an entry never change, entries are never removed *)
Theorem C17_entries_stable : forall origin rs rs2, extends (run origin rs) (fold_left (step origin) rs2 (run origin rs)).
Proof. intros origin rs rs2. exact (proj2 (run_from_wf origin rs2 _ (C17_reachable_wf origin rs))). Qed.

(* a COMM names the thread: afterwards the live thread (pid, tid) exists and carries that name ... *)
Theorem C17_comm_names_thread :
  forall origin s pid tid name ts, (tid =? pid) = false ->
    exists p t, alookup pid (lprocs (step origin s (RComm pid tid name false ts))) = Some p /\
                alookup tid (lp_threads p) = Some t /\ lt_name t = Some name.
Proof. exact comm_thread_live_name. Qed.
(* ... and the profile entry shows it *)
Theorem C17_comm_names_entry :
  forall origin s pid tid name ts p th, WF s -> (tid =? pid) = false ->
    alookup pid (lprocs s) = Some p -> alookup tid (lp_threads p) = Some th ->
    (match lt_name th with Some n => n =? name | None => false end) = false ->
    exists e, nth_error (pthreads (step origin s (RComm pid tid name false ts))) (lt_handle th) = Some e /\ te_name e = Some name /\ te_tid e = tid.
Proof. exact comm_thread_entry_name. Qed.

(* a COMM of the main thread names the process *)
Theorem C17_comm_names_process :
  forall origin s pid name ts, exists p, alookup pid (lprocs (step origin s (RComm pid pid name false ts))) = Some p /\ lp_name p = Some name.
Proof. exact comm_process_live_name. Qed.
Theorem C17_comm_names_process_entry :
  forall origin s pid name ts p, WF s -> alookup pid (lprocs s) = Some p ->
    (match lp_name p with Some n => n =? name | None => false end) = false ->
    exists e, nth_error (pprocs (step origin s (RComm pid pid name false ts))) (lp_handle p) = Some e /\ pe_name e = NGiven name /\ pe_pid e = pid.
Proof. exact comm_process_entry_name. Qed.

(* a FORK of a new thread opens a fresh entry that starts at the FORK time and inherits the forking thread's name *)
Theorem C17_fork_thread :
  forall origin s pid tid ptid ts p pt, WF s -> (tid =? pid) = false ->
    alookup pid (lprocs s) = Some p -> alookup tid (lp_threads p) = None ->
    (if ptid =? pid then Some (lp_main p) else alookup ptid (lp_threads p)) = Some pt ->
    let s' := step origin s (RFork pid pid tid ptid ts) in
    exists e, nth_error (pthreads s') (length (pthreads s)) = Some e /\ te_tid e = tid /\ te_start e = ts - origin /\ te_end e = None /\
              te_name e = lt_name pt /\ te_main e = false /\
              exists p' t, alookup pid (lprocs s') = Some p' /\ alookup tid (lp_threads p') = Some t /\ lt_handle t = length (pthreads s) /\ lt_name t = lt_name pt.
Proof. exact fork_thread_entry. Qed.

(* an EXIT of a live non-main thread ends its entry at the EXIT time and retires the thread *)
Theorem C17_exit_thread :
  forall origin s pid tid ts p th, WF s -> (tid =? pid) = false ->
    alookup pid (lprocs s) = Some p -> alookup tid (lp_threads p) = Some th ->
    let s' := step origin s (RExit pid tid ts) in
    (exists e, nth_error (pthreads s') (lt_handle th) = Some e /\ te_end e = Some (ts - origin) /\ te_tid e = tid) /\
    exists p', alookup pid (lprocs s') = Some p' /\ lp_threads p' = aremove tid (lp_threads p).
Proof. exact exit_thread_entry. Qed.

(* the EXIT of the main thread retires the whole process, other threads included (the root of finding F-C17) *)
Theorem C17_exit_main_ends_all :
  forall origin s pid ts p, alookup pid (lprocs s) = Some p -> lprocs (step origin s (RExit pid pid ts)) = aremove pid (lprocs s).
Proof. exact exit_main_removes. Qed.

(* keys of the live tables are unique in every reachable state *)
Theorem C17_reachable_keys : forall origin rs, KU (run origin rs).
Proof. intros origin rs. exact (run_KU origin rs (init origin) (KU_init origin)). Qed.

(* frame condition: an entry that no live thread / process points at is never modified again, whatever records follow
   (names and lifetimes of exited threads and retired processes are final) *)
Theorem C17_frozen_thread_entry :
  forall origin s rs h e, nth_error (pthreads s) h = Some e -> ~ In h (live_threads s) ->
    nth_error (pthreads (fold_left (step origin) rs s)) h = Some e.
Proof. exact frozen_thread_entry. Qed.
Theorem C17_frozen_process_entry :
  forall origin s rs h e, nth_error (pprocs s) h = Some e -> ~ In h (live_procs s) ->
    nth_error (pprocs (fold_left (step origin) rs s)) h = Some e.
Proof. exact frozen_process_entry. Qed.

(* the EXIT of a live non-main thread: its entry ends at the EXIT time and stays exactly so under every continuation of the history *)
Theorem C17_exit_thread_final :
  forall origin s pid tid ts p th rs, WF s -> KU s -> (tid =? pid) = false ->
    alookup pid (lprocs s) = Some p -> alookup tid (lp_threads p) = Some th ->
    exists e, nth_error (pthreads (step origin s (RExit pid tid ts))) (lt_handle th) = Some e /\ te_end e = Some (ts - origin) /\ te_tid e = tid /\
              nth_error (pthreads (fold_left (step origin) rs (step origin s (RExit pid tid ts)))) (lt_handle th) = Some e.
Proof. exact exit_thread_frozen. Qed.

(* the EXIT of the main thread: none of the process's thread entries is live afterwards (they are final from then on: F-C17's root) *)
Theorem C17_exit_main_final :
  forall origin s pid ts p, WF s -> KU s -> alookup pid (lprocs s) = Some p ->
    forall h, In h (proc_thread_handles p) -> ~ In h (live_threads (step origin s (RExit pid pid ts))).
Proof. exact exit_main_not_live. Qed.

Print Assumptions C17_reachable_wf.
Print Assumptions C17_reachable_keys.
Print Assumptions C17_frozen_thread_entry.
Print Assumptions C17_frozen_process_entry.
Print Assumptions C17_exit_thread_final.
Print Assumptions C17_exit_main_final.
Print Assumptions C17_entries_stable.
Print Assumptions C17_comm_names_thread.
Print Assumptions C17_comm_names_entry.
Print Assumptions C17_comm_names_process.
Print Assumptions C17_comm_names_process_entry.
Print Assumptions C17_fork_thread.
Print Assumptions C17_exit_thread.
Print Assumptions C17_exit_main_ends_all.

(* non-vacuity and the F-C17 witness: leader 100 exits at +50 while thread 101 ("nm7") is alive; 101's later sample and EXIT open a second
   process entry 100.1 with a placeholder thread 101.1, and the first entry of 101 ends at +50, not at its own EXIT (+70) *)
Example ex_c17 :
  let rs := [RComm 100 100 5 true 1000000010; RFork 100 100 101 100 1000000020; RComm 100 101 7 false 1000000030;
             RExit 100 100 1000000050; RSample 100 101 1000000060; RExit 100 101 1000000070] in
  map (fun x => (sh_pid x, sh_tid x, sh_tname x, sh_tstart x, sh_tend x, sh_samples x)) (show (run 1000000000 rs)) =
  [((100, 0), (100, 0), TNProc (NGiven 5), 10, Some 50, []);
   ((100, 0), (101, 0), TNGiven 7, 20, Some 50, []);
   ((100, 1), (100, 1), TNProc (NPid 100), 0, None, []);
   ((100, 1), (101, 1), TNFallback 101 1, 0, Some 70, [60])].
Proof. vm_compute. reflexivity. Qed.
