(* C05 — Symbol lookup returns the function that contains the address, consistently. *)
From SV Require Import Model.SymbolList Proofs.SymbolListProofs.
Open Scope N_scope.

(* the entry list of an object symbol map is strictly sorted by address, whatever the sources were *)
Theorem C05_build_sorted : forall sources : list entry, StrictSorted (build sources).
Proof. exact build_strict. Qed.

(* a successful lookup: start <= address < end; the function is enumerated (not an end marker) and it is the enumerated
   entry with the greatest start not exceeding the address (no entry at all lies in (start, address]) *)
Theorem C05_contains_and_enumerated_max :
  forall (l : list entry) (a s e : N),
    StrictSorted l -> lookup_rel l a = Some (s, e) ->
    s <= a /\ a < e /\ s < e /\
    (exists k, In (s, k) (enumerate l)) /\
    (forall x, In x l -> ~ (s < fst x /\ fst x <= a)).
Proof. exact lookup_rel_spec. Qed.

(* the answer is the same whether the address is given as relative address, stated virtual address or file offset *)
Theorem C05_forms_agree :
  forall base ranges l r,
    r < two32 -> base + r < two64 ->
    lookup base ranges l (ASvma (base + r)) = lookup base ranges l (ARel r).
Proof. exact forms_svma. Qed.

Theorem C05_forms_offset :
  forall base ranges l o v,
    off_to_svma ranges o = Some v ->
    lookup base ranges l (AOff o) = lookup base ranges l (ASvma v) /\
    exists svma fo size, In (svma, fo, size) ranges /\ fo <= o /\ o < fo + size /\ v = svma + (o - fo).
Proof. intros. split; [apply forms_offset; assumption|apply off_to_svma_spec; assumption]. Qed.


(* jitdump: a successful lookup in either form lands inside the code range of the reported function *)
Theorem C05_jitdump_relative :
  forall l a s off, jlookup_rel l a = Some (s, off) ->
    s <= a /\ a = s + off /\ exists x, In x l /\ je_rel x = s /\ off < je_len x.
Proof. exact jlookup_rel_contains. Qed.
Theorem C05_jitdump_offset :
  forall l o s off, jlookup_off l o = Some (s, off) ->
    exists x, In x l /\ je_rel x = s /\ je_cbo x <= o /\ o = je_cbo x + off /\ off < je_len x.
Proof. exact jlookup_off_contains. Qed.

Print Assumptions C05_build_sorted.
Print Assumptions C05_contains_and_enumerated_max.
Print Assumptions C05_forms_agree.
Print Assumptions C05_forms_offset.
Print Assumptions C05_jitdump_relative.
Print Assumptions C05_jitdump_offset.

Example ex_c05 :
  let l := build [(100, KSym); (300, KSym); (100, KSynth); (150, KEnd); (400, KEnd); (20, KEntryPoint)] in
  map (lookup_rel l) [19; 20; 99; 100; 149; 150; 299; 300; 399; 400] =
  [None; Some (20, 100); Some (20, 100); Some (100, 150); Some (100, 150); None; None; Some (300, 400); Some (300, 400); None].
Proof. vm_compute. reflexivity. Qed.
