(* C10 — Breakpad symbol index is independent of chunking and agrees with the .sym text. *)
From SV Require Import Lib.Bytes Model.LineBuffer Proofs.LineBufferProofs Model.BreakpadIndex Proofs.BreakpadIndexProofs.
From SV Require Import Model.BreakpadIndexParse Proofs.BreakpadIndexParseProofs.
From SV Require Import Model.BreakpadLookup Spec.BreakpadText Proofs.BreakpadTextLines Proofs.BreakpadTextProofs Proofs.BreakpadTextEnd.
Open Scope N_scope.

(* For EVERY partition of a byte string into chunks (1-byte chunks, splits inside "\r\n", anything): the lines the incremental
   line buffer hands out, with their file offsets, followed by the unterminated last line, and the final offset, are exactly
   the lines of the whole string; the buffer's assertion never fires and the fuel always suffices. *)
Theorem C10_chunking :
  forall chunks : list (list N),
    lines_of_chunks chunks = (fst (split_lines (concat chunks)), snd (split_lines (concat chunks)), false).
Proof. exact chunking. Qed.

(* hence the index (and its serialized bytes) depends only on the concatenation of the chunks *)
Theorem C10_index_chunk_invariant :
  forall chunks : list (list N), index_of_chunks chunks = index_of_text (concat chunks).
Proof. exact index_chunk_invariant. Qed.

Theorem C10_index_bytes_chunk_invariant :
  forall chunks1 chunks2 : list (list N),
    concat chunks1 = concat chunks2 ->
    option_map serialize (index_of_chunks chunks1) = option_map serialize (index_of_chunks chunks2).
Proof. exact index_bytes_chunk_invariant. Qed.

(* parsing a serialized index gives the same tables back, so serializing again reproduces the bytes - for EVERY index whose
   entries fit their fields and whose serialized size fits the header's 32-bit offsets *)
Theorem C10_parse_serialize : forall i : index, wf_index i -> parse_symindex (serialize i) = Some i.
Proof. exact parse_serialize. Qed.
Theorem C10_serialize_parse_serialize :
  forall i : index, wf_index i -> option_map serialize (parse_symindex (serialize i)) = Some (serialize i).
Proof. exact serialize_parse_serialize. Qed.

(* lookups through a separately stored index (serialized, parsed back) give the same answers as lookups through the index itself *)
Theorem C10_stored_index_lookups :
  forall ix : index, wf_index ix ->
    exists stored, parse_symindex (serialize ix) = Some stored /\
                   forall (text : bytes) (a : N), lookup text stored a = lookup text ix a.
Proof. exact stored_index_lookups. Qed.

(* For EVERY well-formed .sym text below 4 GiB (Spec/BreakpadText.v wf_text: a MODULE line first, distinct symbol addresses and
   FILE / INLINE_ORIGIN indices, FUNC ranges within 32 bits, line records ascending within a FUNC, inline ranges of one depth
   disjoint and non-empty, no malformed INLINE record) and EVERY address: the lookup through the index built for that text
   (binary search over the sorted symbol table, the FUNC block read back through its file offset and length, ordered searches for
   the inline chain and the line record, FILE / INLINE_ORIGIN strings through the index) returns exactly what the straightforward
   reading of the text returns (the FUNC or PUBLIC record covering the address, its inline call chain, file and line of the
   covering line record). *)
Theorem C10_lookup_agrees_with_text :
  forall (text : bytes) (ix : index) (a : N),
    len text < 4294967296 -> wf_text text = true -> index_of_text text = Some ix ->
    lookup text ix a = text_lookup text a.
Proof. exact lookup_agrees_with_text. Qed.

(* the three clauses together: the file arrives in ANY partition into chunks, the index is stored and read back, and lookups
   through the stored index still agree with the text *)
Theorem C10_end_to_end :
  forall (chunks : list (list N)) (ix stored : index) (a : N),
    len (concat chunks) < 4294967296 -> wf_text (concat chunks) = true ->
    index_of_chunks chunks = Some ix -> wf_index ix -> parse_symindex (serialize ix) = Some stored ->
    lookup (concat chunks) stored a = text_lookup (concat chunks) a.
Proof. exact end_to_end. Qed.

Print Assumptions C10_chunking.
Print Assumptions C10_stored_index_lookups.
Print Assumptions C10_lookup_agrees_with_text.
Print Assumptions C10_end_to_end.
Print Assumptions C10_parse_serialize.
Print Assumptions C10_serialize_parse_serialize.
Print Assumptions C10_index_chunk_invariant.
Print Assumptions C10_index_bytes_chunk_invariant.

(* Non-vacuity: a CRLF line split between '\r' and '\n', and an unterminated last line. *)
Example ex_chunks :
  lines_of_chunks [[65; 66; 13]; [10; 67]; []; [68]] = ([(0, [65; 66; 13]); (4, [67; 68])], 6, false).
Proof. vm_compute. reflexivity. Qed.

Example ex_c10_roundtrip :
  let i := mkIdx [77; 79; 68] [mkF 0 5 100; mkF 3 7 200] [mkF 1 4 300] [mkS 4096 0 10 400; mkS 8192 1 20 500] in
  parse_symindex (serialize i) = Some i /\ N.of_nat (length (serialize i)) = 140.
Proof. vm_compute. split; reflexivity. Qed.

(* Non-vacuity of C10_lookup_agrees_with_text: a well-formed text with FILE / INLINE_ORIGIN / FUNC / INLINE / line / PUBLIC records;
   the lookup inside the inline range returns a two-frame chain. *)
From Coq Require Import String.
Definition ex_text : bytes := rejoin (map bytes_of_string
  ["MODULE Linux x86_64 BE4E976C325246EE9D6B7847A670B2A90 ex"; "FILE 0 a.c"; "FILE 1 b.h"; "INLINE_ORIGIN 0 inl()";
   "FUNC 1000 30 0 outer"; "INLINE 0 12 0 0 1010 10"; "1000 10 5 0"; "1010 10 7 1"; "1020 10 9 0"; "PUBLIC 2000 0 pub"]%string) true.
Example ex_c10_text :
  wf_text ex_text = true /\ len ex_text = 200 /\
  option_map (fun ix => lookup ex_text ix 4116) (index_of_text ex_text) =
    Some (LSome 4096 (Some 48) (bytes_of_string "outer")
            (Some [(Some (bytes_of_string "inl()"), Some (bytes_of_string "b.h"), Some 7);
                   (Some (bytes_of_string "outer"), Some (bytes_of_string "a.c"), Some 12)])).
Proof. vm_compute. repeat split; reflexivity. Qed.
