(* C10 — Breakpad symbol index is independent of chunking and agrees with the .sym text. *)
From SV Require Import Lib.Bytes Model.LineBuffer Proofs.LineBufferProofs Model.BreakpadIndex Proofs.BreakpadIndexProofs.
From SV Require Import Model.BreakpadIndexParse Proofs.BreakpadIndexParseProofs.
Open Scope N_scope.

(* For EVERY partition of a byte string into chunks (1-byte chunks, splits inside "\r\n", anything): the lines the incremental
   line buffer hands out, with their file offsets, followed by the unterminated last line, and the final offset, are exactly
   the lines of the whole string; the buffer's assertion never fires and the fuel always suffices. *)
Theorem C10_chunking :
  forall chunks : list (list N),
    lines_of_chunks chunks = (fst (split_lines (concat chunks)), snd (split_lines (concat chunks)), false).
Proof. exact chunking. Qed.

(* hence the index (and its serialized bytes) depends only on the concatenation of the chunks *)
Theorem C10_index_chunk_invariant :
  forall chunks : list (list N), index_of_chunks chunks = index_of_text (concat chunks).
Proof. exact index_chunk_invariant. Qed.

Theorem C10_index_bytes_chunk_invariant :
  forall chunks1 chunks2 : list (list N),
    concat chunks1 = concat chunks2 ->
    option_map serialize (index_of_chunks chunks1) = option_map serialize (index_of_chunks chunks2).
Proof. exact index_bytes_chunk_invariant. Qed.

(* parsing a serialized index gives the same tables back, so serializing again reproduces the bytes - for EVERY index whose
   entries fit their fields and whose serialized size fits the header's 32-bit offsets *)
Theorem C10_parse_serialize : forall i : index, wf_index i -> parse_symindex (serialize i) = Some i.
Proof. exact parse_serialize. Qed.
Theorem C10_serialize_parse_serialize :
  forall i : index, wf_index i -> option_map serialize (parse_symindex (serialize i)) = Some (serialize i).
Proof. exact serialize_parse_serialize. Qed.

Print Assumptions C10_chunking.
Print Assumptions C10_parse_serialize.
Print Assumptions C10_serialize_parse_serialize.
Print Assumptions C10_index_chunk_invariant.
Print Assumptions C10_index_bytes_chunk_invariant.

(* Non-vacuity: a CRLF line split between '\r' and '\n', and an unterminated last line. *)
Example ex_chunks :
  lines_of_chunks [[65; 66; 13]; [10; 67]; []; [68]] = ([(0, [65; 66; 13]); (4, [67; 68])], 6, false).
Proof. vm_compute. reflexivity. Qed.

Example ex_c10_roundtrip :
  let i := mkIdx [77; 79; 68] [mkF 0 5 100; mkF 3 7 200] [mkF 1 4 300] [mkS 4096 0 10 400; mkS 8192 1 20 500] in
  parse_symindex (serialize i) = Some i /\ N.of_nat (length (serialize i)) = 140.
Proof. vm_compute. split; reflexivity. Qed.
