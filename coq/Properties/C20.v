(* C20 — /asm/v1 returns a gap-free, in-range instruction listing of the requested bytes. *)
From SV Require Import Generated.Consts Model.AsmDecode Proofs.AsmDecodeProofs.
Open Scope N_scope.

(* For every decoder that (a) consumes at least one byte and no more than remain when it succeeds and (b) consumes at least
   one byte before declaring bytes invalid, every number of bytes read, every resynchronisation step > 0 and every decode length:
   the loop terminates within its fuel, and the listing it returns
   - starts at offset 0 (chain 0) with every offset below the decode length,
   - advances from each entry by exactly the decoded length of that entry, or by the resync step after an invalid entry
     (so consecutive entries tile the bytes: no byte skipped, none decoded twice), every entry's kind agreeing with the decoder,
   - reports a size beyond the offset of every listed instruction. *)
Theorem C20_listing :
  forall (dec : N -> dres) (nbytes adj decode_len : N),
    0 < adj ->
    (forall off len, dec off = DOk len -> 0 < len /\ off + len <= nbytes) ->
    (forall off c, dec off = DInvalid c -> 0 < c) ->
    exists res size, listing dec nbytes adj decode_len = Some (res, size) /\
      chain dec adj decode_len 0 res /\ (forall x, In x res -> fst x < size).
Proof. intros. apply listing_ok; assumption. Qed.

(* what `chain` gives, in the words of the property *)
Theorem C20_first_zero :
  forall dec adj decode_len l x r, chain dec adj decode_len 0 l -> l = x :: r -> fst x = 0.
Proof. intros. eapply chain_first; eauto. Qed.

Theorem C20_in_range :
  forall dec adj decode_len l, chain dec adj decode_len 0 l -> forall x, In x l -> fst x < decode_len.
Proof. intros dec adj decode_len l H x Hx. destruct (chain_in_range dec adj decode_len 0 l H x Hx). assumption. Qed.

Theorem C20_step_exact :
  forall dec adj decode_len l, chain dec adj decode_len 0 l ->
    forall a x y b, l = a ++ x :: y :: b -> fst y = fst x + step_of dec adj x /\ fst x < fst y.
Proof. intros. eapply chain_consecutive; eauto. Qed.

(* the resynchronisation steps regenerated from the source are positive (hypothesis of C20_listing) *)
Theorem C20_adjust_positive : forall a, 0 < adjust a.
Proof. intros []; vm_compute; reflexivity. Qed.

Print Assumptions C20_listing.
Print Assumptions C20_first_zero.
Print Assumptions C20_in_range.
Print Assumptions C20_step_exact.
Print Assumptions C20_adjust_positive.

(* Non-vacuity: a decoder with an invalid byte at offset 2 (one-byte instructions elsewhere, two-byte at 0), 8 bytes read, length 6. *)
Example ex_listing :
  let dec := fun off => if off =? 0 then DOk 2 else if off =? 2 then DInvalid 1 else if off <? 8 then DOk 1 else DExhausted 0 in
  listing dec 8 1 6 = Some ([(0, KValid); (2, KInvalid); (3, KValid); (4, KValid); (5, KValid)], 6).
Proof. vm_compute. reflexivity. Qed.
