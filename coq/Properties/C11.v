(* C11 — Library mapping tables never overlap and resolve to the newest live mapping.
   This file holds only the pinned property theorems, closed by `exact`,
   their `Print Assumptions`, and non-vacuity examples. *)
From SV Require Import Model.LibMappings Spec.LibMappingsSpec Proofs.LibMappingsProofs Generated.LibMappingsGen Proofs.LibMappingsGenProofs.
From Coq Require Import Lia.
Open Scope N_scope.

(* After any well-formed history no two live mappings overlap (and each is non-empty). *)
Theorem C11_no_overlap :
  forall ops : list op, WfOps ops ->
    ForallOrdPairs (fun x y => overlaps x y = false) (run ops) /\
    Forall (fun x => m_start x < m_end x) (run ops).
Proof. exact no_overlap. Qed.

(* An address resolves to the most recently added mapping that covers it and has
   neither been removed nor displaced by a later overlapping mapping; to nothing otherwise. *)
Theorem C11_refines_spec :
  forall (ops : list op) (a : N), WfOps ops ->
    lookup_impl (run ops) a = spec_lookup ops a.
Proof. exact refines_spec. Qed.

(* ... yielding the library and relative-start + (address - start), without u32 overflow,
   whenever that sum stays within 32 bits. *)
Theorem C11_convert :
  forall (ops : list op) (a : N) (y : mapping), WfOps ops ->
    spec_lookup ops a = Some y -> m_rel y + (a - m_start y) < two32 ->
    convert_address (run ops) a = Some (m_rel y + (a - m_start y), m_val y, false).
Proof.
  intros ops a y HW HS HR. apply convert_in_range; [|exact HR].
  rewrite (refines_spec ops a HW). exact HS.
Qed.

Theorem C11_convert_none :
  forall (ops : list op) (a : N), WfOps ops ->
    spec_lookup ops a = None -> convert_address (run ops) a = None.
Proof.
  intros ops a HW HS. rewrite convert_exact, (refines_spec ops a HW), HS. reflexivity.
Qed.

(* Frames through the profile API: kernel mappings first, then the process's;
   return addresses are looked up one byte earlier; adjusted ones as given. *)
Theorem C11_frames :
  forall (kh ph : list op) (fa : frame_address), WfOps kh -> WfOps ph ->
    let a := lookup_address fa in
    resolve_frame (run kh) (run ph) fa =
      match conv_of (spec_lookup kh a) a with
      | Some (r, v, o) => (InLib r v, o)
      | None =>
          match conv_of (spec_lookup ph a) a with
          | Some (r, v, o) => (InLib r v, o)
          | None => (Unknown a, false)
          end
      end
    /\ lookup_address (Ip a) = a
    /\ (forall r, lookup_address (RetAddr r) = r - 1)
    /\ (forall r, lookup_address (AdjRetAddr r) = r).
Proof.
  intros kh ph fa Hk Hp a. split; [|repeat split].
  unfold resolve_frame, process_convert. fold a.
  rewrite !convert_exact, (refines_spec kh a Hk), (refines_spec ph a Hp).
  reflexivity.
Qed.

(* The whole driver evaluated by the correspondence check equals the history specification. *)
Theorem C11_actions_refine :
  forall (debug : bool) (acts : list action) (kh ph : list op),
    WfOps kh -> WfOps ph -> forallb wf_action acts = true ->
    run_actions debug (run kh) (run ph) acts = spec_actions debug kh ph acts.
Proof. exact actions_refine. Qed.

(* The tie by translation.  tools/xlate_lm.py re-reads fxprof-processed-profile/src/lib_mappings.rs on every run and emits lookup_impl, add_mapping,
   remove_mapping, convert_address, lookup, new and clear as Gallina over the model's BTreeMap operations (Generated/LibMappingsGen.v); g_lm_run chains
   them over a history.  They compute exactly what the hand-written model computes, so the theorems above are theorems about the translation of the
   source as it is now. *)
Theorem C11_translation_agrees :
  forall ops : list op, g_lm_run ops = run ops.
Proof. exact g_lm_run_eq. Qed.

Theorem C11_translation_functions_agree :
  forall (m : lm) (x : mapping) (s a : N),
    g_add_mapping m x = add_mapping m x /\ fst (g_remove_mapping m s) = remove_mapping m s /\
    g_lookup_impl m a = lookup_impl m a /\ g_convert_address m a = convert_address m a.
Proof.
  intros. split; [apply g_add_mapping_eq|split; [apply g_remove_mapping_eq|split; [apply g_lookup_impl_eq|apply g_convert_address_eq]]].
Qed.

(* hence the property about the translation: after any well-formed history the translated table has no overlapping entries, and the translated
   convert_address resolves an address to the newest live mapping covering it - library and relative start + (address - start) - or to nothing *)
Theorem C11_of_translation :
  forall (ops : list op) (a : N), WfOps ops ->
    ForallOrdPairs (fun x y => overlaps x y = false) (g_lm_run ops) /\
    g_lookup_impl (g_lm_run ops) a = spec_lookup ops a /\
    (forall y, spec_lookup ops a = Some y -> m_rel y + (a - m_start y) < two32 ->
               g_convert_address (g_lm_run ops) a = Some (m_rel y + (a - m_start y), m_val y, false)) /\
    (spec_lookup ops a = None -> g_convert_address (g_lm_run ops) a = None).
Proof.
  intros ops a HW. rewrite g_lm_run_eq. repeat split.
  - exact (proj1 (C11_no_overlap ops HW)).
  - rewrite g_lookup_impl_eq. exact (C11_refines_spec ops a HW).
  - intros y HS HR. rewrite g_convert_address_eq. exact (C11_convert ops a y HW HS HR).
  - intros HS. rewrite g_convert_address_eq. exact (C11_convert_none ops a HW HS).
Qed.

Print Assumptions C11_translation_agrees.
Print Assumptions C11_translation_functions_agree.
Print Assumptions C11_of_translation.
Print Assumptions C11_no_overlap.
Print Assumptions C11_refines_spec.
Print Assumptions C11_convert.
Print Assumptions C11_convert_none.
Print Assumptions C11_frames.
Print Assumptions C11_actions_refine.

(* Non-vacuity: the scenario of the crate's own unit test is a well-formed history,
   and the specification gives the answers the test expects. *)
Definition ex_ops : list op :=
  [Add (mkMapping 100 200 100 1); Add (mkMapping 200 250 200 2); Add (mkMapping 180 220 180 3);
   Add (mkMapping 225 250 225 4); Add (mkMapping 255 270 255 5); Add (mkMapping 100 150 100 6)].
Example ex_wf : WfOps ex_ops.
Proof. repeat constructor. Qed.
Example ex_lookups :
  map (fun a => option_map m_val (spec_lookup ex_ops a)) [90; 149; 150; 170; 200; 220; 260]
  = [None; Some 6; None; None; Some 3; None; Some 5].
Proof. vm_compute. reflexivity. Qed.
