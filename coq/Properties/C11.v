(* C11 — Library mapping tables never overlap and resolve to the newest live mapping.
   This file holds only the pinned property theorems, closed by `exact`,
   their `Print Assumptions`, and non-vacuity examples. *)
From SV Require Import Model.LibMappings Spec.LibMappingsSpec Proofs.LibMappingsProofs.
From Coq Require Import Lia.
Open Scope N_scope.

(* After any well-formed history no two live mappings overlap (and each is non-empty). *)
Theorem C11_no_overlap :
  forall ops : list op, WfOps ops ->
    ForallOrdPairs (fun x y => overlaps x y = false) (run ops) /\
    Forall (fun x => m_start x < m_end x) (run ops).
Proof. exact no_overlap. Qed.

(* An address resolves to the most recently added mapping that covers it and has
   neither been removed nor displaced by a later overlapping mapping; to nothing otherwise. *)
Theorem C11_refines_spec :
  forall (ops : list op) (a : N), WfOps ops ->
    lookup_impl (run ops) a = spec_lookup ops a.
Proof. exact refines_spec. Qed.

(* ... yielding the library and relative-start + (address - start), without u32 overflow,
   whenever that sum stays within 32 bits. *)
Theorem C11_convert :
  forall (ops : list op) (a : N) (y : mapping), WfOps ops ->
    spec_lookup ops a = Some y -> m_rel y + (a - m_start y) < two32 ->
    convert_address (run ops) a = Some (m_rel y + (a - m_start y), m_val y, false).
Proof.
  intros ops a y HW HS HR. apply convert_in_range; [|exact HR].
  rewrite (refines_spec ops a HW). exact HS.
Qed.

Theorem C11_convert_none :
  forall (ops : list op) (a : N), WfOps ops ->
    spec_lookup ops a = None -> convert_address (run ops) a = None.
Proof.
  intros ops a HW HS. rewrite convert_exact, (refines_spec ops a HW), HS. reflexivity.
Qed.

(* Frames through the profile API: kernel mappings first, then the process's;
   return addresses are looked up one byte earlier; adjusted ones as given. *)
Theorem C11_frames :
  forall (kh ph : list op) (fa : frame_address), WfOps kh -> WfOps ph ->
    let a := lookup_address fa in
    resolve_frame (run kh) (run ph) fa =
      match conv_of (spec_lookup kh a) a with
      | Some (r, v, o) => (InLib r v, o)
      | None =>
          match conv_of (spec_lookup ph a) a with
          | Some (r, v, o) => (InLib r v, o)
          | None => (Unknown a, false)
          end
      end
    /\ lookup_address (Ip a) = a
    /\ (forall r, lookup_address (RetAddr r) = r - 1)
    /\ (forall r, lookup_address (AdjRetAddr r) = r).
Proof.
  intros kh ph fa Hk Hp a. split; [|repeat split].
  unfold resolve_frame, process_convert. fold a.
  rewrite !convert_exact, (refines_spec kh a Hk), (refines_spec ph a Hp).
  reflexivity.
Qed.

(* The whole driver evaluated by the correspondence check equals the history specification. *)
Theorem C11_actions_refine :
  forall (debug : bool) (acts : list action) (kh ph : list op),
    WfOps kh -> WfOps ph -> forallb wf_action acts = true ->
    run_actions debug (run kh) (run ph) acts = spec_actions debug kh ph acts.
Proof. exact actions_refine. Qed.

Print Assumptions C11_no_overlap.
Print Assumptions C11_refines_spec.
Print Assumptions C11_convert.
Print Assumptions C11_convert_none.
Print Assumptions C11_frames.
Print Assumptions C11_actions_refine.

(* Non-vacuity: the scenario of the crate's own unit test is a well-formed history,
   and the specification gives the answers the test expects. *)
Definition ex_ops : list op :=
  [Add (mkMapping 100 200 100 1); Add (mkMapping 200 250 200 2); Add (mkMapping 180 220 180 3);
   Add (mkMapping 225 250 225 4); Add (mkMapping 255 270 255 5); Add (mkMapping 100 150 100 6)].
Example ex_wf : WfOps ex_ops.
Proof. repeat constructor. Qed.
Example ex_lookups :
  map (fun a => option_map m_val (spec_lookup ex_ops a)) [90; 149; 150; 170; 200; 220; 260]
  = [None; Some 6; None; None; Some 3; None; Some 5].
Proof. vm_compute. reflexivity. Qed.
