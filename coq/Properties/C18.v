(* C18 — The local server exposes profile and symbol API only under the secret path. *)
From SV Require Import Generated.Consts Model.Server Proofs.ServerProofs Proofs.Base32Inj Spec.TokenVariety.
Open Scope N_scope.

(* Every request whose path does not begin with "/" ++ token - whatever the method, the path and the
   Access-Control-Request-* headers, with or without a profile - gets a response without any Access-Control-* header,
   and either the landing page (only for GET /) or an empty 404: no profile, no API answer. *)
Theorem C18_no_prefix_no_cors :
  forall (profile : option bool) (token : list N) (req : request),
    strip_prefix (path_prefix token) (r_path req) = None ->
    let r := route profile token req in
    no_cors r /\ gzip r = false /\ allow r = false /\
    ((status r = 200 /\ rbody r = BLanding /\ r_method req = GET /\ r_path req = [slash]) \/
     (status r = 404 /\ rbody r = BEmpty)).
Proof. exact no_prefix_no_cors. Qed.

(* strip_prefix is exactly "the path begins with /token" *)
Theorem C18_prefix_characterised :
  forall (token path rest : list N),
    strip_prefix (path_prefix token) path = Some rest <-> path = path_prefix token ++ rest.
Proof.
  intros. split; [apply strip_prefix_some|intros ->; apply strip_prefix_app].
Qed.

(* what is served under the prefix *)
Theorem C18_prefix_dispatch :
  forall (profile : option bool) (token : list N) (req : request) (rest : list N),
    strip_prefix (path_prefix token) (r_path req) = Some rest ->
    let r := route profile token req in
    allow_origin r = true /\
    match r_method req with
    | OPTIONS => status r = 204 /\ rbody r = BEmpty /\ allow_methods r = r_acrm req /\ max_age r = r_acrm req /\
                 allow_headers r = (r_acrm req && r_acrh req) /\ allow r = negb (r_acrm req)
    | GET => (rbody r = BProfile <-> (exists gz, profile = Some gz) /\ bytes_eqb rest profile_json = true) /\
             (rbody r <> BProfile -> status r = 404 /\ rbody r = BEmpty)
    | POST => status r = 200 /\ rbody r = BApi
    | _ => status r = 404 /\ rbody r = BEmpty
    end.
Proof. exact prefix_dispatch. Qed.

(* token: the byte count regenerated from the source is 24, and (also read off the source on every run) generate_token fills exactly these bytes
   with rand::rng().fill_bytes and encodes them; the encoding of 24 bytes is 39 characters of the 32-symbol alphabet *)
Theorem C18_token_shape :
  c_token_bytes = 24 /\ c_token_from_os_rng = true /\
  forall bytes, length bytes = 24%nat ->
    length (to_nix_base32 bytes) = 39%nat /\ Forall (fun c => In c base32_chars) (to_nix_base32 bytes).
Proof. split; [vm_compute; reflexivity|]. split; [reflexivity|]. intros bytes H. split; [apply token_length; exact H|apply token_alphabet]. Qed.

(* the encoding loses nothing: different 24-byte strings give different tokens (all 192 random bits are in the token) *)
Theorem C18_token_injective :
  forall a b : list N, length a = 24%nat -> length b = 24%nat -> (forall x, In x a -> x < 256) -> (forall x, In x b -> x < 256) ->
    to_nix_base32 a = to_nix_base32 b -> a = b.
Proof. exact token_injective. Qed.

(* "long enough not to be guessable" cannot be a theorem about one run; what the correspondence run checks on every observed token is that its 24 bytes
   take at least 10 distinct values.  The arithmetic behind that bound: of all 256^24 byte strings, those with fewer than 10 distinct values (counted as
   sum over k < 10 of 256 * 255 * .. * (256-k+1) * S(24, k), Spec/TokenVariety.v) are fewer than one in 10^19 *)
Theorem C18_token_variety_arith :
  low_variety_count 256 24 10 * 10 ^ 19 < 256 ^ 24.
Proof. exact low_variety_rare. Qed.

Print Assumptions C18_no_prefix_no_cors.
Print Assumptions C18_token_variety_arith.
Print Assumptions C18_token_injective.
Print Assumptions C18_prefix_characterised.
Print Assumptions C18_prefix_dispatch.
Print Assumptions C18_token_shape.

(* Non-vacuity: the crate's own test vector for the encoder (16 bytes 47b2d8f2...de0f -> "0gvvikzi2b0hb83m62c3rdicj7"). *)
Example ex_base32 :
  to_nix_base32 [71; 178; 216; 242; 96; 194; 212; 129; 22; 4; 75; 196; 63; 227; 222; 15]
  = [48; 103; 118; 118; 105; 107; 122; 105; 50; 98; 48; 104; 98; 56; 51; 109; 54; 50; 99; 51; 114; 100; 105; 99; 106; 55].
Proof. vm_compute. reflexivity. Qed.
