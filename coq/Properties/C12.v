(* C12 — CPU-time and off-CPU accounting conserve time for every switch/sample history. *)
From SV Require Import Model.ContextSwitch Spec.ContextSwitchSpec Proofs.ContextSwitchProofs Tie.C12.
From SV Require Import Generated.ContextSwitchGen Proofs.ContextSwitchGenProofs Proofs.SchedModeProofs.
From Coq Require Import Lia.
Open Scope N_scope.

(* For every interval I > 0 and every history with nondecreasing timestamps, starting from the unknown state
   (Consume = consume_cpu_delta allowed anywhere):
   - no u64 underflow, no division by zero, neither debug_assert fires;
   - CPU deltas handed out + what is still accumulated = time observed running;
   - I * (number of synthesized off-CPU samples) + remainder + the part of a sleep that has not ended yet = time observed sleeping;
   - remainder < I;
   - groups are well-formed (count >= 1, end - begin = (count-1)*I) and each begins no earlier than the previous one ended. *)
Theorem C12_conservation :
  forall (I : N) (evs : list ev) (s' : cs) (os : list out),
    0 < I -> nondecreasing_from 0 (timed evs) -> run I cs_init evs = (s', os) ->
    bad s' = false /\
    sum_deltas os + on_acc s' = running (timed evs) /\
    sum_counts os * I + off_acc s' + pending_sleep (timed evs) = sleeping (timed evs) /\
    off_acc s' < I /\
    groups_ok I 0 os.
Proof. exact conservation. Qed.

(* Every off-CPU sample group lies inside the sleep that triggered it. *)
Theorem C12_group_inside_sleep :
  forall (I : N) (pre_evs : list ev) (e : ev) (post : list ev) (b en c : N),
    0 < I -> nondecreasing_from 0 (timed (pre_evs ++ e :: post)) ->
    snd (step I (fst (run I cs_init pre_evs)) e) = OGroup b en c ->
    exists t0 t, sleep_start (timed pre_evs) = Some t0 /\ (e = SwIn t \/ e = Sample t) /\
      t0 < b /\ b <= en /\ en <= t /\ 1 <= c /\ en - b = (c - 1) * I.
Proof. exact group_inside_sleep. Qed.

(* Repeated switch-outs do not double-count: the specification sums are unchanged by a duplicated switch-out
   (with C12_conservation this transfers to what the handler hands out). *)
Theorem C12_no_double_count :
  forall a t t' k2 t2 b, t <= t' -> t' <= t2 ->
    running (a ++ (false, t) :: (false, t') :: (k2, t2) :: b) = running (a ++ (false, t) :: (k2, t2) :: b) /\
    sleeping (a ++ (false, t) :: (false, t') :: (k2, t2) :: b) = sleeping (a ++ (false, t) :: (k2, t2) :: b).
Proof.
  intros. split; [apply dup_out_running|apply dup_out_sleeping; assumption].
Qed.

(* The boolean checker that is applied to the implementation's outputs is satisfied by the model. *)
Theorem C12_checker_accepts_model :
  forall (I : N) (evs : list ev) (s' : cs) (os : list out),
    0 < I -> nondecreasing_from 0 (timed evs) -> run I cs_init evs = (s', os) ->
    chk I evs os (on_acc s') (off_acc s') = true.
Proof. exact checker_accepts_model. Qed.

(* The tie by translation: g_run chains the Gallina functions that tools/xlate_cs.py regenerates from samply/src/shared/context_switch.rs on
   every run (handle_switch_in, handle_on_cpu_sample, handle_switch_out, maybe_consume_off_cpu, consume_cpu_delta, statement by statement, with
   the places where a debug build would panic raising `bad`).  For every interval I > 0 and every event sequence they compute exactly what the
   hand-written model computes - so the theorems above are theorems about the translation of the source as it is now. *)
Theorem C12_translation_agrees :
  forall (I : N) (evs : list ev), 0 < I -> forall s : cs, g_run I s evs = run I s evs.
Proof. exact g_run_eq. Qed.

Theorem C12_conservation_of_translation :
  forall (I : N) (evs : list ev) (s' : cs) (os : list out),
    0 < I -> nondecreasing_from 0 (timed evs) -> g_run I cs_init evs = (s', os) ->
    bad s' = false /\
    sum_deltas os + on_acc s' = running (timed evs) /\
    sum_counts os * I + off_acc s' + pending_sleep (timed evs) = sleeping (timed evs) /\
    off_acc s' < I /\
    groups_ok I 0 os.
Proof. intros I evs s' os HI Hn Hr. rewrite (g_run_eq I evs HI) in Hr. exact (conservation I evs s' os HI Hn Hr). Qed.

(* The converter's second off-CPU mode (a sched:sched_switch event next to the main event; Proofs/SchedModeProofs.v): a sched_switch sample is the
   thread's switch-out, a main-event sample ends the sleep, is followed by consume_cpu_delta for the first sample of the off-CPU group if one came
   back, and by consume_cpu_delta for the sample itself.  sched_expect I cs_init evs is the sample table (time, CPU delta, weight) that this driving
   of the handler leaves.  For every interval I > 0 and every history with nondecreasing times (SwOut = sched_switch sample, Sample = main-event
   sample; other kinds are not records of this mode): the CPU deltas of the table plus what is still accumulated are the time observed running; the
   weights beyond one per main-event sample, times I, plus the remainder (< I) plus a sleep that has not ended are the time observed sleeping. *)
Theorem C12_sched_mode_conservation :
  forall (I : N) (evs : list ev),
    0 < I -> nondecreasing_from 0 (timed (sched_only evs)) ->
    exists s' : cs,
      let obs := sched_expect I cs_init evs in
      let l := timed (sched_only evs) in
      bad s' = false /\
      dsum obs + on_acc s' = running l /\
      nmain evs <= wsum obs /\
      (wsum obs - nmain evs) * I + off_acc s' + pending_sleep l = sleeping l /\
      off_acc s' < I.
Proof. exact sched_mode_conservation. Qed.

(* ... and when the history ends with a main-event sample nothing is pending: the table alone carries the sums - exactly the two clauses the
   correspondence run decides on the converter's serialized table *)
Theorem C12_sched_mode_table :
  forall (I : N) (evs : list ev),
    0 < I -> nondecreasing_from 0 (timed (sched_only evs)) -> last_is_sample false evs = true ->
    let obs := sched_expect I cs_init evs in
    let l := timed (sched_only evs) in
    dsum obs = running l /\ nmain evs <= wsum obs /\ wsum obs - nmain evs = sleeping l / I.
Proof. exact sched_mode_table. Qed.

Theorem C12_sched_checker_accepts_model :
  forall (I : N) (evs : list ev),
    0 < I -> sched_only evs = evs -> nondecreasing_from 0 (timed evs) -> last_is_sample false evs = true ->
    verdict_e2e_sched (I, evs, sched_expect I cs_init evs, false) mod 10 = 0.
Proof. exact sched_checker_accepts_model. Qed.

Print Assumptions C12_conservation.
Print Assumptions C12_sched_mode_conservation.
Print Assumptions C12_sched_mode_table.
Print Assumptions C12_sched_checker_accepts_model.
Print Assumptions C12_translation_agrees.
Print Assumptions C12_conservation_of_translation.
Print Assumptions C12_group_inside_sleep.
Print Assumptions C12_no_double_count.
Print Assumptions C12_checker_accepts_model.

(* Non-vacuity: the history of the module's own unit test (interval 10). *)
Definition ex_evs : list ev :=
  [SwIn 0; SwOut 3; SwIn 5; Sample 12; Consume; SwOut 13; SwIn 15; SwOut 16; SwIn 21; SwOut 23; SwIn 27; Consume;
   SwOut 30; SwIn 48; Consume; Sample 51; Consume; Sample 61; Consume].
Example ex_sorted : nondecreasing_from 0 (timed ex_evs).
Proof. cbn. repeat split; lia. Qed.
Example ex_outputs :
  snd (run 10 cs_init ex_evs) =
  [ONothing; ONothing; ONothing; ONothing; ODelta 10; ONothing; ONothing; ONothing; ONothing; ONothing;
   OGroup 24 24 1; ODelta 4; ONothing; OGroup 37 47 2; ODelta 3; ONothing; ODelta 3; ONothing; ODelta 10].
Proof. vm_compute. reflexivity. Qed.

Example ex_outputs_translation : snd (g_run 10 cs_init ex_evs) = snd (run 10 cs_init ex_evs).
Proof. vm_compute. reflexivity. Qed.

(* Non-vacuity for the sched_switch mode: a sleep of 3.5 intervals between two samples gives three off-CPU samples (one at the begin with the CPU
   time accumulated before the sleep, a rest sample of weight 2), and the main-event samples. *)
Example ex_sched :
  sched_expect 1000 cs_init [Sample 10; SwOut 20; Sample 3520; Sample 3521] =
    [(10, 0, 1); (1020, 10, 1); (3020, 0, 2); (3520, 0, 1); (3521, 1, 1)] /\
  last_is_sample false [Sample 10; SwOut 20; Sample 3520; Sample 3521] = true.
Proof. vm_compute. split; reflexivity. Qed.
