(* C13 — Chunk-cached file access returns exactly the underlying file's bytes. *)
From SV Require Import Generated.Consts Model.ChunkCache Proofs.ChunkCacheProofs.
From Coq Require Import Lia.
Open Scope N_scope.

(* For every chunk size > 0, every delimiter-length limit, every file and EVERY sequence of read_bytes_at /
   read_bytes_at_until calls, each call returns exactly what the file alone determines (`spec`):
   - a range read in bounds succeeds and denotes file[off, off+size); offset+size overflowing u64 or exceeding the length fails;
   - a delimited read succeeds iff the delimiter occurs within min(range, limit) and denotes file[start, first delimiter);
   - nothing panics (no assert, no slice out of bounds, no poisoned mutex), and since `spec` does not mention the
     state, results do not depend on earlier reads or on chunk alignment. *)
Theorem C13_run_is_spec :
  forall (chunk maxlen : N) (file : N -> N) (flen : N) (ops : list op),
    0 < chunk ->
    run chunk maxlen file flen init ops = map (spec maxlen file flen) ops.
Proof. intros chunk maxlen file flen ops Hc. apply (run_spec chunk maxlen file flen Hc ops init). apply Inv_init. Qed.

(* concurrent readers: with the buffer manager's mutex held for the whole of get_range_location (and the string cache's for its lookups), a
   concurrent execution is some interleaving of the threads' calls, each call one step of `run`.  Whatever the interleaving - any list of
   (thread, call) pairs - every thread gets exactly the specified answers to its own calls, in its own order *)
Theorem C13_schedule_independent :
  forall (chunk maxlen : N) (file : N -> N) (flen : N) (sched : list (nat * op)) (t : nat),
    0 < chunk ->
    map snd (filter (fun x => Nat.eqb (fst x) t) (combine (map fst sched) (run chunk maxlen file flen init (map snd sched)))) =
    map (spec maxlen file flen) (map snd (filter (fun x => Nat.eqb (fst x) t) sched)).
Proof.
  intros chunk maxlen file flen sched t Hc. rewrite (C13_run_is_spec chunk maxlen file flen (map snd sched) Hc).
  induction sched as [|[u o] r IH]; [reflexivity|]. cbn [map fst snd combine filter].
  destruct (Nat.eqb u t); cbn [map snd]; rewrite IH; reflexivity.
Qed.

(* a source that fails single reads (transient I/O errors), armed before any calls one likes: a call that meets such a failure answers Err, every
   other call answers exactly as the specification says - a failed read leaves no trace in the cache *)
Theorem C13_failed_reads_leave_no_trace :
  forall (chunk maxlen : N) (file : N -> N) (flen : N) (evs : list (bool * op)),
    0 < chunk ->
    Forall2 (fun ev r => (snd r = true -> fst r = Err) /\ (snd r = false -> fst r = spec maxlen file flen (snd ev)))
            evs (run_f chunk maxlen file flen init false evs).
Proof. intros chunk maxlen file flen evs Hc. apply (run_f_spec chunk maxlen file flen Hc evs init false). apply Inv_init. Qed.

(* the constants the code uses today *)
Theorem C13_constants : 0 < c_chunk_size /\ 0 < c_max_len_incl_delim.
Proof. split; vm_compute; reflexivity. Qed.

(* what `spec` says, spelled out *)
Theorem C13_read_exact :
  forall maxlen file flen off size a n,
    spec maxlen file flen (ReadAt off size) = Ok a n -> a = off /\ n = size.
Proof.
  intros maxlen file flen off size a n. cbn [spec].
  destruct (size =? 0) eqn:C0; [intros H; inversion H; subst; split; [reflexivity|lia]|].
  destruct ((two64 <=? off + size) || (flen <? off + size)); [discriminate|].
  intros H; inversion H; subst. split; reflexivity.
Qed.

Theorem C13_in_bounds_succeeds :
  forall maxlen file flen off size,
    off + size <= flen -> off + size < two64 -> spec maxlen file flen (ReadAt off size) = Ok off size.
Proof.
  intros maxlen file flen off size H1 H2. cbn [spec].
  destruct (size =? 0) eqn:C0; [f_equal; lia|].
  replace ((two64 <=? off + size) || (flen <? off + size)) with false by lia. reflexivity.
Qed.

Theorem C13_until_exact :
  forall maxlen file flen s e d a n,
    spec maxlen file flen (ReadUntil s e d) = Ok a n ->
    a = s /\ s + n < e /\ n < maxlen /\ file (s + n) = d /\ (forall j, j < n -> file (s + j) <> d).
Proof.
  intros maxlen file flen s e d a n. cbn [spec].
  destruct ((e <? s) || (flen <? e)) eqn:C; [discriminate|].
  destruct (memchr file d s (N.to_nat (N.min (e - s) maxlen))) as [len|] eqn:E; [|discriminate].
  intros H; inversion H; subst.
  destruct (memchr_some 1 file ltac:(lia) _ _ _ _ E) as [Hlen [F1 F2]].
  repeat split; try assumption; lia.
Qed.

Print Assumptions C13_run_is_spec.
Print Assumptions C13_schedule_independent.
Print Assumptions C13_failed_reads_leave_no_trace.
Print Assumptions C13_constants.
Print Assumptions C13_read_exact.
Print Assumptions C13_in_bounds_succeeds.
Print Assumptions C13_until_exact.

(* Non-vacuity: a small scenario with chunk size 10 (the crate's own unit-test scale), including the two
   inputs that broke the original code (empty delimited range; cached string longer than a later range). *)
Example ex_run :
  let file := fun i => if i =? 50 then 0 else 1 + i mod 7 in
  run 10 4096 file 100 init [ReadAt 27 4; ReadAt 27 8; ReadUntil 45 100 0; ReadUntil 45 48 0; ReadUntil 45 45 0; ReadAt 95 6]
  = [Ok 27 4; Ok 27 8; Ok 45 5; Err; Err; Err].
Proof. vm_compute. reflexivity. Qed.

(* non-vacuity: the second call meets the armed failure (it has to read chunk 1) and fails; the retry and the cached read answer as specified *)
Example ex_run_f :
  let file := fun i => 1 + i mod 7 in
  run_f 10 4096 file 100 init false [(false, ReadAt 2 4); (true, ReadAt 27 4); (false, ReadAt 27 4); (true, ReadAt 3 2); (false, ReadInto 90 5)]
  = [(Ok 2 4, false); (Err, true); (Ok 27 4, false); (Ok 3 2, false); (Err, true)].
Proof. vm_compute. reflexivity. Qed.
