(* C01 — perf.data import conserves samples: none lost, none invented (default options, no context-switch data). *)
From SV Require Import Model.Converter Proofs.ConverterProofs Proofs.ConverterNames Model.ConverterReuse Proofs.ConverterReuseProofs Proofs.ConverterReuseValid.
From Coq Require Import Permutation.
Open Scope N_scope.

(* for EVERY record history (any interleaving of FORK / EXIT / COMM / EXEC / SAMPLE / MMAP records, id reuse, unannounced threads):
   what is flushed into the profile at the end is exactly, as a multiset of (thread entry, time), the accepted samples -
   the per-process buffers, their retirement at EXIT / EXEC and the final flush lose nothing and duplicate nothing *)
Theorem C01_conservation :
  forall (origin : N) (rs : list record), Permutation (output_samples (run origin rs)) (accepted origin rs (init origin)).
Proof. exact conservation. Qed.

(* nothing is invented: every output sample stems from a SAMPLE record of a non-idle thread, at its time relative to the origin *)
Theorem C01_nothing_else :
  forall (origin : N) (rs : list record) (h : nat) (t : N), In (h, t) (output_samples (run origin rs)) ->
    exists pid tid ts, In (RSample pid tid ts) rs /\ tid <> 0 /\ t = ts - origin.
Proof.
  intros origin rs h t H. apply (accepted_from_records origin rs (init origin) h t).
  eapply Permutation_in; [apply C01_conservation | exact H].
Qed.

(* ... and is filed on a thread entry carrying the sample's tid, inside a process entry carrying its pid *)
Theorem C01_right_thread :
  forall (origin : N) (rs : list record) (h : nat) (t : N), In (h, t) (output_samples (run origin rs)) ->
    exists pid tid ts e pe, In (RSample pid tid ts) rs /\ tid <> 0 /\ t = ts - origin /\
      nth_error (pthreads (run origin rs)) h = Some e /\ te_tid e = tid /\
      nth_error (pprocs (run origin rs)) (te_proc e) = Some pe /\ pe_pid pe = pid.
Proof. exact right_thread. Qed.

Theorem C01_idle_ignored : forall origin s pid ts, accepted_step origin s (RSample pid 0 ts) = [] /\ step origin s (RSample pid 0 ts) = s.
Proof. intros. split; reflexivity. Qed.

(* ---- with --reuse-threads (Model/ConverterReuse.v): an exited process or thread leaves its profile handles in a pool under its name and a later
   process or thread of that name continues them.  For EVERY record history the flushed samples are still exactly the accepted ones ... *)
Theorem C01_reuse_conservation :
  forall (origin : N) (rs : list record), Permutation (r_output_samples (rrun origin rs)) (r_accepted origin rs (rinit origin)).
Proof. exact r_conservation. Qed.
(* ... nothing is invented ... *)
Theorem C01_reuse_nothing_else :
  forall (origin : N) (rs : list record) (h : nat) (t : N), In (h, t) (r_output_samples (rrun origin rs)) ->
    exists pid tid ts, In (RSample pid tid ts) rs /\ tid <> 0 /\ t = ts - origin.
Proof.
  intros origin rs h t H. apply (r_accepted_from_records origin rs (rinit origin) h t).
  eapply Permutation_in; [apply C01_reuse_conservation | exact H].
Qed.
(* ... and every sample is filed on an existing thread entry (recycled handles never dangle) *)
Theorem C01_reuse_existing_entries :
  forall (origin : N) (rs : list record) (h : nat) (t : N), In (h, t) (r_output_samples (rrun origin rs)) ->
    (h < length (r_threads (rrun origin rs)))%nat.
Proof. exact r_output_on_existing_entries. Qed.

Print Assumptions C01_conservation.
Print Assumptions C01_reuse_conservation.
Print Assumptions C01_reuse_nothing_else.
Print Assumptions C01_reuse_existing_entries.
Print Assumptions C01_nothing_else.
Print Assumptions C01_right_thread.
Print Assumptions C01_idle_ignored.

(* non-vacuity: exec, exit, pid reuse, a repeat and an idle sample; 4 of the 6 samples are accepted and all 4 come out, on 3 different entries *)
Example ex_c01 :
  let rs := [RComm 100 100 1 true 1000000010; RSample 100 100 1000000100; RSample 100 100 1000000100; RSample 100 0 1000000150;
             RComm 100 100 2 true 1000000200; RSample 100 100 1000000300; RExit 100 100 1000000400;
             RSample 100 100 1000000500; RFork 100 100 101 100 1000000600; RSample 100 101 1000000700] in
  output_samples (run 1000000000 rs) = [(0%nat, 100); (1%nat, 300); (2%nat, 500); (3%nat, 700)].
Proof. vm_compute. reflexivity. Qed.

(* non-vacuity with --reuse-threads: thread 101 of process 100 inherits the name "1", exits, and thread 102 - forked under the same inherited name -
   continues its entry (the COMM records for a name nobody left in the pool change nothing); process 100 "1" exits and process 200, forked from
   another process named "1", continues its entries: 5 samples on 3 thread entries *)
Example ex_c01_reuse :
  let rs := [RComm 100 100 1 true 1000000010; RSample 100 100 1000000100; RFork 100 100 101 100 1000000110; RComm 100 101 7 false 1000000120;
             RSample 100 101 1000000130; RExit 100 101 1000000140; RFork 100 100 102 100 1000000150; RComm 100 102 7 false 1000000160;
             RSample 100 102 1000000170; RComm 300 300 1 true 1000000180; RExit 100 100 1000000200; RFork 200 300 200 300 1000000300;
             RSample 200 200 1000000400; RSample 300 300 1000000500] in
  (r_output_samples (rrun 1000000000 rs), length (r_threads (rrun 1000000000 rs))) =
  ([(0%nat, 100); (1%nat, 130); (1%nat, 170); (2%nat, 500); (0%nat, 400)], 3%nat).
Proof. vm_compute. reflexivity. Qed.
