(* C01 — perf.data import conserves samples: none lost, none invented (default options, no context-switch data). *)
From SV Require Import Model.Converter Proofs.ConverterProofs Proofs.ConverterNames.
From Coq Require Import Permutation.
Open Scope N_scope.

(* for EVERY record history (any interleaving of FORK / EXIT / COMM / EXEC / SAMPLE / MMAP records, id reuse, unannounced threads):
   what is flushed into the profile at the end is exactly, as a multiset of (thread entry, time), the accepted samples -
   the per-process buffers, their retirement at EXIT / EXEC and the final flush lose nothing and duplicate nothing *)
Theorem C01_conservation :
  forall (origin : N) (rs : list record), Permutation (output_samples (run origin rs)) (accepted origin rs (init origin)).
Proof. exact conservation. Qed.

(* nothing is invented: every output sample stems from a SAMPLE record of a non-idle thread, at its time relative to the origin *)
Theorem C01_nothing_else :
  forall (origin : N) (rs : list record) (h : nat) (t : N), In (h, t) (output_samples (run origin rs)) ->
    exists pid tid ts, In (RSample pid tid ts) rs /\ tid <> 0 /\ t = ts - origin.
Proof.
  intros origin rs h t H. apply (accepted_from_records origin rs (init origin) h t).
  eapply Permutation_in; [apply C01_conservation | exact H].
Qed.

(* ... and is filed on a thread entry carrying the sample's tid, inside a process entry carrying its pid *)
Theorem C01_right_thread :
  forall (origin : N) (rs : list record) (h : nat) (t : N), In (h, t) (output_samples (run origin rs)) ->
    exists pid tid ts e pe, In (RSample pid tid ts) rs /\ tid <> 0 /\ t = ts - origin /\
      nth_error (pthreads (run origin rs)) h = Some e /\ te_tid e = tid /\
      nth_error (pprocs (run origin rs)) (te_proc e) = Some pe /\ pe_pid pe = pid.
Proof. exact right_thread. Qed.

Theorem C01_idle_ignored : forall origin s pid ts, accepted_step origin s (RSample pid 0 ts) = [] /\ step origin s (RSample pid 0 ts) = s.
Proof. intros. split; reflexivity. Qed.

Print Assumptions C01_conservation.
Print Assumptions C01_nothing_else.
Print Assumptions C01_right_thread.
Print Assumptions C01_idle_ignored.

(* non-vacuity: exec, exit, pid reuse, a repeat and an idle sample; 4 of the 6 samples are accepted and all 4 come out, on 3 different entries *)
Example ex_c01 :
  let rs := [RComm 100 100 1 true 1000000010; RSample 100 100 1000000100; RSample 100 100 1000000100; RSample 100 0 1000000150;
             RComm 100 100 2 true 1000000200; RSample 100 100 1000000300; RExit 100 100 1000000400;
             RSample 100 100 1000000500; RFork 100 100 101 100 1000000600; RSample 100 101 1000000700] in
  output_samples (run 1000000000 rs) = [(0%nat, 100); (1%nat, 300); (2%nat, 500); (3%nat, 700)].
Proof. vm_compute. reflexivity. Qed.
