(* C03 — every serialized profile is internally consistent.
   Proved here for the parts modelled in Model/ProfileTables.v: interning, the stack table, unique pid/tid strings, the thread order
   translation, and the table checker that the correspondence run applies to every table of every serialized profile.
   and the per-thread frame / func / resource / string tables (Model/FrameTables.v).
   Marker payloads (Model/MarkerTable.v): the flat field-value vectors and their consumption at serialization time.
   Categories and subcategories (Model/Categories.v): handles by handle and by value, the frame table's category / subcategory columns.
   Frame flags (IS_JS, IS_RELEVANT_FOR_JS) are part of the frame and func keys.
   Not modelled (their theorems are absent, the run-time checker covers their tables):
   allocation samples, counter sample columns (C04 covers their ordering); see DESIGN.md 9. *)
From SV Require Import Model.ProfileTables Proofs.ProfileTablesProofs Model.FrameTables Proofs.FrameTablesProofs Proofs.ThreadOrderProofs Model.MarkerTable Proofs.MarkerTableProofs
  Model.Categories Proofs.CategoriesProofs.
From Coq Require Import Permutation Lia.

(* interning: the returned handle is in range and gives the key back; earlier handles keep their meaning *)
Theorem C03_intern :
  forall (K : Type) (eqb : K -> K -> bool), (forall a b, eqb a b = true <-> a = b) ->
  forall l k i l', intern eqb l k = (i, l') ->
    nth_error l' i = Some k /\ (exists ext, l' = l ++ ext) /\ (i < length l \/ (i = length l /\ l' = l ++ [k] /\ ~ In k l)).
Proof. intros K eqb H. exact (intern_spec eqb H). Qed.
Theorem C03_intern_no_duplicates :
  forall (K : Type) (eqb : K -> K -> bool), (forall a b, eqb a b = true <-> a = b) -> forall l k, NoDup l -> NoDup (snd (intern eqb l k)).
Proof. intros K eqb H. exact (intern_nodup eqb H). Qed.

(* the stack table: for ANY frame list, building the stack frame by frame and walking the returned index gives the frame list back,
   and every prefix points to an earlier row (so each stack is a finite root-to-leaf path) - starting from any table with that invariant *)
Theorem C03_canonical :
  forall (frames : list nat) (tbl : list stack_key), prefix_earlier tbl ->
    let '(h, tbl') := stack_of_frames tbl None frames in frames_of tbl' h = frames /\ prefix_earlier tbl'.
Proof. exact canonical. Qed.
(* ... and its frame column only holds frame indices the caller passed in (so, with C03_table_indices, indices of existing frame rows) *)
Theorem C03_stack_frames_in_range :
  forall (frames : list nat) (tbl : list stack_key) (p : option nat) (n : nat),
    (forall k, In k tbl -> snd k < n) -> (forall f, In f frames -> f < n) ->
    forall k, In k (snd (stack_of_frames tbl p frames)) -> snd k < n.
Proof. exact stack_of_frames_frames_in. Qed.
Theorem C03_prefix_earlier_empty : prefix_earlier [].
Proof. intros i p f H. destruct i; discriminate. Qed.
Theorem C03_stack_same_handle :
  forall tbl f p h, nth_error tbl h = Some (p, f) -> (forall j, j < h -> nth_error tbl j <> Some (p, f)) -> handle_for_stack tbl f p = (h, tbl).
Proof. exact handle_for_stack_again. Qed.
Theorem C03_finite_paths :
  forall tbl : list stack_key, prefix_earlier tbl -> forall i, i < length tbl -> exists fs, path tbl (Some i) fs.
Proof. exact wf_prefix_walk_terminates. Qed.

(* frame / func / resource / string / native-symbol tables: for ANY sequence of label frames (with and without source location), native frames with
   and without symbols (into libraries that exist), native-symbol handles, already symbolicated frames with any inline depth, name, file and line
   (address inside a library or nowhere) and string conversions, all columns have their table's length and every stored index points into its table:
   frame -> func and native symbol, func -> name string, file-name string and resource, resource -> library and name string,
   native symbol -> library and name string *)
Theorem C03_table_indices :
  forall (nlibs : nat) (rs : list (freq * (nat * nat * N))), Forall (fun r => req_ok nlibs (fst r)) rs -> tt_wf nlibs (run_reqs rs).
Proof. exact run_reqs_wf. Qed.
(* ... and the (category, subcategory) of every frame row is a subcategory handle some call was given *)
Theorem C03_frame_subcategories :
  forall (rs : list (freq * (nat * nat * N))) k, In k (tt_frames (run_reqs rs)) -> In (fk_sub k) (map (fun r => fst (snd r)) rs).
Proof. exact run_reqs_subs. Qed.

(* categories and subcategories: for ANY sequence of handle_for_category / handle_for_subcategory calls and Category / Subcategory
   values passed where a subcategory is expected (handles used after they were obtained; repeated and interleaved in any order), no
   call fails and, in the final category table, every handle ever returned denotes the category name, colour and subcategory name
   its call supplied; the table holds each (name, colour) once, each subcategory name once per category, "Other" first *)
Theorem C03_category_handles :
  forall (other gray : N) (ops : list cop), cops_ok 0 ops ->
    exists l hs, crun other (cats_init other gray, []) ops = Some (l, hs) /\ length hs = length ops /\
      (forall j h, nth_error hs j = Some h -> denotes l h (nth j (names_of other ops) (0, 0, 0)%N)) /\
      cats_canonical l /\ wfc other l.
Proof. exact cat_handles_denote. Qed.
(* ... so the indices are in range: category < number of categories, subcategory < number of that category's subcategories *)
Theorem C03_category_handles_in_range :
  forall l h nm, denotes l h nm -> exists x, nth_error l (fst h) = Some x /\ fst h < length l /\ snd h < length (c_subs x).
Proof. exact denotes_in_range. Qed.

(* pid / tid strings are pairwise distinct under any reuse of numeric ids *)
Theorem C03_ids_unique : forall ids : list N, NoDup (make_all_unique [] ids).
Proof. intros ids. exact (proj1 (make_all_unique_spec ids [])). Qed.

(* the translated index of a thread handle denotes that thread in the serialized order; sorting only permutes *)
Theorem C03_thread_refs :
  forall procs threads h i, new_thread_index procs threads h = Some i -> nth_error (sorted_threads procs threads) i = Some h.
Proof. exact new_thread_index_denotes. Qed.
(* the threads of a process are adjacent: between two serialized threads of one process there is no thread of another *)
Theorem C03_threads_adjacent :
  forall procs threads i j k hi hj hk, i <= j -> j <= k ->
    nth_error (sorted_threads procs threads) i = Some hi -> nth_error (sorted_threads procs threads) j = Some hj ->
    nth_error (sorted_threads procs threads) k = Some hk ->
    proc_of threads hi = proc_of threads hk -> proc_of threads hj = proc_of threads hi.
Proof. exact threads_adjacent. Qed.
Theorem C03_threads_all_serialized :
  forall procs threads h, h < length threads -> proc_of threads h < length procs -> In h (sorted_threads procs threads).
Proof. exact threads_all_serialized. Qed.
(* ... with a main thread first, whenever the process has one (whatever the start times, names and tids are) *)
Theorem C03_main_thread_first :
  forall threads p, (exists h, h < length threads /\ proc_of threads h = p /\ is_main threads h = true) ->
    exists h0 r, block threads p = h0 :: r /\ is_main threads h0 = true.
Proof. exact main_thread_first. Qed.
(* a counter's mainThreadIndex (first_thread_index of its process): the thread at that position belongs to the process the caller
   named, is a main thread if the process has one, and no earlier position holds a thread of that process *)
Theorem C03_first_thread_index :
  forall procs threads p i, first_thread_index procs threads p = Some i -> (exists h, h < length threads /\ proc_of threads h = p) ->
    exists h0, nth_error (sorted_threads procs threads) i = Some h0 /\ proc_of threads h0 = p /\
               ((exists h, h < length threads /\ proc_of threads h = p /\ is_main threads h = true) -> is_main threads h0 = true) /\
               forall j y, j < i -> nth_error (sorted_threads procs threads) j = Some y -> proc_of threads y <> p.
Proof. exact first_thread_index_denotes. Qed.
Theorem C03_sort_permutes : forall (A : Type) (leb : A -> A -> bool) (l : list A), Permutation (sort leb l) l.
Proof. exact @sort_perm. Qed.

(* marker payloads: for ANY interleaving of register_marker_type / first uses of static schemas and add_marker calls that respects
   the API (the type handle exists, the marker has a value for each field of its schema) - any number of schemas, any mix of
   unique-string, plain-string and number fields, schemas registered between markers - adding the markers and serializing the data
   column never panics (no index, split_at or split_first().unwrap() failure) and every marker gets back exactly the field values
   its add_marker call supplied, in field order *)
Theorem C03_marker_fields :
  forall ops : list mop, ops_ok [] ops ->
    exists s, mrun m_init ops = Some s /\ serialize_markers s = Some (supplied ops).
Proof. exact marker_fields_roundtrip. Qed.

(* the checker applied to every serialized thread decides exactly: all columns have the declared length, every index points into its
   table, every stack prefix points to an earlier row *)
Theorem C03_checker_decides : forall t, chk_thread t = true <-> WF_thread t.
Proof. exact chk_thread_spec. Qed.

Print Assumptions C03_intern.
Print Assumptions C03_intern_no_duplicates.
Print Assumptions C03_canonical.
Print Assumptions C03_stack_frames_in_range.
Print Assumptions C03_prefix_earlier_empty.
Print Assumptions C03_stack_same_handle.
Print Assumptions C03_finite_paths.
Print Assumptions C03_table_indices.
Print Assumptions C03_frame_subcategories.
Print Assumptions C03_category_handles.
Print Assumptions C03_category_handles_in_range.
Print Assumptions C03_ids_unique.
Print Assumptions C03_thread_refs.
Print Assumptions C03_sort_permutes.
Print Assumptions C03_threads_adjacent.
Print Assumptions C03_threads_all_serialized.
Print Assumptions C03_main_thread_first.
Print Assumptions C03_first_thread_index.
Print Assumptions C03_checker_decides.
Print Assumptions C03_marker_fields.

Example ex_c03 :
  (let '(h, tbl) := stack_of_frames [] None [3; 5; 3] in let '(h2, tbl2) := stack_of_frames tbl None [3; 5; 7] in
   (h, h2, tbl2, frames_of tbl2 h2)) = (Some 2, Some 3, [(None, 3); (Some 0, 5); (Some 1, 3); (Some 1, 7)], [3; 5; 7]) /\
  make_all_unique [] [100; 101; 100; 100]%N = [(100, 0); (101, 0); (100, 1); (100, 2)]%N /\
  (* a worker registered before the main thread of its process: the main thread is serialized first and handle 1 translates to index 0 *)
  sorted_threads [(0, (100, 0))]%N [(0%nat, (true, 5, None, (11, 0))%N); (0%nat, (false, 9, None, (10, 0))%N)] = [1; 0] /\
  new_thread_index [(0, (100, 0))]%N [(0%nat, (true, 5, None, (11, 0))%N); (0%nat, (false, 9, None, (10, 0))%N)] 1 = Some 0 /\
  (* two processes, the later-started one registered first; its counter index is behind the block of the other *)
  sorted_threads [(9, (100, 0)); (3, (200, 0))]%N [(0%nat, (false, 9, None, (10, 0))%N); (1%nat, (true, 1, None, (21, 0))%N); (1%nat, (false, 4, None, (20, 0))%N)] = [2; 1; 0] /\
  first_thread_index [(9, (100, 0)); (3, (200, 0))]%N [(0%nat, (false, 9, None, (10, 0))%N); (1%nat, (true, 1, None, (21, 0))%N); (1%nat, (false, 4, None, (20, 0))%N)] 0 = Some 2.
Proof. vm_compute. repeat split. Qed.

Example ex_c03_tables :
  let t := run_reqs (map (fun r => (r, ((0, 0), 0%N)))
                    [FLabel 7; FNative 0 256 8 9; FString 5; FNativeSym 0 516 512 10 9; FNativeSym 0 520 512 10 9; FLabel 7;
                     (* a native symbol handle, then the same address again as an inlined frame (depth 1) with its own name, file and line;
                        a symbolicated frame whose address is in no library; a label frame with a source location *)
                     FNs 0 512 10; FSymbolicated (Some (0, 520%N)) 99 0 512 (Some 11%N) (Some 12%N) (Some 7%N) None 1 9;
                     FSymbolicated None 13 0 512 None None None None 0 9; FLabelLoc 7 (Some 12%N) (Some 3%N) (Some 1%N)]) in
  (tt_strings t, tt_res_lib t, tt_res_name t, map fu_name (tt_funcs t), map fu_file (tt_funcs t), tt_func_res t, tt_frame_func t,
   map (fun k => match fk_native k with Some ni => Some (ni_rel ni, ni_ns ni, ni_depth ni) | None => None end) (tt_frames t),
   map fk_line (tt_frames t), tt_ns t, tt_ns_name t) =
  ([7; 8; 9; 5; 10; 11; 12; 13]%N, [0], [2], [0; 1; 4; 5; 7; 0], [None; None; None; Some 6; None; Some 6], [None; Some 0; Some 0; Some 0; None; None],
   [0; 1; 2; 2; 3; 4; 5],
   [None; Some (256%N, None, 0%N); Some (516%N, Some 0, 0%N); Some (520%N, Some 0, 0%N); Some (520%N, Some 0, 1%N); None; None],
   [None; None; None; None; Some 7%N; None; Some 3%N], [(0, 512%N)], [4]).
Proof. vm_compute. reflexivity. Qed.

Example ex_c03_markers :
  let ops := [MReg [KUnique; KStr; KNum]; MReg [KUnique]; MAdd 1 [7]; MReg []; MAdd 0 [3; 4; 42]; MAdd 2 []; MAdd 0 [5; 6; 9]]%N in
  ops_ok [] ops /\
  option_map (fun s => (m_svals s, m_nvals s, serialize_markers s)) (mrun m_init ops) =
    Some ([7; 3; 4; 5; 6], [42; 9], Some [[7]; [3; 4; 42]; []; [5; 6; 9]])%N.
Proof. split; [cbn; repeat split; eexists; split; reflexivity|vm_compute; reflexivity]. Qed.

(* categories: a category looked up again by value keeps its subcategories; the same label under two subcategories, or with other frame flags, is another frame *)
Example ex_c03_categories :
  let ops := [CCat 5 2; CSub 0 6; CCat 5 2; CSubVal 5 2 7; CSubVal 8 2 6; CSub 0 6; CCat 5 3]%N in
  cops_ok 0 ops /\
  option_map (fun st => (map (fun x => (c_name x, c_color x, c_subs x)) (fst st), snd st)) (crun 1%N (cats_init 1 0, [])%N ops) =
    Some ([(1, 0, [1]); (5, 2, [1; 6; 7]); (8, 2, [1; 6]); (5, 3, [1])]%N, [(1, 0); (1, 1); (1, 0); (1, 2); (2, 1); (1, 1); (3, 0)]) /\
  map (fun k => (fk_sub k, fk_flags k)) (tt_frames (run_reqs [(FLabel 7, ((1, 1), 0%N)); (FLabel 7, ((1, 2), 0%N)); (FLabel 7, ((1, 1), 0%N)); (FLabel 7, ((1, 1), 1%N))])) =
    [((1, 1), 0%N); ((1, 2), 0%N); ((1, 1), 1%N)].
Proof. split; [cbn; repeat split; lia|vm_compute; split; reflexivity]. Qed.
