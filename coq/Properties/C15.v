(* C15 — Cache eviction removes only the least-recently-used excess, inside its root. *)
From SV Require Import Model.Quota Proofs.QuotaProofs.
From Coq Require Import Permutation.
Open Scope N_scope.

(* in every state reachable by any history of operations the inventory has one row per path *)
Theorem C15_reachable_unique :
  forall ops : list op, UniqueKeys (rows (fold_left step ops init)).
Proof. intros. apply reachable_unique. apply init_unique. Qed.

(* after an eviction pass (from any state with one row per path): recorded total <= maximum, no remaining file older
   than the maximum age, nothing outside the managed directory touched, settings unchanged, nothing added *)
Theorem C15_evict :
  forall st : state, UniqueKeys (rows st) ->
    let st' := evict st in
    UniqueKeys (rows st') /\ max_size st' = max_size st /\ max_age2 st' = max_age2 st /\ disk_out st' = disk_out st /\
    (forall m, max_size st = Some m -> total (rows st') <= m) /\
    (forall a, max_age2 st = Some a -> forall x, In x (rows st') -> 2 * r_age x <= a) /\
    (forall x, In x (rows st') -> In x (rows st)).
Proof. exact evict_facts. Qed.

(* least-recently-accessed first and no more than necessary: the size pass selects exactly the shortest prefix of the
   access-time order whose sizes cover the excess; nothing when the total already fits (including total = maximum) *)
Theorem C15_lru_prefix_minimal :
  forall (l : list row) (m : N),
    (total l <= m -> files_for_size l m = []) /\
    (m < total l ->
       let fs := files_for_size l m in
       exists rest, lru_order l = fs ++ rest /\ Permutation (lru_order l) l /\ oldest_first (lru_order l) /\
                    (forall p x, fs = p ++ [x] -> total p < total l - m) /\
                    (total l - m <= total fs \/ rest = [])).
Proof. intros l m. split; [apply size_pass_nothing_when_fits|apply size_pass_lru_minimal]. Qed.

(* a pass that directly follows another removes nothing *)
Theorem C15_idempotent :
  forall st : state, UniqueKeys (rows st) -> evict (evict st) = evict st.
Proof. exact evict_idempotent. Qed.

(* bookkeeping matches the disk: every file selected for deletion - present or already missing - is gone from the
   inventory and from the directory afterwards *)
Theorem C15_bookkeeping :
  forall (st : state) (fs : list row) (f : row), In f fs ->
    ~ In (r_key f) (keys (rows (delete_files st fs))) /\ ~ In (r_key f) (disk_in (delete_files st fs)).
Proof. exact delete_files_bookkeeping. Qed.

(* nothing outside the managed directory is deleted by any operation of the manager; outside notifications create no rows;
   a restart keeps the inventory *)
Theorem C15_confined :
  forall (st : state) (o : op),
    match o with CreateOut _ _ _ => True | _ => disk_out (step st o) = disk_out st end /\
    match o with CreateOut _ _ _ | AccessOut _ _ => rows (step st o) = rows st | _ => True end.
Proof. exact step_outside. Qed.

Theorem C15_restart :
  forall st : state, rows (step st Restart) = rows st /\ disk_in (step st Restart) = disk_in st /\ disk_out (step st Restart) = disk_out st.
Proof. intros. repeat split. Qed.

(* time alone: a pass that follows another after time has passed - with no activity, no settings change and no restart in between - removes
   exactly the files that have aged past the maximum age in the meantime (and leaves none older than it) *)
Theorem C15_clock_alone :
  forall st : state, UniqueKeys (rows st) ->
    let s1 := evict st in
    let s2 := evict (step s1 Tick) in
    (forall a, max_age2 st = Some a -> forall x, In x (rows s2) -> 2 * r_age x <= a) /\
    (forall a, max_age2 st = Some a -> rows s2 = filter (fun x => negb (a <? 2 * r_age x)) (age_all (rows s1))) /\
    (max_age2 st = None -> rows s2 = age_all (rows s1)).
Proof. exact evict_after_tick. Qed.

Print Assumptions C15_reachable_unique.
Print Assumptions C15_evict.
Print Assumptions C15_lru_prefix_minimal.
Print Assumptions C15_idempotent.
Print Assumptions C15_bookkeeping.
Print Assumptions C15_confined.
Print Assumptions C15_restart.
Print Assumptions C15_clock_alone.

(* Non-vacuity: three equally old 100-byte files and an older 50-byte one; limit 300 removes only the old one,
   limit exactly at the total removes nothing, an externally deleted file is forgotten when its turn comes. *)
Example ex_c15 :
  map (fun s => (map r_key (rows s), disk_in s))
      (run init [Create 1 100 5; Create 2 100 5; Create 3 100 5; Create 4 50 9; SetMaxSize (Some 300); Evict; Evict;
                 ExtDelete 1; SetMaxSize (Some 250); Evict])
  = [([1; 2; 3], [1; 2; 3]); ([1; 2; 3], [1; 2; 3]); ([2; 3], [2; 3])].
Proof. vm_compute. reflexivity. Qed.

(* a file two units old under a limit of five half units survives the first pass and is removed by the pass after one more unit has gone by *)
Example ex_c15_clock :
  map (fun s => map r_key (rows s)) (run init [Create 1 10 2; Create 2 10 1; SetMaxAge (Some 5); Evict; Tick; Evict; Tick; Evict])
  = [[1; 2]; [2]; []].
Proof. vm_compute. reflexivity. Qed.
