(* C14 — Deep stacks are shortened only in the middle, with an exact elision count. *)
From SV Require Import Generated.Consts Model.FrameLimit Proofs.FrameLimitProofs Tie.C14 Generated.FrameLimitGen Proofs.FrameLimitGenProofs.
From Coq Require Import NArith Lia.

(* The constant regenerated from the source on this run is the one the property text speaks of. *)
Theorem C14_limit_constant : limit_n = 200.
Proof. vm_compute. reflexivity. Qed.

(* For every raw stack (any depth, any number of truncated-stack markers) with or without the extra per-CPU label frame:
   d = number of real frames (markers yield none), fs = the frames that should reach the profile.
   d < 500: unchanged.  d >= 500: the 200 root-most frames, one placeholder stating exactly k = the number of frames removed
   (a positive multiple of 200), then the leaf-most frames verbatim, 100..300 of them; kept + elided = original depth;
   the output is never deeper than 501 frames. *)
Theorem C14_main :
  forall (r : raw) (extra : option N),
    let fs := true_frames r extra in
    let d := length (drop_markers r) in
    let out := convert limit_n r extra in
    (d < 500 -> out = map Frame fs) /\
    (500 <= d -> exists k leaf,
        out = map Frame (firstn 200 fs) ++ Placeholder k :: map Frame leaf /\
        leaf = skipn (200 + k) fs /\ 0 < k /\ k mod 200 = 0 /\
        100 <= length leaf <= 300 /\ 200 + k + length leaf = length fs) /\
    length out <= 501.
Proof. intros r extra. exact (main_200 r extra C14_limit_constant). Qed.

(* The iterator for any limit n > 0, any length hint and any actual stream (covers a hint that disagrees with the stream). *)
Theorem C14_limit_char :
  forall (n hint : nat) (fs : list N), 0 < n ->
    limit n hint fs =
      if hint <? n + n + n / 2 then map Frame fs
      else
        let k := (hint - n - n / 2) / n * n in
        if length fs <? n then map Frame fs
        else if length fs <? n + k then map Frame (firstn (n - 1) fs)
        else map Frame (firstn n fs) ++ Placeholder k :: map Frame (skipn (n + k) fs).
Proof. exact limit_char. Qed.

Theorem C14_checker_accepts_model :
  forall (r : raw) (extra : option N),
    chk_sample (true_frames r extra) (convert limit_n r extra) = true.
Proof. intros r extra. exact (checker_accepts_model r extra C14_limit_constant). Qed.

(* The tie by translation.  tools/xlate_fl.py re-reads samply/src/shared/stack_depth_limiting_frame_iter.rs on every run and emits
   `should_elide_frames`, the state enum, `new` and `next` as Gallina (Generated/FrameLimitGen.v; usize subtraction and division are the
   checked ones of a debug build).  g_limit hint fs = new() for an inner iterator with size hint `hint`, then next() until it returns None,
   None = a panic.  For every hint and every stream the translation of the current source yields what the model yields, and never panics. *)
Theorem C14_translation_agrees :
  forall (hint : nat) (fs : list N), g_limit hint fs = Some (limit limit_n hint fs).
Proof. exact g_limit_is_model. Qed.

(* checked arithmetic of should_elide_frames::<N>: no underflow and no division by zero for any N > 0 and any length *)
Theorem C14_translation_arith_safe :
  forall (n len : nat), 0 < n -> g_should_elide_frames n len = Some (should_elide n len).
Proof. exact g_should_elide_ok. Qed.

(* hence the property, about the translation of the current source (what flush_samples_to_profile hands the iterator: the frames
   without truncation markers, the extra label frame first, the hint counting the frames without the label frame) *)
Theorem C14_main_of_translation :
  forall (r : raw) (extra : option N),
    let fs := true_frames r extra in
    let d := length (drop_markers r) in
    exists out, g_limit d fs = Some out /\
    (d < 500 -> out = map Frame fs) /\
    (500 <= d -> exists k leaf,
        out = map Frame (firstn 200 fs) ++ Placeholder k :: map Frame leaf /\
        leaf = skipn (200 + k) fs /\ 0 < k /\ k mod 200 = 0 /\
        100 <= length leaf <= 300 /\ 200 + k + length leaf = length fs) /\
    length out <= 501.
Proof.
  intros r extra fs d. exists (convert limit_n r extra). split.
  - unfold convert, fs, d, true_frames. apply g_limit_is_model.
  - exact (C14_main r extra).
Qed.

Print Assumptions C14_limit_constant.
Print Assumptions C14_translation_agrees.
Print Assumptions C14_translation_arith_safe.
Print Assumptions C14_main_of_translation.
Print Assumptions C14_main.
Print Assumptions C14_limit_char.
Print Assumptions C14_checker_accepts_model.

(* Non-vacuity: depths 499 / 500 / 700 / 1000 give 499 / 301 / 301 / 401 output frames. *)
Example ex_depths :
  map (fun d => length (convert limit_n (map Some (arith d 1000%N 16%N)) None)) [499; 500; 700; 1000] = [499; 301; 301; 401].
Proof. vm_compute. reflexivity. Qed.

(* the translation on the same depths, and on a hint that overstates the stream (the skip loop runs dry: only the root part up to the frame before the cut) *)
Example ex_translation :
  map (fun d => option_map (@length outf) (g_limit d (arith d 1000%N 16%N))) [499; 500; 700; 1000] = [Some 499; Some 301; Some 301; Some 401] /\
  option_map (@length outf) (g_limit 700 (arith 300 1000%N 16%N)) = Some 199.
Proof. vm_compute. split; reflexivity. Qed.
