(* C08 — No request and no Breakpad symbol file can crash the symbolication API.
   PARTIAL by nature: the theorems below show that the transcribed panic sites of samply's own code cannot fire
   (for every input); panic-freedom of serde_json, nom, object, yaxpeax, debugid, addr2line on arbitrary input is exercised
   by the fuzzing part of the check only. *)
From SV Require Import Lib.Bytes Model.CodeIdStr Model.Symbolicate Model.LineBuffer Model.BreakpadIndex Model.BreakpadLookup
  Model.AsmDecode Proofs.PanicSitesProofs Proofs.LineBufferProofs Proofs.AsmDecodeProofs.
Open Scope N_scope.

(* CodeId::from_str (PeCodeId / ElfBuildId slicing) on arbitrary UTF-8 text *)
Theorem C08_code_id_total : forall s : bytes, code_id_from_str s <> CPanic.
Proof. exact code_id_total. Qed.

(* /symbolicate/v5: unwrap() on the address table, memory_map[index], function_offset subtraction, split_last().expect() *)
Theorem C08_symbolicate_total :
  forall load look (js : list job), oracle_sane look -> query load look js <> RPanic.
Proof. exact symbolicate_total. Qed.

(* Breakpad lookups through ANY index (also a stale one that does not belong to the text): index arithmetic and address + size *)
Theorem C08_breakpad_lookup_total : forall (text : bytes) (ix : index) (a : N), lookup text ix a <> LPanic.
Proof. exact breakpad_lookup_total. Qed.

(* LineBuffer's assertion never fires, whatever the chunks *)
Theorem C08_linebuffer_total : forall chunks : list (list N), snd (lines_of_chunks chunks) = false.
Proof. intros. rewrite chunking. reflexivity. Qed.

(* the /asm/v1 decode loop terminates within its fuel for every decoder meeting the two stated assumptions; the read length saturates *)
Theorem C08_asm_loop_total :
  forall (dec : N -> dres) (nbytes adj decode_len : N),
    0 < adj ->
    (forall off len, dec off = DOk len -> 0 < len /\ off + len <= nbytes) ->
    (forall off c, dec off = DInvalid c -> 0 < c) ->
    listing dec nbytes adj decode_len <> None.
Proof.
  intros dec nbytes adj dl H1 H2 H3 E. destruct (listing_ok dec nbytes adj dl H1 H2 H3) as [r [s [H _]]]. congruence.
Qed.
Theorem C08_asm_read_len_total : forall decode_len : N, read_len decode_len < two32.
Proof. intros. unfold read_len, two32. apply N.min_lt_iff. right. reflexivity. Qed.

Print Assumptions C08_code_id_total.
Print Assumptions C08_symbolicate_total.
Print Assumptions C08_breakpad_lookup_total.
Print Assumptions C08_linebuffer_total.
Print Assumptions C08_asm_loop_total.
Print Assumptions C08_asm_read_len_total.

(* the inputs the property text names *)
Example ex_c08 :
  code_id_from_str [49; 50; 51; 52; 53; 54; 55; 195; 169; 57] = CErr /\      (* "1234567é9" *)
  read_len 4294967295 = 4294967295.
Proof. split; vm_compute; reflexivity. Qed.
