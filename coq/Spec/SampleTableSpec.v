(* Specification for Model/SampleTable.v: the entries a history denotes (no sortedness bookkeeping),
   and how a serialized table is read back. *)
From SV Require Import Model.SampleTable.
Open Scope N_scope.

(* effective entries of a history: a merge call extends the most recently added entry when that entry had
   zero CPU delta (its time becomes the new time, the weight is added); otherwise it adds an entry with the
   previous sample's stack and zero CPU. *)
Fixpoint effective_from (acc : list entry) (lz : bool) (ls : N) (ops : list op) : option (list entry) :=
  match ops with
  | [] => Some acc
  | OAdd t s c w :: r => effective_from (acc ++ [mkEntry t s c w]) (c =? 0) s r
  | OMerge t w :: r =>
      if lz then
        match acc with
        | [] => None
        | _ => effective_from (modify_last acc t w) true ls r
        end
      else effective_from (acc ++ [mkEntry t ls 0 w]) true ls r
  end.
Definition effective (ops : list op) : option (list entry) := effective_from [] false 0 ops.

(* reading a serialized table back: running sums of the deltas give the timestamps *)
Fixpoint rows_to_entries (prev : N) (rows : list row) : list entry :=
  match rows with
  | [] => []
  | (d, s, w, c) :: r => mkEntry (prev + d) s c w :: rows_to_entries (prev + d) r
  end.

Fixpoint nondecreasing_t (lo : N) (l : list entry) : Prop :=
  match l with [] => True | e :: r => lo <= e_t e /\ nondecreasing_t (e_t e) r end.

Definition sum_w (l : list entry) : Z := fold_right (fun e a => (e_w e + a)%Z) 0%Z l.
Definition sum_cpu (l : list entry) : N := fold_right (fun e a => e_cpu e + a) 0 l.

Definition op_w (o : op) : Z := match o with OAdd _ _ _ w => w | OMerge _ w => w end.
Definition op_cpu (o : op) : N := match o with OAdd _ _ c _ => c | OMerge _ _ => 0 end.
