(* Specification for Model/LibMappings.v, written against the operation history alone
   (no table, no state machine).  Definitions only. *)
From SV Require Import Model.LibMappings.
Open Scope N_scope.

(* ------------------------------------------------------------------ *)
(* Specification, written against the history alone.                  *)

Definition covers (x : mapping) (a : N) : bool := (m_start x <=? a) && (a <? m_end x).
Definition overlaps (x y : mapping) : bool := (m_start x <? m_end y) && (m_start y <? m_end x).

(* does mapping x survive the later operations? *)
Definition survives_op (x : mapping) (o : op) : bool :=
  match o with
  | Add y => negb (overlaps x y)
  | Remove s => negb (m_start x =? s)
  | Clear => false
  end.
Definition survives (later : list op) (x : mapping) : bool := forallb (survives_op x) later.

(* the most recently added mapping that covers a and has neither been removed
   nor displaced by a later overlapping mapping *)
Fixpoint spec_lookup (ops : list op) (a : N) : option mapping :=
  match ops with
  | [] => None
  | o :: rest =>
      match spec_lookup rest a with
      | Some y => Some y
      | None =>
          match o with
          | Add x => if covers x a && survives rest x then Some x else None
          | _ => None
          end
      end
  end.

Definition wf_op (o : op) : Prop :=
  match o with Add x => m_start x < m_end x | _ => True end.
Definition WfOps (ops : list op) : Prop := Forall wf_op ops.


(* ------------------------------------------------------------------ *)
(* What every observation of the driver must be, from the history alone. *)

Definition conv_of (r : option mapping) (a : N) : option (N * N * bool) :=
  match r with
  | Some y => Some ((m_rel y + (a - m_start y) mod two32) mod two32, m_val y,
                    two32 <=? m_rel y + (a - m_start y) mod two32)
  | None => None
  end.

Definition wf_opb (o : op) : bool :=
  match o with Add x => m_start x <? m_end x | _ => true end.

Definition wf_action (a : action) : bool :=
  match a with AOp o => wf_opb o | AKOp o => wf_opb o | _ => true end.

Fixpoint spec_actions (debug : bool) (kh ph : list op) (acts : list action) : list obs :=
  match acts with
  | [] => []
  | AOp o :: r => spec_actions debug kh (ph ++ [o]) r
  | AKOp o :: r => spec_actions debug (kh ++ [o]) ph r
  | ALookup a :: r =>
      (match conv_of (spec_lookup ph a) a with
       | Some (rel, v, ovf) => if ovf && debug then OPanic else OSome rel v
       | None => ONone
       end) :: spec_actions debug kh ph r
  | AFrame fa :: r =>
      let a := lookup_address fa in
      (match conv_of (spec_lookup kh a) a with
       | Some (rel, v, ovf) => if ovf && debug then OPanic else OSome rel v
       | None =>
           match conv_of (spec_lookup ph a) a with
           | Some (rel, v, ovf) => if ovf && debug then OPanic else OSome rel v
           | None => ORaw a
           end
       end) :: spec_actions debug kh ph r
  end.

