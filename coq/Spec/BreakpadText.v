(* A straightforward reading of a Breakpad .sym text: records in file order, and what a lookup of an address means
   in terms of those records (no index, no offsets, no binary search). *)
From SV Require Import Lib.Bytes Model.LineBuffer Model.BreakpadIndex Model.BreakpadLookup.
Open Scope N_scope.

Inductive rec :=
| RFile (idx : N) (name : bytes)
| ROrigin (idx : N) (name : bytes)
| RPublic (addr : N) (name : bytes)
| RFunc (addr size : N) (name : bytes)
| RInline (l : list inlinee)
| RBadInline
| RLine (x : sline)
| RBreak              (* INFO / STACK: ends a FUNC block *)
| ROther.

Definition classify (line : bytes) : rec :=
  let input := strip_cr line in
  match idx_line t_FILE input with Some (i, n) => RFile i n | None =>
  match idx_line t_INLINE_ORIGIN input with Some (i, n) => ROrigin i n | None =>
  match public_line input with Some (a, n) => RPublic a n | None =>
  match func_line input with Some (a, s, n) => RFunc a s n | None =>
  match starts_with t_INFO_ input with Some _ => RBreak | None =>
  match starts_with t_STACK_ input with Some _ => RBreak | None =>
  match starts_with t_INLINE_ORIGIN line with Some _ => ROther | None =>
  match starts_with t_INLINE line with
  | Some rest => match parse_inline rest with Some l => RInline l | None => RBadInline end
  | None => match parse_data_line line with Some x => RLine x | None => ROther end
  end end end end end end end end.

(* records of the text after the MODULE line *)
Definition records (text : bytes) : list rec :=
  match fst (split_lines text) with
  | [] => []
  | _ :: ls => map (fun x => classify (snd x)) ls
  end.

(* the body of the FUNC record: everything up to the next symbol / INFO / STACK record *)
Fixpoint body_of (rs : list rec) : list rec :=
  match rs with
  | [] => []
  | RPublic _ _ :: _ | RFunc _ _ _ :: _ | RBreak :: _ => []
  | r :: t => r :: body_of t
  end.

Inductive sym := SPublic (addr : N) (name : bytes) | SFunc (addr size : N) (name : bytes) (body : list rec).
Definition sym_addr (s : sym) : N := match s with SPublic a _ => a | SFunc a _ _ _ => a end.

Fixpoint syms_of (rs : list rec) : list sym :=
  match rs with
  | [] => []
  | RPublic a n :: t => SPublic a n :: syms_of t
  | RFunc a s n :: t => SFunc a s n (body_of t) :: syms_of t
  | _ :: t => syms_of t
  end.

Fixpoint file_name (rs : list rec) (idx : N) : option bytes :=
  match rs with [] => None | RFile i n :: t => if i =? idx then Some n else file_name t idx | _ :: t => file_name t idx end.
Fixpoint origin_name (rs : list rec) (idx : N) : option bytes :=
  match rs with [] => None | ROrigin i n :: t => if i =? idx then Some n else origin_name t idx | _ :: t => origin_name t idx end.

(* the symbol with the greatest address <= a, and the smallest address above it *)
Definition best_sym (l : list sym) (a : N) : option sym :=
  fold_left (fun best s => if sym_addr s <=? a then
                             match best with Some b => if sym_addr b <? sym_addr s then Some s else best | None => Some s end
                           else best) l None.
Definition next_addr (l : list sym) (a0 : N) : option N :=
  fold_left (fun best s => if a0 <? sym_addr s then
                             match best with Some b => if sym_addr s <? b then Some (sym_addr s) else best | None => Some (sym_addr s) end
                           else best) l None.

Definition body_lines (b : list rec) : list sline := flat_map (fun r => match r with RLine x => [x] | _ => [] end) b.
Definition body_inlinees (b : list rec) : list inlinee := flat_map (fun r => match r with RInline l => l | _ => [] end) b.
Definition body_bad (b : list rec) : bool := existsb (fun r => match r with RBadInline => true | _ => false end) b.

(* the inline record at depth d whose range contains a *)
Definition covering_inlinee (l : list inlinee) (d a : N) : option inlinee :=
  find (fun x => (in_depth x =? d) && (in_addr x <=? a) && (a <? in_addr x + in_size x)) l.

(* the line record with the greatest address <= a *)
Definition covering_line (l : list sline) (a : N) : option sline :=
  fold_left (fun best x => if sl_addr x <=? a then
                             match best with Some b => if sl_addr b <=? sl_addr x then Some x else best | None => Some x end
                           else best) l None.

Fixpoint text_frames (fuel : nat) (rs : list rec) (ins : list inlinee) (a d : N) (name : option bytes) : list frame * option bytes :=
  match fuel with
  | O => ([], name)
  | S f =>
      match covering_inlinee ins d a with
      | Some x =>
          let '(rest, nm) := text_frames f rs ins a (d + 1) (origin_name rs (in_origin x)) in
          ((name, file_name rs (in_call_file x), Some (in_call_line x)) :: rest, nm)
      | None => ([], name)
      end
  end.

Definition text_lookup_rs (rs : list rec) (a : N) : lres :=
  let ss := syms_of rs in
  match best_sym ss a with
  | None => LNone
  | Some (SPublic addr name) =>
      LSome addr (match next_addr ss addr with Some n => Some (n - addr) | None => None end) name None
  | Some (SFunc addr size name body) =>
      if body_bad body then LNone
      else if addr + size <=? a then LNone
      else
        let '(frames, nm) := text_frames (S (List.length (body_inlinees body))) rs (body_inlinees body) a 0 (Some name) in
        let last := match covering_line (body_lines body) a with
                    | Some sl => (nm, file_name rs (sl_file sl), Some (sl_line sl))
                    | None => (nm, None, None)
                    end in
        LSome addr (Some size) name (Some (rev (frames ++ [last])))
  end.

Definition text_lookup (text : bytes) (a : N) : lres := text_lookup_rs (records text) a.

(* ---- well-formed files (the hypothesis of "agrees with the text") ---- *)

Fixpoint distinctb (l : list N) : bool :=
  match l with [] => true | x :: t => negb (existsb (N.eqb x) t) && distinctb t end.
Fixpoint ascendingb (l : list N) : bool :=
  match l with x :: ((y :: _) as t) => (x <? y) && ascendingb t | _ => true end.

Fixpoint inl_disjointb (l : list inlinee) : bool :=   (* ranges of the same depth do not overlap *)
  match l with
  | [] => true
  | x :: t => forallb (fun y => negb (in_depth x =? in_depth y) ||
                                (in_addr x + in_size x <=? in_addr y) || (in_addr y + in_size y <=? in_addr x)) t
              && (0 <? in_size x) && (in_addr x + in_size x <? 4294967296) && inl_disjointb t
  end.

Definition wf_records (first_line : option bytes) (rs : list rec) : bool :=
  let ss := syms_of rs in
  match first_line with
  | Some first => module_line_ok (strip_cr first)
  | None => false
  end &&
  distinctb (map sym_addr ss) &&
  distinctb (flat_map (fun r => match r with RFile i _ => [i] | _ => [] end) rs) &&
  distinctb (flat_map (fun r => match r with ROrigin i _ => [i] | _ => [] end) rs) &&
  forallb (fun s => match s with
                    | SPublic _ _ => true
                    | SFunc a sz _ body => (a + sz <? 4294967296) && negb (body_bad body) &&
                                           ascendingb (map sl_addr (body_lines body)) && inl_disjointb (body_inlinees body)
                    end) ss.

Definition wf_text (text : bytes) : bool :=
  wf_records (match fst (split_lines text) with (_, first) :: _ => Some first | [] => None end) (records text).
