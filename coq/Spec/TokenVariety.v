(* How rare is a 24-byte string with little variety?  The number of strings of length n over an alphabet of m symbols that use exactly k distinct
   symbols is m (m-1) ... (m-k+1) * S(n, k), S the Stirling numbers of the second kind (choose the k symbols in order of first appearance, then a
   partition of the n positions into k non-empty classes).  The definitions below compute that count; the combinatorial reading itself is not
   proved here - what is machine-checked is the arithmetic: with m = 256, n = 24, fewer than 10 distinct symbols, the count is below
   10^-19 of all 256^24 strings.  vlib/c18.py uses the bound for its "a token's bytes show the variety of random bytes" check.  Definitions + one
   closed computation. *)
From Coq Require Import List NArith.
Import ListNotations.
Open Scope N_scope.

(* one step of the triangle S(i+1, k) = k * S(i, k) + S(i, k-1): from the row [S(i,0); ..; S(i,i)] to the next *)
Fixpoint next_aux (k prev : N) (r : list N) : list N :=
  match r with
  | [] => [prev]
  | x :: t => (k * x + prev) :: next_aux (k + 1) x t
  end.
Definition next_row (r : list N) : list N :=
  match r with [] => [] | x0 :: t => 0 :: next_aux 1 x0 t end.
Definition stirling_row (n : nat) : list N := Nat.iter n next_row [1].

Fixpoint falling (m : N) (k : nat) : N :=
  match k with O => 1 | S k' => m * falling (m - 1) k' end.

(* strings of length n over m symbols with fewer than thr distinct symbols *)
Definition low_variety_count (m : N) (n thr : nat) : N :=
  fold_right N.add 0 (map (fun k => falling m k * nth k (stirling_row n) 0) (seq 0 thr)).

Example stirling_row_4 : stirling_row 4 = [0; 1; 7; 6; 1].
Proof. vm_compute. reflexivity. Qed.
(* all strings are counted when the threshold is above the length: 3-symbol strings of length 4 *)
Example low_variety_all : low_variety_count 3 4 5 = 3 ^ 4.
Proof. vm_compute. reflexivity. Qed.

Lemma low_variety_rare : low_variety_count 256 24 10 * 10 ^ 19 < 256 ^ 24.
Proof. vm_compute. reflexivity. Qed.
