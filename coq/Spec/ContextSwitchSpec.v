(* Specification for Model/ContextSwitch.v: plain sums over the event history.
   The time between two consecutive events belongs to the earlier event's kind:
   switch-in / on-CPU sample => running, switch-out => sleeping; nothing before the first event. *)
From SV Require Import Model.ContextSwitch.
Open Scope N_scope.

(* timed events: (true = switch-in or sample, false = switch-out), timestamp *)
Fixpoint timed (evs : list ev) : list (bool * N) :=
  match evs with
  | [] => []
  | SwIn t :: r => (true, t) :: timed r
  | Sample t :: r => (true, t) :: timed r
  | SwOut t :: r => (false, t) :: timed r
  | Consume :: r => timed r
  end.

Fixpoint running (l : list (bool * N)) : N :=
  match l with
  | [] => 0
  | (k, t) :: r =>
      (match r with (_, t') :: _ => if k then t' - t else 0 | [] => 0 end) + running r
  end.

Fixpoint sleeping (l : list (bool * N)) : N :=
  match l with
  | [] => 0
  | (k, t) :: r =>
      (match r with (_, t') :: _ => if k then 0 else t' - t | [] => 0 end) + sleeping r
  end.

(* start of the sleep the thread is in after the history (None if it is not asleep) *)
Fixpoint sleep_start_from (cur : option N) (l : list (bool * N)) : option N :=
  match l with
  | [] => cur
  | (true, _) :: r => sleep_start_from None r
  | (false, t) :: r => sleep_start_from (match cur with Some t0 => Some t0 | None => Some t end) r
  end.
Definition sleep_start (l : list (bool * N)) : option N := sleep_start_from None l.

Fixpoint last_time (d : N) (l : list (bool * N)) : N :=
  match l with [] => d | (_, t) :: r => last_time t r end.

(* sleeping time of a sleep that has not ended yet *)
Definition pending_sleep (l : list (bool * N)) : N :=
  match sleep_start l with Some t0 => last_time 0 l - t0 | None => 0 end.

Fixpoint nondecreasing_from (lo : N) (l : list (bool * N)) : Prop :=
  match l with [] => True | (_, t) :: r => lo <= t /\ nondecreasing_from t r end.

Fixpoint nondecreasing_fromb (lo : N) (l : list (bool * N)) : bool :=
  match l with [] => true | (_, t) :: r => (lo <=? t) && nondecreasing_fromb t r end.

Fixpoint sum_deltas (os : list out) : N :=
  match os with [] => 0 | ODelta d :: r => d + sum_deltas r | _ :: r => sum_deltas r end.
Fixpoint sum_counts (os : list out) : N :=
  match os with [] => 0 | OGroup _ _ c :: r => c + sum_counts r | _ :: r => sum_counts r end.

(* emitted groups are well-formed and ordered: each begins no earlier than the previous one ended *)
Fixpoint groups_ok (I prev_end : N) (os : list out) : Prop :=
  match os with
  | [] => True
  | OGroup b e c :: r => prev_end <= b /\ b <= e /\ 1 <= c /\ e - b = (c - 1) * I /\ groups_ok I e r
  | _ :: r => groups_ok I prev_end r
  end.
