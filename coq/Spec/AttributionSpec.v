(* Specification for Model/Attribution.v, from the queue and the sample time alone. *)
From SV Require Import Model.LibMappings Spec.LibMappingsSpec Model.Attribution.
Open Scope N_scope.

(* the mapping operations announced at or before time t *)
Fixpoint ops_upto (t : N) (q : list (N * qop)) : list op :=
  match q with
  | [] => []
  | (t', QOp o) :: r => if t' <=? t then o :: ops_upto t r else ops_upto t r
  | (_, QMove _ _ _) :: r => ops_upto t r
  end.

Definition lookup_addr (f : sframe) : option (N * mode) := pass1 f.

(* what a frame must resolve to at time t *)
Definition spec_frame (q : list (N * qop)) (t : N) (x : N * mode) : rframe :=
  let '(a, md) := x in
  match md with
  | Kernel => RRaw a
  | User =>
      match conv_of (spec_lookup (ops_upto t q) a) a with
      | Some (rel, lib, ovf) => if ovf then RPanic else RInLib lib rel
      | None => RRaw a
      end
  end.

Fixpoint spec_stack (q : list (N * qop)) (t : N) (fs : list sframe) : list rframe :=
  match fs with
  | [] => []
  | f :: r => match lookup_addr f with
              | Some x => spec_frame q t x :: spec_stack q t r
              | None => spec_stack q t r
              end
  end.

Definition spec_flush (q : list (N * qop)) (samples : list (N * list sframe)) : list (list rframe) :=
  map (fun '(t, fs) => spec_stack q t fs) samples.

(* hypotheses of the property: time-ordered queue and samples, non-empty ranges, no Move ops (perf.data produces Adds only) *)
Fixpoint sorted_from (lo : N) (ts : list N) : Prop :=
  match ts with [] => True | t :: r => lo <= t /\ sorted_from t r end.
Fixpoint sorted_fromb (lo : N) (ts : list N) : bool :=
  match ts with [] => true | t :: r => (lo <=? t) && sorted_fromb t r end.

Definition wf_qopb (x : N * qop) : bool :=
  match snd x with QOp o => wf_opb o | QMove _ _ _ => false end.
