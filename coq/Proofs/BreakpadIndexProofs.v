From SV Require Import Lib.Bytes Model.LineBuffer Proofs.LineBufferProofs Model.BreakpadIndex.
Open Scope N_scope.

(* the index built from any partition of a file is the index of the whole text *)
Theorem index_chunk_invariant chunks : index_of_chunks chunks = index_of_text (concat chunks).
Proof.
  unfold index_of_chunks, index_of_text. rewrite chunking.
  destruct (split_lines (concat chunks)) as [ls fin]. reflexivity.
Qed.

Corollary index_bytes_chunk_invariant chunks1 chunks2 :
  concat chunks1 = concat chunks2 ->
  option_map serialize (index_of_chunks chunks1) = option_map serialize (index_of_chunks chunks2).
Proof. intros H. rewrite !index_chunk_invariant, H. reflexivity. Qed.
