From Coq Require Import String Lia ZifyBool ZifyN ZifyNat.
From SV Require Import Lib.Bytes Lib.LibFields Generated.Consts Model.CodeIdStr Model.LibIdentity.
Open Scope N_scope.

Section Proofs.
  Variable did : Type.
  Variable bp_print : did -> bytes.
  Variable bp_parse : bytes -> option did.
  Hypothesis bp_roundtrip : forall d, bp_parse (bp_print d) = Some d.
  Variable did_eqb : did -> did -> bool.
  Hypothesis did_eqb_spec : forall a b, did_eqb a b = true <-> a = b.

  Notation lib := (lib did).
  Notation info := (info did).

  Definition code_id_ok (l : lib) : Prop :=
    match l_code_id did l with Some c => cid_reparse c = Some c | None => True end.

  Lemma lib_roundtrip (l : lib) : code_id_ok l -> preparse_lib did bp_parse (ser_lib did bp_print l) = Some (info_of did l).
  Proof.
    intros Hc. destruct l as [nm pa dn dp d c ar]. unfold code_id_ok in Hc. cbn [l_code_id] in Hc.
    unfold preparse_lib, required_ok, rfield, reader_key, ser_lib, info_of, c_lib_reader, c_lib_writer, c_lib_reader_required.
    cbn [map fst snd find lib_field_eqb option_map forallb field_value jget String.eqb Ascii.eqb Bool.eqb andb
         l_name l_path l_debug_name l_debug_path l_debug_id l_code_id l_arch ostr].
    rewrite bp_roundtrip.
    destruct c as [c|]; destruct ar as [a|]; cbn [option_map ostr]; try reflexivity.
    - unfold cid_reparse in Hc. rewrite Hc. reflexivity.
    - unfold cid_reparse in Hc. rewrite Hc. reflexivity.
  Qed.

  (* a library without code id (no build id) is still known *)
  Lemma lib_without_code_id_known (l : lib) : l_code_id did l = None -> preparse_lib did bp_parse (ser_lib did bp_print l) = Some (info_of did l).
  Proof. intros H. apply lib_roundtrip. unfold code_id_ok. rewrite H. exact I. Qed.

  Lemma bytes_eqb_refl (a : bytes) : bytes_eqb a a = true.
  Proof. induction a as [|x a IH]; cbn [bytes_eqb]; [reflexivity|]. rewrite N.eqb_refl, IH. reflexivity. Qed.
  Lemma bytes_eqb_eq (a : bytes) : forall b, bytes_eqb a b = true -> a = b.
  Proof.
    induction a as [|x a IH]; intros [|y b] H; cbn [bytes_eqb] in H; try discriminate; [reflexivity|].
    apply andb_prop in H. destruct H as [H1 H2]. apply N.eqb_eq in H1. subst. f_equal. apply IH. exact H2.
  Qed.

  Definition key_of (l : lib) : bytes * did := (l_debug_name did l, l_debug_id did l).

  Definition keyb (k : bytes * did) (l : lib) : bool := key_eqb did did_eqb (key_of l) k.

  Lemma key_eqb_spec a b : key_eqb did did_eqb a b = true <-> a = b.
  Proof.
    unfold key_eqb. destruct a as [a1 a2], b as [b1 b2]. cbn [fst snd]. rewrite andb_true_iff, did_eqb_spec. split.
    - intros [H1 H2]. apply bytes_eqb_eq in H1. subst. reflexivity.
    - intros H. inversion H. subst. split; [apply bytes_eqb_refl | reflexivity].
  Qed.

  Lemma find_app {A} (p : A -> bool) (a b : list A) : find p (a ++ b) = match find p a with Some x => Some x | None => find p b end.
  Proof. induction a as [|x a IH]; cbn [app find]; [reflexivity|]. destruct (p x); [reflexivity | exact IH]. Qed.

  Lemma known_libs_lookup (libs : list lib) :
    (forall l, In l libs -> code_id_ok l) ->
    forall acc k,
      lookup_known did did_eqb (known_libs did bp_parse (map (ser_lib did bp_print) libs) acc) k =
      match find (keyb k) (rev libs) with Some l' => Some (info_of did l') | None => lookup_known did did_eqb acc k end.
  Proof.
    induction libs as [|x libs IH]; intros Hok acc k; [reflexivity|].
    cbn [map known_libs rev]. rewrite lib_roundtrip by (apply Hok; left; reflexivity).
    cbn [info_of i_debug_name i_debug_id].
    rewrite IH by (intros l Hl; apply Hok; right; exact Hl).
    rewrite find_app. destruct (find (keyb k) (rev libs)) as [l'|]; [reflexivity|].
    unfold lookup_known. cbn [find fst snd keyb]. unfold keyb, key_of.
    destruct (key_eqb did did_eqb (l_debug_name did x, l_debug_id did x) k); reflexivity.
  Qed.

  Lemma known_libs_spec (libs : list lib) :
    (forall l, In l libs -> code_id_ok l) ->
    forall l, In l libs ->
      exists l', In l' libs /\ key_of l' = key_of l /\
        lookup_known did did_eqb (known_libs did bp_parse (map (ser_lib did bp_print) libs) []) (key_of l) = Some (info_of did l').
  Proof.
    intros Hok l Hin. rewrite known_libs_lookup by exact Hok.
    destruct (find (keyb (key_of l)) (rev libs)) as [l'|] eqn:E.
    - apply find_some in E. destruct E as [E1 E2]. exists l'. split; [apply in_rev; exact E1|]. split; [|reflexivity].
      unfold keyb in E2. apply key_eqb_spec in E2. exact E2.
    - exfalso. pose proof (find_none _ _ E l (proj1 (in_rev libs l) Hin)) as H. unfold keyb in H.
      assert (key_eqb did did_eqb (key_of l) (key_of l) = true) by (apply key_eqb_spec; reflexivity). congruence.
  Qed.

  (* the server's candidate lists for a request naming a library of the profile start from the recorded paths *)
  Lemma known_paths (libs : list lib) :
    (forall l, In l libs -> code_id_ok l) ->
    forall l, In l libs ->
      exists l', In l' libs /\ key_of l' = key_of l /\
        first_binary_candidate did did_eqb (known_libs did bp_parse (map (ser_lib did bp_print) libs) []) (key_of l) = Some (l_path did l') /\
        debug_file_candidate did did_eqb (known_libs did bp_parse (map (ser_lib did bp_print) libs) []) (key_of l) = Some (l_debug_path did l').
  Proof.
    intros Hok l Hin. destruct (known_libs_spec libs Hok l Hin) as [l' [H1 [H2 H3]]].
    exists l'. unfold first_binary_candidate, debug_file_candidate. rewrite H3. cbn. auto.
  Qed.
End Proofs.
