From SV Require Import Lib.Bytes Model.BreakpadIndex Model.BreakpadIndexParse.
From Coq Require Import ZArith Lia ZifyBool ZifyN ZifyNat.
Open Scope N_scope.
Ltac Zify.zify_post_hook ::= Z.div_mod_to_equations.
Arguments N.add : simpl never. Arguments N.sub : simpl never. Arguments N.mul : simpl never. Arguments N.pow : simpl never.
Arguments N.div : simpl never. Arguments N.modulo : simpl never. Arguments N.eqb : simpl never. Arguments N.ltb : simpl never. Arguments N.leb : simpl never.

Lemma le_bytes_length n v : length (le_bytes n v) = n.
Proof. revert v. induction n as [|n IH]; intros v; cbn [le_bytes length]; [reflexivity | rewrite IH; reflexivity]. Qed.
Lemma le_value_le_bytes n : forall v, v < 256 ^ N.of_nat n -> le_value (le_bytes n v) = v.
Proof.
  induction n as [|n IH]; intros v H; cbn [le_bytes le_value].
  - cbn in H. lia.
  - replace (N.of_nat (S n)) with (N.succ (N.of_nat n)) in H by lia. rewrite N.pow_succ_r' in H.
    rewrite IH by (set (P := 256 ^ N.of_nat n) in *; lia). lia.
Qed.

Lemma sub_app_mid (a b c : bytes) : sub (a ++ b ++ c) (N.of_nat (length a)) (N.of_nat (length b)) = Some b.
Proof.
  unfold sub. rewrite !app_length. replace (N.of_nat (length a) + N.of_nat (length b) <=? N.of_nat (length a + (length b + length c))) with true by lia.
  rewrite !Nat2N.id. rewrite skipn_app, skipn_all, Nat.sub_diag. cbn [skipn app]. rewrite firstn_app, firstn_all, Nat.sub_diag. cbn [firstn]. rewrite app_nil_r. reflexivity.
Qed.
Lemma sub_at (a b c : bytes) off len : off = N.of_nat (length a) -> len = N.of_nat (length b) -> sub (a ++ b ++ c) off len = Some b.
Proof. intros -> ->. apply sub_app_mid. Qed.

Lemma firstn_app_exact {A} n (a b : list A) : length a = n -> firstn n (a ++ b) = a.
Proof. intros <-. rewrite firstn_app, firstn_all, Nat.sub_diag. cbn. apply app_nil_r. Qed.
Lemma skipn_app_exact {A} n (a b : list A) : length a = n -> skipn n (a ++ b) = b.
Proof. intros <-. rewrite skipn_app, skipn_all, Nat.sub_diag. reflexivity. Qed.

Lemma dec_one_f x r : wf_f x ->
  mkF (le_value (firstn 4 (ser_f x ++ r))) (le_value (firstn 4 (skipn 4 (ser_f x ++ r)))) (le_value (firstn 8 (skipn 8 (ser_f x ++ r)))) = x /\
  skipn 16 (ser_f x ++ r) = r.
Proof.
  intros [H1 [H2 H3]]. unfold ser_f. set (A := le_bytes 4 (f_index x)). set (B := le_bytes 4 (f_len x)). set (C := le_bytes 8 (f_off x)).
  assert (LA : length A = 4%nat) by apply le_bytes_length. assert (LB : length B = 4%nat) by apply le_bytes_length. assert (LC : length C = 8%nat) by apply le_bytes_length.
  rewrite <- !app_assoc.
  rewrite (firstn_app_exact 4 A) by exact LA.
  rewrite (skipn_app_exact 4 A) by exact LA. rewrite (firstn_app_exact 4 B) by exact LB.
  replace (skipn 8 (A ++ B ++ C ++ r)) with (C ++ r) by (rewrite (app_assoc A B); symmetry; apply skipn_app_exact; rewrite app_length; lia).
  rewrite (firstn_app_exact 8 C) by exact LC.
  replace (skipn 16 (A ++ B ++ C ++ r)) with r
    by (rewrite (app_assoc A B), (app_assoc (A ++ B) C); symmetry; apply skipn_app_exact; rewrite !app_length; lia).
  unfold A, B, C. rewrite !le_value_le_bytes by (cbn; lia). destruct x; split; reflexivity.
Qed.

Lemma dec_fs_ser l : Forall wf_f l -> forall rest, dec_fs (length l) (flat_map ser_f l ++ rest) = l.
Proof.
  induction 1 as [|x l Hx _ IH]; intros rest; cbn [length dec_fs flat_map]; [reflexivity|].
  rewrite <- app_assoc. destruct (dec_one_f x (flat_map ser_f l ++ rest) Hx) as [E1 E2]. rewrite E1, E2, IH. reflexivity.
Qed.

Lemma dec_one_s x ra re : wf_s x ->
  mkS (le_value (firstn 4 (le_bytes 4 (s_addr x) ++ ra))) (le_value (firstn 4 (ser_s x ++ re))) (le_value (firstn 4 (skipn 4 (ser_s x ++ re))))
      (le_value (firstn 8 (skipn 8 (ser_s x ++ re)))) = x /\
  skipn 4 (le_bytes 4 (s_addr x) ++ ra) = ra /\ skipn 16 (ser_s x ++ re) = re.
Proof.
  intros [H0 [H1 [H2 H3]]]. unfold ser_s. set (A := le_bytes 4 (s_kind x)). set (B := le_bytes 4 (s_len x)). set (C := le_bytes 8 (s_off x)). set (D := le_bytes 4 (s_addr x)).
  assert (LA : length A = 4%nat) by apply le_bytes_length. assert (LB : length B = 4%nat) by apply le_bytes_length. assert (LC : length C = 8%nat) by apply le_bytes_length.
  assert (LD : length D = 4%nat) by apply le_bytes_length.
  rewrite <- !app_assoc.
  rewrite (firstn_app_exact 4 D) by exact LD. rewrite (skipn_app_exact 4 D) by exact LD.
  rewrite (firstn_app_exact 4 A) by exact LA.
  rewrite (skipn_app_exact 4 A) by exact LA. rewrite (firstn_app_exact 4 B) by exact LB.
  replace (skipn 8 (A ++ B ++ C ++ re)) with (C ++ re) by (rewrite (app_assoc A B); symmetry; apply skipn_app_exact; rewrite app_length; lia).
  rewrite (firstn_app_exact 8 C) by exact LC.
  replace (skipn 16 (A ++ B ++ C ++ re)) with re
    by (rewrite (app_assoc A B), (app_assoc (A ++ B) C); symmetry; apply skipn_app_exact; rewrite !app_length; lia).
  unfold A, B, C, D. rewrite !le_value_le_bytes by (cbn; lia). destruct x; repeat split; reflexivity.
Qed.

Lemma dec_syms_ser l : Forall wf_s l -> forall ra re,
  dec_syms (length l) (flat_map (fun x => le_bytes 4 (s_addr x)) l ++ ra) (flat_map ser_s l ++ re) = l.
Proof.
  induction 1 as [|x l Hx _ IH]; intros ra re; cbn [length dec_syms flat_map]; [reflexivity|].
  rewrite <- !app_assoc. destruct (dec_one_s x (flat_map (fun x => le_bytes 4 (s_addr x)) l ++ ra) (flat_map ser_s l ++ re) Hx) as [E1 [E2 E3]].
  rewrite E1, E2, E3, IH. reflexivity.
Qed.

Lemma flat_map_length_const {A} (f : A -> bytes) k l : (forall x, length (f x) = k) -> length (flat_map f l) = (length l * k)%nat.
Proof. intros H. induction l as [|x l IH]; cbn [flat_map length]; [reflexivity|]. rewrite app_length, H, IH. lia. Qed.

Definition hdr (fields : list N) : bytes := magic ++ flat_map (le_bytes 4) fields.

Lemma u32_at_fields : forall fields k v (pre post : bytes), nth_error fields k = Some v -> v < 2 ^ 32 ->
  u32_at (pre ++ flat_map (le_bytes 4) fields ++ post) (N.of_nat (length pre) + 4 * N.of_nat k) = Some v.
Proof.
  intros fields k v pre post Hn Hv. destruct (nth_error_split _ _ Hn) as [f1 [f2 [E L]]]. subst fields k.
  rewrite flat_map_app. cbn [flat_map]. rewrite <- !app_assoc. unfold u32_at.
  rewrite (app_assoc pre). rewrite (sub_at (pre ++ flat_map (le_bytes 4) f1) (le_bytes 4 v)).
  - cbn [option_map]. rewrite le_value_le_bytes by (cbn; lia). reflexivity.
  - rewrite app_length, (flat_map_length_const (le_bytes 4) 4) by (intros; apply le_bytes_length). lia.
  - rewrite le_bytes_length. reflexivity.
Qed.

Definition fields_of (i : index) : list N :=
  let mi_len := N.of_nat (List.length (i_module_info i)) in
  let pad := align4 mi_len - mi_len in
  let file_off := HEADER_SIZE + mi_len + pad in
  let nf := N.of_nat (List.length (i_files i)) in
  let orig_off := file_off + nf * 16 in
  let no := N.of_nat (List.length (i_origins i)) in
  let addr_off := orig_off + no * 16 in
  let ns := N.of_nat (List.length (i_symbols i)) in
  let ent_off := addr_off + ns * 4 in
  [1; HEADER_SIZE; mi_len; nf; file_off; no; orig_off; ns; addr_off; ent_off].

Definition body_of (i : index) : bytes :=
  let mi_len := N.of_nat (List.length (i_module_info i)) in
  i_module_info i ++ repeat 0 (N.to_nat (align4 mi_len - mi_len)) ++
  flat_map ser_f (i_files i) ++ flat_map ser_f (i_origins i) ++
  flat_map (fun x => le_bytes 4 (s_addr x)) (i_symbols i) ++ flat_map ser_s (i_symbols i).

Lemma serialize_split i : serialize i = hdr (fields_of i) ++ body_of i.
Proof. unfold serialize, hdr, fields_of, body_of. cbn [flat_map]. rewrite app_nil_r. rewrite <- !app_assoc. reflexivity. Qed.

Lemma hdr_length i : length (hdr (fields_of i)) = 48%nat.
Proof. unfold hdr. rewrite app_length, (flat_map_length_const (le_bytes 4) 4) by (intros; apply le_bytes_length). reflexivity. Qed.

Lemma ser_f_length x : length (ser_f x) = 16%nat.
Proof. unfold ser_f. rewrite !app_length, !le_bytes_length. reflexivity. Qed.
Lemma ser_s_length x : length (ser_s x) = 16%nat.
Proof. unfold ser_s. rewrite !app_length, !le_bytes_length. reflexivity. Qed.

Lemma serialize_length i :
  let mi_len := N.of_nat (List.length (i_module_info i)) in
  N.of_nat (length (serialize i)) = 48 + mi_len + (align4 mi_len - mi_len) + N.of_nat (length (i_files i)) * 16 + N.of_nat (length (i_origins i)) * 16 +
                                    N.of_nat (length (i_symbols i)) * 4 + N.of_nat (length (i_symbols i)) * 16.
Proof.
  intros mi_len. rewrite serialize_split, app_length, hdr_length. unfold body_of. fold mi_len.
  rewrite !app_length, repeat_length.
  rewrite (flat_map_length_const ser_f 16) by apply ser_f_length. rewrite (flat_map_length_const ser_f 16) by apply ser_f_length.
  rewrite (flat_map_length_const (fun x => le_bytes 4 (s_addr x)) 4) by (intros; apply le_bytes_length).
  rewrite (flat_map_length_const ser_s 16) by apply ser_s_length. unfold mi_len. lia.
Qed.

Theorem parse_serialize i : wf_index i -> parse_symindex (serialize i) = Some i.
Proof.
  intros [WF [WO [WS WL]]]. pose proof (serialize_length i) as SL. cbv zeta in SL.
  set (mi_len := N.of_nat (List.length (i_module_info i))) in *.
  set (pad := align4 mi_len - mi_len) in *.
  set (nf := N.of_nat (List.length (i_files i))) in *. set (no := N.of_nat (List.length (i_origins i))) in *. set (ns := N.of_nat (List.length (i_symbols i))) in *.
  assert (Hpad : 0 <= pad) by lia.
  unfold parse_symindex. rewrite serialize_split.
  assert (HL : length (hdr (fields_of i)) = 48%nat) by apply hdr_length.
  (* header *)
  replace (sub (hdr (fields_of i) ++ body_of i) 0 HEADER_SIZE) with (Some (hdr (fields_of i))).
  2:{ symmetry. change (hdr (fields_of i) ++ body_of i) with ([] ++ hdr (fields_of i) ++ body_of i). apply sub_at; [reflexivity | rewrite HL; reflexivity]. }
  assert (Hm : bytes_eqb (firstn 8 (hdr (fields_of i))) magic = true) by (unfold hdr; rewrite (firstn_app_exact 8 magic) by reflexivity; reflexivity).
  rewrite Hm. cbn [negb].
  assert (F : forall k v, nth_error (fields_of i) k = Some v -> v < 2 ^ 32 -> u32_at (hdr (fields_of i)) (8 + 4 * N.of_nat k) = Some v).
  { intros k v Hn Hv. unfold hdr. pose proof (u32_at_fields (fields_of i) k v magic [] Hn Hv) as H. rewrite app_nil_r in H. exact H. }
  assert (F1 : u32_at (hdr (fields_of i)) 12 = Some HEADER_SIZE) by (apply (F 1%nat); [reflexivity | unfold HEADER_SIZE; lia]).
  assert (F2 : u32_at (hdr (fields_of i)) 16 = Some mi_len) by (apply (F 2%nat); [reflexivity | lia]).
  assert (F3 : u32_at (hdr (fields_of i)) 20 = Some nf) by (apply (F 3%nat); [reflexivity | lia]).
  assert (F4 : u32_at (hdr (fields_of i)) 24 = Some (HEADER_SIZE + mi_len + pad)) by (apply (F 4%nat); [reflexivity | unfold HEADER_SIZE; lia]).
  assert (F5 : u32_at (hdr (fields_of i)) 28 = Some no) by (apply (F 5%nat); [reflexivity | lia]).
  assert (F6 : u32_at (hdr (fields_of i)) 32 = Some (HEADER_SIZE + mi_len + pad + nf * 16)) by (apply (F 6%nat); [reflexivity | unfold HEADER_SIZE; lia]).
  assert (F7 : u32_at (hdr (fields_of i)) 36 = Some ns) by (apply (F 7%nat); [reflexivity | lia]).
  assert (F8 : u32_at (hdr (fields_of i)) 40 = Some (HEADER_SIZE + mi_len + pad + nf * 16 + no * 16)) by (apply (F 8%nat); [reflexivity | unfold HEADER_SIZE; lia]).
  assert (F9 : u32_at (hdr (fields_of i)) 44 = Some (HEADER_SIZE + mi_len + pad + nf * 16 + no * 16 + ns * 4)) by (apply (F 9%nat); [reflexivity | unfold HEADER_SIZE; lia]).
  rewrite F1, F2, F3, F4, F5, F6, F7, F8, F9. clear F F1 F2 F3 F4 F5 F6 F7 F8 F9.
  (* body *)
  unfold body_of. fold mi_len pad.
  set (H := hdr (fields_of i)) in *. set (MI := i_module_info i). set (PD := repeat 0 (N.to_nat pad)).
  set (FB := flat_map ser_f (i_files i)). set (OB := flat_map ser_f (i_origins i)).
  set (AB := flat_map (fun x => le_bytes 4 (s_addr x)) (i_symbols i)). set (EB := flat_map ser_s (i_symbols i)).
  assert (LPD : length PD = N.to_nat pad) by apply repeat_length.
  assert (LFB : length FB = (length (i_files i) * 16)%nat) by (apply flat_map_length_const; apply ser_f_length).
  assert (LOB : length OB = (length (i_origins i) * 16)%nat) by (apply flat_map_length_const; apply ser_f_length).
  assert (LAB : length AB = (length (i_symbols i) * 4)%nat) by (apply flat_map_length_const; intros; apply le_bytes_length).
  assert (LEB : length EB = (length (i_symbols i) * 16)%nat) by (apply flat_map_length_const; apply ser_s_length).
  rewrite (sub_at H MI (PD ++ FB ++ OB ++ AB ++ EB)) by (unfold HEADER_SIZE, mi_len, MI; rewrite ?HL; lia).
  replace (H ++ MI ++ PD ++ FB ++ OB ++ AB ++ EB) with ((H ++ MI ++ PD) ++ FB ++ (OB ++ AB ++ EB)) by (rewrite <- !app_assoc; reflexivity).
  rewrite (sub_at (H ++ MI ++ PD) FB (OB ++ AB ++ EB)) by (rewrite ?app_length, ?HL, ?LPD, ?LFB; unfold HEADER_SIZE, mi_len, MI, nf; lia).
  replace ((H ++ MI ++ PD) ++ FB ++ OB ++ AB ++ EB) with ((H ++ MI ++ PD ++ FB) ++ OB ++ (AB ++ EB)) by (rewrite <- !app_assoc; reflexivity).
  rewrite (sub_at (H ++ MI ++ PD ++ FB) OB (AB ++ EB)) by (rewrite ?app_length, ?HL, ?LPD, ?LFB, ?LOB; unfold HEADER_SIZE, mi_len, MI, nf, no; lia).
  replace ((H ++ MI ++ PD ++ FB) ++ OB ++ AB ++ EB) with ((H ++ MI ++ PD ++ FB ++ OB) ++ AB ++ EB) by (rewrite <- !app_assoc; reflexivity).
  rewrite (sub_at (H ++ MI ++ PD ++ FB ++ OB) AB EB) by (rewrite ?app_length, ?HL, ?LPD, ?LFB, ?LOB, ?LAB; unfold HEADER_SIZE, mi_len, MI, nf, no, ns; lia).
  replace ((H ++ MI ++ PD ++ FB ++ OB) ++ AB ++ EB) with ((H ++ MI ++ PD ++ FB ++ OB ++ AB) ++ EB ++ []) by (rewrite <- !app_assoc, app_nil_r; reflexivity).
  rewrite (sub_at (H ++ MI ++ PD ++ FB ++ OB ++ AB) EB []) by (rewrite ?app_length, ?HL, ?LPD, ?LFB, ?LOB, ?LAB, ?LEB; unfold HEADER_SIZE, mi_len, MI, nf, no, ns; lia).
  f_equal. unfold nf, no, ns. rewrite !Nat2N.id.
  pose proof (dec_fs_ser (i_files i) WF []) as D1. rewrite app_nil_r in D1.
  pose proof (dec_fs_ser (i_origins i) WO []) as D2. rewrite app_nil_r in D2.
  pose proof (dec_syms_ser (i_symbols i) WS [] []) as D3. rewrite !app_nil_r in D3.
  unfold FB, OB, AB, EB. rewrite D1, D2, D3. destruct i; reflexivity.
Qed.

Corollary serialize_parse_serialize i : wf_index i -> option_map serialize (parse_symindex (serialize i)) = Some (serialize i).
Proof. intros H. rewrite parse_serialize by exact H. reflexivity. Qed.
