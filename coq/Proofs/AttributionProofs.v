From SV Require Import Generated.Consts Model.LibMappings Spec.LibMappingsSpec Proofs.LibMappingsProofs Model.Attribution Spec.AttributionSpec.
From Coq Require Import Lia ZifyBool ZifyN.
Open Scope N_scope.

Lemma cutoff_inclusive : c_op_cutoff_inclusive = true.
Proof. vm_compute. reflexivity. Qed.

Lemma cutoff_le t ts : cutoff t ts = (t <=? ts).
Proof. unfold cutoff. rewrite cutoff_inclusive. reflexivity. Qed.

(* processing up to t1 and then up to t2 >= t1 is processing up to t2 (no sortedness needed) *)
Lemma process_ops_compose t1 t2 : t1 <= t2 -> forall q m,
  (let '(m1, q1) := process_ops t1 m q in process_ops t2 m1 q1) = process_ops t2 m q.
Proof.
  intros Ht. induction q as [|[t o] r IH]; intros m; [reflexivity|].
  cbn [process_ops]. rewrite (cutoff_le t t1), (cutoff_le t t2). destruct (t <=? t1) eqn:C1.
  - replace (t <=? t2) with true by lia. apply IH.
  - cbn [process_ops]. rewrite (cutoff_le t t2). reflexivity.
Qed.

(* on a time-ordered queue without Move, processing up to t applies exactly the operations announced at or before t *)
Lemma process_ops_sorted t : forall q lo m,
  sorted_from lo (map fst q) -> forallb wf_qopb q = true ->
  fst (process_ops t m q) = fold_left step (ops_upto t q) m.
Proof.
  induction q as [|[t' o] r IH]; intros lo m Hs Hw; [reflexivity|].
  cbn [map fst sorted_from] in Hs. destruct Hs as [Hlo Hs].
  cbn [forallb] in Hw. apply andb_true_iff in Hw. destruct Hw as [Hw1 Hw].
  destruct o as [o|a b c]; [|discriminate].
  cbn [process_ops ops_upto]. rewrite cutoff_le. destruct (t' <=? t) eqn:C.
  - cbn [apply_qop fold_left]. apply (IH t'); assumption.
  - cbn [fst].
    (* everything later is also after t *)
    assert (Hnone : forall q0 lo0, sorted_from lo0 (map fst q0) -> t < lo0 -> forallb wf_qopb q0 = true -> ops_upto t q0 = []).
    { clear. induction q0 as [|[t0 o0] r0 IH0]; intros lo0 Hs0 Hlt Hw0; [reflexivity|].
      cbn [map fst sorted_from] in Hs0. destruct Hs0 as [H1 H2].
      cbn [forallb] in Hw0. apply andb_true_iff in Hw0. destruct Hw0 as [Hw1 Hw2].
      destruct o0 as [o0|a b c]; [|discriminate].
      cbn [ops_upto]. replace (t0 <=? t) with false by lia. apply (IH0 t0); [assumption|lia|assumption]. }
    rewrite (Hnone r t' Hs ltac:(lia) Hw). reflexivity.
Qed.

Lemma wf_ops_upto t q : forallb wf_qopb q = true -> WfOps (ops_upto t q).
Proof.
  induction q as [|[t' o] r IH]; intros Hw; [constructor|].
  cbn [forallb] in Hw. apply andb_true_iff in Hw. destruct Hw as [Hw1 Hw].
  destruct o as [o|a b c]; [|discriminate]. cbn [ops_upto].
  destruct (t' <=? t); [|apply IH; assumption].
  constructor; [apply wf_opb_wf; exact Hw1|apply IH; assumption].
Qed.

Lemma resolve_is_spec q t m fs :
  forallb wf_qopb q = true -> m = run (ops_upto t q) ->
  resolve_stack m fs = spec_stack q t fs.
Proof.
  intros Hw ->. induction fs as [|f r IH]; [reflexivity|].
  cbn [resolve_stack spec_stack]. unfold lookup_addr. destruct (pass1 f) as [[a md]|]; [|exact IH].
  rewrite IH. f_equal. unfold pass2, spec_frame. destruct md; [|reflexivity].
  rewrite convert_exact, (refines_spec _ a (wf_ops_upto t q Hw)). reflexivity.
Qed.

(* the whole flush, for time-ordered samples *)
Lemma flush_from q : forallb wf_qopb q = true -> sorted_from 0 (map fst q) ->
  forall samples lo m qrest,
    sorted_from lo (map fst samples) ->
    (forall t, lo <= t -> process_ops t m qrest = process_ops t [] q) ->
    flush m qrest samples = spec_flush q samples.
Proof.
  intros Hw Hsq. induction samples as [|[t fs] r IH]; intros lo m qrest Hs Hst; [reflexivity|].
  cbn [map fst sorted_from] in Hs. destruct Hs as [Hlo Hs].
  cbn [flush spec_flush map]. destruct (process_ops t m qrest) as [m' q'] eqn:E.
  assert (Hm' : m' = run (ops_upto t q)).
  { pose proof (Hst t Hlo) as H. rewrite E in H.
    pose proof (process_ops_sorted t q 0 [] Hsq Hw) as H2. rewrite <- H in H2. exact H2. }
  rewrite (resolve_is_spec q t m' fs Hw Hm'). f_equal.
  apply (IH t); [exact Hs|].
  intros t2 Ht2. pose proof (process_ops_compose t t2 Ht2 qrest m) as Hc. rewrite E in Hc. rewrite Hc.
  apply Hst. lia.
Qed.

Theorem flush_is_spec q samples :
  forallb wf_qopb q = true -> sorted_from 0 (map fst q) -> sorted_from 0 (map fst samples) ->
  flush [] q samples = spec_flush q samples.
Proof.
  intros Hw Hsq Hss. apply (flush_from q Hw Hsq samples 0 [] q Hss). reflexivity.
Qed.

(* a mapping announced after a sample never changes how that sample is attributed *)
Theorem later_ops_irrelevant q q' t fs :
  ops_upto t q = ops_upto t q' -> spec_stack q t fs = spec_stack q' t fs.
Proof.
  intros H. induction fs as [|f r IH]; [reflexivity|]. cbn [spec_stack].
  destruct (lookup_addr f) as [[a md]|]; [|exact IH]. rewrite IH. f_equal.
  unfold spec_frame. rewrite H. reflexivity.
Qed.

Lemma ops_upto_app t q1 q2 : ops_upto t (q1 ++ q2) = ops_upto t q1 ++ ops_upto t q2.
Proof.
  induction q1 as [|[t' o] r IH]; [reflexivity|]. cbn [app ops_upto]. destruct o; [|exact IH].
  destruct (t' <=? t); [cbn [app]; rewrite IH; reflexivity|exact IH].
Qed.

Lemma ops_upto_later t q : Forall (fun x => t < fst x) q -> ops_upto t q = [].
Proof.
  induction 1 as [|[t' o] r Hx Hr IH]; [reflexivity|]. cbn [fst] in Hx. cbn [ops_upto].
  destruct o; [|exact IH]. replace (t' <=? t) with false by lia. exact IH.
Qed.
