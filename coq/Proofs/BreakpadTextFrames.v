(* The searches inside one FUNC block: on well-formed bodies (ascending line records, disjoint inline ranges per depth) the
   ordered searches of the lookup path return what the text specification's plain searches return. *)
From Coq Require Import Lia Arith ZifyBool ZifyN ZifyNat.
From SV Require Import Lib.Bytes Model.LineBuffer Model.BreakpadIndex Model.BreakpadLookup Spec.BreakpadText.
Open Scope N_scope.

(* ---------- line records ---------- *)

Lemma ascendingb_cons : forall t x, ascendingb (x :: t) = true -> (forall y, In y t -> x < y) /\ ascendingb t = true.
Proof.
  induction t as [|y t IH]; intros x H; [split; [intros y []|reflexivity]|].
  cbn [ascendingb] in H. apply andb_true_iff in H as [H1 H2].
  destruct (IH y H2) as [I1 I2]. split; [|exact H2].
  intros z [<-|Hz]; [lia|]. specialize (I1 z Hz). lia.
Qed.

Definition cl_step (a : N) (best : option sline) (x : sline) : option sline :=
  if sl_addr x <=? a then
    match best with Some b => if sl_addr b <=? sl_addr x then Some x else best | None => Some x end
  else best.

Lemma covering_line_fold l a : covering_line l a = fold_left (cl_step a) l None.
Proof. reflexivity. Qed.

Lemma covering_line_last a : forall l best, ascendingb (map sl_addr l) = true ->
  (forall b, best = Some b -> forall x, In x l -> sl_addr b < sl_addr x) ->
  fold_left (cl_step a) l best = last_line_le l a best.
Proof.
  induction l as [|x r IH]; intros best Ha Hb; [reflexivity|].
  cbn [map] in Ha. destruct (ascendingb_cons _ _ Ha) as [A1 A2].
  cbn [fold_left last_line_le]. unfold cl_step at 2.
  destruct (sl_addr x <=? a) eqn:C.
  - assert (E : match best with Some b => if sl_addr b <=? sl_addr x then Some x else best | None => Some x end = Some x).
    { destruct best as [b|]; [|reflexivity]. specialize (Hb b eq_refl x (or_introl eq_refl)).
      replace (sl_addr b <=? sl_addr x) with true by lia. reflexivity. }
    rewrite E. apply IH; [exact A2|]. intros b Eb y Hy. injection Eb as <-. apply A1. apply in_map. exact Hy.
  - apply IH; [exact A2|]. intros b Eb y Hy. apply (Hb b Eb). right. exact Hy.
Qed.

Lemma covering_line_agrees l a : ascendingb (map sl_addr l) = true -> last_line_le l a None = covering_line l a.
Proof. intros H. rewrite covering_line_fold. symmetry. apply covering_line_last; [exact H|discriminate]. Qed.

(* ---------- inline records ---------- *)

Definition cov (d a : N) (x : inlinee) : bool := (in_depth x =? d) && (in_addr x <=? a) && (a <? in_addr x + in_size x).
Definition disj (x y : inlinee) : Prop :=
  in_depth x <> in_depth y \/ in_addr x + in_size x <= in_addr y \/ in_addr y + in_size y <= in_addr x.
Definition in_ok (x : inlinee) : Prop := 0 < in_size x /\ in_addr x + in_size x < 4294967296.

Lemma inl_pairwise : forall l, inl_disjointb l = true ->
  (forall x, In x l -> in_ok x) /\ (forall x y, In x l -> In y l -> x = y \/ disj x y).
Proof.
  induction l as [|h t IH]; intros H; [split; [intros x []|intros x y []]|].
  cbn [inl_disjointb] in H. apply andb_true_iff in H as [H H4]. apply andb_true_iff in H as [H H3].
  apply andb_true_iff in H as [H1 H2]. destruct (IH H4) as [I1 I2].
  rewrite forallb_forall in H1.
  assert (Hh : forall y, In y t -> disj h y).
  { intros y Hy. specialize (H1 y Hy). unfold disj.
    apply orb_true_iff in H1 as [H1|H1]; [apply orb_true_iff in H1 as [H1|H1]|].
    - left. apply negb_true_iff in H1. lia.
    - right. left. lia.
    - right. right. lia. }
  split.
  - intros x [<-|Hx]; [unfold in_ok; lia|exact (I1 x Hx)].
  - intros x y [<-|Hx] [<-|Hy].
    + left. reflexivity.
    + right. exact (Hh y Hy).
    + right. specialize (Hh x Hx). unfold disj in *. intuition.
    + exact (I2 x y Hx Hy).
Qed.

Lemma key_lt_irrefl x : key_lt x x = false.
Proof. unfold key_lt. lia. Qed.
Lemma key_lt_asym x y : key_lt x y = true -> key_lt y x = false.
Proof. unfold key_lt. lia. Qed.

Lemma best_inlinee_stays d a x : forall r,
  (forall y, In y r -> key_le y d a = true -> y = x \/ key_lt y x = true) ->
  best_inlinee r d a (Some x) = Some x.
Proof.
  induction r as [|y r IH]; intros H; [reflexivity|].
  cbn [best_inlinee]. destruct (key_le y d a) eqn:C.
  - destruct (H y (or_introl eq_refl) C) as [->|Hlt].
    + rewrite key_lt_irrefl. apply IH. intros z Hz. apply H. right. exact Hz.
    + rewrite (key_lt_asym _ _ Hlt). apply IH. intros z Hz. apply H. right. exact Hz.
  - apply IH. intros z Hz. apply H. right. exact Hz.
Qed.

Lemma best_inlinee_max d a x : forall l best, In x l -> key_le x d a = true ->
  (forall y, In y l -> key_le y d a = true -> y = x \/ key_lt y x = true) ->
  (forall b, best = Some b -> key_lt b x = true) ->
  best_inlinee l d a best = Some x.
Proof.
  induction l as [|z r IH]; intros best Hin Hx Hmax Hb; [destruct Hin|].
  cbn [best_inlinee].
  assert (Hr : forall y, In y r -> key_le y d a = true -> y = x \/ key_lt y x = true)
    by (intros y Hy; apply Hmax; right; exact Hy).
  destruct (key_le z d a) eqn:C.
  - destruct (Hmax z (or_introl eq_refl) C) as [->|Hlt].
    + destruct best as [b|].
      * rewrite (Hb b eq_refl). apply best_inlinee_stays. exact Hr.
      * apply best_inlinee_stays. exact Hr.
    + assert (Hin' : In x r).
      { destruct Hin as [E|H]; [|exact H]. subst z. rewrite key_lt_irrefl in Hlt. discriminate. }
      destruct best as [b|].
      * destruct (key_lt b z); (apply IH; [exact Hin'|exact Hx|exact Hr|]).
        -- intros b0 E. injection E as <-. exact Hlt.
        -- intros b0 E. injection E as <-. exact (Hb b eq_refl).
      * apply IH; [exact Hin'|exact Hx|exact Hr|]. intros b0 E. injection E as <-. exact Hlt.
  - assert (Hin' : In x r).
    { destruct Hin as [E|H]; [|exact H]. subst z. congruence. }
    apply IH; [exact Hin'|exact Hx|exact Hr|exact Hb].
Qed.

Lemma best_inlinee_in d a : forall l best r, best_inlinee l d a best = Some r ->
  (Some r = best \/ (In r l /\ key_le r d a = true)).
Proof.
  induction l as [|z t IH]; intros best r H; [left; symmetry; exact H|].
  cbn [best_inlinee] in H. destruct (key_le z d a) eqn:C.
  - destruct best as [b|].
    + destruct (key_lt b z).
      * destruct (IH _ _ H) as [E|[H1 H2]]; [injection E as ->; right; split; [left; reflexivity|exact C]|right; split; [right; exact H1|exact H2]].
      * destruct (IH _ _ H) as [E|[H1 H2]]; [left; exact E|right; split; [right; exact H1|exact H2]].
    + destruct (IH _ _ H) as [E|[H1 H2]]; [injection E as ->; right; split; [left; reflexivity|exact C]|right; split; [right; exact H1|exact H2]].
  - destruct (IH _ _ H) as [E|[H1 H2]]; [left; exact E|right; split; [right; exact H1|exact H2]].
Qed.

Lemma inlinee_agrees l d a : inl_disjointb l = true -> inlinee_at_depth l d a = covering_inlinee l d a.
Proof.
  intros Hw. destruct (inl_pairwise l Hw) as [Hok Hpw].
  unfold covering_inlinee. fold (cov d a).
  destruct (find (cov d a) l) as [x|] eqn:F.
  - apply find_some in F as [Hin Hc]. unfold cov in Hc.
    destruct (Hok x Hin) as [O1 O2].
    assert (B : best_inlinee l d a None = Some x).
    { apply best_inlinee_max; [exact Hin|unfold key_le; lia| |discriminate].
      intros y Hy Ky. destruct (Hpw x y Hin Hy) as [E|D]; [left; symmetry; exact E|right].
      destruct (Hok y Hy) as [P1 P2]. unfold key_le in Ky. unfold key_lt. unfold disj in D. lia. }
    unfold inlinee_at_depth. rewrite B.
    replace ((in_depth x =? d) && (in_addr x + in_size x <? 4294967296) && (a <? in_addr x + in_size x)) with true by lia.
    reflexivity.
  - unfold inlinee_at_depth. destruct (best_inlinee l d a None) as [r|] eqn:B; [|reflexivity].
    destruct (best_inlinee_in _ _ _ _ _ B) as [E|[H1 H2]]; [discriminate|].
    pose proof (find_none _ _ F r H1) as Hn. unfold cov in Hn. unfold key_le in H2.
    destruct ((in_depth r =? d) && (in_addr r + in_size r <? 4294967296) && (a <? in_addr r + in_size r)) eqn:C; [|reflexivity].
    exfalso. lia.
Qed.

(* ---------- the inline chain ---------- *)

Lemma frames_agree text ix rs fi a :
  (forall d, inlinee_at_depth (fi_inlinees fi) d a = covering_inlinee (fi_inlinees fi) d a) ->
  (forall i, get_string text t_FILE (i_files ix) i = file_name rs i) ->
  (forall i, get_string text t_INLINE_ORIGIN (i_origins ix) i = origin_name rs i) ->
  forall fuel d name, inline_frames fuel text ix fi a d name = text_frames fuel rs (fi_inlinees fi) a d name.
Proof.
  intros H1 H2 H3. induction fuel as [|f IH]; intros d name; [reflexivity|].
  cbn [inline_frames text_frames]. rewrite H1.
  destruct (covering_inlinee (fi_inlinees fi) d a) as [x|]; [|reflexivity].
  rewrite H2, H3, IH. reflexivity.
Qed.
