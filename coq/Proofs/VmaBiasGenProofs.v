(* The functions tools/xlate_vb.py regenerates from samply/src/linux_shared/svma_file_range.rs on every run (the two containment tests of
   SvmaFileRange and compute_vma_bias_impl, u64 arithmetic checked as in a debug build) agree with Model/ConverterMaps.v's vma_bias - the function
   the C02 theorems are stated over: whatever the translation returns without panicking is the model's answer, and under the stated bounds (offsets
   below 2^64, the mapping's address not below the distance back to a segment that starts before the mapping's file offset) it does not panic. *)
From SV Require Import Model.ConverterMaps Generated.VmaBiasGen.
From Coq Require Import ZArith Lia List.
Open Scope N_scope.

Lemma cadd64_some a b x : cadd64 a b = Some x -> x = a + b.
Proof. unfold cadd64. destruct (a + b <? 2 ^ 64); intros H; inversion H; reflexivity. Qed.
Lemma csub64_some a b x : csub64 a b = Some x -> x = a - b /\ b <= a.
Proof. unfold csub64. destruct (b <=? a) eqn:E; intros H; inversion H. split; [reflexivity|apply N.leb_le; exact E]. Qed.

Lemma g_encompasses_some s off size b :
  g_encompasses_file_range s off size = Some b -> b = encompasses s off size.
Proof.
  unfold g_encompasses_file_range, encompasses.
  destruct (cadd64 (sg_off s) (sg_size s)) as [x1|] eqn:E1; [|discriminate].
  destruct (cadd64 off size) as [x2|] eqn:E2; [|discriminate].
  apply cadd64_some in E1, E2. subst. intros H. inversion H. reflexivity.
Qed.

Lemma g_is_encompassed_some s off size b :
  g_is_encompassed_by_file_range s off size = Some b -> b = encompassed s off size.
Proof.
  unfold g_is_encompassed_by_file_range, encompassed.
  destruct (cadd64 (sg_off s) (sg_size s)) as [x1|] eqn:E1; [|discriminate].
  destruct (cadd64 off size) as [x2|] eqn:E2; [|discriminate].
  apply cadd64_some in E1, E2. subst. intros H. inversion H. reflexivity.
Qed.

Lemma g_find_seg_some (p : seg -> option bool) (q : seg -> bool) l r :
  (forall x b, p x = Some b -> b = q x) -> g_find_seg p l = Some r -> r = find q l.
Proof.
  intros Hpq. induction l as [|x l IH]; cbn [g_find_seg find]; intros H.
  - inversion H. reflexivity.
  - destruct (p x) as [[|]|] eqn:E; try discriminate.
    + rewrite <- (Hpq _ _ E). inversion H. reflexivity.
    + rewrite <- (Hpq _ _ E). apply IH. exact H.
Qed.

Theorem g_vma_bias_sound segs off avma size r :
  g_compute_vma_bias_impl segs off avma size = Some r -> r = vma_bias segs off avma size.
Proof.
  unfold g_compute_vma_bias_impl, vma_bias, ref_seg.
  match goal with |- context [g_find_seg ?p segs] => set (P := p) end.
  destruct (g_find_seg P segs) as [fs|] eqn:EF; [|discriminate].
  apply (g_find_seg_some P (fun s => encompasses s off size || encompassed s off size)) in EF.
  2:{ intros x b. unfold P.
      destruct (g_encompasses_file_range x off size) as [[|]|] eqn:E1; try discriminate.
      - apply g_encompasses_some in E1. intros H. inversion H. rewrite <- E1. reflexivity.
      - apply g_encompasses_some in E1. rewrite <- E1. cbn [orb]. apply g_is_encompassed_some. }
  rewrite <- EF. destruct fs as [s|]; [|intros H; inversion H; reflexivity].
  destruct (off <? sg_off s) eqn:EL.
  - apply N.ltb_lt in EL.
    destruct (csub64 (sg_off s) off) as [x5|] eqn:E5; [|discriminate].
    destruct (cadd64 avma x5) as [x6|] eqn:E6; [|discriminate].
    apply csub64_some in E5. destruct E5 as [E5 _]. apply cadd64_some in E6. subst.
    intros H. inversion H. unfold wsub64. f_equal. f_equal. lia.
  - apply N.ltb_ge in EL.
    destruct (csub64 off (sg_off s)) as [x7|] eqn:E7; [|discriminate].
    destruct (csub64 avma x7) as [x8|] eqn:E8; [|discriminate].
    apply csub64_some in E7. destruct E7 as [E7 _]. apply csub64_some in E8. destruct E8 as [E8 E8']. subst.
    intros H. inversion H. unfold wsub64. f_equal. f_equal. lia.
Qed.

(* when does it panic?  Never, as long as the file ranges and the mapped address stay inside u64 and the mapping does not begin so early in memory
   that the segment it lies in would begin below address 0 *)
Definition seg_in_range (off avma : N) (s : seg) : Prop :=
  sg_off s + sg_size s < 2 ^ 64 /\ avma + sg_off s < 2 ^ 64 /\ (sg_off s <= off -> off - sg_off s <= avma).

Lemma g_find_seg_total (p : seg -> option bool) l :
  (forall x, In x l -> p x <> None) -> g_find_seg p l <> None.
Proof.
  induction l as [|x l IH]; cbn [g_find_seg]; intros H; [discriminate|].
  destruct (p x) as [[|]|] eqn:E; [discriminate| |exfalso; apply (H x); [left; reflexivity|exact E]].
  apply IH. intros y Hy. apply H. right. exact Hy.
Qed.

Theorem g_vma_bias_total segs off avma size :
  Forall (seg_in_range off avma) segs -> off + size < 2 ^ 64 ->
  g_compute_vma_bias_impl segs off avma size = Some (vma_bias segs off avma size).
Proof.
  intros HF Hos.
  destruct (g_compute_vma_bias_impl segs off avma size) as [r|] eqn:E.
  - f_equal. exact (g_vma_bias_sound _ _ _ _ _ E).
  - exfalso. revert E. unfold g_compute_vma_bias_impl.
    match goal with |- context [g_find_seg ?p segs] => set (P := p) end.
    assert (HP : forall x, In x segs -> P x <> None).
    { intros x Hx. rewrite Forall_forall in HF. destruct (HF x Hx) as (H1 & _ & _). unfold P, g_encompasses_file_range, g_is_encompassed_by_file_range, cadd64.
      replace (sg_off x + sg_size x <? 2 ^ 64) with true by (symmetry; apply N.ltb_lt; exact H1).
      replace (off + size <? 2 ^ 64) with true by (symmetry; apply N.ltb_lt; exact Hos).
      destruct ((sg_off x <=? off) && (off + size <=? sg_off x + sg_size x)); discriminate. }
    destruct (g_find_seg P segs) as [fs|] eqn:EF; [|exfalso; exact (g_find_seg_total P segs HP EF)].
    destruct fs as [s|]; [|discriminate].
    assert (Hin : In s segs).
    { apply (g_find_seg_some P (fun s => encompasses s off size || encompassed s off size)) in EF.
      - symmetry in EF. apply find_some in EF. exact (proj1 EF).
      - intros x b. unfold P.
        destruct (g_encompasses_file_range x off size) as [[|]|] eqn:E1; try discriminate.
        + apply g_encompasses_some in E1. intros H. inversion H. rewrite <- E1. reflexivity.
        + apply g_encompasses_some in E1. rewrite <- E1. cbn [orb]. apply g_is_encompassed_some. }
    rewrite Forall_forall in HF. destruct (HF s Hin) as (_ & H2 & H3).
    unfold csub64, cadd64.
    destruct (off <? sg_off s) eqn:EL.
    + apply N.ltb_lt in EL.
      replace (off <=? sg_off s) with true by (symmetry; apply N.leb_le; lia).
      replace (avma + (sg_off s - off) <? 2 ^ 64) with true by (symmetry; apply N.ltb_lt; lia).
      discriminate.
    + apply N.ltb_ge in EL.
      replace (sg_off s <=? off) with true by (symmetry; apply N.leb_le; lia).
      replace (off - sg_off s <=? avma) with true by (symmetry; apply N.leb_le; apply H3; exact EL).
      discriminate.
Qed.
