(* The functions tools/xlate_cs.py regenerates from samply/src/shared/context_switch.rs on every run compute exactly what the hand-written
   model (Model/ContextSwitch.v) computes, for every sampling interval I > 0 - so the C12 theorems, stated over the hand-written model, hold
   of the translation of the current source.  (For I = 0 the Rust code divides by zero; the hand-written model stops there, the translation
   only raises `bad`.) *)
From SV Require Import Model.ContextSwitch Generated.ContextSwitchGen.
From Coq Require Import Lia ZifyBool ZifyN Btauto.
Open Scope N_scope.

Lemma g_maybe_consume_eq I t s : 0 < I -> g_maybe_consume_off_cpu I t s = maybe_consume_off_cpu I t s.
Proof.
  intros HI. unfold g_maybe_consume_off_cpu, maybe_consume_off_cpu, cdiv, csub. cbv zeta.
  destruct (off_acc s <? I) eqn:E; [reflexivity|].
  replace (I =? 0) with false by lia.
  cbn [st on_acc off_acc bad fst snd]. rewrite ?E. f_equal. f_equal. btauto.
Qed.

Lemma g_switch_out_eq t s : g_handle_switch_out t s = switch_out t s.
Proof.
  unfold g_handle_switch_out, switch_out, set_st, csub. destruct (st s); reflexivity.
Qed.

Lemma g_switch_in_eq I t s : 0 < I -> g_handle_switch_in I t s = switch_in I t s.
Proof.
  intros HI. unfold g_handle_switch_in, switch_in, set_st, csub.
  destruct (st s) as [|t0|t0] eqn:E; cbn [st on_acc off_acc bad fst snd].
  - rewrite ?E. reflexivity.
  - rewrite (g_maybe_consume_eq I t _ HI).
    destruct (maybe_consume_off_cpu I t _) as [s1 o]. reflexivity.
  - rewrite ?E. reflexivity.
Qed.

(* the source has two copies of this body (switch-in records and on-CPU samples); the model has one *)
Lemma g_on_cpu_sample_eq I t s : 0 < I -> g_handle_on_cpu_sample I t s = switch_in I t s.
Proof.
  intros HI. unfold g_handle_on_cpu_sample, switch_in, set_st, csub.
  destruct (st s) as [|t0|t0] eqn:E; cbn [st on_acc off_acc bad fst snd].
  - rewrite ?E. reflexivity.
  - rewrite (g_maybe_consume_eq I t _ HI).
    destruct (maybe_consume_off_cpu I t _) as [s1 o]. reflexivity.
  - rewrite ?E. reflexivity.
Qed.

Lemma g_consume_eq I s : g_consume_cpu_delta s = step I s Consume.
Proof. reflexivity. Qed.

(* one event through the translated functions *)
Definition g_step (I : N) (s : cs) (e : ev) : cs * out :=
  match e with
  | SwIn t => g_handle_switch_in I t s
  | Sample t => g_handle_on_cpu_sample I t s
  | SwOut t => (g_handle_switch_out t s, ONothing)
  | Consume => g_consume_cpu_delta s
  end.
Fixpoint g_run (I : N) (s : cs) (evs : list ev) : cs * list out :=
  match evs with
  | [] => (s, [])
  | e :: r => let '(s1, o) := g_step I s e in let '(s2, os) := g_run I s1 r in (s2, o :: os)
  end.

Theorem g_step_eq I s e : 0 < I -> g_step I s e = step I s e.
Proof.
  intros HI. destruct e as [t|t|t|]; cbn [g_step step].
  - apply g_switch_in_eq; exact HI.
  - rewrite g_switch_out_eq. reflexivity.
  - apply g_on_cpu_sample_eq; exact HI.
  - reflexivity.
Qed.

Theorem g_run_eq I evs : 0 < I -> forall s, g_run I s evs = run I s evs.
Proof.
  intros HI. induction evs as [|e r IH]; intros s; [reflexivity|].
  cbn [g_run run]. rewrite (g_step_eq I s e HI). destruct (step I s e) as [s1 o]. rewrite IH. reflexivity.
Qed.
