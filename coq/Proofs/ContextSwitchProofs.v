From SV Require Import Model.ContextSwitch Spec.ContextSwitchSpec.
From Coq Require Import Lia ZifyBool ZifyN.
Open Scope N_scope.

(* ---- maybe_consume_off_cpu ---- *)

Lemma mc_spec I t s s' o :
  0 < I -> bad s = false -> off_acc s <= t + I ->
  maybe_consume_off_cpu I t s = (s', o) ->
  bad s' = false /\ st s' = st s /\ on_acc s' = on_acc s /\ off_acc s' < I /\
  ((o = ONothing /\ off_acc s' = off_acc s) \/
   (exists b e c, o = OGroup b e c /\ 1 <= c /\ c * I + off_acc s' = off_acc s /\
                  b + off_acc s = t + I /\ e + off_acc s' = t /\ b <= e /\ e - b = (c - 1) * I)).
Proof.
  intros HI Hb Hle. unfold maybe_consume_off_cpu, csub.
  destruct (off_acc s <? I) eqn:C1.
  - intros H; inversion H; subst. repeat split; auto; try lia.
  - replace (I =? 0) with false by lia.
    pose proof (N.div_mod' (off_acc s) I) as Hdm.
    pose proof (N.mod_lt (off_acc s) I ltac:(lia)) as Hml.
    set (q := off_acc s / I) in *. set (r := off_acc s mod I) in *.
    rewrite (N.mul_comm I q) in Hdm.
    assert (Hq : 1 <= q).
    { destruct (N.eq_dec q 0) as [E|E]; [|lia]. rewrite E in Hdm. lia. }
    assert (Hq1 : (q - 1) * I = q * I - I) by (rewrite N.mul_sub_distr_r; lia).
    assert (Hqi : I <= q * I) by nia.
    intros H; inversion H; subst; clear H. cbn [bad st on_acc off_acc].
    assert (Hrem : off_acc s - q * I = r) by lia.
    rewrite Hrem.
    split.
    { rewrite Hb. cbn [orb].
      repeat match goal with |- context [?a <? ?b] => replace (a <? b) with false by lia end.
      replace (1 <=? q) with true by lia. cbn [negb orb].
      rewrite Hq1.
      replace (t - r - (t - (off_acc s - I)) =? q * I - I) with true by lia. reflexivity. }
    repeat split; auto.
    right. exists (t - (off_acc s - I)), (t - r), q.
    repeat split; try lia.
Qed.

(* ---- state bookkeeping ---- *)

Definition pre (s : cs) (tl : N) : list (bool * N) :=
  match st s with Unknown => [] | On t => [(true, t)] | Off _ => [(false, tl)] end.
Definition pend (s : cs) (tl : N) : N :=
  match st s with Off t0 => tl - t0 | _ => 0 end.
Definition Ok (I : N) (s : cs) (tl : N) : Prop :=
  bad s = false /\ off_acc s < I /\
  match st s with On t => t = tl | Off t0 => t0 <= tl | Unknown => True end.
(* all groups emitted so far end at or before this bound *)
Definition gbound (s : cs) : N := match st s with On t => t | Off t => t | Unknown => 0 end.

Definition ev_last (tl : N) (e : ev) : N :=
  match e with SwIn t | SwOut t | Sample t => t | Consume => tl end.

Lemma timed_cons_last tl e r : last_time tl (timed (e :: r)) = last_time (ev_last tl e) (timed r).
Proof. destruct e; reflexivity. Qed.

Lemma running_pre_cons k t k' t' l :
  running ((k, t) :: (k', t') :: l) = (if k then t' - t else 0) + running ((k', t') :: l).
Proof. reflexivity. Qed.
Lemma sleeping_pre_cons k t k' t' l :
  sleeping ((k, t) :: (k', t') :: l) = (if k then 0 else t' - t) + sleeping ((k', t') :: l).
Proof. reflexivity. Qed.

(* one step, everything at once *)
Lemma step_spec I s tl e s' o :
  0 < I -> Ok I s tl -> nondecreasing_from tl (timed [e]) ->
  step I s e = (s', o) ->
  let tl' := ev_last tl e in
  Ok I s' tl' /\
  (forall l, sum_deltas [o] + on_acc s' + running (pre s' tl' ++ l) = on_acc s + running (pre s tl ++ timed [e] ++ l)) /\
  (forall l, sum_counts [o] * I + off_acc s' + pend s' tl' + sleeping (pre s' tl' ++ l)
             = off_acc s + pend s tl + sleeping (pre s tl ++ timed [e] ++ l)) /\
  gbound s <= gbound s' /\
  match o with
  | OGroup b en c => gbound s < b /\ b <= en /\ en <= gbound s' /\ 1 <= c /\ en - b = (c - 1) * I
                     /\ exists t0, st s = Off t0 /\ t0 < b /\ en <= tl'
  | _ => True
  end.
Proof.
  intros HI [Hb [Hlt Hst]] Hnd Hstep tl'. subst tl'.
  destruct e as [t|t|t|]; cbn [step timed nondecreasing_from ev_last app] in *.
  - (* SwIn *)
    destruct Hnd as [Htl _]. unfold switch_in, csub in Hstep.
    destruct (st s) as [|t0|t0] eqn:Est.
    + inversion Hstep; subst; clear Hstep. unfold Ok, pre, pend, gbound, set_st; cbn [st on_acc off_acc bad]. rewrite Est.
      repeat split; auto; intros; cbn; lia.
    + destruct (maybe_consume_off_cpu I t _) as [s1 o1] eqn:Emc.
      inversion Hstep; subst; clear Hstep.
      apply mc_spec in Emc; cbn [bad off_acc st on_acc] in *; try lia.
      destruct Emc as [Hb1 [Hst1 [Hon1 [Hlt1 Hcases]]]].
      unfold Ok, pre, pend, gbound, set_st; cbn [st on_acc off_acc bad]. rewrite Est.
      destruct Hcases as [[-> Hoff]|[b [en [c [-> [Hc [Hsum [Hbeq [Heeq [Hbe Hw]]]]]]]]]].
      * repeat split; auto; intros; cbn [app sum_deltas sum_counts]; rewrite ?running_pre_cons, ?sleeping_pre_cons; cbn; lia.
      * repeat split; auto; intros; cbn [app sum_deltas sum_counts]; rewrite ?running_pre_cons, ?sleeping_pre_cons; cbn; try lia.
        exists t0. repeat split; auto; lia.
    + subst t0. inversion Hstep; subst; clear Hstep.
      unfold Ok, pre, pend, gbound, set_st; cbn [st on_acc off_acc bad]. rewrite Est.
      replace (t <? tl) with false by lia. rewrite Hb.
      repeat split; auto; intros; cbn [app sum_deltas sum_counts]; rewrite ?running_pre_cons, ?sleeping_pre_cons; cbn; lia.
  - (* SwOut *)
    destruct Hnd as [Htl _]. unfold switch_out, csub in Hstep.
    destruct (st s) as [|t0|t0] eqn:Est.
    + inversion Hstep; subst; clear Hstep. unfold Ok, pre, pend, gbound, set_st; cbn [st on_acc off_acc bad]. rewrite Est.
      repeat split; auto; intros; cbn; lia.
    + inversion Hstep; subst; clear Hstep. unfold Ok, pre, pend, gbound; cbn [st on_acc off_acc bad]. rewrite Est.
      repeat split; auto; intros; cbn [app sum_deltas sum_counts]; rewrite ?running_pre_cons, ?sleeping_pre_cons; cbn; lia.
    + subst t0. inversion Hstep; subst; clear Hstep.
      unfold Ok, pre, pend, gbound; cbn [st on_acc off_acc bad]. rewrite Est.
      replace (t <? tl) with false by lia. rewrite Hb.
      repeat split; auto; intros; cbn [app sum_deltas sum_counts]; rewrite ?running_pre_cons, ?sleeping_pre_cons; cbn; lia.
  - (* Sample: same body as SwIn *)
    destruct Hnd as [Htl _]. unfold switch_in, csub in Hstep.
    destruct (st s) as [|t0|t0] eqn:Est.
    + inversion Hstep; subst; clear Hstep. unfold Ok, pre, pend, gbound, set_st; cbn [st on_acc off_acc bad]. rewrite Est.
      repeat split; auto; intros; cbn; lia.
    + destruct (maybe_consume_off_cpu I t _) as [s1 o1] eqn:Emc.
      inversion Hstep; subst; clear Hstep.
      apply mc_spec in Emc; cbn [bad off_acc st on_acc] in *; try lia.
      destruct Emc as [Hb1 [Hst1 [Hon1 [Hlt1 Hcases]]]].
      unfold Ok, pre, pend, gbound, set_st; cbn [st on_acc off_acc bad]. rewrite Est.
      destruct Hcases as [[-> Hoff]|[b [en [c [-> [Hc [Hsum [Hbeq [Heeq [Hbe Hw]]]]]]]]]].
      * repeat split; auto; intros; cbn [app sum_deltas sum_counts]; rewrite ?running_pre_cons, ?sleeping_pre_cons; cbn; lia.
      * repeat split; auto; intros; cbn [app sum_deltas sum_counts]; rewrite ?running_pre_cons, ?sleeping_pre_cons; cbn; try lia.
        exists t0. repeat split; auto; lia.
    + subst t0. inversion Hstep; subst; clear Hstep.
      unfold Ok, pre, pend, gbound, set_st; cbn [st on_acc off_acc bad]. rewrite Est.
      replace (t <? tl) with false by lia. rewrite Hb.
      repeat split; auto; intros; cbn [app sum_deltas sum_counts]; rewrite ?running_pre_cons, ?sleeping_pre_cons; cbn; lia.
  - (* Consume *)
    inversion Hstep; subst; clear Hstep. unfold Ok, pre, pend, gbound; cbn [st on_acc off_acc bad].
    repeat split; auto; intros; cbn [app sum_deltas sum_counts]; lia.
Qed.

(* ---- link between the state and the spec's notion of the current sleep ---- *)

Definition sleep_cur (s : cs) : option N := match st s with Off t0 => Some t0 | _ => None end.

Lemma mc_st I t s : st (fst (maybe_consume_off_cpu I t s)) = st s.
Proof.
  unfold maybe_consume_off_cpu, csub. destruct (off_acc s <? I); [reflexivity|].
  destruct (I =? 0); reflexivity.
Qed.

Lemma step_sleep I s e :
  sleep_start_from (sleep_cur s) (timed [e]) = sleep_cur (fst (step I s e)).
Proof.
  destruct e as [t|t|t|]; cbn [step timed sleep_start_from fst].
  - unfold switch_in, csub. destruct (st s); try destruct (maybe_consume_off_cpu _ _ _); reflexivity.
  - unfold switch_out, csub, sleep_cur. destruct (st s) eqn:E; cbn; rewrite ?E; reflexivity.
  - unfold switch_in, csub. destruct (st s); try destruct (maybe_consume_off_cpu _ _ _); reflexivity.
  - reflexivity.
Qed.

Lemma timed_app a b : timed (a ++ b) = timed a ++ timed b.
Proof. induction a as [|e a IH]; [reflexivity|]. destruct e; cbn; rewrite IH; reflexivity. Qed.

Lemma sleep_start_from_app cur a b :
  sleep_start_from cur (a ++ b) = sleep_start_from (sleep_start_from cur a) b.
Proof.
  revert cur. induction a as [|[k t] a IH]; intros cur; [reflexivity|].
  cbn [app sleep_start_from]. destruct k; apply IH.
Qed.

Lemma run_sleep I evs : forall s,
  sleep_start_from (sleep_cur s) (timed evs) = sleep_cur (fst (run I s evs)).
Proof.
  induction evs as [|e r IH]; intros s; [reflexivity|].
  change (e :: r) with ([e] ++ r). rewrite timed_app, sleep_start_from_app, (step_sleep I).
  cbn [app run]. destruct (step I s e) as [s1 o] eqn:E1. cbn [fst].
  rewrite IH. destruct (run I s1 r) as [s2 os]. reflexivity.
Qed.

(* ---- the whole run ---- *)

Lemma nd_split tl e r :
  nondecreasing_from tl (timed (e :: r)) ->
  nondecreasing_from tl (timed [e]) /\ nondecreasing_from (ev_last tl e) (timed r).
Proof. destruct e; cbn; tauto. Qed.

Lemma run_spec I : 0 < I -> forall evs s tl s' os,
  Ok I s tl -> nondecreasing_from tl (timed evs) ->
  run I s evs = (s', os) ->
  let tl' := last_time tl (timed evs) in
  Ok I s' tl' /\
  (forall l, sum_deltas os + on_acc s' + running (pre s' tl' ++ l) = on_acc s + running (pre s tl ++ timed evs ++ l)) /\
  (forall l, sum_counts os * I + off_acc s' + pend s' tl' + sleeping (pre s' tl' ++ l)
             = off_acc s + pend s tl + sleeping (pre s tl ++ timed evs ++ l)) /\
  (forall p, p <= gbound s -> groups_ok I p os) /\ gbound s <= gbound s'.
Proof.
  intros HI. induction evs as [|e r IH]; intros s tl s' os HOk Hnd Hrun.
  - inversion Hrun; subst. cbn [timed last_time app sum_deltas sum_counts groups_ok].
    destruct HOk as [? [? ?]]. repeat split; auto; intros; try lia.
  - cbn [run] in Hrun. destruct (step I s e) as [s1 o] eqn:E1. destruct (run I s1 r) as [s2 os2] eqn:E2.
    inversion Hrun; subst; clear Hrun.
    apply nd_split in Hnd. destruct Hnd as [Hnd1 Hnd2].
    pose proof (step_spec I s tl e s1 o HI HOk Hnd1 E1) as [HOk1 [Hr1 [Hs1 [Hg1 Hgrp]]]].
    specialize (IH s1 (ev_last tl e) s' os2 HOk1 Hnd2 E2).
    destruct IH as [HOk2 [Hr2 [Hs2 [Hg2 Hgb2]]]].
    rewrite timed_cons_last.
    change (timed (e :: r)) with (timed ([e] ++ r)). rewrite timed_app.
    split; [exact HOk2|]. split; [|split; [|split]].
    + intros l. specialize (Hr2 l). specialize (Hr1 (timed r ++ l)). rewrite <- !app_assoc.
      replace (sum_deltas (o :: os2)) with (sum_deltas [o] + sum_deltas os2) by (destruct o; cbn; lia). lia.
    + intros l. specialize (Hs2 l). specialize (Hs1 (timed r ++ l)). rewrite <- !app_assoc.
      replace (sum_counts (o :: os2)) with (sum_counts [o] + sum_counts os2) by (destruct o; cbn; lia).
      rewrite N.mul_add_distr_r. lia.
    + intros p Hp. destruct o as [|b en c|d]; cbn [groups_ok].
      * apply Hg2. lia.
      * destruct Hgrp as [Hb [Hbe [Hen [Hc [Hw _]]]]]. repeat split; auto; try lia; try (apply Hg2; exact Hen).
      * apply Hg2. lia.
    + lia.
Qed.

Lemma Ok_init I : 0 < I -> Ok I cs_init 0.
Proof. intros. unfold Ok, cs_init; cbn. auto. Qed.

Lemma running_single p l : l = [] -> running (p ++ l) = running p.
Proof. intros ->. rewrite app_nil_r. reflexivity. Qed.

Lemma pre_running_zero s tl : running (pre s tl) = 0 /\ sleeping (pre s tl) = 0.
Proof. unfold pre. destruct (st s); cbn; auto. Qed.

Lemma pend_is_pending I evs s' os :
  0 < I -> nondecreasing_from 0 (timed evs) -> run I cs_init evs = (s', os) ->
  pend s' (last_time 0 (timed evs)) = pending_sleep (timed evs).
Proof.
  intros HI Hnd Hrun. unfold pending_sleep, sleep_start.
  pose proof (run_sleep I evs cs_init) as Hs. rewrite Hrun in Hs. cbn [fst] in Hs.
  change (sleep_cur cs_init) with (@None N) in Hs. rewrite Hs.
  unfold sleep_cur, pend. destruct (st s'); reflexivity.
Qed.

Theorem conservation I evs s' os :
  0 < I -> nondecreasing_from 0 (timed evs) -> run I cs_init evs = (s', os) ->
  bad s' = false /\
  sum_deltas os + on_acc s' = running (timed evs) /\
  sum_counts os * I + off_acc s' + pending_sleep (timed evs) = sleeping (timed evs) /\
  off_acc s' < I /\
  groups_ok I 0 os.
Proof.
  intros HI Hnd Hrun.
  pose proof (run_spec I HI evs cs_init 0 s' os (Ok_init I HI) Hnd Hrun) as [HOk [Hr [Hs [Hg _]]]].
  rewrite <- (pend_is_pending I evs s' os HI Hnd Hrun).
  specialize (Hr []). specialize (Hs []). rewrite !app_nil_r in *.
  destruct (pre_running_zero s' (last_time 0 (timed evs))) as [Z1 Z2]. rewrite Z1 in Hr. rewrite Z2 in Hs.
  unfold pre, pend in Hr, Hs. cbn in Hr, Hs.
  destruct HOk as [Hb [Hlt _]].
  split; [exact Hb|]. split; [lia|]. split; [unfold pend; lia|]. split; [exact Hlt|].
  apply Hg. cbn. lia.
Qed.

(* ---- every group lies inside the sleep that triggered it ---- *)

Lemma run_app I a b s :
  run I s (a ++ b) =
  let '(s1, o1) := run I s a in let '(s2, o2) := run I s1 b in (s2, o1 ++ o2).
Proof.
  revert s. induction a as [|e a IH]; intros s; cbn [app run].
  - destruct (run I s b); reflexivity.
  - destruct (step I s e) as [s1 o]. rewrite IH. destruct (run I s1 a) as [s2 o2]. destruct (run I s2 b). reflexivity.
Qed.

Lemma nd_app lo a b : nondecreasing_from lo (a ++ b) ->
  nondecreasing_from lo a /\ nondecreasing_from (last_time lo a) b.
Proof.
  revert lo. induction a as [|[k t] a IH]; intros lo H; cbn in *; [tauto|].
  destruct H as [H1 H2]. apply IH in H2. tauto.
Qed.

Theorem group_inside_sleep I pre_evs e post b en c :
  0 < I -> nondecreasing_from 0 (timed (pre_evs ++ e :: post)) ->
  snd (step I (fst (run I cs_init pre_evs)) e) = OGroup b en c ->
  exists t0 t, sleep_start (timed pre_evs) = Some t0 /\ (e = SwIn t \/ e = Sample t) /\
    t0 < b /\ b <= en /\ en <= t /\ 1 <= c /\ en - b = (c - 1) * I.
Proof.
  intros HI Hnd Hout. rewrite timed_app in Hnd. apply nd_app in Hnd. destruct Hnd as [Hnd1 Hnd2].
  destruct (run I cs_init pre_evs) as [s1 os1] eqn:E1. cbn [fst] in Hout.
  pose proof (run_spec I HI pre_evs cs_init 0 s1 os1 (Ok_init I HI) Hnd1 E1) as [HOk _].
  change (e :: post) with ([e] ++ post) in Hnd2. rewrite timed_app in Hnd2. apply nd_app in Hnd2.
  destruct Hnd2 as [Hnd2 _].
  destruct (step I s1 e) as [s2 o] eqn:E2. cbn [snd] in Hout. subst o.
  pose proof (step_spec I s1 _ e s2 _ HI HOk Hnd2 E2) as [_ [_ [_ [_ Hgrp]]]].
  destruct Hgrp as [Hb [Hbe [Hen [Hc [Hw [t0 [Est [Ht0 Hle]]]]]]]].
  pose proof (run_sleep I pre_evs cs_init) as Hs. rewrite E1 in Hs. cbn [fst] in Hs.
  exists t0.
  destruct e as [t|t|t|]; cbn [step] in E2.
  - exists t. unfold sleep_start. change (sleep_cur cs_init) with (@None N) in Hs. rewrite Hs. unfold sleep_cur. rewrite Est.
    cbn [ev_last] in Hle. repeat split; auto.
  - inversion E2.
  - exists t. unfold sleep_start. change (sleep_cur cs_init) with (@None N) in Hs. rewrite Hs. unfold sleep_cur. rewrite Est.
    cbn [ev_last] in Hle. repeat split; auto.
  - inversion E2.
Qed.

(* ---- no double counting: a repeated switch-out changes neither sum ---- *)

Lemma dup_out_running a t t' b :
  running (a ++ (false, t) :: (false, t') :: b) = running (a ++ (false, t) :: b).
Proof.
  induction a as [|[k u] a IH].
  - cbn [app]. destruct b as [|[k2 t2] b]; cbn [running]; rewrite ?N.add_0_l; reflexivity.
  - cbn [app]. destruct a as [|[k1 u1] a]; cbn [app] in *.
    + cbn [running] in *. lia.
    + cbn [running] in *. lia.
Qed.

Lemma dup_out_sleeping a t t' k2 t2 b :
  t <= t' -> t' <= t2 ->
  sleeping (a ++ (false, t) :: (false, t') :: (k2, t2) :: b) = sleeping (a ++ (false, t) :: (k2, t2) :: b).
Proof.
  intros Htt Hnd. induction a as [|[k u] a IH].
  - cbn [app]. rewrite !sleeping_pre_cons. lia.
  - cbn [app]. destruct a as [|[k1 u1] a]; cbn [app] in *.
    + cbn [sleeping] in *. lia.
    + cbn [sleeping] in *. lia.
Qed.

(* ---- the boolean checker used on implementation outputs accepts the model ---- *)
From SV Require Import Tie.C12.

Lemma groups_okb_complete I p os : groups_ok I p os -> groups_okb I p os = true.
Proof.
  revert p. induction os as [|o os IH]; intros p H; [reflexivity|].
  destruct o as [|b e c|d]; cbn [groups_ok groups_okb] in *; auto.
  destruct H as [H1 [H2 [H3 [H4 H5]]]]. rewrite (IH e H5).
  replace (p <=? b) with true by lia. replace (b <=? e) with true by lia. replace (1 <=? c) with true by lia.
  rewrite H4, N.eqb_refl. reflexivity.
Qed.

Lemma inside_sleepb_model I : 0 < I -> forall evs s tl s' os,
  Ok I s tl -> nondecreasing_from tl (timed evs) -> run I s evs = (s', os) ->
  inside_sleepb (sleep_cur s) evs os = true.
Proof.
  intros HI. induction evs as [|e r IH]; intros s tl s' os HOk Hnd Hrun.
  - inversion Hrun; subst. reflexivity.
  - cbn [run] in Hrun. destruct (step I s e) as [s1 o] eqn:E1. destruct (run I s1 r) as [s2 os2] eqn:E2.
    inversion Hrun; subst; clear Hrun.
    apply nd_split in Hnd. destruct Hnd as [Hnd1 Hnd2].
    pose proof (step_spec I s tl e s1 o HI HOk Hnd1 E1) as [HOk1 [_ [_ [_ Hgrp]]]].
    cbn [inside_sleepb]. rewrite (step_sleep I), E1. cbn [fst].
    rewrite (IH s1 _ s' os2 HOk1 Hnd2 E2). rewrite andb_true_r.
    destruct o as [|b en c|d]; auto.
    destruct Hgrp as [_ [_ [_ [_ [_ [t0 [Est [Ht0 Hle]]]]]]]].
    unfold sleep_cur. rewrite Est.
    destruct e as [t|t|t|]; cbn [step ev_last] in *; try (inversion E1; fail); lia.
Qed.

Theorem checker_accepts_model I evs s' os :
  0 < I -> nondecreasing_from 0 (timed evs) -> run I cs_init evs = (s', os) ->
  chk I evs os (on_acc s') (off_acc s') = true.
Proof.
  intros HI Hnd Hrun.
  destruct (conservation I evs s' os HI Hnd Hrun) as [_ [H1 [H2 [H3 H4]]]].
  unfold chk. rewrite (groups_okb_complete _ _ _ H4).
  pose proof (inside_sleepb_model I HI evs cs_init 0 s' os (Ok_init I HI) Hnd Hrun) as H5.
  change (sleep_cur cs_init) with (@None N) in H5. rewrite H5.
  rewrite H1, H2, !N.eqb_refl. replace (off_acc s' <? I) with true by lia. reflexivity.
Qed.
