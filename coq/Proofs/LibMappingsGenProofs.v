(* The functions tools/xlate_lm.py regenerates from fxprof-processed-profile/src/lib_mappings.rs on every run compute exactly what the hand-written
   model (Model/LibMappings.v) computes - so the C11 theorems, stated over the hand-written model, hold of the translation of the current
   source.  (The BTreeMap operations themselves - bt_last_le, bt_range_keys, bt_remove, bt_insert - are the model's reading of std.) *)
From SV Require Import Model.LibMappings Generated.LibMappingsGen.
Open Scope N_scope.

Lemma g_lookup_impl_eq m a : g_lookup_impl m a = lookup_impl m a.
Proof. reflexivity. Qed.

Lemma g_add_mapping_eq m x : g_add_mapping m x = add_mapping m x.
Proof.
  unfold g_add_mapping, add_mapping. rewrite g_lookup_impl_eq.
  destruct x as [s e r v]. cbn [m_start m_end m_rel m_val]. reflexivity.
Qed.

Lemma g_remove_mapping_eq m s : fst (g_remove_mapping m s) = remove_mapping m s.
Proof. reflexivity. Qed.

(* what remove_mapping hands back: the relative start and the value of the entry that started there *)
Lemma g_remove_mapping_result m s :
  snd (g_remove_mapping m s) = option_map (fun y => (m_rel y, m_val y)) (find (fun y => m_start y =? s) m).
Proof. unfold g_remove_mapping. cbn [snd]. destruct (find _ m); reflexivity. Qed.

Lemma g_convert_address_eq m a : g_convert_address m a = convert_address m a.
Proof. unfold g_convert_address, convert_address. rewrite g_lookup_impl_eq. reflexivity. Qed.

Lemma g_lookup_eq m a : g_lookup m a = option_map m_val (lookup_impl m a).
Proof. reflexivity. Qed.

(* a history of calls on the translated functions *)
Definition g_lm_step (m : lm) (o : op) : lm :=
  match o with
  | Add x => match g_add_mapping m x with Some m' => m' | None => m end
  | Remove s => fst (g_remove_mapping m s)
  | Clear => g_lm_clear m
  end.
Definition g_lm_run (ops : list op) : lm := fold_left g_lm_step ops g_lm_new.

Lemma g_lm_step_eq m o : g_lm_step m o = step m o.
Proof. destruct o; cbn [g_lm_step step]; rewrite ?g_add_mapping_eq, ?g_remove_mapping_eq; reflexivity. Qed.

Theorem g_lm_run_eq ops : g_lm_run ops = run ops.
Proof.
  unfold g_lm_run, run, g_lm_new. generalize (@nil mapping) as m.
  induction ops as [|o ops IH]; intros m; cbn [fold_left]; [reflexivity|].
  rewrite g_lm_step_eq. apply IH.
Qed.
