From SV Require Import Model.ChunkCache.
From Coq Require Import Arith Lia ZifyBool ZifyN ZifyNat.
Open Scope N_scope.

Section Proofs.
Variable chunk maxlen : N.
Variable file : N -> N.
Variable flen : N.
Hypothesis Hchunk : 0 < chunk.

Notation determine := (determine chunk flen).
Notation get_range_location := (get_range_location chunk flen).
Notation step := (step chunk maxlen file flen).
Notation run := (run chunk maxlen file flen).
Notation spec := (spec maxlen file flen).
Notation memchr := (memchr file).
Notation run_f := (run_f chunk maxlen file flen).
Notation reaches_source := (reaches_source chunk maxlen flen).

(* ---- memchr ---- *)

Definition first_at (d a n : N) : Prop := (forall j, j < n -> file (a + j) <> d) /\ file (a + n) = d.

Lemma memchr_some d : forall w a n, memchr d a w = Some n -> n < N.of_nat w /\ first_at d a n.
Proof.
  induction w as [|w IH]; intros a n H; [discriminate|].
  cbn [ChunkCache.memchr] in H. destruct (file a =? d) eqn:C.
  - inversion H; subst. split; [lia|]. split; [intros j Hj; lia|]. rewrite N.add_0_r. lia.
  - destruct (memchr d (a + 1) w) as [m|] eqn:E; [|discriminate]. inversion H; subst.
    destruct (IH _ _ E) as [Hm [Hf1 Hf2]]. split; [lia|]. split.
    + intros j Hj. destruct (N.eq_dec j 0) as [->|Hne]; [rewrite N.add_0_r; lia|].
      replace (a + j) with (a + 1 + (j - 1)) by lia. apply Hf1. lia.
    + replace (a + N.succ m) with (a + 1 + m) by lia. exact Hf2.
Qed.

Lemma memchr_none d : forall w a, memchr d a w = None -> forall j, j < N.of_nat w -> file (a + j) <> d.
Proof.
  induction w as [|w IH]; intros a H j Hj; [lia|].
  cbn [ChunkCache.memchr] in H. destruct (file a =? d) eqn:C; [discriminate|].
  destruct (memchr d (a + 1) w) as [m|] eqn:E; [discriminate|].
  destruct (N.eq_dec j 0) as [->|Hne]; [rewrite N.add_0_r; lia|].
  replace (a + j) with (a + 1 + (j - 1)) by lia. apply (IH _ E). lia.
Qed.

Lemma memchr_first d a n w : first_at d a n -> n < N.of_nat w -> memchr d a w = Some n.
Proof.
  intros Hf Hn. destruct (memchr d a w) as [m|] eqn:E.
  - destruct (memchr_some _ _ _ _ E) as [Hm [G1 G2]]. destruct Hf as [F1 F2].
    f_equal. destruct (N.lt_trichotomy m n) as [Hlt|[->|Hgt]]; [|reflexivity|].
    + exfalso. apply (F1 m Hlt). exact G2.
    + exfalso. apply (G1 n Hgt). exact F2.
  - exfalso. destruct Hf as [_ F2]. apply (memchr_none _ _ _ E n Hn). exact F2.
Qed.

Lemma memchr_before d a n w : first_at d a n -> N.of_nat w <= n -> memchr d a w = None.
Proof.
  intros [F1 _] Hw. destruct (memchr d a w) as [m|] eqn:E; [|reflexivity].
  destruct (memchr_some _ _ _ _ E) as [Hm [_ G2]]. exfalso. apply (F1 m); [lia|exact G2].
Qed.

(* ---- invariant ---- *)

Definition Inv (st : state) : Prop :=
  (forall i bs be, nth_error (bufs st) i = Some (bs, be) -> bs < be /\ be <= flen) /\
  (forall s e i, In (s, e, i) (rmap st) -> nth_error (bufs st) i = Some (s, e)) /\
  (forall s d l, In (s, d, l) (scache st) ->
     exists bs be, nth_error (bufs st) (l_handle l) = Some (bs, be) /\ bs + l_off l = s /\
                   l_off l + l_size l < be - bs /\ first_at d s (l_size l) /\ l_size l < maxlen).

Lemma Inv_init : Inv init.
Proof.
  split; [|split]; cbn.
  - intros i bs be H. destruct i; discriminate.
  - contradiction.
  - contradiction.
Qed.

Lemma rmap_get_some m k i : rmap_get m k = Some i -> exists s e, In (s, e, i) m /\ s <= k /\ k < e.
Proof.
  induction m as [|[[s e] j] r IH]; [discriminate|]. cbn [rmap_get].
  destruct ((s <=? k) && (k <? e)) eqn:C.
  - intros H; inversion H; subst. exists s, e. split; [left; reflexivity|lia].
  - intros H. destruct (IH H) as [s' [e' [Hin Hr]]]. exists s', e'. split; [right; assumption|assumption].
Qed.

Lemma round_down_le v : round_down chunk v <= v.
Proof. unfold round_down. pose proof (N.mul_div_le v chunk ltac:(lia)). lia. Qed.

Lemma round_up_ge v : v <= round_up chunk v.
Proof.
  unfold round_up. set (x := v + chunk - 1).
  pose proof (N.div_mod' x chunk) as Hdm. pose proof (N.mod_lt x chunk ltac:(lia)) as Hml.
  rewrite (N.mul_comm chunk) in Hdm. subst x. lia.
Qed.

Definition extends (st st' : state) : Prop :=
  (forall i r, nth_error (bufs st) i = Some r -> nth_error (bufs st') i = Some r) /\ scache st' = scache st.

Lemma grl_ok st s e :
  Inv st -> s < e -> e <= flen ->
  exists st' l, get_range_location st s e = (st', Some l, false) /\ Inv st' /\ extends st st' /\
                slice st' l = Ok s (e - s) /\ l_size l = e - s.
Proof.
  intros [I1 [I2 I3]] Hse He. unfold ChunkCache.get_range_location, ChunkCache.determine.
  replace (negb (s <? e) || negb (e <=? flen)) with false by lia.
  assert (Hru : e <= N.min (round_up chunk e) flen) by (pose proof (round_up_ge e); lia).
  assert (Hnew : forall rs, rs <= s ->
    let st' := mkState (bufs st ++ [(rs, N.min (round_up chunk e) flen)])
                       ((rs, N.min (round_up chunk e) flen, length (bufs st)) :: rmap st) (scache st) in
    Inv st' /\ extends st st' /\
    slice st' (mkLoc (length (bufs st)) (s - rs) (e - s)) = Ok s (e - s)).
  { intros rs Hrs st'. subst st'. split; [|split].
    - split; [|split]; cbn [bufs rmap scache].
      + intros i bs be H. destruct (Nat.lt_ge_cases i (length (bufs st))) as [Hi|Hi].
        * rewrite nth_error_app1 in H by assumption. eapply I1; eauto.
        * rewrite nth_error_app2 in H by assumption.
          destruct (i - length (bufs st))%nat as [|k]; cbn in H; [|destruct k; discriminate].
          inversion H; subst. lia.
      + intros s0 e0 i [H|H].
        * inversion H; subst. rewrite nth_error_app2 by lia. rewrite Nat.sub_diag. reflexivity.
        * pose proof (I2 _ _ _ H) as Hn. rewrite nth_error_app1; [assumption|].
          apply nth_error_Some. congruence.
      + intros s0 d l H. destruct (I3 _ _ _ H) as [bs [be [Hn Hr]]]. exists bs, be. split; [|assumption].
        rewrite nth_error_app1; [assumption|]. apply nth_error_Some. congruence.
    - split; cbn [bufs scache]; [|reflexivity]. intros i r H. rewrite nth_error_app1; [assumption|].
      apply nth_error_Some. congruence.
    - unfold slice. cbn [bufs l_handle l_off l_size]. rewrite nth_error_app2 by lia. rewrite Nat.sub_diag. cbn [nth_error].
      replace (s - rs + (e - s) <=? N.min (round_up chunk e) flen - rs) with true by lia.
      f_equal. lia. }
  destruct (rmap_get (rmap st) s) as [i|] eqn:Eg.
  - destruct (rmap_get_some _ _ _ Eg) as [bs [be [Hin [Hb1 Hb2]]]].
    rewrite (I2 _ _ _ Hin).
    destruct (e <=? be) eqn:C.
    + exists st, (mkLoc i (s - bs) (e - s)). split; [reflexivity|]. split; [exact (conj I1 (conj I2 I3))|].
      split; [split; auto|]. split; [|reflexivity].
      unfold slice. cbn [l_handle l_off l_size]. rewrite (I2 _ _ _ Hin).
      replace (s - bs + (e - s) <=? be - bs) with true by lia. f_equal. lia.
    + replace (N.min (round_up chunk e) flen <? s) with false by lia.
      replace (flen <? N.min (round_up chunk e) flen) with false by lia.
      destruct (Hnew s ltac:(lia)) as [H1 [H2 H3]].
      eexists _, _. split; [reflexivity|]. split; [exact H1|]. split; [exact H2|]. split; [exact H3|reflexivity].
  - pose proof (round_down_le s).
    replace (N.min (round_up chunk e) flen <? round_down chunk s) with false by lia.
    replace (flen <? N.min (round_up chunk e) flen) with false by lia.
    destruct (Hnew (round_down chunk s) ltac:(lia)) as [H1 [H2 H3]].
    eexists _, _. split; [reflexivity|]. split; [exact H1|]. split; [exact H2|]. split; [exact H3|reflexivity].
Qed.

Lemma step_spec st o : Inv st -> Inv (fst (step st o)) /\ snd (step st o) = spec o.
Proof.
  intros HI. destruct o as [off size|s e d|off size]; cbn [ChunkCache.step ChunkCache.spec]; [| |split; [exact HI|reflexivity]].
  - destruct (size =? 0) eqn:C0; [split; [exact HI|reflexivity]|].
    destruct (two64 <=? off + size) eqn:C1; [split; [exact HI|reflexivity]|].
    destruct (flen <? off + size) eqn:C2; [split; [exact HI|reflexivity]|]. cbn [orb].
    destruct (grl_ok st off (off + size) HI ltac:(lia) ltac:(lia)) as [st' [l [E [HI' [_ [Hs _]]]]]].
    rewrite E. cbn [fst snd]. split; [exact HI'|]. rewrite Hs. f_equal. lia.
  - destruct (e <? s) eqn:C1; [split; [exact HI|reflexivity]|].
    destruct (flen <? e) eqn:C2; [split; [exact HI|reflexivity]|]. cbn [orb].
    destruct (scache_get (scache st) s d) as [l|] eqn:Ec.
    + assert (Hin : In (s, d, l) (scache st)).
      { clear -Ec. induction (scache st) as [|[[s' d'] l'] r IH]; [discriminate|].
        cbn [scache_get] in Ec. destruct ((s =? s') && (d =? d')) eqn:C.
        - inversion Ec; subst. left. f_equal. f_equal; lia.
        - right. apply IH. exact Ec. }
      destruct HI as [I1 [I2 I3]]. destruct (I3 _ _ _ Hin) as [bs [be [Hn [Hoff [Hfit [Hfirst Hmax]]]]]].
      destruct (l_size l <? e - s) eqn:C3; cbn [fst snd]; (split; [exact (conj I1 (conj I2 I3))|]).
      * unfold slice. rewrite Hn. replace (l_off l + l_size l <=? be - bs) with true by lia.
        rewrite (memchr_first d s (l_size l)); [f_equal; lia|exact Hfirst|lia].
      * rewrite (memchr_before d s (l_size l)); [reflexivity|exact Hfirst|lia].
    + destruct (N.min (e - s) maxlen =? 0) eqn:C3.
      * cbn [fst snd]. split; [exact HI|]. replace (N.min (e - s) maxlen) with 0 by lia. reflexivity.
      * set (w := N.min (e - s) maxlen) in *.
        destruct (grl_ok st s (s + w) HI ltac:(lia) ltac:(lia)) as [st' [l [E [HI' [Hext [Hs Hsz]]]]]].
        rewrite E. rewrite Hs. replace (s + w - s) with w by lia.
        destruct (memchr d s (N.to_nat w)) as [len|] eqn:Em; cbn [fst snd]; [|split; [exact HI'|reflexivity]].
        split; [|reflexivity].
        destruct (memchr_some _ _ _ _ Em) as [Hlen Hfirst].
        destruct HI' as [I1 [I2 I3]]. split; [exact I1|]. split; [exact I2|].
        cbn [bufs scache]. intros s0 d0 l0 [H|H]; [|apply I3; exact H].
        inversion H; subst s0 d0 l0. cbn [l_handle l_off l_size].
        unfold slice in Hs. destruct (nth_error (bufs st') (l_handle l)) as [[bs be]|] eqn:En; [|discriminate].
        destruct (l_off l + l_size l <=? be - bs) eqn:Cf; [|discriminate]. injection Hs as Hs1 Hs2.
        exists bs, be. split; [reflexivity|]. split; [lia|]. split; [lia|]. split; [exact Hfirst|]. lia.
Qed.

Theorem run_spec ops : forall st, Inv st -> run st ops = map spec ops.
Proof.
  induction ops as [|o r IH]; intros st HI; [reflexivity|].
  cbn [ChunkCache.run map]. destruct (step_spec st o HI) as [HI' Ho].
  destruct (step st o) as [st' out]. cbn [fst snd] in *. rewrite Ho, (IH st' HI'). reflexivity.
Qed.

(* with a source that may fail single reads: a call that met a failure answers Err and leaves no trace; every other call answers as specified *)
Theorem run_f_spec evs : forall st fail, Inv st ->
  Forall2 (fun ev r => (snd r = true -> fst r = Err) /\ (snd r = false -> fst r = spec (snd ev))) evs (run_f st fail evs).
Proof.
  induction evs as [|[x o] r IH]; intros st fail HI; [constructor|].
  cbn [ChunkCache.run_f]. unfold step_f. destruct ((fail || x) && reaches_source st o) eqn:E.
  - constructor; [cbn; split; [reflexivity|discriminate] | apply IH; exact HI].
  - destruct (step_spec st o HI) as [HI' Ho]. destruct (step st o) as [st' out]. cbn [fst snd] in *.
    constructor; [cbn; split; [discriminate|intros _; exact Ho] | apply IH; exact HI'].
Qed.

End Proofs.
