From SV Require Import Model.ProfileTables.
From Coq Require Import Lia Permutation.

(* ---------- interning ---------- *)
Section InternProofs.
  Context {K : Type} (eqb : K -> K -> bool).
  Hypothesis eqb_spec : forall a b, eqb a b = true <-> a = b.

  Lemma index_of_some k : forall l i, index_of eqb k l = Some i -> nth_error l i = Some k.
  Proof.
    induction l as [|x l IH]; intros i H; cbn in H; [discriminate|].
    destruct (eqb x k) eqn:E.
    - inversion H; subst. apply eqb_spec in E. subst. reflexivity.
    - destruct (index_of eqb k l) as [j|]; [|discriminate]. inversion H; subst. cbn. apply IH. reflexivity.
  Qed.
  Lemma index_of_none k : forall l, index_of eqb k l = None -> ~ In k l.
  Proof.
    induction l as [|x l IH]; intros H; cbn in H; [auto|].
    destruct (eqb x k) eqn:E; [discriminate|]. destruct (index_of eqb k l); [discriminate|].
    intros [H1|H1]; [subst; rewrite (proj2 (eqb_spec k k) eq_refl) in E; discriminate | exact (IH eq_refl H1)].
  Qed.
  Lemma index_of_first k : forall l i, index_of eqb k l = Some i -> forall j, j < i -> nth_error l j <> Some k.
  Proof.
    induction l as [|x l IH]; intros i H j Hj; cbn in H; [discriminate|].
    destruct (eqb x k) eqn:E; [inversion H; lia|].
    destruct (index_of eqb k l) as [i'|] eqn:E2; [|discriminate]. inversion H; subst.
    destruct j; cbn; [intros X; inversion X; subst; rewrite (proj2 (eqb_spec k k) eq_refl) in E; discriminate | apply (IH i' eq_refl); lia].
  Qed.

  (* the handle is in range, gives the key back, and old handles keep their meaning *)
  Lemma intern_spec l k i l' : intern eqb l k = (i, l') ->
    nth_error l' i = Some k /\ (exists ext, l' = l ++ ext) /\ (i < length l \/ (i = length l /\ l' = l ++ [k] /\ ~ In k l)).
  Proof.
    unfold intern. destruct (index_of eqb k l) as [j|] eqn:E; intros H; inversion H; subst.
    - split; [apply index_of_some; exact E|]. split; [exists []; rewrite app_nil_r; reflexivity|]. left. apply nth_error_Some. rewrite (index_of_some _ _ _ E). discriminate.
    - split; [rewrite nth_error_app2 by lia; rewrite Nat.sub_diag; reflexivity|]. split; [exists [k]; reflexivity|]. right. split; [reflexivity|]. split; [reflexivity | apply index_of_none; exact E].
  Qed.

  (* no key is stored twice *)
  Lemma nodup_snoc (l : list K) k : NoDup l -> ~ In k l -> NoDup (l ++ [k]).
  Proof.
    induction l as [|x l IH]; cbn; intros H Hn; [constructor; [auto | constructor]|].
    inversion H; subst. constructor.
    - rewrite in_app_iff. cbn. intros [H1|[H1|[]]]; [contradiction | subst; apply Hn; left; reflexivity].
    - apply IH; [assumption | intros H1; apply Hn; right; exact H1].
  Qed.
  Lemma intern_nodup l k : NoDup l -> NoDup (snd (intern eqb l k)).
  Proof.
    intros H. unfold intern. destruct (index_of eqb k l) eqn:E; cbn; [exact H|].
    apply nodup_snoc; [exact H | apply index_of_none; exact E].
  Qed.
End InternProofs.

Lemma stack_key_eqb_spec a b : stack_key_eqb a b = true <-> a = b.
Proof.
  destruct a as [[p|] f], b as [[q|] g]; unfold stack_key_eqb; cbn [fst snd].
  - rewrite andb_true_iff, !Nat.eqb_eq. split; [intros [-> ->]; reflexivity | intros H; inversion H; auto].
  - split; [discriminate | intros H; inversion H].
  - split; [discriminate | intros H; inversion H].
  - rewrite Nat.eqb_eq. split; [intros ->; reflexivity | intros H; inversion H; auto].
Qed.

(* ---------- stack table ---------- *)
Inductive path (tbl : list stack_key) : option nat -> list nat -> Prop :=
| path_root : path tbl None []
| path_step i p f fs : nth_error tbl i = Some (p, f) -> path tbl p fs -> path tbl (Some i) (fs ++ [f]).

Lemma path_extend tbl ext h fs : path tbl h fs -> path (tbl ++ ext) h fs.
Proof.
  induction 1 as [|i p f fs H _ IH]; [constructor|]. econstructor; [|exact IH].
  rewrite nth_error_app1; [exact H | apply nth_error_Some; congruence].
Qed.

Definition handle_ok (tbl : list stack_key) (h : option nat) : Prop := match h with None => True | Some i => i < length tbl end.

Lemma handle_for_stack_spec tbl f p h tbl' : prefix_earlier tbl -> handle_ok tbl p -> handle_for_stack tbl f p = (h, tbl') ->
  nth_error tbl' h = Some (p, f) /\ (exists ext, tbl' = tbl ++ ext) /\ prefix_earlier tbl' /\ h < length tbl'.
Proof.
  intros PE Hp H. unfold handle_for_stack in H.
  destruct (intern_spec stack_key_eqb stack_key_eqb_spec _ _ _ _ H) as [H1 [H2 H3]].
  split; [exact H1|]. split; [exact H2|]. split.
  - destruct H3 as [H3|[H3 [H4 _]]].
    + (* found: the table is unchanged *)
      unfold intern in H. destruct (index_of stack_key_eqb (p, f) tbl); inversion H; subst; [exact PE | lia].
    + subst tbl'. intros i q g Hn. destruct (Nat.lt_ge_cases i (length tbl)) as [Hi|Hi].
      * rewrite nth_error_app1 in Hn by exact Hi. eapply PE; exact Hn.
      * rewrite nth_error_app2 in Hn by exact Hi. destruct (i - length tbl) eqn:E; cbn in Hn; [|destruct n; discriminate].
        inversion Hn; subst. cbn in Hp. lia.
  - apply nth_error_Some. congruence.
Qed.

Lemma stack_of_frames_spec : forall frames tbl prefix pre h tbl',
  prefix_earlier tbl -> handle_ok tbl prefix -> path tbl prefix pre ->
  stack_of_frames tbl prefix frames = (h, tbl') ->
  path tbl' h (pre ++ frames) /\ prefix_earlier tbl' /\ handle_ok tbl' h /\ exists ext, tbl' = tbl ++ ext.
Proof.
  induction frames as [|f frames IH]; intros tbl prefix pre h tbl' PE Hp Hpath H; cbn [stack_of_frames] in H.
  - inversion H; subst. rewrite app_nil_r. split; [exact Hpath|]. split; [exact PE|]. split; [exact Hp | exists []; rewrite app_nil_r; reflexivity].
  - destruct (handle_for_stack tbl f prefix) as [h1 tbl1] eqn:E.
    destruct (handle_for_stack_spec _ _ _ _ _ PE Hp E) as [N1 [[ext1 X1] [PE1 L1]]].
    assert (P1 : path tbl1 (Some h1) (pre ++ [f])) by (econstructor; [exact N1 | subst tbl1; apply path_extend; exact Hpath]).
    destruct (IH tbl1 (Some h1) (pre ++ [f]) h tbl' PE1 L1 P1 H) as [A [B [C [ext2 X2]]]].
    split; [rewrite <- app_assoc in A; exact A|]. split; [exact B|]. split; [exact C|]. exists (ext1 ++ ext2). subst. rewrite app_assoc. reflexivity.
Qed.

(* walking computes the path *)
Lemma walk_path tbl : prefix_earlier tbl -> forall h fs, path tbl h fs ->
  forall fuel acc, (match h with None => True | Some i => i < fuel end) -> walk tbl fuel h acc = fs ++ acc.
Proof.
  intros PE h fs P. induction P as [|i p f fs H P IH]; intros fuel acc Hf.
  - destruct fuel; reflexivity.
  - destruct fuel as [|fuel]; [lia|]. cbn [walk]. rewrite H. rewrite IH; [rewrite <- app_assoc; reflexivity|].
    destruct p as [q|]; [|exact I]. pose proof (PE _ _ _ H). lia.
Qed.

Theorem canonical frames tbl : prefix_earlier tbl ->
  let '(h, tbl') := stack_of_frames tbl None frames in frames_of tbl' h = frames /\ prefix_earlier tbl'.
Proof.
  intros PE. destruct (stack_of_frames tbl None frames) as [h tbl'] eqn:E.
  destruct (stack_of_frames_spec frames tbl None [] h tbl' PE I (path_root tbl) E) as [A [B [C _]]].
  split; [|exact B]. unfold frames_of. rewrite (walk_path tbl' B h frames A); [apply app_nil_r|]. destruct h; [exact C | exact I].
Qed.

(* interning the same frames again gives the same handle and leaves the table alone *)
Lemma handle_for_stack_again tbl f p h : nth_error tbl h = Some (p, f) ->
  (forall j, j < h -> nth_error tbl j <> Some (p, f)) -> handle_for_stack tbl f p = (h, tbl).
Proof.
  intros H Hfirst. unfold handle_for_stack, intern.
  destruct (index_of stack_key_eqb (p, f) tbl) as [i|] eqn:E.
  - pose proof (index_of_some _ stack_key_eqb_spec _ _ _ E) as Hi. pose proof (index_of_first _ stack_key_eqb_spec _ _ _ E) as Hf.
    destruct (Nat.lt_trichotomy i h) as [L|[L|L]]; [exfalso; exact (Hfirst _ L Hi) | subst; reflexivity | exfalso; exact (Hf _ L H)].
  - exfalso. apply (index_of_none _ stack_key_eqb_spec _ _ E). eapply nth_error_In; exact H.
Qed.

(* ---------- unique pid / tid strings ---------- *)
Open Scope N_scope.
Lemma ulookup_uset k k' v l : ulookup k' (uset k v l) = if k =? k' then Some v else ulookup k' l.
Proof.
  induction l as [|[k0 v0] l IH]; cbn.
  - destruct (k =? k'); reflexivity.
  - destruct (k0 =? k) eqn:E; cbn.
    + apply N.eqb_eq in E. subst k0. destruct (k =? k'); reflexivity.
    + rewrite IH. destruct (k0 =? k') eqn:E2; [|reflexivity]. apply N.eqb_eq in E2. subst k0. rewrite N.eqb_sym, E. reflexivity.
Qed.
Definition next_sfx (used : list (N * N)) (id : N) : N := match ulookup id used with Some n => n | None => 0 end.

Lemma make_all_unique_spec : forall ids used,
  NoDup (make_all_unique used ids) /\ forall id sfx, In (id, sfx) (make_all_unique used ids) -> next_sfx used id <= sfx.
Proof.
  induction ids as [|i ids IH]; intros used; cbn [make_all_unique]; [split; [constructor | intros ? ? []]|].
  unfold make_unique. destruct (ulookup i used) as [n|] eqn:E.
  - destruct (IH (uset i (n + 1) used)) as [ND LB]. split.
    + constructor; [|exact ND]. intros Hin. apply LB in Hin. unfold next_sfx in Hin. rewrite ulookup_uset, N.eqb_refl in Hin. lia.
    + intros id sfx [H|H].
      * inversion H; subst. unfold next_sfx. rewrite E. lia.
      * apply LB in H. unfold next_sfx in *. rewrite ulookup_uset in H. destruct (i =? id) eqn:Ei; [apply N.eqb_eq in Ei; subst; rewrite E; lia | exact H].
  - destruct (IH (uset i 1 used)) as [ND LB]. split.
    + constructor; [|exact ND]. intros Hin. apply LB in Hin. unfold next_sfx in Hin. rewrite ulookup_uset, N.eqb_refl in Hin. lia.
    + intros id sfx [H|H].
      * inversion H; subst. unfold next_sfx. rewrite E. lia.
      * apply LB in H. unfold next_sfx in *. rewrite ulookup_uset in H. destruct (i =? id) eqn:Ei; [apply N.eqb_eq in Ei; subst; rewrite E; lia | exact H].
Qed.
Close Scope N_scope.

(* ---------- thread order ---------- *)
Section SortProofs.
  Context {A : Type} (leb : A -> A -> bool).
  Lemma insert_after_perm x l : Permutation (insert_after leb x l) (x :: l).
  Proof.
    induction l as [|y l IH]; cbn; [reflexivity|]. destruct (leb y x); [|reflexivity].
    rewrite IH. apply perm_swap.
  Qed.
  Lemma sort_perm_aux l : forall acc, Permutation (fold_left (fun a x => insert_after leb x a) l acc) (acc ++ l).
  Proof.
    induction l as [|x l IH]; intros acc; cbn [fold_left]; [rewrite app_nil_r; reflexivity|].
    rewrite IH. rewrite insert_after_perm. change (x :: acc) with ([x] ++ acc).
    rewrite (Permutation_app_comm [x] acc), <- app_assoc. reflexivity.
  Qed.
  Lemma sort_perm l : Permutation (sort leb l) l.
  Proof. unfold sort. rewrite sort_perm_aux. reflexivity. Qed.
End SortProofs.

Lemma index_of_nat_some h l i : index_of Nat.eqb h l = Some i -> nth_error l i = Some h.
Proof. apply index_of_some. intros a b. apply Nat.eqb_eq. Qed.

(* the translated index of a thread handle is the position of that thread in the serialized order *)
Theorem new_thread_index_denotes procs threads h i :
  new_thread_index procs threads h = Some i -> nth_error (sorted_threads procs threads) i = Some h.
Proof. apply index_of_nat_some. Qed.


(* ---------- the table checker decides well-formedness ---------- *)
Lemma chk_tbl_spec t : chk_tbl t = true <-> WF_tbl t.
Proof.
  unfold chk_tbl, WF_tbl. rewrite andb_true_iff, !forallb_forall. split.
  - intros [H1 H2]. split.
    + intros c Hc. specialize (H1 c Hc). apply Nat.eqb_eq in H1. auto.
    + intros vals bound i Hin Hi. specialize (H2 _ Hin). cbn in H2. rewrite forallb_forall in H2. specialize (H2 _ Hi). cbn in H2. apply Nat.ltb_lt. exact H2.
  - intros [H1 H2]. split.
    + intros c Hc. apply Nat.eqb_eq. symmetry. apply H1. exact Hc.
    + intros [vals bound] Hin. cbn. apply forallb_forall. intros [i|] Hi; cbn; [|reflexivity]. apply Nat.ltb_lt. eapply H2; eauto.
Qed.

Lemma chk_prefix_spec : forall l i, chk_prefix i l = true <-> forall j p, nth_error l j = Some (Some p) -> p < i + j.
Proof.
  induction l as [|x l IH]; intros i; cbn [chk_prefix].
  - split; [intros _ j p H; destruct j; discriminate | reflexivity].
  - destruct x as [q|].
    + rewrite andb_true_iff, IH, Nat.ltb_lt. split.
      * intros [H1 H2] j p Hn. destruct j; cbn in Hn; [inversion Hn; subst; lia|]. specialize (H2 _ _ Hn). lia.
      * intros H. split; [specialize (H 0 q eq_refl); lia|]. intros j p Hn. specialize (H (S j) p Hn). lia.
    + rewrite IH. split.
      * intros H j p Hn. destruct j; cbn in Hn; [discriminate|]. specialize (H _ _ Hn). lia.
      * intros H j p Hn. specialize (H (S j) p Hn). lia.
Qed.

Theorem chk_thread_spec t : chk_thread t = true <-> WF_thread t.
Proof.
  unfold chk_thread, WF_thread. rewrite andb_true_iff, forallb_forall, chk_prefix_spec. split.
  - intros [H1 H2]. split; [intros x Hx; apply chk_tbl_spec; auto | exact H2].
  - intros [H1 H2]. split; [intros x Hx; apply chk_tbl_spec; auto | exact H2].
Qed.

(* a well-formed prefix column makes every stack a finite root-to-leaf path: walking needs at most index+1 steps *)
Lemma wf_prefix_walk_terminates (tbl : list stack_key) : prefix_earlier tbl ->
  forall i, i < length tbl -> exists fs, path tbl (Some i) fs.
Proof.
  intros PE i. induction i as [i IH] using lt_wf_ind. intros Hi.
  destruct (nth_error tbl i) as [[p f]|] eqn:E; [|apply nth_error_None in E; lia].
  destruct p as [q|].
  - pose proof (PE _ _ _ E) as Hq. destruct (IH q Hq ltac:(lia)) as [fs Hfs]. exists (fs ++ [f]). econstructor; eauto.
  - exists ([] ++ [f]). econstructor; [exact E | constructor].
Qed.

(* the frame column of the stack table only ever holds frame indices the caller passed in *)
Lemma handle_for_stack_frames_in tbl f p n :
  (forall k, In k tbl -> snd k < n) -> f < n -> forall k, In k (snd (handle_for_stack tbl f p)) -> snd k < n.
Proof.
  intros H Hf k Hk. unfold handle_for_stack in Hk. destruct (intern stack_key_eqb tbl (p, f)) as [i l] eqn:E. cbn [snd] in Hk.
  destruct (intern_spec stack_key_eqb stack_key_eqb_spec _ _ _ _ E) as [_ [_ [Hi|[_ [Hl _]]]]].
  - unfold intern in E. destruct (index_of stack_key_eqb (p, f) tbl); inversion E; subst; [apply H; exact Hk | lia].
  - subst l. apply in_app_or in Hk. destruct Hk as [Hk|[<-|[]]]; [apply H; exact Hk | exact Hf].
Qed.
Lemma stack_of_frames_frames_in : forall frames tbl p n,
  (forall k, In k tbl -> snd k < n) -> (forall f, In f frames -> f < n) ->
  forall k, In k (snd (stack_of_frames tbl p frames)) -> snd k < n.
Proof.
  induction frames as [|f frames IH]; intros tbl p n H Hf k Hk; cbn [stack_of_frames] in Hk; [apply H; exact Hk|].
  destruct (handle_for_stack tbl f p) as [h tbl1] eqn:E.
  apply (IH tbl1 (Some h) n); [|intros x Hx; apply Hf; right; exact Hx | exact Hk].
  intros k' Hk'. pose proof (handle_for_stack_frames_in tbl f p n H (Hf f (or_introl eq_refl)) k') as G. rewrite E in G. apply G. exact Hk'.
Qed.
