(* Sample conservation of the converter bookkeeping (Model/Converter.v): every accepted sample sits in exactly one buffer;
   buffers only move (live -> retired) and are all flushed at the end. *)
From SV Require Import Model.Converter.
From Coq Require Import Permutation Lia.
Open Scope N_scope.

Section Proofs.
  Variable origin : N.

  Definition bufs (l : list (N * lproc)) : list (nat * N) := concat (map (fun kp => lp_samples (snd kp)) l).
  Definition total (s : cstate) : list (nat * N) := concat (retired s) ++ bufs (lprocs s).

  Lemma concat_filter_nonempty (l : list (list (nat * N))) :
    concat (filter (fun b => match b with [] => false | _ => true end) l) = concat l.
  Proof. induction l as [|b l IH]; cbn; [reflexivity|]. destruct b; cbn; rewrite IH; reflexivity. Qed.

  Lemma output_is_total s : output_samples s = total s.
  Proof. unfold output_samples, all_buffers, total, bufs. rewrite concat_app, concat_filter_nonempty. reflexivity. Qed.

  (* association-list facts: aset / aremove act on the entry alookup finds *)
  Lemma alookup_split {A} k (l : list (N * A)) v :
    alookup k l = Some v -> exists l1 k' l2, l = l1 ++ (k', v) :: l2 /\ (k' =? k) = true /\
      (forall v', aset k v' l = l1 ++ (k, v') :: l2) /\ aremove k l = l1 ++ l2 /\ alookup k l1 = None.
  Proof.
    induction l as [|[k0 v0] l IH]; intros H; [discriminate|]. cbn in H |- *.
    destruct (k0 =? k) eqn:E.
    - inversion H; subst. exists [], k0, l. repeat split; auto.
    - destruct (IH H) as [l1 [k' [l2 [H1 [H2 [H3 [H4 H5]]]]]]]. exists ((k0, v0) :: l1), k', l2. subst l. repeat split; auto.
      + intros v'. cbn. rewrite H3. reflexivity.
      + cbn. rewrite H4. reflexivity.
      + cbn. rewrite E. exact H5.
  Qed.
  Lemma aset_none {A} k (v : A) l : alookup k l = None -> aset k v l = l ++ [(k, v)].
  Proof. induction l as [|[k0 v0] l IH]; intros H; cbn in *; [reflexivity|]. destruct (k0 =? k); [discriminate|]. rewrite IH by exact H. reflexivity. Qed.
  Lemma alookup_aset_same {A} k (v : A) l : alookup k (aset k v l) = Some v.
  Proof. induction l as [|[k0 v0] l IH]; cbn; [rewrite N.eqb_refl; reflexivity|]. destruct (k0 =? k) eqn:E; cbn; [rewrite N.eqb_refl; reflexivity | rewrite E; exact IH]. Qed.

  Lemma bufs_app a b : bufs (a ++ b) = bufs a ++ bufs b.
  Proof. unfold bufs. rewrite map_app, concat_app. reflexivity. Qed.

  Lemma bufs_cons k p l : bufs ((k, p) :: l) = lp_samples p ++ bufs l.
  Proof. reflexivity. Qed.

  (* replacing the current entry of pid by one with samples `sm'` *)
  Lemma bufs_aset_some pid p p' l : alookup pid l = Some p ->
    exists a b, bufs l = a ++ lp_samples p ++ b /\ bufs (aset pid p' l) = a ++ lp_samples p' ++ b /\ bufs (aremove pid l) = a ++ b.
  Proof.
    intros H. destruct (alookup_split pid l p H) as [l1 [k' [l2 [H1 [_ [H3 [H4 _]]]]]]].
    exists (bufs l1), (bufs l2). rewrite H3, H4. subst l. rewrite !bufs_app, !bufs_cons. auto.
  Qed.
  Lemma bufs_aset_none pid p' l : alookup pid l = None -> bufs (aset pid p' l) = bufs l ++ lp_samples p'.
  Proof. intros H. rewrite aset_none by exact H. rewrite bufs_app, bufs_cons. cbn. rewrite app_nil_r. reflexivity. Qed.

  (* the Profile-API helpers do not touch buffers *)
  Lemma add_process_frame s nm pid st s' h : add_process s nm pid st = (s', h) -> lprocs s' = lprocs s /\ retired s' = retired s /\ cur_time s' = cur_time s.
  Proof. unfold add_process. destruct (unique (used_pids s) pid). intros H; inversion H; subst; cbn; auto. Qed.
  Lemma add_thread_frame s ph tid st m s' h : add_thread s ph tid st m = (s', h) -> lprocs s' = lprocs s /\ retired s' = retired s /\ cur_time s' = cur_time s.
  Proof. unfold add_thread. destruct (unique (used_tids s) tid). intros H; inversion H; subst; cbn; auto. Qed.

  Definition same_bufs (s s' : cstate) : Prop := lprocs s' = lprocs s /\ retired s' = retired s.

  (* coherent: p is what the table holds for pid *)
  Lemma get_by_pid_spec s pid s' p : get_by_pid s pid = (s', p) ->
    alookup pid (lprocs s') = Some p /\ total s' = total s /\ cur_time s' = cur_time s.
  Proof.
    unfold get_by_pid. destruct (alookup pid (lprocs s)) as [p0|] eqn:E.
    - intros H; inversion H; subst. auto.
    - destruct (add_process s (NPid pid) pid 0) as [s1 ph] eqn:E1. destruct (add_thread s1 ph pid 0 true) as [s2 th] eqn:E2.
      intros H; inversion H; subst. clear H.
      destruct (add_process_frame _ _ _ _ _ _ E1) as [A1 [A2 A3]]. destruct (add_thread_frame _ _ _ _ _ _ _ E2) as [B1 [B2 B3]].
      unfold with_lprocs, total. cbn [lprocs retired cur_time]. split; [apply alookup_aset_same|]. split; [|congruence].
      rewrite B1, A1, B2, A2. rewrite bufs_aset_none by exact E. cbn. rewrite app_nil_r. reflexivity.
  Qed.

  Lemma put_proc_same s pid p p' : alookup pid (lprocs s) = Some p -> lp_samples p' = lp_samples p ->
    total (put_proc s pid p') = total s /\ alookup pid (lprocs (put_proc s pid p')) = Some p' /\ cur_time (put_proc s pid p') = cur_time s.
  Proof.
    intros H Hs. unfold put_proc, with_lprocs, total. cbn [lprocs retired cur_time].
    destruct (bufs_aset_some pid p p' _ H) as [a [b [H1 [H2 _]]]]. rewrite H1, H2, Hs. split; [reflexivity|]. split; [apply alookup_aset_same | reflexivity].
  Qed.

  Lemma put_proc_append s pid p p' x : alookup pid (lprocs s) = Some p -> lp_samples p' = lp_samples p ++ x ->
    Permutation (total (put_proc s pid p')) (total s ++ x).
  Proof.
    intros H Hs. unfold put_proc, with_lprocs, total. cbn [lprocs retired].
    destruct (bufs_aset_some pid p p' _ H) as [a [b [H1 [H2 _]]]]. rewrite H1, H2, Hs.
    rewrite <- !app_assoc. apply Permutation_app_head. apply Permutation_app_head. apply Permutation_app_head. apply Permutation_app_comm.
  Qed.

  Lemma map_thread_frame s h f : lprocs (map_thread s h f) = lprocs s /\ retired (map_thread s h f) = retired s /\ cur_time (map_thread s h f) = cur_time s.
  Proof. cbn. auto. Qed.
  Lemma map_process_frame s h f : lprocs (map_process s h f) = lprocs s /\ retired (map_process s h f) = retired s /\ cur_time (map_process s h f) = cur_time s.
  Proof. cbn. auto. Qed.

  Lemma total_eq s s' : lprocs s' = lprocs s -> retired s' = retired s -> total s' = total s.
  Proof. intros H1 H2. unfold total. rewrite H1, H2. reflexivity. Qed.

  Lemma get_new_process_total s pid name st : total (fst (get_new_process s pid name st)) = total s.
  Proof.
    unfold get_new_process. destruct (alookup pid (lprocs s)) as [p|] eqn:E.
    - destruct (lt_last (lp_main p)); cbn [fst]; [reflexivity|]. apply total_eq; reflexivity.
    - destruct (add_process s (oname pid name) pid st) as [s1 ph] eqn:E1. destruct (add_thread s1 ph pid st true) as [s2 th] eqn:E2.
      destruct (add_process_frame _ _ _ _ _ _ E1) as [A1 [A2 _]]. destruct (add_thread_frame _ _ _ _ _ _ _ E2) as [B1 [B2 _]].
      cbn [fst]. unfold with_lprocs, total. cbn [lprocs retired].
      destruct name as [n|]; cbn [lprocs retired map_thread]; rewrite ?B1, ?A1, ?B2, ?A2; rewrite bufs_aset_none by (rewrite ?B1, ?A1; exact E);
        rewrite ?B1, ?A1; cbn; rewrite app_nil_r; reflexivity.
  Qed.

  Lemma get_thread_by_tid_spec s pid p tid s' p' t : alookup pid (lprocs s) = Some p ->
    get_thread_by_tid s pid p tid = (s', p', t) ->
    alookup pid (lprocs s') = Some p' /\ total s' = total s /\ lp_samples p' = lp_samples p /\ cur_time s' = cur_time s.
  Proof.
    intros Hp. unfold get_thread_by_tid. destruct (tid =? pid).
    - intros H; inversion H; subst. auto.
    - destruct (alookup tid (lp_threads p)) as [t0|].
      + intros H; inversion H; subst. auto.
      + destruct (add_thread s (lp_handle p) tid 0 false) as [s1 th] eqn:E1. intros H; inversion H; subst. clear H.
        destruct (add_thread_frame _ _ _ _ _ _ _ E1) as [B1 [B2 B3]].
        assert (Hp1 : alookup pid (lprocs s1) = Some p) by (rewrite B1; exact Hp).
        destruct (put_proc_same s1 pid p (p_with_threads p (aset tid (mkLT th None None) (lp_threads p))) Hp1 eq_refl) as [T1 [T2 T3]].
        split; [exact T2|]. split; [rewrite T1; apply total_eq; assumption|]. split; [reflexivity | congruence].
  Qed.

  Lemma get_new_thread_total s pid p tid name st : alookup pid (lprocs s) = Some p -> total (get_new_thread s pid p tid name st) = total s.
  Proof.
    intros Hp. unfold get_new_thread. destruct (tid =? pid); [reflexivity|].
    destruct (alookup tid (lp_threads p)) as [t0|].
    - destruct (lt_last t0); [reflexivity | apply total_eq; reflexivity].
    - destruct (add_thread s (lp_handle p) tid st false) as [s1 th] eqn:E1.
      destruct (add_thread_frame _ _ _ _ _ _ _ E1) as [B1 [B2 _]].
      destruct name as [n|].
      + assert (Hp1 : alookup pid (lprocs (map_thread s1 th (t_set_name n))) = Some p) by (cbn; rewrite B1; exact Hp).
        destruct (put_proc_same _ pid p (p_with_threads p (aset tid (mkLT th (Some n) None) (lp_threads p))) Hp1 eq_refl) as [T1 _].
        rewrite T1. apply total_eq; cbn; assumption.
      + assert (Hp1 : alookup pid (lprocs s1) = Some p) by (rewrite B1; exact Hp).
        destruct (put_proc_same _ pid p (p_with_threads p (aset tid (mkLT th None None) (lp_threads p))) Hp1 eq_refl) as [T1 _].
        rewrite T1. apply total_eq; assumption.
  Qed.

  Lemma remove_thread_total s pid p tid e : alookup pid (lprocs s) = Some p -> total (remove_thread s pid p tid e) = total s.
  Proof.
    intros Hp. unfold remove_thread. destruct (alookup tid (lp_threads p)) as [t0|]; [|reflexivity].
    assert (Hp1 : alookup pid (lprocs (map_thread s (lt_handle t0) (t_set_end e))) = Some p) by (cbn; exact Hp).
    destruct (put_proc_same _ pid p (p_with_threads p (aremove tid (lp_threads p))) Hp1 eq_refl) as [T1 _]. rewrite T1. apply total_eq; reflexivity.
  Qed.

  Lemma fold_map_thread_frame (l : list (N * lthread)) e : forall s,
    let s' := fold_left (fun x kt => map_thread x (lt_handle (snd kt)) (t_set_end e)) l s in
    lprocs s' = lprocs s /\ retired s' = retired s.
  Proof. induction l as [|x l IH]; intros s; cbn [fold_left]; [auto|]. destruct (IH (map_thread s (lt_handle (snd x)) (t_set_end e))) as [H1 H2]. cbn in *. auto. Qed.

  Lemma remove_process_total s pid e : Permutation (total (remove_process s pid e)) (total s).
  Proof.
    unfold remove_process. destruct (alookup pid (lprocs s)) as [p|] eqn:E; [|reflexivity].
    set (s1 := fold_left _ (lp_threads p) s).
    destruct (fold_map_thread_frame (lp_threads p) e s) as [F1 F2]. fold s1 in F1, F2.
    unfold total. cbn [lprocs retired map_process map_thread]. rewrite F1, F2.
    destruct (bufs_aset_some pid p p _ E) as [a [b [H1 [_ H3]]]]. rewrite H1, H3.
    destruct (lp_samples p) as [|x sm] eqn:Es.
    - cbn. reflexivity.
    - rewrite concat_app. cbn [concat]. rewrite app_nil_r, <- app_assoc. apply Permutation_app_head.
      rewrite !app_assoc. apply Permutation_app_tail. apply Permutation_app_comm.
  Qed.

  (* ---- one record ---- *)
  Lemma step_total s r : Permutation (total (step origin s r)) (total s ++ accepted_step origin s r).
  Proof.
    destruct r as [pid ppid tid ptid ts | pid tid ts | pid tid name ex ts | pid tid ts | pid tid | pid tid]; cbn [step accepted_step]; rewrite ?app_nil_r.
    - (* fork *)
      destruct (get_by_pid s ppid) as [s1 parent] eqn:E1. destruct (get_by_pid_spec _ _ _ _ E1) as [A1 [A2 _]].
      destruct (negb (pid =? ppid)).
      + rewrite get_new_process_total, A2. reflexivity.
      + destruct (get_thread_by_tid s1 ppid parent ptid) as [[s2 parent'] pt] eqn:E2.
        destruct (get_thread_by_tid_spec _ _ _ _ _ _ _ A1 E2) as [B1 [B2 _]].
        rewrite get_new_thread_total by exact B1. rewrite B2, A2. reflexivity.
    - (* exit *)
      destruct (tid =? pid); [apply remove_process_total|].
      destruct (get_by_pid s pid) as [s1 p] eqn:E1. destruct (get_by_pid_spec _ _ _ _ E1) as [A1 [A2 _]].
      rewrite remove_thread_total by exact A1. rewrite A2. reflexivity.
    - (* comm *)
      destruct ex.
      + destruct (tid =? pid).
        * rewrite get_new_process_total. apply remove_process_total.
        * destruct (get_by_pid s pid) as [s1 p] eqn:E1. destruct (get_by_pid_spec _ _ _ _ E1) as [A1 [A2 _]].
          pose proof (remove_thread_total s1 pid p tid (rec_time origin s ts) A1) as R.
          destruct (alookup pid (lprocs (remove_thread s1 pid p tid (rec_time origin s ts)))) as [p2|] eqn:E2.
          -- rewrite get_new_thread_total by exact E2. rewrite R, A2. reflexivity.
          -- rewrite R, A2. reflexivity.
      + destruct (tid =? pid).
        * destruct (alookup pid (lprocs s)) as [p|] eqn:E.
          -- destruct (match lp_name p with Some n => n =? name | None => false end); [reflexivity|].
             match goal with |- Permutation (total (put_proc ?s0 pid ?p')) _ =>
               assert (Hp1 : alookup pid (lprocs s0) = Some p) by (cbn; exact E);
               destruct (put_proc_same s0 pid p p' Hp1 eq_refl) as [T1 _]; rewrite T1 end.
             rewrite (total_eq s); [reflexivity | reflexivity | reflexivity].
          -- rewrite get_new_process_total. reflexivity.
        * destruct (get_by_pid s pid) as [s1 p] eqn:E1. destruct (get_by_pid_spec _ _ _ _ E1) as [A1 [A2 _]].
          destruct (alookup tid (lp_threads p)) as [th|].
          -- destruct (match lt_name th with Some n => n =? name | None => false end); [rewrite A2; reflexivity|].
             match goal with |- Permutation (total (put_proc ?s0 pid ?p')) _ =>
               assert (Hp1 : alookup pid (lprocs s0) = Some p) by (cbn; exact A1);
               destruct (put_proc_same s0 pid p p' Hp1 eq_refl) as [T1 _]; rewrite T1 end.
             rewrite (total_eq s1); [rewrite A2; reflexivity | reflexivity | reflexivity].
          -- rewrite get_new_thread_total by exact A1. rewrite A2. reflexivity.
    - (* sample *)
      destruct (tid =? 0); [rewrite app_nil_r; reflexivity|].
      set (s0 := mkC (pprocs s) (pthreads s) (used_pids s) (used_tids s) (lprocs s) (retired s) ts).
      assert (T0 : total s0 = total s) by reflexivity.
      destruct (get_by_pid s0 pid) as [s1 p] eqn:E1. destruct (get_by_pid_spec _ _ _ _ E1) as [A1 [A2 _]].
      destruct (get_thread_by_tid s1 pid p tid) as [[s2 p2] t] eqn:E2.
      destruct (get_thread_by_tid_spec _ _ _ _ _ _ _ A1 E2) as [B1 [B2 [B3 _]]].
      destruct (match lt_last t with Some l => l =? ts | None => false end).
      + rewrite app_nil_r, B2, A2, T0. reflexivity.
      + match goal with |- Permutation (total (put_proc s2 pid ?p')) _ =>
          pose proof (put_proc_append s2 pid p2 p' [(lt_handle t, conv origin ts)] B1) as PA end.
        rewrite PA by (cbn [lp_samples]; destruct (tid =? pid); reflexivity).
        rewrite B2, A2, T0. reflexivity.
    - (* mmap *)
      destruct (get_by_pid s pid) as [s1 p] eqn:E1. destruct (get_by_pid_spec _ _ _ _ E1) as [A1 [A2 _]].
      destruct (cur_time s =? origin); [rewrite A2; reflexivity|].
      destruct (get_thread_by_tid s1 pid p tid) as [[s2 p2] t] eqn:E2.
      destruct (get_thread_by_tid_spec _ _ _ _ _ _ _ A1 E2) as [_ [B2 _]]. cbn [fst]. rewrite B2, A2. reflexivity.
    - (* context switch *)
      destruct (tid =? 0); [reflexivity|].
      destruct (get_by_pid s pid) as [s1 p] eqn:E1. destruct (get_by_pid_spec _ _ _ _ E1) as [A1 [A2 _]].
      destruct (get_thread_by_tid s1 pid p tid) as [[s2 p2] t] eqn:E2.
      destruct (get_thread_by_tid_spec _ _ _ _ _ _ _ A1 E2) as [_ [B2 _]]. cbn [fst]. rewrite B2, A2. reflexivity.
  Qed.

  Lemma run_total rs : forall s, Permutation (total (fold_left (step origin) rs s)) (total s ++ accepted origin rs s).
  Proof.
    induction rs as [|r rs IH]; intros s; cbn [fold_left accepted]; [rewrite app_nil_r; reflexivity|].
    rewrite IH. rewrite app_assoc. apply Permutation_app_tail. apply step_total.
  Qed.

  Theorem conservation rs : Permutation (output_samples (run origin rs)) (accepted origin rs (init origin)).
  Proof. rewrite output_is_total. unfold run. rewrite run_total. reflexivity. Qed.
End Proofs.

Section Accepted.
  Variable origin : N.
  (* every accepted sample comes from a SAMPLE record of a non-idle thread and carries its time relative to the origin *)
  Lemma accepted_from_records rs : forall s h t, In (h, t) (accepted origin rs s) ->
    exists pid tid ts, In (RSample pid tid ts) rs /\ tid <> 0 /\ t = ts - origin.
  Proof.
    induction rs as [|r rs IH]; intros s h t H; [destruct H|]. cbn [accepted] in H. apply in_app_or in H. destruct H as [H|H].
    - destruct r as [| | |pid tid ts| |]; cbn [accepted_step] in H; try destruct H.
      destruct (tid =? 0) eqn:E0; [destruct H|].
      destruct (get_by_pid _ pid) as [s1 p]. destruct (get_thread_by_tid s1 pid p tid) as [[s2 p2] th].
      destruct (match lt_last th with Some l => l =? ts | None => false end); [destruct H|].
      destruct H as [H|[]]. inversion H; subst. exists pid, tid, ts. split; [left; reflexivity|]. split; [apply N.eqb_neq; exact E0 | reflexivity].
    - destruct (IH _ _ _ H) as [pid [tid [ts [H1 H2]]]]. exists pid, tid, ts. split; [right; exact H1 | exact H2].
  Qed.

  (* samples of the idle thread are never accepted, and neither is an exact repeat of the thread's previous sample time *)
  Lemma idle_not_accepted s pid ts : accepted_step origin s (RSample pid 0 ts) = [].
  Proof. reflexivity. Qed.
End Accepted.
