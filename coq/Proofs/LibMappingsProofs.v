(* Specification (history function) and proofs for Model/LibMappings.v. *)
From SV Require Import Model.LibMappings Spec.LibMappingsSpec.
From Coq Require Import Lia ZifyBool ZifyN.
Open Scope N_scope.

(* ------------------------------------------------------------------ *)
(* Invariant of the table.                                             *)

Definition Inv (m : lm) : Prop :=
  ForallOrdPairs (fun x y => overlaps x y = false) m /\ Forall (fun x => m_start x < m_end x) m.

Lemma overlaps_sym x y : overlaps x y = overlaps y x.
Proof. unfold overlaps. apply andb_comm. Qed.

Lemma Inv_nil : Inv [].
Proof. split; constructor. Qed.

Lemma Inv_cons x m :
  Inv (x :: m) <-> (Forall (fun y => overlaps x y = false) m /\ m_start x < m_end x /\ Inv m).
Proof.
  unfold Inv. split.
  - intros [H1 H2]. inversion H1; subst. inversion H2; subst. tauto.
  - intros [H1 [H2 [H3 H4]]]. split; constructor; assumption.
Qed.

Lemma Inv_in_overlap_eq m x y :
  Inv m -> In x m -> In y m -> overlaps x y = true -> x = y.
Proof.
  induction m as [|z m IH]; intros HI Hx Hy Ho; [contradiction|].
  apply Inv_cons in HI. destruct HI as [Hz [Hlt HI]].
  rewrite Forall_forall in Hz.
  destruct Hx as [->|Hx], Hy as [->|Hy]; auto.
  - rewrite (Hz _ Hy) in Ho. discriminate.
  - rewrite overlaps_sym, (Hz _ Hx) in Ho. discriminate.
Qed.

Lemma Inv_filter f m : Inv m -> Inv (filter f m).
Proof.
  induction m as [|z m IH]; intros HI; [exact HI|].
  apply Inv_cons in HI. destruct HI as [Hz [Hlt HI]].
  cbn [filter]. destruct (f z); [|auto].
  apply Inv_cons. split; [|split; auto].
  rewrite Forall_forall in *. intros y Hy. apply filter_In in Hy. apply Hz. tauto.
Qed.

(* ------------------------------------------------------------------ *)
(* bt_last_le: greatest key <= a.                                      *)

Lemma bt_last_le_some m a y :
  bt_last_le m a = Some y ->
  In y m /\ m_start y <= a /\ forall z, In z m -> m_start z <= a -> m_start z <= m_start y.
Proof.
  revert y. induction m as [|x m IH]; intros y H; [discriminate|].
  cbn [bt_last_le] in H. destruct (bt_last_le m a) as [w|] eqn:E.
  - specialize (IH w eq_refl). destruct IH as [Hin [Hle Hmax]].
    destruct ((m_start x <=? a) && (m_start w <? m_start x)) eqn:C; inversion H; subst; clear H.
    + split; [left; reflexivity|]. split; [lia|].
      intros z [->|Hz] Hza; [lia|]. specialize (Hmax z Hz Hza). lia.
    + split; [right; assumption|]. split; [assumption|].
      intros z [->|Hz] Hza; [lia|]. auto.
  - destruct (m_start x <=? a) eqn:C; inversion H; subst; clear H.
    split; [left; reflexivity|]. split; [lia|].
    intros z [->|Hz] Hza; [lia|].
    exfalso. clear C. revert E Hz Hza. clear. induction m as [|q m IH]; intros E Hz Hza; [contradiction|].
    cbn [bt_last_le] in E. destruct (bt_last_le m a) eqn:E'.
    * destruct (_ && _); discriminate.
    * destruct (m_start q <=? a) eqn:C; [discriminate|].
      destruct Hz as [->|Hz]; [lia|]. apply IH; auto.
Qed.

Lemma bt_last_le_none m a :
  bt_last_le m a = None -> forall z, In z m -> a < m_start z.
Proof.
  induction m as [|x m IH]; intros H z Hz; [contradiction|].
  cbn [bt_last_le] in H. destruct (bt_last_le m a) eqn:E.
  - destruct (_ && _); discriminate.
  - destruct (m_start x <=? a) eqn:C; [discriminate|].
    destruct Hz as [->|Hz]; [lia|]. apply IH; auto.
Qed.

(* ------------------------------------------------------------------ *)
(* Characterisation of lookup_impl under the invariant.                *)

Lemma lookup_impl_some m a y :
  lookup_impl m a = Some y -> In y m /\ covers y a = true.
Proof.
  unfold lookup_impl. destruct (bt_last_le m a) as [w|] eqn:E; [|discriminate].
  destruct (a <? m_end w) eqn:C; [|discriminate]. intros H; inversion H; subst.
  apply bt_last_le_some in E. destruct E as [Hin [Hle _]]. split; [assumption|].
  unfold covers. lia.
Qed.

Lemma lookup_impl_complete m a z :
  Inv m -> In z m -> covers z a = true -> lookup_impl m a = Some z.
Proof.
  intros HI Hz Hc. unfold lookup_impl.
  destruct (bt_last_le m a) as [w|] eqn:E.
  - apply bt_last_le_some in E. destruct E as [Hin [Hle Hmax]].
    unfold covers in Hc.
    assert (Hzw : m_start z <= m_start w) by (apply Hmax; [assumption|lia]).
    assert (Hw : m_start w < m_end w).
    { destruct HI as [_ HF]. rewrite Forall_forall in HF. apply HF; assumption. }
    assert (w = z).
    { apply (Inv_in_overlap_eq m); auto. unfold overlaps. lia. }
    subst w. replace (a <? m_end z) with true by lia. reflexivity.
  - pose proof (bt_last_le_none _ _ E z Hz). unfold covers in Hc. lia.
Qed.

Lemma lookup_impl_none m a :
  Inv m -> lookup_impl m a = None -> forall z, In z m -> covers z a = false.
Proof.
  intros HI H z Hz. destruct (covers z a) eqn:C; [|reflexivity].
  rewrite (lookup_impl_complete m a z HI Hz C) in H. discriminate.
Qed.

(* ------------------------------------------------------------------ *)
(* add_mapping: what stays and what goes.                              *)

Lemma fold_bt_remove_in keys m y :
  In y (fold_left bt_remove keys m) <-> In y m /\ ~ In (m_start y) keys.
Proof.
  revert m. induction keys as [|k keys IH]; intros m; cbn [fold_left].
  - cbn. tauto.
  - rewrite IH. unfold bt_remove. rewrite filter_In. cbn [In].
    split.
    + intros [[H1 H2] H3]. split; [assumption|]. intros [->|H]; [|tauto].
      rewrite N.eqb_refl in H2. discriminate.
    + intros [H1 H2]. split; [split; [assumption|]|tauto].
      destruct (m_start y =? k) eqn:C; [|reflexivity]. exfalso. apply H2. left. lia.
Qed.

Lemma fold_bt_remove_Inv keys m : Inv m -> Inv (fold_left bt_remove keys m).
Proof.
  revert m. induction keys as [|k keys IH]; intros m HI; cbn [fold_left]; [assumption|].
  apply IH. apply Inv_filter. assumption.
Qed.

Lemma bt_range_keys_in m lo hi k :
  In k (bt_range_keys m lo hi) <-> exists y, In y m /\ m_start y = k /\ lo <= k /\ k < hi.
Proof.
  unfold bt_range_keys. rewrite in_map_iff. split.
  - intros [y [<- Hy]]. apply filter_In in Hy. exists y. split; [tauto|]. lia.
  - intros [y [Hy [<- Hr]]]. exists y. split; [reflexivity|]. apply filter_In. split; [assumption|]. lia.
Qed.

(* the removal start computed by add_mapping *)
Definition removal_start (m : lm) (x : mapping) : N :=
  match lookup_impl m (m_start x) with Some y => m_start y | None => m_start x end.

Lemma removal_start_le m x : removal_start m x <= m_start x.
Proof.
  unfold removal_start. destruct (lookup_impl m (m_start x)) as [y|] eqn:E; [|lia].
  apply lookup_impl_some in E. unfold covers in E. lia.
Qed.

(* Key lemma: under the invariant, an existing mapping has its key inside
   [removal_start, end) exactly when it overlaps the new mapping. *)
Lemma key_in_range_iff_overlaps m x y :
  Inv m -> m_start x < m_end x -> In y m ->
  ((removal_start m x <=? m_start y) && (m_start y <? m_end x)) = overlaps y x.
Proof.
  intros HI Hx Hy.
  assert (Hylt : m_start y < m_end y).
  { destruct HI as [_ HF]. rewrite Forall_forall in HF. auto. }
  unfold removal_start. destruct (lookup_impl m (m_start x)) as [w|] eqn:E.
  - pose proof (lookup_impl_some _ _ _ E) as [Hw Hcw]. unfold covers in Hcw.
    unfold overlaps.
    destruct (m_start w <=? m_start y) eqn:C1; destruct (m_start y <? m_end x) eqn:C2; cbn [andb].
    + (* y starts at or after w and before the end of x: overlaps unless y ends before x starts,
         which is impossible because w covers start x and y is disjoint from w or equal to it *)
      destruct (overlaps y w) eqn:Oyw.
      * assert (y = w) by (apply (Inv_in_overlap_eq m); auto). subst. lia.
      * unfold overlaps in Oyw. lia.
    + lia.
    + (* y starts before w *)
      destruct (overlaps y w) eqn:Oyw.
      * assert (y = w) by (apply (Inv_in_overlap_eq m); auto). subst. lia.
      * unfold overlaps in Oyw. lia.
    + lia.
  - pose proof (lookup_impl_none _ _ HI E y Hy) as Hc. unfold covers in Hc. unfold overlaps. lia.
Qed.

Lemma add_mapping_some m x :
  m_start x < m_end x -> exists m', add_mapping m x = Some m'.
Proof.
  intros Hx. unfold add_mapping. fold (removal_start m x).
  pose proof (removal_start_le m x).
  replace (m_end x <? removal_start m x) with false by lia. eauto.
Qed.

Lemma add_mapping_in m x m' y :
  Inv m -> m_start x < m_end x -> add_mapping m x = Some m' ->
  (In y m' <-> y = x \/ (In y m /\ overlaps y x = false)).
Proof.
  intros HI Hx H. unfold add_mapping in H. fold (removal_start m x) in H.
  destruct (m_end x <? removal_start m x); [discriminate|]. inversion H; subst; clear H.
  unfold bt_insert. cbn [In]. unfold bt_remove at 1. rewrite filter_In, fold_bt_remove_in.
  rewrite bt_range_keys_in.
  split.
  - intros [->|[[Hy Hnk] Hne]]; [left; reflexivity|]. right. split; [assumption|].
    rewrite <- (key_in_range_iff_overlaps m x y HI Hx Hy).
    destruct ((removal_start m x <=? m_start y) && (m_start y <? m_end x)) eqn:C; [|reflexivity].
    exfalso. apply Hnk. exists y. repeat split; auto; lia.
  - intros [->|[Hy Ho]]; [left; reflexivity|]. right.
    rewrite <- (key_in_range_iff_overlaps m x y HI Hx Hy) in Ho.
    split; [split; [assumption|]|].
    + intros [z [Hz [Hk Hr]]].
      (* z has the same key as y; both in m, so z = y (they overlap) *)
      assert (Hzlt : m_start z < m_end z).
      { destruct HI as [_ HF]. rewrite Forall_forall in HF. auto. }
      assert (Hylt : m_start y < m_end y).
      { destruct HI as [_ HF]. rewrite Forall_forall in HF. auto. }
      assert (z = y) by (apply (Inv_in_overlap_eq m); auto; unfold overlaps; lia).
      subst z. lia.
    + (* y's key differs from x's key, because y does not overlap ... *)
      pose proof (removal_start_le m x).
      destruct (m_start y =? m_start x) eqn:C; [|reflexivity]. lia.
Qed.

Lemma add_mapping_Inv m x m' :
  Inv m -> m_start x < m_end x -> add_mapping m x = Some m' -> Inv m'.
Proof.
  intros HI Hx H. pose proof (add_mapping_in m x m') as Hin.
  unfold add_mapping in H. fold (removal_start m x) in H.
  destruct (m_end x <? removal_start m x) eqn:C; [discriminate|]. inversion H; subst.
  unfold bt_insert. apply Inv_cons. split; [|split; [assumption|]].
  - rewrite Forall_forall. intros y Hy.
    assert (Hy' : In y (bt_insert (fold_left bt_remove (bt_range_keys m (removal_start m x) (m_end x)) m) x)).
    { unfold bt_insert. right. assumption. }
    apply (Hin y HI Hx) in Hy'; [|unfold add_mapping; fold (removal_start m x); rewrite C; reflexivity].
    destruct Hy' as [->|[_ Ho]].
    + unfold bt_remove in Hy. apply filter_In in Hy. rewrite N.eqb_refl in Hy. destruct Hy; discriminate.
    + rewrite overlaps_sym. assumption.
  - unfold bt_remove. apply Inv_filter. apply fold_bt_remove_Inv. assumption.
Qed.

(* ------------------------------------------------------------------ *)
(* Single-step lookup lemmas.                                          *)

Lemma lookup_after_add m x m' a :
  Inv m -> m_start x < m_end x -> add_mapping m x = Some m' ->
  lookup_impl m' a =
    if covers x a then Some x
    else match lookup_impl m a with
         | Some y => if overlaps y x then None else Some y
         | None => None
         end.
Proof.
  intros HI Hx H.
  pose proof (add_mapping_Inv _ _ _ HI Hx H) as HI'.
  pose proof (fun y => add_mapping_in m x m' y HI Hx H) as Hin.
  destruct (covers x a) eqn:Cx.
  - apply lookup_impl_complete; auto. apply Hin. left. reflexivity.
  - destruct (lookup_impl m a) as [y|] eqn:E.
    + pose proof (lookup_impl_some _ _ _ E) as [Hy Hcy].
      destruct (overlaps y x) eqn:O.
      * destruct (lookup_impl m' a) as [w|] eqn:E'; [|reflexivity]. exfalso.
        pose proof (lookup_impl_some _ _ _ E') as [Hw Hcw].
        apply Hin in Hw. destruct Hw as [->|[Hw Hwo]]; [congruence|].
        assert (w = y).
        { apply (Inv_in_overlap_eq m); auto. unfold covers in *. unfold overlaps. lia. }
        subst. congruence.
      * apply lookup_impl_complete; auto. apply Hin. right. tauto.
    + destruct (lookup_impl m' a) as [w|] eqn:E'; [|reflexivity]. exfalso.
      pose proof (lookup_impl_some _ _ _ E') as [Hw Hcw].
      apply Hin in Hw. destruct Hw as [->|[Hw Hwo]]; [congruence|].
      rewrite (lookup_impl_none _ _ HI E w Hw) in Hcw. discriminate.
Qed.

Lemma lookup_after_remove m s a :
  Inv m ->
  lookup_impl (remove_mapping m s) a =
    match lookup_impl m a with
    | Some y => if m_start y =? s then None else Some y
    | None => None
    end.
Proof.
  intros HI. unfold remove_mapping, bt_remove.
  assert (HI' : Inv (filter (fun y => negb (m_start y =? s)) m)) by (apply Inv_filter; assumption).
  destruct (lookup_impl m a) as [y|] eqn:E.
  - pose proof (lookup_impl_some _ _ _ E) as [Hy Hcy].
    destruct (m_start y =? s) eqn:C.
    + destruct (lookup_impl (filter _ m) a) as [w|] eqn:E'; [|reflexivity]. exfalso.
      pose proof (lookup_impl_some _ _ _ E') as [Hw Hcw]. apply filter_In in Hw. destruct Hw as [Hw Hne].
      assert (w = y).
      { apply (Inv_in_overlap_eq m); auto. unfold covers in *. unfold overlaps. lia. }
      subst. rewrite C in Hne. discriminate.
    + apply lookup_impl_complete; auto. apply filter_In. rewrite C. auto.
  - destruct (lookup_impl (filter _ m) a) as [w|] eqn:E'; [|reflexivity]. exfalso.
    pose proof (lookup_impl_some _ _ _ E') as [Hw Hcw]. apply filter_In in Hw. destruct Hw as [Hw _].
    rewrite (lookup_impl_none _ _ HI E w Hw) in Hcw. discriminate.
Qed.

Lemma step_Inv m o : Inv m -> wf_op o -> Inv (step m o).
Proof.
  intros HI Hw. destruct o as [x|s|]; cbn [step].
  - cbn in Hw. destruct (add_mapping_some m x Hw) as [m' E]. rewrite E.
    eapply add_mapping_Inv; eauto.
  - apply Inv_filter. assumption.
  - apply Inv_nil.
Qed.

Lemma run_from_Inv ops m : Inv m -> WfOps ops -> Inv (fold_left step ops m).
Proof.
  revert m. induction ops as [|o ops IH]; intros m HI HW; cbn [fold_left]; [assumption|].
  inversion HW; subst. apply IH; [apply step_Inv; assumption|assumption].
Qed.

(* ------------------------------------------------------------------ *)
(* Refinement of the history specification.                            *)

Definition carry (ops : list op) (r : option mapping) : option mapping :=
  match r with
  | Some y => if survives ops y then Some y else None
  | None => None
  end.

Lemma refines_from ops : forall m a,
  Inv m -> WfOps ops ->
  lookup_impl (fold_left step ops m) a =
    match spec_lookup ops a with
    | Some y => Some y
    | None => carry ops (lookup_impl m a)
    end.
Proof.
  induction ops as [|o ops IH]; intros m a HI HW; cbn [fold_left spec_lookup].
  - unfold carry, survives. cbn. destruct (lookup_impl m a); reflexivity.
  - inversion HW as [|? ? Hwo HW']; subst.
    rewrite (IH (step m o) a (step_Inv _ _ HI Hwo) HW').
    destruct (spec_lookup ops a) as [y|]; [reflexivity|].
    destruct o as [x|s|]; cbn [step].
    + cbn in Hwo. destruct (add_mapping_some m x Hwo) as [m' E]. rewrite E.
      rewrite (lookup_after_add m x m' a HI Hwo E).
      destruct (covers x a) eqn:Cx; cbn [andb carry].
      * destruct (survives ops x); [reflexivity|].
        destruct (lookup_impl m a) as [y|] eqn:Ey; cbn [carry]; [|reflexivity].
        apply lookup_impl_some in Ey. destruct Ey as [_ Cy].
        unfold survives. cbn [forallb survives_op].
        replace (overlaps y x) with true; [reflexivity|].
        unfold covers, overlaps in *. lia.
      * destruct (lookup_impl m a) as [y|]; cbn [carry]; [|reflexivity].
        unfold survives. cbn [forallb survives_op].
        destruct (overlaps y x); reflexivity.
    + rewrite (lookup_after_remove m s a HI).
      destruct (lookup_impl m a) as [y|]; cbn [carry]; [|reflexivity].
      unfold survives. cbn [forallb survives_op].
      destruct (m_start y =? s); reflexivity.
    + unfold lookup_impl at 1. cbn [bt_last_le].
      destruct (lookup_impl m a) as [y|]; cbn [carry]; [|reflexivity].
      unfold survives. cbn [forallb survives_op]. reflexivity.
Qed.

Lemma refines_spec ops a : WfOps ops -> lookup_impl (run ops) a = spec_lookup ops a.
Proof.
  intros HW. unfold run. rewrite (refines_from ops [] a Inv_nil HW).
  destruct (spec_lookup ops a); reflexivity.
Qed.

Lemma no_overlap ops : WfOps ops -> Inv (run ops).
Proof. intros HW. apply run_from_Inv; [apply Inv_nil|assumption]. Qed.

(* ------------------------------------------------------------------ *)
(* convert_address and frames.                                         *)

Lemma convert_exact m a :
  convert_address m a =
    match lookup_impl m a with
    | Some y => Some ((m_rel y + (a - m_start y) mod two32) mod two32, m_val y,
                      two32 <=? m_rel y + (a - m_start y) mod two32)
    | None => None
    end.
Proof. unfold convert_address. destruct (lookup_impl m a); reflexivity. Qed.

Lemma convert_in_range m a y :
  lookup_impl m a = Some y -> m_rel y + (a - m_start y) < two32 ->
  convert_address m a = Some (m_rel y + (a - m_start y), m_val y, false).
Proof.
  intros E Hr. rewrite convert_exact, E.
  assert (H1 : (a - m_start y) mod two32 = a - m_start y) by (apply N.mod_small; lia).
  rewrite H1. rewrite N.mod_small by assumption.
  replace (two32 <=? m_rel y + (a - m_start y)) with false by lia. reflexivity.
Qed.

Lemma resolve_kernel_first kernel proc fa r v o :
  convert_address kernel (lookup_address fa) = Some (r, v, o) ->
  resolve_frame kernel proc fa = (InLib r v, o).
Proof. intros E. unfold resolve_frame, process_convert. rewrite E. reflexivity. Qed.

Lemma resolve_then_process kernel proc fa :
  convert_address kernel (lookup_address fa) = None ->
  resolve_frame kernel proc fa =
    match convert_address proc (lookup_address fa) with
    | Some (r, v, o) => (InLib r v, o)
    | None => (Unknown (lookup_address fa), false)
    end.
Proof. intros E. unfold resolve_frame, process_convert. rewrite E. reflexivity. Qed.

Lemma ret_addr_is_ip_minus_one kernel proc a :
  resolve_frame kernel proc (RetAddr a) = resolve_frame kernel proc (Ip (a - 1)).
Proof. reflexivity. Qed.

Lemma adj_ret_addr_is_ip kernel proc a :
  resolve_frame kernel proc (AdjRetAddr a) = resolve_frame kernel proc (Ip a).
Proof. reflexivity. Qed.

(* ------------------------------------------------------------------ *)
(* The driver used by the correspondence check, against the history     *)
(* specification: what every observation must be, computed from the     *)
(* history alone (this is the checker applied to implementation output).*)

Lemma wf_opb_wf o : wf_opb o = true -> wf_op o.
Proof. destruct o; cbn; intros; try exact I. lia. Qed.

Lemma WfOps_snoc ops o : WfOps ops -> wf_op o -> WfOps (ops ++ [o]).
Proof. intros H1 H2. apply Forall_app. split; [assumption|]. constructor; [assumption|constructor]. Qed.

Lemma run_snoc ops o : run (ops ++ [o]) = step (run ops) o.
Proof. unfold run. rewrite fold_left_app. reflexivity. Qed.

Lemma actions_refine debug acts : forall kh ph,
  WfOps kh -> WfOps ph -> forallb wf_action acts = true ->
  run_actions debug (run kh) (run ph) acts = spec_actions debug kh ph acts.
Proof.
  induction acts as [|act acts IH]; intros kh ph Hk Hp Hw; [reflexivity|].
  cbn [forallb] in Hw. apply andb_true_iff in Hw. destruct Hw as [Hw1 Hw].
  destruct act as [o|o|a|fa]; cbn [run_actions spec_actions].
  - rewrite <- run_snoc. apply IH; auto. apply WfOps_snoc; auto. apply wf_opb_wf. exact Hw1.
  - rewrite <- run_snoc. apply IH; auto. apply WfOps_snoc; auto. apply wf_opb_wf. exact Hw1.
  - rewrite convert_exact, (refines_spec ph a Hp). fold (conv_of (spec_lookup ph a) a).
    f_equal. apply IH; auto.
  - unfold resolve_frame, process_convert.
    rewrite !convert_exact, (refines_spec kh _ Hk), (refines_spec ph _ Hp).
    fold (conv_of (spec_lookup kh (lookup_address fa)) (lookup_address fa)).
    fold (conv_of (spec_lookup ph (lookup_address fa)) (lookup_address fa)).
    f_equal; [|apply IH; auto].
    destruct (conv_of (spec_lookup kh (lookup_address fa)) (lookup_address fa)) as [[[r v] o]|]; [reflexivity|].
    destruct (conv_of (spec_lookup ph (lookup_address fa)) (lookup_address fa)) as [[[r v] o]|]; reflexivity.
Qed.
