(* C03, marker payloads: for every sequence of register_marker_type / add_marker calls that respects the API, serializing
   the marker data column does not panic and hands every marker exactly the field values its add_marker call supplied, in
   field order - whatever mix of schemas, string and number fields. *)
From SV Require Import Model.MarkerTable.
From Coq Require Import Lia Arith.

(* the flat vectors laid out marker after marker *)
Inductive Laid (schemas : list schema) : list nat -> list N -> list N -> list (list N) -> Prop :=
| L_nil : Laid schemas [] [] [] []
| L_cons ty sc types svs nvs sv nv vals done :
    nth_error schemas ty = Some sc -> length svs = scount sc -> length nvs = ncount sc ->
    take_fields sc svs nvs = Some vals -> Laid schemas types sv nv done ->
    Laid schemas (ty :: types) (svs ++ sv) (nvs ++ nv) (vals :: done).

Lemma firstn_exact {A} (a b : list A) n : length a = n -> firstn n (a ++ b) = a.
Proof. intros <-. rewrite firstn_app, Nat.sub_diag, firstn_all. cbn. apply app_nil_r. Qed.
Lemma skipn_exact {A} (a b : list A) n : length a = n -> skipn n (a ++ b) = b.
Proof. intros <-. rewrite skipn_app, Nat.sub_diag, skipn_all. reflexivity. Qed.

Lemma Laid_decode schemas types sv nv done : Laid schemas types sv nv done -> data_column schemas types sv nv = Some done.
Proof.
  induction 1 as [|ty sc types svs nvs sv nv vals done Hn Hs Hm Ht _ IH]; [reflexivity|].
  cbn [data_column]. rewrite Hn.
  replace ((scount sc <=? length (svs ++ sv)) && (ncount sc <=? length (nvs ++ nv))) with true.
  2:{ symmetry. apply andb_true_iff. split; apply Nat.leb_le; rewrite app_length; lia. }
  rewrite (firstn_exact _ _ _ Hs), (firstn_exact _ _ _ Hm), (skipn_exact _ _ _ Hs), (skipn_exact _ _ _ Hm), Ht, IH. reflexivity.
Qed.

Lemma Laid_snoc schemas ty sc svs nvs vals :
  nth_error schemas ty = Some sc -> length svs = scount sc -> length nvs = ncount sc -> take_fields sc svs nvs = Some vals ->
  forall types sv nv done, Laid schemas types sv nv done -> Laid schemas (types ++ [ty]) (sv ++ svs) (nv ++ nvs) (done ++ [vals]).
Proof.
  intros Hn Hs Hm Ht. induction 1 as [|ty' sc' types svs' nvs' sv nv vals' done Hn' Hs' Hm' Ht' _ IH].
  - cbn [app]. rewrite <- (app_nil_r svs), <- (app_nil_r nvs). econstructor; eauto. constructor.
  - cbn [app]. rewrite <- !app_assoc. econstructor; eauto.
Qed.

Lemma Laid_ext schemas ext types sv nv done : Laid schemas types sv nv done -> Laid (schemas ++ ext) types sv nv done.
Proof.
  induction 1 as [|ty sc types svs nvs sv nv vals done Hn Hs Hm Ht _ IH]; [constructor|].
  econstructor; eauto. rewrite nth_error_app1; [exact Hn|]. apply nth_error_Some. congruence.
Qed.

(* add_marker's loop: the values land at the end of the two vectors, and reading them back field by field gives them back *)
Lemma push_fields_spec : forall sc vals sv nv, length vals = length sc ->
  exists svs nvs, push_fields sc vals sv nv = Some (sv ++ svs, nv ++ nvs) /\ length svs = scount sc /\ length nvs = ncount sc /\
                  take_fields sc svs nvs = Some vals.
Proof.
  induction sc as [|k r IH]; intros vals sv nv Hl.
  - destruct vals; [|discriminate]. exists [], []. cbn. rewrite !app_nil_r. repeat split; reflexivity.
  - destruct vals as [|v vs]; [discriminate|]. cbn in Hl. injection Hl as Hl.
    cbn [push_fields]. unfold scount, ncount. cbn [filter]. destruct (is_str k) eqn:K; cbn [negb].
    + destruct (IH vs (sv ++ [v]) nv Hl) as (svs & nvs & H1 & H2 & H3 & H4).
      exists (v :: svs), nvs. rewrite H1, <- app_assoc. cbn [app length take_fields]. rewrite K, H4.
      repeat split; [f_equal; exact H2|exact H3].
    + destruct (IH vs sv (nv ++ [v]) Hl) as (svs & nvs & H1 & H2 & H3 & H4).
      exists svs, (v :: nvs). rewrite H1, <- app_assoc. cbn [app length take_fields]. rewrite K, H4.
      repeat split; [exact H2|f_equal; exact H3].
Qed.

Lemma mrun_laid : forall ops s done,
  Laid (m_schemas s) (m_types s) (m_svals s) (m_nvals s) done -> ops_ok (m_schemas s) ops ->
  exists s', mrun s ops = Some s' /\ Laid (m_schemas s') (m_types s') (m_svals s') (m_nvals s') (done ++ supplied ops).
Proof.
  induction ops as [|o r IH]; intros s done HL Hok.
  - exists s. cbn. rewrite app_nil_r. split; [reflexivity|exact HL].
  - destruct o as [sc|ty vals]; cbn [ops_ok] in Hok; cbn [mrun mstep supplied flat_map].
    + apply (IH (mkM (m_schemas s ++ [sc]) (m_types s) (m_svals s) (m_nvals s)) done); [apply Laid_ext; exact HL|exact Hok].
    + destruct Hok as [(sc & Hn & Hlen) Hok]. rewrite Hn.
      destruct (push_fields_spec sc vals (m_svals s) (m_nvals s) Hlen) as (svs & nvs & H1 & H2 & H3 & H4). rewrite H1.
      destruct (IH (mkM (m_schemas s) (m_types s ++ [ty]) (m_svals s ++ svs) (m_nvals s ++ nvs)) (done ++ [vals])) as (s' & R1 & R2).
      * cbn. apply (Laid_snoc _ ty sc svs nvs vals Hn H2 H3 H4). exact HL.
      * exact Hok.
      * exists s'. split; [exact R1|]. rewrite <- app_assoc in R2. exact R2.
Qed.

Theorem marker_fields_roundtrip ops : ops_ok [] ops ->
  exists s, mrun m_init ops = Some s /\ serialize_markers s = Some (supplied ops).
Proof.
  intros Hok. destruct (mrun_laid ops m_init [] (L_nil _) Hok) as (s & H1 & H2).
  exists s. split; [exact H1|]. apply Laid_decode. exact H2.
Qed.
