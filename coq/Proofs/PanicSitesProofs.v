(* Totality (no panic) of the transcribed sites that C08 names, assembled from the models of the other properties. *)
From SV Require Import Lib.Bytes Model.CodeIdStr Model.Symbolicate Proofs.SymbolicateProofs
  Model.LineBuffer Proofs.LineBufferProofs Model.BreakpadIndex Model.BreakpadLookup Model.AsmDecode Proofs.AsmDecodeProofs.
From Coq Require Import Lia ZifyBool ZifyN.
Open Scope N_scope.

Lemma elf_loop_total s : forall n i acc, elf_loop s i n acc <> CPanic.
Proof.
  induction n as [|m IH]; intros i acc; cbn [elf_loop]; [discriminate|].
  destruct (sget s _ _); [|discriminate]. destruct (radix16 255 b); [apply IH|discriminate].
Qed.

Lemma code_id_total s : code_id_from_str s <> CPanic.
Proof.
  unfold code_id_from_str. destruct (blen s <=? 17).
  - unfold pe_from_str. destruct ((blen s <? 9) || (16 <? blen s)); [discriminate|].
    destruct (sget s 0 8); [|discriminate]. destruct (sget s 8 (blen s)); [|discriminate].
    destruct (radix16 4294967295 b); [|discriminate]. destruct (radix16 4294967295 b0); discriminate.
  - destruct ((blen s =? 32) && forallb is_upper_hex s); [discriminate|]. apply elf_loop_total.
Qed.

Lemma symbolicate_total load look js : oracle_sane look -> query load look js <> RPanic.
Proof.
  intros Hs. destruct (forallb indices_ok js) eqn:E.
  - destruct (query_ok load look Hs js E) as [req [_ H]]. cbv zeta in H. rewrite H. discriminate.
  - rewrite (query_bad_index load look js E). discriminate.
Qed.

Lemma breakpad_lookup_total text ix a : lookup text ix a <> LPanic.
Proof.
  unfold lookup. destruct (find_sym (i_symbols ix) a None) as [[s|] next]; [|discriminate].
  destruct (s_kind s =? 0).
  - destruct (sub text (s_off s) (s_len s)); [|discriminate]. destruct (public_line b) as [[? ?]|]; discriminate.
  - destruct (sub text (s_off s) (s_len s)); [|discriminate]. destruct (parse_func b); [|discriminate].
    destruct (N.min (s_addr s + fi_size f) 4294967295 <=? a); [discriminate|].
    destruct (inline_frames _ _ _ _ _ _ _). destruct (last_line_le _ _ _); discriminate.
Qed.
