From SV Require Import Model.Symbolicate Model.SourceApi.
From Coq Require Import Lia ZifyBool ZifyN.
Open Scope N_scope.

Section Proofs.
Variable load : lib -> bool.
Variable frames : lib -> N -> option (list (option sfile)).

Notation source_query := (source_query load frames).
Notation reported_paths := (reported_paths frames).

(* a file is read only if the requested path is exactly the API spelling of a file of that offset's frames,
   and the file read is that frame's debug-info path (the first such frame), not the request string *)
Theorem only_listed l offset requested raw :
  source_query l offset requested = SRead raw ->
  load l = true /\
  exists fs pre post, frames l offset = Some fs /\ fs = pre ++ Some (requested, raw) :: post /\
    forall f, In f pre -> match f with Some (api, _) => api <> requested | None => True end.
Proof.
  unfold SourceApi.source_query. destruct (load l); cbn [negb]; [|discriminate].
  destruct (frames l offset) as [fs|]; [|discriminate].
  intros H. split; [reflexivity|]. exists fs.
  induction fs as [|f t IH]; [discriminate|]. cbn [find] in H.
  destruct f as [[api r]|].
  - destruct (api =? requested) eqn:E.
    + inversion H; subst. assert (api = requested) by lia. subst.
      exists [], t. split; [reflexivity|]. split; [reflexivity|]. intros ? [].
    + destruct (IH H) as [pre [post [_ [Ht Hpre]]]]. exists (Some (api, r) :: pre), post.
      split; [reflexivity|]. split; [cbn [app]; f_equal; exact Ht|].
      intros f [<-|Hf]; [lia|apply Hpre; exact Hf].
  - destruct (IH H) as [pre [post [_ [Ht Hpre]]]]. exists (None :: pre), post.
    split; [reflexivity|]. split; [cbn [app]; f_equal; exact Ht|].
    intros f [<-|Hf]; [exact I|apply Hpre; exact Hf].
Qed.

(* any other requested path is refused and nothing is read *)
Theorem refused_reads_nothing l offset requested :
  ~ In requested (reported_paths l offset) ->
  forall raw, source_query l offset requested <> SRead raw.
Proof.
  intros Hn raw H. destruct (only_listed _ _ _ _ H) as [_ [fs [pre [post [Hf [Hfs _]]]]]].
  apply Hn. unfold SourceApi.reported_paths. rewrite Hf, Hfs. apply in_flat_map.
  exists (Some (requested, raw)). split; [apply in_or_app; right; left; reflexivity|left; reflexivity].
Qed.

(* every path that /symbolicate/v5 reports for an offset is accepted for that offset *)
Theorem reported_paths_accepted l offset p :
  load l = true -> In p (reported_paths l offset) -> exists raw, source_query l offset p = SRead raw.
Proof.
  intros Hl Hin. unfold SourceApi.source_query. rewrite Hl. cbn [negb].
  unfold SourceApi.reported_paths in Hin. destruct (frames l offset) as [fs|]; [|contradiction].
  induction fs as [|f t IH]; [contradiction|]. cbn [flat_map] in Hin. cbn [find].
  destruct f as [[api r]|].
  - destruct (api =? p) eqn:E; [eexists; reflexivity|].
    cbn [app] in Hin. destruct Hin as [Hin|Hin]; [lia|]. exact (IH Hin).
  - exact (IH Hin).
Qed.

End Proofs.
