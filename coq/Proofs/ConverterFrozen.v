(* Frame condition of the converter: a profile thread / process entry that no live thread or process points at never changes again
   (names and lifetimes are frozen once a thread has exited or its process was retired). *)
From SV Require Import Model.Converter Proofs.ConverterProofs Proofs.ConverterNames.
From Coq Require Import Arith Lia.
Open Scope N_scope.

Definition proc_thread_handles (p : lproc) : list nat := lt_handle (lp_main p) :: map (fun kt => lt_handle (snd kt)) (lp_threads p).
Definition live_threads (s : cstate) : list nat := flat_map (fun kp => proc_thread_handles (snd kp)) (lprocs s).
Definition live_procs (s : cstate) : list nat := map (fun kp => lp_handle (snd kp)) (lprocs s).

Definition may_touch_t (s : cstate) (h : nat) : Prop := In h (live_threads s) \/ (length (pthreads s) <= h)%nat.
Definition may_touch_p (s : cstate) (h : nat) : Prop := In h (live_procs s) \/ (length (pprocs s) <= h)%nat.

(* s' was reached from s by touching only entries that s may touch *)
Record stepped (s s' : cstate) : Prop := mkStepped {
  st_threads : forall h, ~ may_touch_t s h -> nth_error (pthreads s') h = nth_error (pthreads s) h;
  st_procs : forall h, ~ may_touch_p s h -> nth_error (pprocs s') h = nth_error (pprocs s) h;
  st_live_t : forall h, In h (live_threads s') -> may_touch_t s h;
  st_live_p : forall h, In h (live_procs s') -> may_touch_p s h;
  st_len_t : (length (pthreads s) <= length (pthreads s'))%nat;
  st_len_p : (length (pprocs s) <= length (pprocs s'))%nat }.

Lemma stepped_refl s : stepped s s.
Proof. constructor; auto; intros h H; left; exact H. Qed.

Lemma stepped_trans a b c : stepped a b -> stepped b c -> stepped a c.
Proof.
  intros [A1 A2 A3 A4 A5 A6] [B1 B2 B3 B4 B5 B6].
  assert (Nt : forall h, ~ may_touch_t a h -> ~ may_touch_t b h).
  { intros h H [Hl|Hl]; [apply H; apply A3; exact Hl | apply H; right; lia]. }
  assert (Np : forall h, ~ may_touch_p a h -> ~ may_touch_p b h).
  { intros h H [Hl|Hl]; [apply H; apply A4; exact Hl | apply H; right; lia]. }
  constructor; try lia.
  - intros h H. rewrite B1 by (apply Nt; exact H). apply A1. exact H.
  - intros h H. rewrite B2 by (apply Np; exact H). apply A2. exact H.
  - intros h H. destruct (B3 _ H) as [Hl|Hl]; [apply A3; exact Hl | right; lia].
  - intros h H. destruct (B4 _ H) as [Hl|Hl]; [apply A4; exact Hl | right; lia].
Qed.

Lemma stepped_same s s' : pthreads s' = pthreads s -> pprocs s' = pprocs s -> lprocs s' = lprocs s -> stepped s s'.
Proof.
  intros H1 H2 H3. constructor; unfold live_threads, live_procs; rewrite ?H1, ?H2, ?H3; auto; intros h H; left; exact H.
Qed.

Lemma add_process_stepped s nm pid st s' h : add_process s nm pid st = (s', h) -> stepped s s'.
Proof.
  unfold add_process. destruct (unique (used_pids s) pid). intros H; inversion H; subst; clear H.
  constructor; cbn [pthreads pprocs lprocs]; unfold live_threads, live_procs; cbn [lprocs]; auto.
  - intros k Hk. rewrite nth_error_app1; [reflexivity|]. destruct (Nat.lt_ge_cases k (length (pprocs s))); [assumption | exfalso; apply Hk; right; assumption].
  - intros k Hk. left. exact Hk.
  - intros k Hk. left. exact Hk.
  - rewrite app_length. lia.
Qed.
Lemma add_thread_stepped s ph tid st m s' h : add_thread s ph tid st m = (s', h) -> stepped s s'.
Proof.
  unfold add_thread. destruct (unique (used_tids s) tid). intros H; inversion H; subst; clear H.
  constructor; cbn [pthreads pprocs lprocs]; unfold live_threads, live_procs; cbn [lprocs]; auto.
  - intros k Hk. rewrite nth_error_app1; [reflexivity|]. destruct (Nat.lt_ge_cases k (length (pthreads s))); [assumption | exfalso; apply Hk; right; assumption].
  - intros k Hk. left. exact Hk.
  - intros k Hk. left. exact Hk.
  - rewrite app_length. lia.
Qed.

Lemma map_thread_stepped s h f : may_touch_t s h -> stepped s (map_thread s h f).
Proof.
  intros Hh. constructor; cbn [map_thread pthreads pprocs lprocs]; unfold live_threads, live_procs; cbn [lprocs]; auto.
  - intros k Hk. rewrite nth_error_upd_nth. destruct (Nat.eqb_spec k h); [subst; contradiction | reflexivity].
  - intros k Hk. left. exact Hk.
  - intros k Hk. left. exact Hk.
  - rewrite length_upd_nth. lia.
Qed.
Lemma map_process_stepped s h f : may_touch_p s h -> stepped s (map_process s h f).
Proof.
  intros Hh. constructor; cbn [map_process pthreads pprocs lprocs]; unfold live_threads, live_procs; cbn [lprocs]; auto.
  - intros k Hk. rewrite nth_error_upd_nth. destruct (Nat.eqb_spec k h); [subst; contradiction | reflexivity].
  - intros k Hk. left. exact Hk.
  - intros k Hk. left. exact Hk.
  - rewrite length_upd_nth. lia.
Qed.

(* replacing a table entry by a process whose handles the old state may touch *)
Lemma in_live_threads s h : In h (live_threads s) <-> exists pid p, In (pid, p) (lprocs s) /\ In h (proc_thread_handles p).
Proof.
  unfold live_threads. rewrite in_flat_map. split.
  - intros [[pid p] [H1 H2]]. exists pid, p. auto.
  - intros [pid [p [H1 H2]]]. exists (pid, p). auto.
Qed.
Lemma put_proc_stepped s pid p : (forall h, In h (proc_thread_handles p) -> may_touch_t s h) -> may_touch_p s (lp_handle p) -> stepped s (put_proc s pid p).
Proof.
  intros Ht Hp. constructor; cbn [put_proc with_lprocs pthreads pprocs lprocs]; auto.
  - intros h H. apply in_live_threads in H. destruct H as [k [q [H1 H2]]]. cbn [put_proc with_lprocs lprocs] in H1. apply in_aset in H1.
    destruct H1 as [[-> ->]|H1]; [apply Ht; exact H2 | left; apply in_live_threads; eauto].
  - intros h H. unfold live_procs in H. cbn [put_proc with_lprocs lprocs] in H. apply in_map_iff in H. destruct H as [[k q] [E H1]]. cbn in E. subst h.
    apply in_aset in H1. destruct H1 as [[-> ->]|H1]; [exact Hp | left; unfold live_procs; apply in_map_iff; exists (k, q); auto].
Qed.

(* the same, relative to an earlier state *)
Lemma stepped_put s s2 pid p : stepped s s2 -> (forall h, In h (proc_thread_handles p) -> may_touch_t s h) -> may_touch_p s (lp_handle p) ->
  stepped s (put_proc s2 pid p).
Proof.
  intros [A1 A2 A3 A4 A5 A6] Ht Hp. constructor; cbn [put_proc with_lprocs pthreads pprocs lprocs]; auto.
  - intros h H. apply in_live_threads in H. destruct H as [k [q [H1 H2]]]. cbn [put_proc with_lprocs lprocs] in H1. apply in_aset in H1.
    destruct H1 as [[-> ->]|H1]; [apply Ht; exact H2 | apply A3; apply in_live_threads; eauto].
  - intros h H. unfold live_procs in H. cbn [put_proc with_lprocs lprocs] in H. apply in_map_iff in H. destruct H as [[k q] [E H1]]. cbn in E. subst h.
    apply in_aset in H1. destruct H1 as [[-> ->]|H1]; [exact Hp | apply A4; unfold live_procs; apply in_map_iff; exists (k, q); auto].
Qed.

Lemma live_of_lookup s pid p : alookup pid (lprocs s) = Some p ->
  (forall h, In h (proc_thread_handles p) -> In h (live_threads s)) /\ In (lp_handle p) (live_procs s).
Proof.
  intros H. apply alookup_in in H. split.
  - intros h Hh. apply in_live_threads. eauto.
  - unfold live_procs. apply in_map_iff. exists (pid, p). auto.
Qed.

Lemma main_handle_in p : In (lt_handle (lp_main p)) (proc_thread_handles p).
Proof. left. reflexivity. Qed.
Lemma thread_handle_in p tid t : In (tid, t) (lp_threads p) -> In (lt_handle t) (proc_thread_handles p).
Proof. intros H. right. apply in_map_iff. exists (tid, t). auto. Qed.

(* ---- primitives, relative to a base state s ---- *)
Lemma rel_map_thread s s2 h f : stepped s s2 -> may_touch_t s h -> stepped s (map_thread s2 h f).
Proof.
  intros [A1 A2 A3 A4 A5 A6] Hh. constructor; cbn [map_thread pthreads pprocs lprocs]; unfold live_threads, live_procs; cbn [lprocs]; auto.
  - intros k Hk. rewrite nth_error_upd_nth. destruct (Nat.eqb_spec k h); [subst; contradiction | apply A1; exact Hk].
  - rewrite length_upd_nth. exact A5.
Qed.
Lemma rel_map_process s s2 h f : stepped s s2 -> may_touch_p s h -> stepped s (map_process s2 h f).
Proof.
  intros [A1 A2 A3 A4 A5 A6] Hh. constructor; cbn [map_process pthreads pprocs lprocs]; unfold live_threads, live_procs; cbn [lprocs]; auto.
  - intros k Hk. rewrite nth_error_upd_nth. destruct (Nat.eqb_spec k h); [subst; contradiction | apply A2; exact Hk].
  - rewrite length_upd_nth. exact A6.
Qed.
Lemma rel_add_thread s s2 ph tid st m s3 h : stepped s s2 -> add_thread s2 ph tid st m = (s3, h) -> stepped s s3 /\ may_touch_t s h.
Proof.
  intros S2 E. pose proof (add_thread_stepped _ _ _ _ _ _ _ E) as S3. destruct (add_thread_spec _ _ _ _ _ _ _ E) as [_ [Hh _]].
  split; [eapply stepped_trans; eauto|]. right. subst h. exact (st_len_t _ _ S2).
Qed.
Lemma rel_add_process s s2 nm pid st s3 h : stepped s s2 -> add_process s2 nm pid st = (s3, h) -> stepped s s3 /\ may_touch_p s h.
Proof.
  intros S2 E. pose proof (add_process_stepped _ _ _ _ _ _ E) as S3. destruct (add_process_spec _ _ _ _ _ _ E) as [_ [Hh _]].
  split; [eapply stepped_trans; eauto|]. right. subst h. exact (st_len_p _ _ S2).
Qed.
Lemma rel_lookup s s2 pid p : stepped s s2 -> alookup pid (lprocs s2) = Some p ->
  (forall h, In h (proc_thread_handles p) -> may_touch_t s h) /\ may_touch_p s (lp_handle p).
Proof.
  intros S2 E. destruct (live_of_lookup s2 pid p E) as [Lt Lp]. split; [intros h Hh; apply (st_live_t _ _ S2); apply Lt; exact Hh | apply (st_live_p _ _ S2); exact Lp].
Qed.

Lemma rel_get_by_pid s s2 pid s3 p : stepped s s2 -> get_by_pid s2 pid = (s3, p) ->
  stepped s s3 /\ (forall h, In h (proc_thread_handles p) -> may_touch_t s h) /\ may_touch_p s (lp_handle p).
Proof.
  intros S2. unfold get_by_pid. destruct (alookup pid (lprocs s2)) as [p0|] eqn:E.
  - intros H; inversion H; subst. split; [exact S2 | exact (rel_lookup s s3 pid p S2 E)].
  - destruct (add_process s2 (NPid pid) pid 0) as [s2a ph] eqn:E1. destruct (add_thread s2a ph pid 0 true) as [s2b th] eqn:E2. intros H; inversion H; subst; clear H.
    destruct (rel_add_process _ _ _ _ _ _ _ S2 E1) as [Sa Tp]. destruct (rel_add_thread _ _ _ _ _ _ _ _ Sa E2) as [Sb Tt].
    assert (Ht : forall h, In h (proc_thread_handles (mkLP ph None (mkLT th None None) [] [])) -> may_touch_t s h) by (intros h [<-|[]]; exact Tt).
    split; [|split; [exact Ht | exact Tp]].
    change (with_lprocs s2b (aset pid (mkLP ph None (mkLT th None None) [] []) (lprocs s2b))) with (put_proc s2b pid (mkLP ph None (mkLT th None None) [] [])).
    apply stepped_put; assumption.
Qed.

Lemma rel_get_new_process s s2 pid name st : stepped s s2 -> stepped s (fst (get_new_process s2 pid name st)).
Proof.
  intros S2. unfold get_new_process. destruct (alookup pid (lprocs s2)) as [p|] eqn:E.
  - destruct (rel_lookup s s2 pid p S2 E) as [Lt Lp].
    destruct (lt_last (lp_main p)); cbn [fst]; [exact S2|].
    apply rel_map_thread; [apply rel_map_process; assumption | apply Lt; apply main_handle_in].
  - destruct (add_process s2 (oname pid name) pid st) as [s2a ph] eqn:E1. destruct (add_thread s2a ph pid st true) as [s2b th] eqn:E2.
    destruct (rel_add_process _ _ _ _ _ _ _ S2 E1) as [Sa Tp]. destruct (rel_add_thread _ _ _ _ _ _ _ _ Sa E2) as [Sb Tt]. cbn [fst].
    set (s3 := match name with Some n => map_thread s2b th (t_set_name n) | None => s2b end).
    assert (S3 : stepped s s3) by (unfold s3; destruct name; [apply rel_map_thread; assumption | exact Sb]).
    change (with_lprocs s3 (aset pid (mkLP ph name (mkLT th name None) [] []) (lprocs s3))) with (put_proc s3 pid (mkLP ph name (mkLT th name None) [] [])).
    apply stepped_put; [exact S3 | intros h [<-|[]]; exact Tt | exact Tp].
Qed.

Lemma handles_with_threads p l : forall h, In h (proc_thread_handles (p_with_threads p l)) -> h = lt_handle (lp_main p) \/ exists tid t, In (tid, t) l /\ h = lt_handle t.
Proof.
  intros h [H|H]; [left; symmetry; exact H|]. right. cbn [p_with_threads lp_threads] in H. apply in_map_iff in H. destruct H as [[tid t] [E Hin]]. exists tid, t. cbn in E. auto.
Qed.

Lemma rel_get_thread_by_tid s s2 pid p tid s3 p' t : stepped s s2 ->
  (forall h, In h (proc_thread_handles p) -> may_touch_t s h) -> may_touch_p s (lp_handle p) ->
  get_thread_by_tid s2 pid p tid = (s3, p', t) ->
  stepped s s3 /\ (forall h, In h (proc_thread_handles p') -> may_touch_t s h) /\ may_touch_p s (lp_handle p') /\ may_touch_t s (lt_handle t).
Proof.
  intros S2 Lt Lp. unfold get_thread_by_tid. destruct (tid =? pid).
  - intros H; inversion H; subst. split; [exact S2|]. split; [exact Lt|]. split; [exact Lp | apply Lt; apply main_handle_in].
  - destruct (alookup tid (lp_threads p)) as [t0|] eqn:El.
    + intros H; inversion H; subst. split; [exact S2|]. split; [exact Lt|]. split; [exact Lp|]. apply Lt. eapply thread_handle_in. apply alookup_in. exact El.
    + destruct (add_thread s2 (lp_handle p) tid 0 false) as [s2a th] eqn:E1. intros H; inversion H; subst; clear H.
      destruct (rel_add_thread _ _ _ _ _ _ _ _ S2 E1) as [Sa Tt].
      assert (Lt' : forall h, In h (proc_thread_handles (p_with_threads p (aset tid (mkLT th None None) (lp_threads p)))) -> may_touch_t s h).
      { intros h Hh. apply handles_with_threads in Hh. destruct Hh as [->|[k [q [Hin ->]]]]; [apply Lt; apply main_handle_in|].
        apply in_aset in Hin. destruct Hin as [[-> ->]|Hin]; [exact Tt | apply Lt; eapply thread_handle_in; exact Hin]. }
      split; [apply stepped_put; assumption|]. split; [exact Lt'|]. split; [exact Lp | exact Tt].
Qed.

Lemma rel_get_new_thread s s2 pid p tid name st : stepped s s2 ->
  (forall h, In h (proc_thread_handles p) -> may_touch_t s h) -> may_touch_p s (lp_handle p) ->
  stepped s (get_new_thread s2 pid p tid name st).
Proof.
  intros S2 Lt Lp. unfold get_new_thread. destruct (tid =? pid); [exact S2|].
  destruct (alookup tid (lp_threads p)) as [t0|] eqn:El.
  - destruct (lt_last t0); [exact S2|]. apply rel_map_thread; [exact S2|]. apply Lt. eapply thread_handle_in. apply alookup_in. exact El.
  - destruct (add_thread s2 (lp_handle p) tid st false) as [s2a th] eqn:E1. destruct (rel_add_thread _ _ _ _ _ _ _ _ S2 E1) as [Sa Tt].
    set (s3 := match name with Some n => map_thread s2a th (t_set_name n) | None => s2a end).
    assert (S3 : stepped s s3) by (unfold s3; destruct name; [apply rel_map_thread; assumption | exact Sa]).
    apply stepped_put; [exact S3 | | exact Lp].
    intros h Hh. apply handles_with_threads in Hh. destruct Hh as [->|[k [q [Hin ->]]]]; [apply Lt; apply main_handle_in|].
    apply in_aset in Hin. destruct Hin as [[-> ->]|Hin]; [exact Tt | apply Lt; eapply thread_handle_in; exact Hin].
Qed.

Lemma rel_remove_thread s s2 pid p tid e : stepped s s2 ->
  (forall h, In h (proc_thread_handles p) -> may_touch_t s h) -> may_touch_p s (lp_handle p) ->
  stepped s (remove_thread s2 pid p tid e).
Proof.
  intros S2 Lt Lp. unfold remove_thread. destruct (alookup tid (lp_threads p)) as [t0|] eqn:El; [|exact S2].
  apply stepped_put; [apply rel_map_thread; [exact S2 | apply Lt; eapply thread_handle_in; apply alookup_in; exact El] | | exact Lp].
  intros h Hh. apply handles_with_threads in Hh. destruct Hh as [->|[k [q [Hin ->]]]]; [apply Lt; apply main_handle_in|].
  apply in_aremove in Hin. apply Lt. eapply thread_handle_in. exact Hin.
Qed.

Lemma rel_fold_end s (l : list (N * lthread)) e : forall s2, stepped s s2 -> (forall tid t, In (tid, t) l -> may_touch_t s (lt_handle t)) ->
  stepped s (fold_left (fun x kt => map_thread x (lt_handle (snd kt)) (t_set_end e)) l s2).
Proof.
  induction l as [|x l IH]; intros s2 S2 H; cbn [fold_left]; [exact S2|].
  apply IH; [apply rel_map_thread; [exact S2 | destruct x as [k t]; eapply H; left; reflexivity] | intros tid t Hin; eapply H; right; exact Hin].
Qed.

Lemma rel_remove_process s s2 pid e : stepped s s2 -> stepped s (remove_process s2 pid e).
Proof.
  intros S2. unfold remove_process. destruct (alookup pid (lprocs s2)) as [p|] eqn:E; [|exact S2].
  destruct (rel_lookup s s2 pid p S2 E) as [Lt Lp].
  set (s3 := fold_left _ (lp_threads p) s2).
  assert (S3 : stepped s s3) by (apply rel_fold_end; [exact S2 | intros tid t Hin; apply Lt; eapply thread_handle_in; exact Hin]).
  assert (S4 : stepped s (map_process (map_thread s3 (lt_handle (lp_main p)) (t_set_end e)) (lp_handle p) (p_set_end e))).
  { apply rel_map_process; [apply rel_map_thread; [exact S3 | apply Lt; apply main_handle_in] | exact Lp]. }
  destruct S4 as [A1 A2 A3 A4 A5 A6]. constructor; cbn [pthreads pprocs lprocs] in *; auto.
  - intros h H. apply in_live_threads in H. destruct H as [k [q [H1 H2]]]. cbn [lprocs] in H1. apply in_aremove in H1. apply A3. apply in_live_threads. eauto.
  - intros h H. unfold live_procs in H. cbn [lprocs] in H. apply in_map_iff in H. destruct H as [[k q] [E2 H1]]. apply in_aremove in H1. apply A4. unfold live_procs. apply in_map_iff. exists (k, q). auto.
Qed.

Section StepFrozen.
  Variable origin : N.

  Lemma step_stepped s r : stepped s (step origin s r).
  Proof.
    pose proof (stepped_refl s) as S0.
    destruct r as [pid ppid tid ptid ts | pid tid ts | pid tid name ex ts | pid tid ts | pid tid | pid tid]; cbn [step].
    - destruct (get_by_pid s ppid) as [s1 parent] eqn:E1. destruct (rel_get_by_pid s s ppid s1 parent S0 E1) as [S1 [Lt Lp]].
      destruct (negb (pid =? ppid)); [apply rel_get_new_process; exact S1|].
      destruct (get_thread_by_tid s1 ppid parent ptid) as [[s2 parent'] pt] eqn:E2.
      destruct (rel_get_thread_by_tid s s1 ppid parent ptid s2 parent' pt S1 Lt Lp E2) as [S2 [Lt' [Lp' _]]].
      apply rel_get_new_thread; assumption.
    - destruct (tid =? pid); [apply rel_remove_process; exact S0|].
      destruct (get_by_pid s pid) as [s1 p] eqn:E1. destruct (rel_get_by_pid s s pid s1 p S0 E1) as [S1 [Lt Lp]].
      apply rel_remove_thread; assumption.
    - destruct ex.
      + destruct (tid =? pid).
        * apply rel_get_new_process. apply rel_remove_process. exact S0.
        * destruct (get_by_pid s pid) as [s1 p] eqn:E1. destruct (rel_get_by_pid s s pid s1 p S0 E1) as [S1 [Lt Lp]].
          pose proof (rel_remove_thread s s1 pid p tid (rec_time origin s ts) S1 Lt Lp) as S2.
          destruct (alookup pid (lprocs (remove_thread s1 pid p tid (rec_time origin s ts)))) as [p2|] eqn:E2; [|exact S2].
          destruct (rel_lookup s _ pid p2 S2 E2) as [Lt2 Lp2]. apply rel_get_new_thread; assumption.
      + destruct (tid =? pid).
        * destruct (alookup pid (lprocs s)) as [p|] eqn:E; [|apply rel_get_new_process; exact S0].
          destruct (match lp_name p with Some n => n =? name | None => false end); [exact S0|].
          destruct (rel_lookup s s pid p S0 E) as [Lt Lp].
          apply stepped_put; [apply rel_map_thread; [apply rel_map_process; assumption | apply Lt; apply main_handle_in] | | exact Lp].
          intros h [<-|Hh]; [apply Lt; left; reflexivity | apply Lt; right; exact Hh].
        * destruct (get_by_pid s pid) as [s1 p] eqn:E1. destruct (rel_get_by_pid s s pid s1 p S0 E1) as [S1 [Lt Lp]].
          destruct (alookup tid (lp_threads p)) as [th|] eqn:El; [|apply rel_get_new_thread; assumption].
          destruct (match lt_name th with Some n => n =? name | None => false end); [exact S1|].
          assert (Tth : may_touch_t s (lt_handle th)) by (apply Lt; eapply thread_handle_in; apply alookup_in; exact El).
          apply stepped_put; [apply rel_map_thread; assumption | | exact Lp].
          intros h Hh. apply handles_with_threads in Hh. destruct Hh as [->|[k [q [Hin ->]]]]; [apply Lt; apply main_handle_in|].
          apply in_aset in Hin. destruct Hin as [[-> ->]|Hin]; [exact Tth | apply Lt; eapply thread_handle_in; exact Hin].
    - destruct (tid =? 0); [exact S0|].
      set (s0 := mkC (pprocs s) (pthreads s) (used_pids s) (used_tids s) (lprocs s) (retired s) ts).
      assert (S00 : stepped s s0) by (apply stepped_same; reflexivity).
      destruct (get_by_pid s0 pid) as [s1 p] eqn:E1. destruct (rel_get_by_pid s s0 pid s1 p S00 E1) as [S1 [Lt Lp]].
      destruct (get_thread_by_tid s1 pid p tid) as [[s2 p2] t] eqn:E2.
      destruct (rel_get_thread_by_tid s s1 pid p tid s2 p2 t S1 Lt Lp E2) as [S2 [Lt2 [Lp2 Tt]]].
      destruct (match lt_last t with Some l => l =? ts | None => false end); [exact S2|].
      apply stepped_put; [exact S2 | |].
      + destruct (tid =? pid); cbn [lp_main lp_threads lp_handle p_with_main p_with_threads proc_thread_handles].
        * intros h [<-|Hh]; [exact Tt | apply Lt2; right; exact Hh].
        * intros h [<-|Hh]; [apply Lt2; left; reflexivity|]. apply in_map_iff in Hh. destruct Hh as [[k q] [<- Hin]]. apply in_aset in Hin.
          destruct Hin as [[-> ->]|Hin]; [exact Tt | apply Lt2; eapply thread_handle_in; exact Hin].
      + destruct (tid =? pid); exact Lp2.
    - destruct (get_by_pid s pid) as [s1 p] eqn:E1. destruct (rel_get_by_pid s s pid s1 p S0 E1) as [S1 [Lt Lp]].
      destruct (cur_time s =? origin); [exact S1|].
      destruct (get_thread_by_tid s1 pid p tid) as [[s2 p2] t] eqn:E2.
      destruct (rel_get_thread_by_tid s s1 pid p tid s2 p2 t S1 Lt Lp E2) as [S2 _]. exact S2.
    - destruct (tid =? 0); [exact S0|].
      destruct (get_by_pid s pid) as [s1 p] eqn:E1. destruct (rel_get_by_pid s s pid s1 p S0 E1) as [S1 [Lt Lp]].
      destruct (get_thread_by_tid s1 pid p tid) as [[s2 p2] t] eqn:E2.
      destruct (rel_get_thread_by_tid s s1 pid p tid s2 p2 t S1 Lt Lp E2) as [S2 _]. exact S2.
  Qed.

  Lemma run_stepped rs : forall s, stepped s (fold_left (step origin) rs s).
  Proof. induction rs as [|r rs IH]; intros s; cbn [fold_left]; [apply stepped_refl | eapply stepped_trans; [apply step_stepped | apply IH]]. Qed.

  (* an entry that exists and that no live thread points at is never modified again, whatever records follow *)
  Theorem frozen_thread_entry s rs h e : nth_error (pthreads s) h = Some e -> ~ In h (live_threads s) ->
    nth_error (pthreads (fold_left (step origin) rs s)) h = Some e.
  Proof.
    intros He Hn. rewrite (st_threads _ _ (run_stepped rs s) h); [exact He|].
    intros [H|H]; [exact (Hn H) | apply nth_error_None in H; congruence].
  Qed.
  Theorem frozen_process_entry s rs h e : nth_error (pprocs s) h = Some e -> ~ In h (live_procs s) ->
    nth_error (pprocs (fold_left (step origin) rs s)) h = Some e.
  Proof.
    intros He Hn. rewrite (st_procs _ _ (run_stepped rs s) h); [exact He|].
    intros [H|H]; [exact (Hn H) | apply nth_error_None in H; congruence].
  Qed.
End StepFrozen.
