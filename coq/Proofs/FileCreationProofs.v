(* Invariant of the create_file_cleanly protocol (Model/FileCreation.v) over all schedules, kills and failures. *)
From SV Require Import Model.FileCreation.
From Coq Require Import Lia.

Arguments upd : simpl never.

Lemma upd_same {A} (f : nat -> A) k v : upd f k v k = v.
Proof. unfold upd. rewrite Nat.eqb_refl. reflexivity. Qed.
Lemma upd_other {A} (f : nat -> A) k v x : x <> k -> upd f k v x = f x.
Proof. intros H. unfold upd. destruct (Nat.eqb_spec x k); [contradiction|reflexivity]. Qed.

Lemma chunks_of_S w n : chunks_of w (S n) = chunks_of w n ++ [(w, n)].
Proof. unfold chunks_of. rewrite seq_S, map_app. reflexivity. Qed.

Definition critical (p : pc) : bool :=
  match p with Checked _ | Writing _ _ _ | Written _ | WFailed _ | WFailed2 _ => true | _ => false end.
Definition after_dest (p : pc) : bool :=
  match p with Renamed _ | SuccUnlocked | ExLocked _ | ExUnlocked | ExHandling | Done RWritten | Done RExisting => true | _ => false end.

Lemma critical_holds p : critical p = true -> exists li, holds p = Some li /\ fd_of p = Some li.
Proof. destruct p; cbn; try discriminate; eauto. Qed.
Lemma holds_fd p li : holds p = Some li -> fd_of p = Some li.
Proof. destruct p; cbn; try discriminate; auto. Qed.

Section Proofs.
  Variable plan : nat -> nat * bool.

  Record Inv (s : st) : Prop := mkInv {
    iA : forall c li, fd_of (procs s c) = Some li -> dest s = None -> lockp s = Some li;
    iB1 : forall c li, holds (procs s c) = Some li -> holder s li = Some c;
    iB2 : forall li c, holder s li = Some c -> holds (procs s c) = Some li;
    iC : forall c, critical (procs s c) = true -> dest s = None;
    iD1 : forall c li p j, procs s c = Writing li p j -> part s = Some p /\ content s p = chunks_of c j /\ j <= fst (plan c);
    iD2 : forall c li, procs s c = Written li -> exists p, part s = Some p /\ content s p = chunks_of c (fst (plan c)) /\ snd (plan c) = true;
    iE : forall d, dest s = Some d -> complete plan s d;
    iF : forall c, after_dest (procs s c) = true -> dest s <> None;
    iG1 : forall c li, fd_of (procs s c) = Some li -> li < next s;
    iG3 : forall l, lockp s = Some l -> l < next s;
    iH : renames s <= 1 /\ (dest s = None -> renames s = 0)
  }.

  Lemma inv_init : Inv init.
  Proof. constructor; cbn; intros; try discriminate; auto. Qed.

  (* mutual exclusion of the critical section *)
  Lemma mutex s c c' : Inv s -> critical (procs s c) = true -> critical (procs s c') = true -> c = c'.
  Proof.
    intros I H1 H2.
    pose proof (iC s I _ H1) as Hd.
    destruct (critical_holds _ H1) as [l1 [Hh1 Hf1]]. destruct (critical_holds _ H2) as [l2 [Hh2 Hf2]].
    pose proof (iA s I _ _ Hf1 Hd) as L1. pose proof (iA s I _ _ Hf2 Hd) as L2.
    assert (l1 = l2) by congruence. subst l2.
    pose proof (iB1 s I _ _ Hh1). pose proof (iB1 s I _ _ Hh2). congruence.
  Qed.

  Ltac upd_case x c :=
    destruct (Nat.eq_dec x c) as [->|Hxc]; [rewrite ?upd_same in * | rewrite ?upd_other in * by assumption].

  (* (1) a step that only changes the acting creator's program counter *)
  Lemma inv_set_pc s c q :
    Inv s ->
    (forall li, fd_of q = Some li -> (dest s = None -> lockp s = Some li) /\ li < next s) ->
    holds q = holds (procs s c) ->
    (critical q = true -> dest s = None) ->
    (forall li p j, q = Writing li p j -> part s = Some p /\ content s p = chunks_of c j /\ j <= fst (plan c)) ->
    (forall li, q = Written li -> exists p, part s = Some p /\ content s p = chunks_of c (fst (plan c)) /\ snd (plan c) = true) ->
    (after_dest q = true -> dest s <> None) ->
    Inv (set_pc s c q).
  Proof.
    intros I Hfd Hh Hcr Hw Hwr Haf. unfold set_pc. constructor; cbn [procs content next holder dest part lockp renames].
    - intros x li H Hd. upd_case x c; [apply Hfd; auto | exact (iA s I _ _ H Hd)].
    - intros x li H. upd_case x c; [rewrite Hh in H; exact (iB1 s I _ _ H) | exact (iB1 s I _ _ H)].
    - intros li x H. pose proof (iB2 s I _ _ H) as H'. upd_case x c; [rewrite Hh; auto | auto].
    - intros x H. upd_case x c; [auto | exact (iC s I _ H)].
    - intros x li p j H. upd_case x c; [eauto | exact (iD1 s I _ _ _ _ H)].
    - intros x li H. upd_case x c; [eauto | exact (iD2 s I _ _ H)].
    - intros d H. exact (iE s I _ H).
    - intros x H. upd_case x c; [auto | exact (iF s I _ H)].
    - intros x li H. upd_case x c; [apply Hfd; auto | exact (iG1 s I _ _ H)].
    - exact (iG3 s I).
    - exact (iH s I).
  Qed.

  (* (2) a step that drops the lock and moves to a program counter without descriptor *)
  Lemma inv_release s c li q :
    Inv s ->
    holds (procs s c) = Some li ->
    fd_of q = None ->
    critical q = false ->
    (after_dest q = true -> dest s <> None) ->
    Inv (set_pc (set_holder s li None) c q).
  Proof.
    intros I Hh Hfd Hcr Haf. unfold set_pc, set_holder. constructor; cbn [procs content next holder dest part lockp renames].
    - intros x l H Hd. upd_case x c; [congruence | exact (iA s I _ _ H Hd)].
    - intros x l H. upd_case x c.
      + destruct q; cbn in H, Hfd; congruence.
      + pose proof (iB1 s I _ _ H) as H1. pose proof (iB1 s I _ _ Hh) as H2.
        destruct (Nat.eq_dec l li) as [->|Hne]; [congruence | rewrite upd_other by assumption; exact H1].
    - intros l x H. destruct (Nat.eq_dec l li) as [->|Hne]; [rewrite upd_same in H; discriminate | rewrite upd_other in H by assumption].
      pose proof (iB2 s I _ _ H) as H'. upd_case x c; [congruence | exact H'].
    - intros x H. upd_case x c; [congruence | exact (iC s I _ H)].
    - intros x l p j H. upd_case x c; [subst q; discriminate | exact (iD1 s I _ _ _ _ H)].
    - intros x l H. upd_case x c; [subst q; discriminate | exact (iD2 s I _ _ H)].
    - intros d H. exact (iE s I _ H).
    - intros x H. upd_case x c; [auto | exact (iF s I _ H)].
    - intros x l H. upd_case x c; [congruence | exact (iG1 s I _ _ H)].
    - exact (iG3 s I).
    - exact (iH s I).
  Qed.

  (* every reachable critical creator excludes the others from Writing / Written *)
  Lemma others_not_critical s c x : Inv s -> critical (procs s c) = true -> x <> c -> critical (procs s x) = false.
  Proof.
    intros I Hc Hx. destruct (critical (procs s x)) eqn:E; [|reflexivity].
    exfalso. apply Hx. symmetry. eapply mutex; eauto.
  Qed.

  Lemma run1_inv s c : Inv s -> Inv (run1 plan s c).
  Proof.
    intros I. unfold run1. destruct (procs s c) as [|li|li|li|li p j|li|li|li|li| |li| | |r|] eqn:Hc.
    - (* Idle *)
      destruct (lockp s) as [l|] eqn:Hl.
      + apply inv_set_pc; auto; rewrite ?Hc; cbn; try discriminate; auto.
        intros li H; inversion H; subst. split; [auto | exact (iG3 s I _ Hl)].
      + constructor; cbn [procs content next holder dest part lockp renames].
        * intros x li H Hd. upd_case x c; [cbn in H; congruence | pose proof (iA s I _ _ H Hd); congruence].
        * intros x li H. upd_case x c; [cbn in H; discriminate|].
          pose proof (iG1 s I _ _ (holds_fd _ _ H)). rewrite upd_other by lia. exact (iB1 s I _ _ H).
        * intros li x H. destruct (Nat.eq_dec li (next s)) as [->|Hne]; [rewrite upd_same in H; discriminate | rewrite upd_other in H by assumption].
          pose proof (iB2 s I _ _ H) as H'. upd_case x c; [rewrite Hc in H'; discriminate | exact H'].
        * intros x H. upd_case x c; [discriminate | exact (iC s I _ H)].
        * intros x li p j H. upd_case x c; [discriminate | exact (iD1 s I _ _ _ _ H)].
        * intros x li H. upd_case x c; [discriminate | exact (iD2 s I _ _ H)].
        * intros d H. exact (iE s I _ H).
        * intros x H. upd_case x c; [discriminate | exact (iF s I _ H)].
        * intros x li H. upd_case x c; [cbn in H; inversion H; lia | pose proof (iG1 s I _ _ H); lia].
        * intros l H. inversion H. lia.
        * exact (iH s I).
    - (* WaitLock *)
      destruct (holder s li) as [h|] eqn:Hh; [exact I|].
      unfold set_pc, set_holder. constructor; cbn [procs content next holder dest part lockp renames].
      + intros x l H Hd. upd_case x c; [cbn in H; inversion H; subst; apply (iA s I c); [rewrite Hc; reflexivity | exact Hd] | exact (iA s I _ _ H Hd)].
      + intros x l H. upd_case x c; [cbn in H; inversion H; subst; apply upd_same|].
        pose proof (iB1 s I _ _ H) as H1. destruct (Nat.eq_dec l li) as [->|Hne]; [congruence | rewrite upd_other by assumption; exact H1].
      + intros l x H. destruct (Nat.eq_dec l li) as [->|Hne].
        * rewrite upd_same in H. inversion H; subst. rewrite upd_same. reflexivity.
        * rewrite upd_other in H by assumption. pose proof (iB2 s I _ _ H) as H'. upd_case x c; [rewrite Hc in H'; discriminate | exact H'].
      + intros x H. upd_case x c; [discriminate | exact (iC s I _ H)].
      + intros x l p j H. upd_case x c; [discriminate | exact (iD1 s I _ _ _ _ H)].
      + intros x l H. upd_case x c; [discriminate | exact (iD2 s I _ _ H)].
      + intros d H. exact (iE s I _ H).
      + intros x H. upd_case x c; [discriminate | exact (iF s I _ H)].
      + intros x l H. upd_case x c; [cbn in H; inversion H; subst; apply (iG1 s I c); rewrite Hc; reflexivity | exact (iG1 s I _ _ H)].
      + exact (iG3 s I).
      + exact (iH s I).
    - (* Locked *)
      destruct (dest s) as [d|] eqn:Hd.
      + apply inv_set_pc; auto; rewrite ?Hc; cbn; try discriminate; auto; try congruence.
        intros l H; inversion H; subst. split; [intros; congruence | apply (iG1 s I c); rewrite Hc; reflexivity].
      + apply inv_set_pc; auto; rewrite ?Hc; cbn; try discriminate; auto.
        intros l H; inversion H; subst. split; [intros _; apply (iA s I c); [rewrite Hc; reflexivity | exact Hd] | apply (iG1 s I c); rewrite Hc; reflexivity].
    - (* Checked *)
      assert (Hcr : critical (procs s c) = true) by (rewrite Hc; reflexivity).
      pose proof (iC s I _ Hcr) as Hd.
      destruct (part s) as [p|] eqn:Hp.
      + constructor; cbn [procs content next holder dest part lockp renames].
        * intros x l H Hd'. upd_case x c; [cbn in H; inversion H; subst; apply (iA s I c); [rewrite Hc; reflexivity | exact Hd] | exact (iA s I _ _ H Hd')].
        * intros x l H. upd_case x c; [cbn in H; inversion H; subst; apply (iB1 s I c); rewrite Hc; reflexivity | exact (iB1 s I _ _ H)].
        * intros l x H. pose proof (iB2 s I _ _ H) as H'. upd_case x c; [rewrite Hc in H'; exact H' | exact H'].
        * intros x H. exact Hd.
        * intros x l p' j H. upd_case x c.
          -- inversion H; subst. rewrite upd_same. repeat split. lia.
          -- pose proof (others_not_critical s c x I Hcr Hxc) as Hn. rewrite H in Hn. discriminate.
        * intros x l H. upd_case x c; [discriminate|]. pose proof (others_not_critical s c x I Hcr Hxc) as Hn. rewrite H in Hn. discriminate.
        * intros d H. congruence.
        * intros x H. upd_case x c; [discriminate | exact (iF s I _ H)].
        * intros x l H. upd_case x c; [cbn in H; inversion H; subst; apply (iG1 s I c); rewrite Hc; reflexivity | exact (iG1 s I _ _ H)].
        * exact (iG3 s I).
        * exact (iH s I).
      + constructor; cbn [procs content next holder dest part lockp renames].
        * intros x l H Hd'. upd_case x c; [cbn in H; inversion H; subst; apply (iA s I c); [rewrite Hc; reflexivity | exact Hd] | exact (iA s I _ _ H Hd')].
        * intros x l H. upd_case x c; [cbn in H; inversion H; subst; apply (iB1 s I c); rewrite Hc; reflexivity | exact (iB1 s I _ _ H)].
        * intros l x H. pose proof (iB2 s I _ _ H) as H'. upd_case x c; [rewrite Hc in H'; exact H' | exact H'].
        * intros x H. exact Hd.
        * intros x l p' j H. upd_case x c.
          -- inversion H; subst. rewrite upd_same. repeat split. lia.
          -- pose proof (others_not_critical s c x I Hcr Hxc) as Hn. rewrite H in Hn. discriminate.
        * intros x l H. upd_case x c; [discriminate|]. pose proof (others_not_critical s c x I Hcr Hxc) as Hn. rewrite H in Hn. discriminate.
        * intros d H. congruence.
        * intros x H. upd_case x c; [discriminate | exact (iF s I _ H)].
        * intros x l H. upd_case x c; [cbn in H; inversion H; subst; assert (l < next s) by (apply (iG1 s I c); rewrite Hc; reflexivity); lia | pose proof (iG1 s I _ _ H); lia].
        * intros l H. pose proof (iG3 s I _ H). lia.
        * exact (iH s I).
    - (* Writing *)
      assert (Hcr : critical (procs s c) = true) by (rewrite Hc; reflexivity).
      pose proof (iC s I _ Hcr) as Hd.
      destruct (iD1 s I _ _ _ _ Hc) as [Hp [Hct Hj]].
      destruct (Nat.ltb_spec j (fst (plan c))) as [Hlt|Hge].
      + constructor; cbn [procs content next holder dest part lockp renames].
        * intros x l H Hd'. upd_case x c; [cbn in H; inversion H; subst; apply (iA s I c); [rewrite Hc; reflexivity | exact Hd] | exact (iA s I _ _ H Hd')].
        * intros x l H. upd_case x c; [cbn in H; inversion H; subst; apply (iB1 s I c); rewrite Hc; reflexivity | exact (iB1 s I _ _ H)].
        * intros l x H. pose proof (iB2 s I _ _ H) as H'. upd_case x c; [rewrite Hc in H'; exact H' | exact H'].
        * intros x H. exact Hd.
        * intros x l p' j' H. upd_case x c.
          -- inversion H; subst. rewrite upd_same. repeat split; [exact Hp | rewrite Hct, chunks_of_S; reflexivity | lia].
          -- pose proof (others_not_critical s c x I Hcr Hxc) as Hn. rewrite H in Hn. discriminate.
        * intros x l H. upd_case x c; [discriminate|]. pose proof (others_not_critical s c x I Hcr Hxc) as Hn. rewrite H in Hn. discriminate.
        * intros d H. congruence.
        * intros x H. upd_case x c; [discriminate | exact (iF s I _ H)].
        * intros x l H. upd_case x c; [cbn in H; inversion H; subst; apply (iG1 s I c); rewrite Hc; reflexivity | exact (iG1 s I _ _ H)].
        * exact (iG3 s I).
        * exact (iH s I).
      + assert (j = fst (plan c)) by lia. subst j.
        destruct (snd (plan c)) eqn:Hok.
        * apply inv_set_pc; auto; rewrite ?Hc; cbn; try discriminate; auto.
          -- intros l H; inversion H; subst. split; [intros _; apply (iA s I c); [rewrite Hc; reflexivity | exact Hd] | apply (iG1 s I c); rewrite Hc; reflexivity].
          -- intros l H. exists p. auto.
        * apply inv_set_pc; auto; rewrite ?Hc; cbn; try discriminate; auto.
          intros l H; inversion H; subst. split; [intros _; apply (iA s I c); [rewrite Hc; reflexivity | exact Hd] | apply (iG1 s I c); rewrite Hc; reflexivity].
    - (* Written *)
      assert (Hcr : critical (procs s c) = true) by (rewrite Hc; reflexivity).
      pose proof (iC s I _ Hcr) as Hd.
      destruct (iD2 s I _ _ Hc) as [p [Hp [Hct Hok]]]. rewrite Hp.
      constructor; cbn [procs content next holder dest part lockp renames].
      + intros x l H Hd'. discriminate.
      + intros x l H. upd_case x c; [cbn in H; inversion H; subst; apply (iB1 s I c); rewrite Hc; reflexivity | exact (iB1 s I _ _ H)].
      + intros l x H. pose proof (iB2 s I _ _ H) as H'. upd_case x c; [rewrite Hc in H'; exact H' | exact H'].
      + intros x H. upd_case x c; [discriminate|]. rewrite (others_not_critical s c x I Hcr Hxc) in H. discriminate.
      + intros x l p' j' H. upd_case x c; [discriminate|]. pose proof (others_not_critical s c x I Hcr Hxc) as Hn. rewrite H in Hn. discriminate.
      + intros x l H. upd_case x c; [discriminate|]. pose proof (others_not_critical s c x I Hcr Hxc) as Hn. rewrite H in Hn. discriminate.
      + intros d H. inversion H; subst. exists c. split; assumption.
      + intros x H. discriminate.
      + intros x l H. upd_case x c; [cbn in H; inversion H; subst; apply (iG1 s I c); rewrite Hc; reflexivity | exact (iG1 s I _ _ H)].
      + exact (iG3 s I).
      + destruct (iH s I) as [_ H0]. rewrite (H0 Hd). split; [lia | discriminate].
    - (* WFailed *)
      assert (Hcr : critical (procs s c) = true) by (rewrite Hc; reflexivity).
      pose proof (iC s I _ Hcr) as Hd.
      constructor; cbn [procs content next holder dest part lockp renames].
      + intros x l H Hd'. upd_case x c; [cbn in H; inversion H; subst; apply (iA s I c); [rewrite Hc; reflexivity | exact Hd] | exact (iA s I _ _ H Hd')].
      + intros x l H. upd_case x c; [cbn in H; inversion H; subst; apply (iB1 s I c); rewrite Hc; reflexivity | exact (iB1 s I _ _ H)].
      + intros l x H. pose proof (iB2 s I _ _ H) as H'. upd_case x c; [rewrite Hc in H'; exact H' | exact H'].
      + intros x H. exact Hd.
      + intros x l p' j' H. upd_case x c; [discriminate|]. pose proof (others_not_critical s c x I Hcr Hxc) as Hn. rewrite H in Hn. discriminate.
      + intros x l H. upd_case x c; [discriminate|]. pose proof (others_not_critical s c x I Hcr Hxc) as Hn. rewrite H in Hn. discriminate.
      + intros d H. congruence.
      + intros x H. upd_case x c; [discriminate | exact (iF s I _ H)].
      + intros x l H. upd_case x c; [cbn in H; inversion H; subst; apply (iG1 s I c); rewrite Hc; reflexivity | exact (iG1 s I _ _ H)].
      + exact (iG3 s I).
      + exact (iH s I).
    - (* WFailed2 *)
      apply inv_release; auto; [rewrite Hc; reflexivity | discriminate].
    - (* Renamed *)
      apply inv_release; auto; [rewrite Hc; reflexivity|]. intros _. apply (iF s I c). rewrite Hc. reflexivity.
    - (* SuccUnlocked *)
      assert (Hnd : dest s <> None) by (apply (iF s I c); rewrite Hc; reflexivity).
      constructor; cbn [procs content next holder dest part lockp renames].
      + intros x l H Hd'. contradiction.
      + intros x l H. upd_case x c; [discriminate | exact (iB1 s I _ _ H)].
      + intros l x H. pose proof (iB2 s I _ _ H) as H'. upd_case x c; [rewrite Hc in H'; discriminate | exact H'].
      + intros x H. upd_case x c; [discriminate | exact (iC s I _ H)].
      + intros x l p' j' H. upd_case x c; [discriminate | exact (iD1 s I _ _ _ _ H)].
      + intros x l H. upd_case x c; [discriminate | exact (iD2 s I _ _ H)].
      + intros d H. exact (iE s I _ H).
      + intros x H. upd_case x c; [exact Hnd | exact (iF s I _ H)].
      + intros x l H. upd_case x c; [discriminate | exact (iG1 s I _ _ H)].
      + intros l H. discriminate.
      + exact (iH s I).
    - (* ExLocked *)
      apply inv_release; auto; [rewrite Hc; reflexivity|]. intros _. apply (iF s I c). rewrite Hc. reflexivity.
    - (* ExUnlocked *)
      assert (Hnd : dest s <> None) by (apply (iF s I c); rewrite Hc; reflexivity).
      constructor; cbn [procs content next holder dest part lockp renames].
      + intros x l H Hd'. contradiction.
      + intros x l H. upd_case x c; [discriminate | exact (iB1 s I _ _ H)].
      + intros l x H. pose proof (iB2 s I _ _ H) as H'. upd_case x c; [rewrite Hc in H'; discriminate | exact H'].
      + intros x H. upd_case x c; [discriminate | exact (iC s I _ H)].
      + intros x l p' j' H. upd_case x c; [discriminate | exact (iD1 s I _ _ _ _ H)].
      + intros x l H. upd_case x c; [discriminate | exact (iD2 s I _ _ H)].
      + intros d H. exact (iE s I _ H).
      + intros x H. upd_case x c; [exact Hnd | exact (iF s I _ H)].
      + intros x l H. upd_case x c; [discriminate | exact (iG1 s I _ _ H)].
      + intros l H. discriminate.
      + exact (iH s I).
    - (* ExHandling *)
      apply inv_set_pc; auto; rewrite ?Hc; cbn; try discriminate; auto.
      intros _. apply (iF s I c). rewrite Hc. reflexivity.
    - exact I.
    - exact I.
  Qed.

  Lemma kill1_inv s c : Inv s -> Inv (kill1 s c).
  Proof.
    intros I. unfold kill1.
    destruct (procs s c) as [|li|li|li|li p j|li|li|li|li| |li| | |r|] eqn:Hc; cbn [holds fd_of];
      try exact I;
      try (apply inv_release; auto; [rewrite Hc; reflexivity | discriminate]);
      try (apply inv_set_pc; auto; rewrite ?Hc; cbn; try discriminate; auto).
  Qed.

  Lemma step_inv s e : Inv s -> Inv (step plan s e).
  Proof.
    intros I. destruct e as [c|c|c]; cbn [step].
    - apply run1_inv; exact I.
    - apply kill1_inv; exact I.
    - destruct (procs s c) as [|li|li|li|li p j|li|li|li|li| |li| | |r|] eqn:Hc; try exact I.
      assert (Hcr : critical (procs s c) = true) by (rewrite Hc; reflexivity).
      pose proof (iC s I _ Hcr) as Hd.
      apply inv_set_pc; auto; rewrite ?Hc; cbn; try discriminate; auto.
      intros l H; inversion H; subst. split; [intros _; apply (iA s I c); [rewrite Hc; reflexivity | exact Hd] | apply (iG1 s I c); rewrite Hc; reflexivity].
  Qed.

  Lemma run_inv evs : forall s, Inv s -> Inv (run plan evs s).
  Proof.
    induction evs as [|e evs IH]; intros s I; cbn [run fold_left]; [exact I|].
    apply IH. apply step_inv. exact I.
  Qed.

  Theorem reachable_inv evs : Inv (run plan evs init).
  Proof. apply run_inv. apply inv_init. Qed.

  (* ---- the property-level statements ---- *)

  Lemma atomic_visibility evs d : dest (run plan evs init) = Some d -> complete plan (run plan evs init) d.
  Proof. intros H. exact (iE _ (reachable_inv evs) _ H). Qed.

  Lemma at_most_one_rename evs : renames (run plan evs init) <= 1.
  Proof. exact (proj1 (iH _ (reachable_inv evs))). Qed.

  Lemma mutex_reachable evs c c' :
    critical (procs (run plan evs init) c) = true -> critical (procs (run plan evs init) c') = true -> c = c'.
  Proof. apply mutex. apply reachable_inv. Qed.

  Lemma success_sees_complete evs c :
    (procs (run plan evs init) c = Done RWritten \/ procs (run plan evs init) c = Done RExisting \/ procs (run plan evs init) c = ExHandling) ->
    exists d, dest (run plan evs init) = Some d /\ complete plan (run plan evs init) d.
  Proof.
    intros H. pose proof (reachable_inv evs) as I.
    assert (Ha : after_dest (procs (run plan evs init) c) = true) by (destruct H as [H|[H|H]]; rewrite H; reflexivity).
    pose proof (iF _ I _ Ha) as Hn. destruct (dest (run plan evs init)) as [d|] eqn:Hd; [|contradiction].
    exists d. split; [reflexivity | exact (iE _ I _ Hd)].
  Qed.

  (* once the destination exists neither the path nor the file's contents change any more *)
  Lemma dest_stable_step s e d : Inv s -> dest s = Some d -> dest (step plan s e) = Some d /\ content (step plan s e) d = content s d.
  Proof.
    intros I Hd.
    assert (Hnc : forall c, critical (procs s c) = false).
    { intros c. destruct (critical (procs s c)) eqn:E; [|reflexivity]. pose proof (iC s I _ E). congruence. }
    destruct e as [c|c|c]; cbn [step].
    - unfold run1. specialize (Hnc c).
      destruct (procs s c) as [|li|li|li|li p j|li|li|li|li| |li| | |r|] eqn:Hc; cbn in Hnc; try discriminate;
        repeat match goal with |- context [match ?x with _ => _ end] => destruct x eqn:? end; cbn; auto; try congruence; try (split; congruence).
    - unfold kill1. destruct (procs s c); cbn; auto.
    - destruct (procs s c); cbn; auto.
  Qed.

  Lemma dest_stable evs2 : forall s d, Inv s -> dest s = Some d ->
    dest (run plan evs2 s) = Some d /\ content (run plan evs2 s) d = content s d.
  Proof.
    induction evs2 as [|e evs2 IH]; intros s d I Hd; cbn [run fold_left]; [auto|].
    destruct (dest_stable_step s e d I Hd) as [H1 H2].
    destruct (IH (step plan s e) d (step_inv s e I) H1) as [H3 H4]. unfold run in H3, H4. split; [exact H3 | rewrite H4; exact H2].
  Qed.

  (* ---- a later attempt succeeds ---- *)
  Lemma run1_other s c x : x <> c -> procs (run1 plan s c) x = procs s x.
  Proof.
    intros H. unfold run1.
    destruct (procs s c) as [|li|li|li|li p j|li|li|li|li| |li| | |r|];
      repeat match goal with |- context [match ?y with _ => _ end] => destruct y end;
      unfold set_pc, set_holder; cbn [procs]; try reflexivity; apply upd_other; exact H.
  Qed.

  Lemma quiescent_holds p : quiescent p = true -> holds p = None.
  Proof. destruct p; cbn; try discriminate; reflexivity. Qed.

  Definition good (n : nat) (p : pc) : Prop :=
    match p with
    | WFailed _ | WFailed2 _ | Dead | Done RFailed => False
    | Writing _ _ j => j <= n
    | _ => True
    end.
  Definition remaining (n : nat) (p : pc) : nat :=
    match p with
    | Idle => n + 8 | WaitLock _ => n + 7 | Locked _ => n + 6 | Checked _ => n + 5
    | Writing _ _ j => (n - j) + 4 | Written _ => 3 | Renamed _ => 2 | SuccUnlocked => 1
    | ExLocked _ => 3 | ExUnlocked => 2 | ExHandling => 1 | _ => 0
    end.

  Lemma alone_step s c n :
    Inv s -> (forall x, x <> c -> quiescent (procs s x) = true) -> plan c = (n, true) ->
    good n (procs s c) -> remaining n (procs s c) > 0 ->
    good n (procs (run1 plan s c) c) /\ remaining n (procs (run1 plan s c) c) < remaining n (procs s c).
  Proof.
    intros I Hq Hplan Hg Hr. unfold run1.
    destruct (procs s c) as [|li|li|li|li p j|li|li|li|li| |li| | |r|] eqn:Hc; cbn [good remaining] in *; try contradiction; try lia.
    - destruct (lockp s); unfold set_pc; cbn [procs]; rewrite upd_same; cbn; split; auto; lia.
    - destruct (holder s li) as [h|] eqn:Hh.
      + exfalso. pose proof (iB2 s I _ _ Hh) as H'.
        destruct (Nat.eq_dec h c) as [->|Hne]; [rewrite Hc in H'; discriminate|].
        rewrite (quiescent_holds _ (Hq _ Hne)) in H'. discriminate.
      + unfold set_pc, set_holder; cbn [procs]; rewrite upd_same; cbn; split; auto; lia.
    - destruct (dest s); unfold set_pc; cbn [procs]; rewrite upd_same; cbn; split; auto; lia.
    - destruct (part s); cbn [procs]; rewrite upd_same; cbn; split; lia.
    - rewrite Hplan. cbn [fst snd]. destruct (Nat.ltb_spec j n).
      + cbn [procs]; rewrite upd_same; cbn; split; lia.
      + unfold set_pc; cbn [procs]; rewrite upd_same; cbn; split; auto; lia.
    - destruct (iD2 s I _ _ Hc) as [p [Hp _]]. rewrite Hp. cbn [procs]; rewrite upd_same; cbn; split; auto; lia.
    - unfold set_pc, set_holder; cbn [procs]; rewrite upd_same; cbn; split; auto; lia.
    - cbn [procs]; rewrite upd_same; cbn; split; auto; lia.
    - unfold set_pc, set_holder; cbn [procs]; rewrite upd_same; cbn; split; auto; lia.
    - cbn [procs]; rewrite upd_same; cbn; split; auto; lia.
    - unfold set_pc; cbn [procs]; rewrite upd_same; cbn; split; auto; lia.
  Qed.

  Lemma alone_done s c : (exists r, procs s c = Done r) -> run1 plan s c = s.
  Proof. intros [r H]. unfold run1. rewrite H. reflexivity. Qed.

  Lemma run_alone_finishes n c : forall k s,
    Inv s -> (forall x, x <> c -> quiescent (procs s x) = true) -> plan c = (n, true) ->
    good n (procs s c) -> remaining n (procs s c) <= k ->
    Inv (run_alone plan k s c) /\
    (procs (run_alone plan k s c) c = Done RWritten \/ procs (run_alone plan k s c) c = Done RExisting).
  Proof.
    induction k as [|k IH]; intros s I Hq Hplan Hg Hr.
    - cbn [run_alone]. split; [exact I|].
      destruct (procs s c) as [|li|li|li|li p j|li|li|li|li| |li| | |r|]; cbn [good remaining] in *; try contradiction; try lia.
      destruct r; [auto | auto | contradiction].
    - cbn [run_alone].
      destruct (Nat.eq_dec (remaining n (procs s c)) 0) as [Hz|Hnz].
      + (* already done: further steps do nothing *)
        assert (Hdone : exists r, procs s c = Done r).
        { destruct (procs s c) as [|li|li|li|li p j|li|li|li|li| |li| | |r|]; cbn [good remaining] in *; try contradiction; try lia. eauto. }
        rewrite (alone_done s c Hdone). apply IH; auto. lia.
      + destruct (alone_step s c n I Hq Hplan Hg) as [Hg' Hr']; [lia|].
        apply IH; auto.
        * apply run1_inv; exact I.
        * intros x Hx. rewrite run1_other by exact Hx. apply Hq; exact Hx.
        * lia.
  Qed.

  Lemma retry evs c n :
    let s := run plan evs init in
    (forall x, quiescent (procs s x) = true) -> procs s c = Idle -> plan c = (n, true) ->
    let s' := run_alone plan (n + 8) s c in
    (procs s' c = Done RWritten \/ procs s' c = Done RExisting) /\ exists d, dest s' = Some d /\ complete plan s' d.
  Proof.
    intros s Hq Hc Hplan s'.
    destruct (run_alone_finishes n c (n + 8) s (reachable_inv evs)) as [I' Hdone]; auto.
    - rewrite Hc. exact Logic.I.
    - rewrite Hc. cbn. lia.
    - split; [exact Hdone|].
      assert (Ha : after_dest (procs s' c) = true) by (destruct Hdone as [H|H]; unfold s'; rewrite H; reflexivity).
      pose proof (iF _ I' _ Ha) as Hn. fold s' in Hn. destruct (dest s') as [d|] eqn:Hd; [|contradiction].
      exists d. split; [reflexivity|]. apply (iE _ I'). exact Hd.
  Qed.
End Proofs.
