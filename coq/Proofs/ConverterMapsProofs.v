From SV Require Import Generated.Consts Model.LibMappings Model.Attribution Model.ConverterMaps.
From Coq Require Import ZArith Lia ZifyBool ZifyN.
Open Scope N_scope.
Ltac Zify.zify_post_hook ::= Z.div_mod_to_equations.

(* ---- association list facts ---- *)
Lemma mlookup_mset k k' v l : mlookup k' (mset k v l) = if k =? k' then Some v else mlookup k' l.
Proof.
  induction l as [|[k0 v0] l IH]; cbn.
  - destruct (k =? k'); reflexivity.
  - destruct (k0 =? k) eqn:E; cbn.
    + apply N.eqb_eq in E. subst k0. destruct (k =? k'); reflexivity.
    + rewrite IH. destruct (k0 =? k') eqn:E2; [|reflexivity]. apply N.eqb_eq in E2. subst k0. rewrite N.eqb_sym, E. reflexivity.
Qed.
Lemma mlookup_mremove k k' l : mlookup k' (mremove k l) = if k =? k' then None else mlookup k' l.
Proof.
  unfold mremove. induction l as [|[k0 v0] l IH]; cbn; [destruct (k =? k'); reflexivity|].
  destruct (k0 =? k) eqn:E; cbn.
  - apply N.eqb_eq in E. subst k0. rewrite IH. destruct (k =? k'); reflexivity.
  - rewrite IH. destruct (k0 =? k') eqn:E2; [|reflexivity]. apply N.eqb_eq in E2. subst k0. rewrite N.eqb_sym, E. reflexivity.
Qed.

Lemma mget_mput s k p k' : mget (mput s k p) k' = if k =? k' then p else mget s k'.
Proof. unfold mget, mput. cbn [ms_live]. rewrite mlookup_mset. destruct (k =? k'); reflexivity. Qed.
Lemma mget_mretire s k k' : mget (mretire s k) k' = if k =? k' then mkMP [] [] else mget s k'.
Proof.
  unfold mget, mretire. destruct (mlookup k (ms_live s)) as [p|] eqn:E.
  - cbn [ms_live]. rewrite mlookup_mremove. destruct (k =? k'); reflexivity.
  - destruct (k =? k') eqn:E2; [|reflexivity]. apply N.eqb_eq in E2. subst. rewrite E. reflexivity.
Qed.

(* ---- the queue of a process is the specification's queue, for every history ---- *)
Lemma mstep_queue s r (Q : N -> queue) :
  (forall pid, mp_queue (mget s pid) = Q pid) ->
  forall pid, mp_queue (mget (mstep s r) pid) =
    match r with
    | MFork p pp => if (p =? pid) && negb (p =? pp) then Q pp else Q pid
    | MExec p | MExitMain p => if p =? pid then [] else Q pid
    | MMmap p ts start len pgoff file lib =>
        if p =? pid then match rel_start file start len pgoff with
                         | Some rel => Q pid ++ [(ts, QOp (Add (mkMapping start (start + len) rel lib)))]
                         | None => Q pid end
        else Q pid
    | _ => Q pid
    end.
Proof.
  intros H pid. destruct r as [p pp | p | p | p | p ts start len pgoff file lib | p ts ip kernel chain]; cbn [mstep].
  - destruct (p =? pp) eqn:Epp.
    + rewrite mget_mput. rewrite andb_false_r. destruct (pp =? pid) eqn:E; [apply N.eqb_eq in E; subst; apply H | apply H].
    + rewrite mget_mput. cbn [negb]. rewrite andb_true_r. destruct (p =? pid) eqn:E; [cbn [mp_queue]; apply H|].
      rewrite mget_mput. destruct (pp =? pid) eqn:E2; [apply N.eqb_eq in E2; subst; apply H | apply H].
  - rewrite mget_mput. destruct (p =? pid) eqn:E; [reflexivity|]. rewrite mget_mretire, E. apply H.
  - rewrite mget_mretire. destruct (p =? pid) eqn:E; [reflexivity | apply H].
  - rewrite mget_mput. destruct (p =? pid) eqn:E; [apply N.eqb_eq in E; subst; apply H | apply H].
  - destruct (rel_start file start len pgoff) as [rel|]; rewrite mget_mput; destruct (p =? pid) eqn:E; try apply H;
      apply N.eqb_eq in E; subst; cbn [mp_queue]; rewrite H; reflexivity.
  - rewrite mget_mput. destruct (p =? pid) eqn:E; [apply N.eqb_eq in E; subst; cbn [mp_queue]; apply H | apply H].
Qed.

Lemma mrun_queue_from rs : forall s before, (forall pid, mp_queue (mget s pid) = queue_of before pid) ->
  forall pid, mp_queue (mget (fold_left mstep rs s) pid) = queue_of (rev rs ++ before) pid.
Proof.
  induction rs as [|r rs IH]; intros s before H pid; cbn [fold_left rev app]; [apply H|].
  rewrite <- app_assoc. cbn [app]. apply IH. intros pid'.
  rewrite (mstep_queue s r (queue_of before) H pid').
  destruct r; cbn [queue_of]; reflexivity.
Qed.

Theorem queue_spec rs pid : mp_queue (mget (mrun rs) pid) = queue_of (rev rs) pid.
Proof. unfold mrun. rewrite (mrun_queue_from rs (mkMS [] []) []); [rewrite app_nil_r; reflexivity | reflexivity]. Qed.

(* fork: the child's queue is the parent's queue at that moment; exec: a fresh queue *)
Lemma fork_inherits rs pid ppid : (pid =? ppid) = false -> queue_of (MFork pid ppid :: rev rs) pid = queue_of (rev rs) ppid.
Proof. intros H. cbn [queue_of]. rewrite N.eqb_refl, H. reflexivity. Qed.
Lemma exec_clears rs pid : queue_of (MExec pid :: rev rs) pid = [].
Proof. cbn [queue_of]. rewrite N.eqb_refl. reflexivity. Qed.

(* ---- the relative start ---- *)
Lemma rel_start_absent start len pgoff : rel_start None start len pgoff = Some (pgoff mod 2 ^ 32).
Proof. reflexivity. Qed.

(* binary present, reference segment found: for every address x of the mapping, relative start + (x - start) is the SVMA of x's file
   offset (by the reference segment) minus the image base - the relative address that the symbol tables of C05 use.  No wrap-around
   is assumed: the mapping lies above the base address it implies and relative addresses fit 32 bits. *)
Lemma rel_start_segments segs start len pgoff s rel x :
  ref_seg segs pgoff len = Some s -> rel_start (Some segs) start len pgoff = Some rel ->
  start <= x -> x < start + len ->
  let svma_x := (Z.of_N (sg_svma s) + (Z.of_N pgoff + (Z.of_N x - Z.of_N start) - Z.of_N (sg_off s)))%Z in
  (0 <= Z.of_N (sg_svma s) + Z.of_N pgoff - Z.of_N (sg_off s) - Z.of_N (base_svma segs) < 2 ^ 32)%Z ->
  (Z.of_N start + Z.of_N (sg_off s) - Z.of_N pgoff - Z.of_N (sg_svma s) >= 0)%Z -> (Z.of_N start < 2 ^ 63)%Z -> (Z.of_N (base_svma segs) < 2 ^ 62)%Z ->
  (Z.of_N (sg_off s) < 2 ^ 62)%Z -> (Z.of_N (sg_svma s) < 2 ^ 62)%Z -> (Z.of_N pgoff < 2 ^ 62)%Z ->
  (Z.of_N rel + (Z.of_N x - Z.of_N start) = svma_x - Z.of_N (base_svma segs))%Z.
Proof.
  intros Hs Hr H1 H2 svma_x Hb Hpos Hs1 Hs2 Hs3 Hs4 Hs5. unfold rel_start, vma_bias in Hr. rewrite Hs in Hr. inversion Hr; subst rel; clear Hr.
  unfold u32, u64, svma_x in *. clear svma_x.
  set (bias := (Z.of_N start + (Z.of_N (sg_off s) - Z.of_N pgoff) - Z.of_N (sg_svma s))%Z) in *.
  assert (Hb1 : (0 <= bias < 2 ^ 64)%Z) by (unfold bias; lia).
  rewrite (Z.mod_small bias) by exact Hb1. rewrite (Z2N.id bias) by lia.
  assert (Hb2 : (0 <= Z.of_N (base_svma segs) + bias < 2 ^ 64)%Z) by (unfold bias in *; lia).
  rewrite (Z.mod_small (Z.of_N (base_svma segs) + bias)) by exact Hb2.
  rewrite (Z2N.id (Z.of_N (base_svma segs) + bias)) by lia.
  assert (Hd : (0 <= Z.of_N start - (Z.of_N (base_svma segs) + bias) < 2 ^ 32)%Z) by (unfold bias in *; lia).
  rewrite (Z.mod_small (Z.of_N start - (Z.of_N (base_svma segs) + bias))) by lia.
  rewrite N2Z.inj_mod. rewrite Z2N.id by lia. change (Z.of_N (2 ^ 32)) with (2 ^ 32)%Z. rewrite Z.mod_small by lia. unfold bias. lia.
Qed.

(* ---- call chains: order and lookup addresses ---- *)
Lemma chain_frames_plain md : forall chain first, (forall a, In a chain -> a < PERF_CONTEXT_MAX) ->
  chain_frames chain md first = match chain with [] => [] | a :: r => (if first then SIp a md else SRet a md) :: map (fun x => SRet x md) r end.
Proof.
  induction chain as [|a r IH]; intros first H; [reflexivity|]. cbn [chain_frames].
  assert (Ha : (PERF_CONTEXT_MAX <=? a) = false) by (specialize (H a (or_introl eq_refl)); lia). rewrite Ha. f_equal.
  rewrite IH by (intros x Hx; apply H; right; exact Hx). destruct r; reflexivity.
Qed.
(* without context markers: the leaf is looked up at its address, every caller at return address - 1, root first *)
Lemma sample_frames_plain ip kernel a chain : (forall x, In x (a :: chain) -> x < PERF_CONTEXT_MAX) ->
  sample_frames ip kernel (a :: chain) = rev (SIp a (if kernel then Kernel else User) :: map (fun x => SRet x (if kernel then Kernel else User)) chain).
Proof. intros H. unfold sample_frames. rewrite chain_frames_plain by exact H. reflexivity. Qed.
(* a context marker only switches the mode of the frames that follow it *)
Lemma chain_marker md r first : chain_frames (PERF_CONTEXT_KERNEL :: r) md first = chain_frames r Kernel first /\
                                chain_frames (PERF_CONTEXT_USER :: r) md first = chain_frames r User first.
Proof. split; reflexivity. Qed.

(* ---- time-ordered histories: every process incarnation satisfies the hypotheses of the flush-level theorem ---- *)
From SV Require Import Spec.LibMappingsSpec Spec.AttributionSpec Proofs.AttributionProofs.

Definition upto (now : N) (l : list N) : Prop := sorted_from 0 l /\ Forall (fun t => t <= now) l.
Definition good (now : N) (p : mproc) : Prop :=
  forallb wf_qopb (mp_queue p) = true /\ upto now (map fst (mp_queue p)) /\ upto now (map fst (mp_samples p)).

Lemma sorted_from_snoc : forall l lo t, sorted_from lo l -> Forall (fun x => x <= t) l -> lo <= t -> sorted_from lo (l ++ [t]).
Proof.
  induction l as [|x l IH]; intros lo t H F Hlo; cbn [app sorted_from]; [split; [exact Hlo | exact I]|].
  destruct H as [H1 H2]. inversion F; subst. split; [exact H1 | apply IH; assumption].
Qed.
Lemma upto_snoc now l t : upto now l -> now <= t -> upto t (l ++ [t]).
Proof.
  intros [S F] H. split.
  - apply sorted_from_snoc; [exact S | eapply Forall_impl; [|exact F]; cbn; intros; lia | lia].
  - apply Forall_app. split; [eapply Forall_impl; [|exact F]; cbn; intros; lia | constructor; [lia | constructor]].
Qed.
Lemma upto_mono now now' l : upto now l -> now <= now' -> upto now' l.
Proof. intros [S F] H. split; [exact S | eapply Forall_impl; [|exact F]; cbn; intros; lia]. Qed.
Lemma good_mono now now' p : good now p -> now <= now' -> good now' p.
Proof. intros [A [B C]] H. split; [exact A | split; eapply upto_mono; eauto]. Qed.
Lemma good_empty now : good now (mkMP [] []).
Proof. split; [reflexivity | split; split; cbn; auto]. Qed.

Definition all_good (now : N) (s : mstate) : Prop :=
  (forall pid p, In (pid, p) (ms_live s) -> good now p) /\ (forall pid p, In (pid, p) (ms_retired s) -> good now p).

Lemma in_mset k v l k' v' : In (k', v') (mset k v l) -> (k' = k /\ v' = v) \/ In (k', v') l.
Proof.
  induction l as [|[k0 v0] l IH]; cbn.
  - intros [H|[]]. inversion H; auto.
  - destruct (k0 =? k); cbn; intros [H|H]; try (inversion H; subst; auto; fail); auto. destruct (IH H) as [E|E]; auto.
Qed.
Lemma in_mremove k l x : In x (mremove k l) -> In x l.
Proof. unfold mremove. intros H. apply filter_In in H. exact (proj1 H). Qed.
Lemma mlookup_in k l v : mlookup k l = Some v -> In (k, v) l.
Proof.
  induction l as [|[k0 v0] l IH]; cbn; [discriminate|]. destruct (k0 =? k) eqn:E.
  - intros H; inversion H; subst. apply N.eqb_eq in E. subst. auto.
  - intros H. right. apply IH. exact H.
Qed.
Lemma good_mget now s pid : all_good now s -> good now (mget s pid).
Proof.
  intros [L _]. unfold mget. destruct (mlookup pid (ms_live s)) as [p|] eqn:E; [eapply L; apply mlookup_in; exact E | apply good_empty].
Qed.
Lemma all_good_mput now s pid p : all_good now s -> good now p -> all_good now (mput s pid p).
Proof.
  intros [L R] G. split; [|exact R]. intros k q H. cbn in H. apply in_mset in H. destruct H as [[-> ->]|H]; [exact G | eapply L; exact H].
Qed.
Lemma all_good_mretire now s pid : all_good now s -> all_good now (mretire s pid).
Proof.
  intros [L R]. unfold mretire. destruct (mlookup pid (ms_live s)) as [p|] eqn:E; [|split; assumption].
  split; cbn [ms_live ms_retired].
  - intros k q H. apply in_mremove in H. eapply L; exact H.
  - intros k q H. destruct (mp_samples p); [eapply R; exact H|]. apply in_app_or in H. destruct H as [H|[H|[]]]; [eapply R; exact H|].
    inversion H; subst. eapply L. apply mlookup_in. exact E.
Qed.
Lemma all_good_mono now now' s : all_good now s -> now <= now' -> all_good now' s.
Proof. intros [L R] H. split; intros k q Hq; eapply good_mono; eauto. Qed.

(* the time a record contributes to queues / sample lists, and its side condition *)
Definition rec_time (r : mrec) : option N := match r with MMmap _ ts _ _ _ _ _ => Some ts | MSample _ ts _ _ _ => Some ts | _ => None end.
Definition rec_ok (r : mrec) : Prop := match r with MMmap _ _ _ len _ _ _ => 0 < len | _ => True end.
Fixpoint time_ordered (now : N) (rs : list mrec) : Prop :=
  match rs with
  | [] => True
  | r :: rest => rec_ok r /\ match rec_time r with Some t => now <= t /\ time_ordered t rest | None => time_ordered now rest end
  end.
Definition next_now (now : N) (r : mrec) : N := match rec_time r with Some t => t | None => now end.

Lemma mstep_good now s r : all_good now s -> rec_ok r -> (match rec_time r with Some t => now <= t | None => True end) ->
  all_good (next_now now r) (mstep s r).
Proof.
  intros G Hok Ht. destruct r as [p pp | p | p | p | p ts start len pgoff file lib | p ts ip kernel chain]; cbn [mstep next_now rec_time] in *.
  - pose proof (good_mget now s pp G) as Gp.
    destruct (p =? pp); [apply all_good_mput; assumption|].
    assert (G1 : all_good now (mput s pp (mget s pp))) by (apply all_good_mput; assumption).
    apply all_good_mput; [exact G1|]. pose proof (good_mget now _ p G1) as [_ [_ Cs]]. destruct Gp as [A [B _]]. split; [exact A | split; [exact B | exact Cs]].
  - apply all_good_mput; [apply all_good_mretire; exact G | apply good_empty].
  - apply all_good_mretire; exact G.
  - apply all_good_mput; [exact G | apply good_mget; exact G].
  - assert (G' : all_good ts s) by (eapply all_good_mono; eauto). pose proof (good_mget now s p G) as [A [B C]].
    destruct (rel_start file start len pgoff) as [rel|].
    + apply all_good_mput; [exact G'|]. split; [|split].
      * cbn [mp_queue]. rewrite forallb_app, A. cbn. unfold wf_qopb. cbn. replace (start <? start + len) with true by (cbn in Hok; lia). reflexivity.
      * cbn [mp_queue]. rewrite map_app. cbn [map fst]. eapply upto_snoc; eauto.
      * cbn [mp_samples]. eapply upto_mono; eauto.
    + apply all_good_mput; [exact G' | eapply good_mono; [split; [exact A | split; [exact B | exact C]] | exact Ht]].
  - assert (G' : all_good ts s) by (eapply all_good_mono; eauto). pose proof (good_mget now s p G) as [A [B C]].
    apply all_good_mput; [exact G'|]. split; [exact A | split].
    + cbn [mp_queue]. eapply upto_mono; eauto.
    + cbn [mp_samples]. rewrite map_app. cbn [map fst]. eapply upto_snoc; eauto.
Qed.

Lemma mrun_good rs : forall now s, all_good now s -> time_ordered now rs -> exists now', all_good now' (fold_left mstep rs s).
Proof.
  induction rs as [|r rs IH]; intros now s G T; cbn [fold_left]; [exists now; exact G|].
  cbn [time_ordered] in T. destruct T as [Hok T].
  destruct (rec_time r) as [t|] eqn:E.
  - destruct T as [Hle T]. apply (IH t); [|exact T]. pose proof (mstep_good now s r G Hok) as H. unfold next_now in H. rewrite E in H. apply H. exact Hle.
  - apply (IH now); [|exact T]. pose proof (mstep_good now s r G Hok) as H. unfold next_now in H. rewrite E in H. apply H. exact I.
Qed.

(* every sample of a time-ordered recording is attributed according to the C11 history specification applied to the operations its
   process queued at or before the sample's time *)
Theorem e2e_attribution rs : time_ordered 0 rs ->
  forall pid p, In (pid, p) (incarnations (mrun rs)) -> flush [] (mp_queue p) (mp_samples p) = spec_flush (mp_queue p) (mp_samples p).
Proof.
  intros T pid p Hin. destruct (mrun_good rs 0 (mkMS [] []) ltac:(split; intros ? ? []) T) as [now [L R]].
  assert (G : good now p).
  { unfold incarnations in Hin. apply in_app_or in Hin. destruct Hin as [H|H]; [eapply R; exact H|]. apply filter_In in H. eapply L. exact (proj1 H). }
  destruct G as [A [[B1 _] [C1 _]]]. apply flush_is_spec; assumption.
Qed.
