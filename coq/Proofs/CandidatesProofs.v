From SV Require Import Model.Candidates.
From Coq Require Import Arith Lia ZifyBool ZifyN ZifyNat.
Open Scope N_scope.

Lemma select_symbol_map_spec req : forall cs i k,
  select_symbol_map req cs i = Some k ->
  (i <= k)%nat /\ nth_error cs (k - i) = Some (COk req) /\
  forall j, (j < k - i)%nat -> nth_error cs j <> Some (COk req).
Proof.
  induction cs as [|c r IH]; intros i k H; [discriminate|]. cbn [select_symbol_map] in H.
  destruct c as [|id].
  - destruct (IH _ _ H) as [H1 [H2 H3]]. split; [lia|]. split.
    + replace (k - i)%nat with (S (k - S i)) by lia. exact H2.
    + intros j Hj. destruct j; [cbn; discriminate|]. cbn [nth_error]. apply H3. lia.
  - destruct (id =? req) eqn:E.
    + inversion H; subst. assert (id = req) by lia. subst. split; [lia|]. rewrite Nat.sub_diag. split; [reflexivity|]. intros j Hj. lia.
    + destruct (IH _ _ H) as [H1 [H2 H3]]. split; [lia|]. split.
      * replace (k - i)%nat with (S (k - S i)) by lia. exact H2.
      * intros j Hj. destruct j; [cbn; intros X; inversion X; lia|]. cbn [nth_error]. apply H3. lia.
Qed.

Lemma select_symbol_map_none req : forall cs i, select_symbol_map req cs i = None <-> ~ In (COk req) cs.
Proof.
  induction cs as [|c r IH]; intros i; cbn [select_symbol_map In]; [tauto|].
  destruct c as [|id].
  - rewrite IH. split; [intros H [X|X]; [discriminate|auto]|tauto].
  - destruct (id =? req) eqn:E.
    + assert (id = req) by lia. subst. split; [discriminate|intros H; exfalso; apply H; left; reflexivity].
    + rewrite IH. split; [intros H [X|X]; [inversion X; lia|auto]|tauto].
Qed.

Lemma select_binary_spec rq : forall cs i k,
  select_binary rq cs i = Some k ->
  (i <= k)%nat /\ (exists c, nth_error cs (k - i) = Some c /\ bmatch rq c = true) /\
  forall j c, (j < k - i)%nat -> nth_error cs j = Some c -> bmatch rq c = false.
Proof.
  induction cs as [|c r IH]; intros i k H; [discriminate|]. cbn [select_binary] in H.
  destruct (bmatch rq c) eqn:E.
  - inversion H; subst. split; [lia|]. rewrite Nat.sub_diag. split; [exists c; split; [reflexivity|exact E]|]. intros j c' Hj. lia.
  - destruct (IH _ _ H) as [H1 [[c' [H2 H2']] H3]]. split; [lia|]. split.
    + exists c'. replace (k - i)%nat with (S (k - S i)) by lia. split; assumption.
    + intros j c'' Hj Hn. destruct j; [cbn in Hn; inversion Hn; subst; exact E|]. cbn [nth_error] in Hn. eapply H3; [|exact Hn]. lia.
Qed.

Lemma select_binary_none rq : forall cs i, select_binary rq cs i = None <-> forall c, In c cs -> bmatch rq c = false.
Proof.
  induction cs as [|c r IH]; intros i; cbn [select_binary In]; [split; [intros _ c []|reflexivity]|].
  destruct (bmatch rq c) eqn:E.
  - split; [discriminate|intros H; rewrite (H c (or_introl eq_refl)) in E; discriminate].
  - rewrite IH. split; [intros H c' [<-|X]; [exact E|auto]|intros H c' X; apply H; right; exact X].
Qed.

Lemma first_match_spec req : forall ms i k, first_match req ms i = Some k -> (i <= k)%nat /\ nth_error ms (k - i) = Some (Some req).
Proof.
  induction ms as [|m r IH]; intros i k H; [discriminate|]. cbn [first_match] in H.
  destruct (oeq m req) eqn:E.
  - inversion H; subst. split; [lia|]. rewrite Nat.sub_diag. cbn. unfold oeq in E. destruct m as [x|]; [|discriminate]. f_equal. f_equal. lia.
  - destruct (IH _ _ H) as [H1 H2]. split; [lia|]. replace (k - i)%nat with (S (k - S i)) by lia. exact H2.
Qed.

Lemma fat_select_spec d members i :
  fat_select (Some d) members = FMember i -> nth_error members i = Some (Some d).
Proof.
  unfold fat_select. destruct members as [|m r]; [discriminate|].
  destruct (first_match d (m :: r) 0) as [k|] eqn:E; [|discriminate]. intros H; inversion H; subst.
  destruct (first_match_spec _ _ _ _ E) as [_ H2]. rewrite Nat.sub_0_r in H2. exact H2.
Qed.

Lemma bytes_eqb_eq : forall x y, bytes_eqb x y = true <-> x = y.
Proof.
  induction x as [|a x IH]; intros [|c y]; cbn [bytes_eqb]; try (split; [discriminate|discriminate]); [tauto|].
  rewrite andb_true_iff, IH, N.eqb_eq. split; [intros [-> ->]; reflexivity|intros H; inversion H; auto].
Qed.

Lemma supplementary_accept_spec w f : supplementary_accept w f = true <-> f = Some w.
Proof.
  unfold supplementary_accept. destruct f as [b|]; [|split; discriminate].
  rewrite bytes_eqb_eq. split; [intros ->; reflexivity|intros H; inversion H; reflexivity].
Qed.
