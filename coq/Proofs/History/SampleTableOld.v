(* Documentation of finding F-C04 (fixed in /repo by "fix: keep sample table sortedness bookkeeping in sync in
   modify_last_sample"): with the ORIGINAL modify_last_sample, which touched neither is_sorted_by_time nor
   last_sample_timestamp, the time-delta subtraction underflows for the history below. *)
From SV Require Import Model.SampleTable.
Open Scope N_scope.

Definition t_modify_last_old (tb : table) (t : N) (w : Z) : option table :=
  match ents tb with
  | [] => None
  | _ => Some (mkTable (modify_last (ents tb) t w) (sorted_flag tb) (last_ts tb))
  end.

Definition th_step_old (th : thread) (o : op) : thread :=
  if panicked th then th else
  match o with
  | OAdd t s c w => mkThread (t_add (tbl th) (mkEntry t s c w)) (c =? 0) s false
  | OMerge t w =>
      if last_zero th then
        match t_modify_last_old (tbl th) t w with
        | Some tb => mkThread tb true (last_stack th) false
        | None => mkThread (tbl th) (last_zero th) (last_stack th) true
        end
      else mkThread (t_add (tbl th) (mkEntry t (last_stack th) 0 w)) true (last_stack th) false
  end.

Lemma C04_old_refuted :
  exists ops, snd (serialize (tbl (fold_left th_step_old ops thread_init))) = true.
Proof. exists [OAdd 10 1 0 1; OMerge 20 1; OAdd 15 2 5 1]. vm_compute. reflexivity. Qed.

Lemma C04_old_refuted_mirror :
  exists ops, snd (serialize (tbl (fold_left th_step_old ops thread_init))) = true.
Proof. exists [OAdd 10 1 0 1; OAdd 20 2 0 1; OMerge 5 1]. vm_compute. reflexivity. Qed.
