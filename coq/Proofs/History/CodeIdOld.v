(* Documentation of finding F-C08b (fixed in /repo by "fix: CodeId::from_str does not panic on non-ASCII input"):
   with the indexing operator &s[..8] the input "1234567é9" panics, because byte index 8 is inside the two-byte character. *)
From SV Require Import Lib.Bytes Model.CodeIdStr.
Open Scope N_scope.

Definition slice_idx_panics (s : bytes) (a b : N) : bool := negb (boundary s a && boundary s b && (a <=? b) && (b <=? blen s)).

Lemma C08_old_code_id_refuted :
  exists s, (9 <=? blen s) && (blen s <=? 16) = true /\ slice_idx_panics s 0 8 = true.
Proof. exists [49; 50; 51; 52; 53; 54; 55; 195; 169; 57]. vm_compute. split; reflexivity. Qed.
