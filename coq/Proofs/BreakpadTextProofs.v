(* C10, last clause: for a well-formed .sym text (Spec/BreakpadText.v: wf_text) of less than 4 GiB, every lookup through the
   index the creator builds for it returns what the straightforward reading of the text returns. *)
From Coq Require Import Lia Arith Permutation Sorted ZifyBool ZifyN ZifyNat.
From SV Require Import Lib.Bytes Model.LineBuffer Proofs.LineBufferProofs Model.BreakpadIndex Model.BreakpadLookup Spec.BreakpadText.
From SV Require Import Proofs.BreakpadTextLines Proofs.BreakpadTextIndex Proofs.BreakpadTextSort Proofs.BreakpadTextFrames.
Open Scope N_scope.

(* ---------- classification, inverted ---------- *)

Ltac classify_tail H :=
  destruct (starts_with t_INFO_ (strip_cr _)); [discriminate H|];
  destruct (starts_with t_STACK_ (strip_cr _)); [discriminate H|];
  destruct (starts_with t_INLINE_ORIGIN _); [discriminate H|];
  destruct (starts_with t_INLINE _) as [rest|]; [destruct (parse_inline rest); discriminate H|];
  destruct (parse_data_line _); discriminate H.

Lemma classify_file l i n : classify l = RFile i n -> idx_line t_FILE (strip_cr l) = Some (i, n).
Proof.
  unfold classify. intros H.
  destruct (idx_line t_FILE (strip_cr l)) as [[i0 n0]|]; [injection H as -> ->; reflexivity|].
  destruct (idx_line t_INLINE_ORIGIN (strip_cr l)) as [[i0 n0]|]; [discriminate H|].
  destruct (public_line (strip_cr l)) as [[a0 n0]|]; [discriminate H|].
  destruct (func_line (strip_cr l)) as [[[a0 s0] n0]|]; [discriminate H|].
  classify_tail H.
Qed.

Lemma classify_origin l i n : classify l = ROrigin i n -> idx_line t_INLINE_ORIGIN (strip_cr l) = Some (i, n).
Proof.
  unfold classify. intros H.
  destruct (idx_line t_FILE (strip_cr l)) as [[i0 n0]|]; [discriminate H|].
  destruct (idx_line t_INLINE_ORIGIN (strip_cr l)) as [[i0 n0]|]; [injection H as -> ->; reflexivity|].
  destruct (public_line (strip_cr l)) as [[a0 n0]|]; [discriminate H|].
  destruct (func_line (strip_cr l)) as [[[a0 s0] n0]|]; [discriminate H|].
  classify_tail H.
Qed.

Lemma classify_public l a n : classify l = RPublic a n -> public_line (strip_cr l) = Some (a, n).
Proof.
  unfold classify. intros H.
  destruct (idx_line t_FILE (strip_cr l)) as [[i0 n0]|]; [discriminate H|].
  destruct (idx_line t_INLINE_ORIGIN (strip_cr l)) as [[i0 n0]|]; [discriminate H|].
  destruct (public_line (strip_cr l)) as [[a0 n0]|]; [injection H as -> ->; reflexivity|].
  destruct (func_line (strip_cr l)) as [[[a0 s0] n0]|]; [discriminate H|].
  classify_tail H.
Qed.

Lemma classify_func l a s n : classify l = RFunc a s n -> func_line (strip_cr l) = Some (a, s, n).
Proof.
  unfold classify. intros H.
  destruct (idx_line t_FILE (strip_cr l)) as [[i0 n0]|]; [discriminate H|].
  destruct (idx_line t_INLINE_ORIGIN (strip_cr l)) as [[i0 n0]|]; [discriminate H|].
  destruct (public_line (strip_cr l)) as [[a0 n0]|]; [discriminate H|].
  destruct (func_line (strip_cr l)) as [[[a0 s0] n0]|]; [injection H as -> -> ->; reflexivity|].
  classify_tail H.
Qed.

Lemma skipn_skipn' {A} : forall (m n : nat) (l : list A), skipn n (skipn m l) = skipn (n + m) l.
Proof.
  induction m as [|m IH]; intros n l; [rewrite Nat.add_0_r; reflexivity|].
  rewrite Nat.add_succ_r. destruct l as [|x l]; [rewrite !skipn_nil; reflexivity|]. cbn [skipn]. apply IH.
Qed.

(* ---------- Forall2 ---------- *)

Lemma Forall2_in_r {A B} (R : A -> B -> Prop) : forall l1 l2, Forall2 R l1 l2 -> forall b, In b l2 -> exists a, In a l1 /\ R a b.
Proof.
  induction 1 as [|x y l1 l2 Hxy _ IH]; intros b Hb; [destruct Hb|].
  destruct Hb as [<-|Hb]; [exists x; split; [left; reflexivity|exact Hxy]|].
  destruct (IH b Hb) as (a & H1 & H2). exists a. split; [right; exact H1|exact H2].
Qed.

Lemma Forall2_in_l {A B} (R : A -> B -> Prop) : forall l1 l2, Forall2 R l1 l2 -> forall a, In a l1 -> exists b, In b l2 /\ R a b.
Proof.
  induction 1 as [|x y l1 l2 Hxy _ IH]; intros a Ha; [destruct Ha|].
  destruct Ha as [<-|Ha]; [exists y; split; [left; reflexivity|exact Hxy]|].
  destruct (IH a Ha) as (b & H1 & H2). exists b. split; [right; exact H1|exact H2].
Qed.

Lemma Forall2_map_eq {A B C} (R : A -> B -> Prop) (f : A -> C) (g : B -> C) :
  (forall a b, R a b -> f a = g b) -> forall l1 l2, Forall2 R l1 l2 -> map f l1 = map g l2.
Proof. intros H. induction 1 as [|x y l1 l2 Hxy _ IH]; [reflexivity|]. cbn. rewrite (H _ _ Hxy), IH. reflexivity. Qed.

(* ---------- association lists of FILE / INLINE_ORIGIN records ---------- *)

Fixpoint assoc (l : list (N * bytes)) (i : N) : option bytes :=
  match l with [] => None | (j, n) :: t => if j =? i then Some n else assoc t i end.

Definition sel_file (r : rec) : option (N * bytes) := match r with RFile i n => Some (i, n) | _ => None end.
Definition sel_origin (r : rec) : option (N * bytes) := match r with ROrigin i n => Some (i, n) | _ => None end.
Definition picks (sel : rec -> option (N * bytes)) (rs : list rec) : list (N * bytes) :=
  flat_map (fun r => match sel r with Some p => [p] | None => [] end) rs.

Lemma file_name_assoc i : forall rs, file_name rs i = assoc (picks sel_file rs) i.
Proof.
  induction rs as [|r rs IH]; [reflexivity|].
  destruct r; cbn; try exact IH. rewrite IH. reflexivity.
Qed.

Lemma origin_name_assoc i : forall rs, origin_name rs i = assoc (picks sel_origin rs) i.
Proof.
  induction rs as [|r rs IH]; [reflexivity|].
  destruct r; cbn; try exact IH. rewrite IH. reflexivity.
Qed.

Lemma picks_file_keys : forall rs,
  flat_map (fun r => match r with RFile i _ => [i] | _ => [] end) rs = map fst (picks sel_file rs).
Proof. induction rs as [|r rs IH]; [reflexivity|]. destruct r; cbn; try exact IH. rewrite IH. reflexivity. Qed.

Lemma picks_origin_keys : forall rs,
  flat_map (fun r => match r with ROrigin i _ => [i] | _ => [] end) rs = map fst (picks sel_origin rs).
Proof. induction rs as [|r rs IH]; [reflexivity|]. destruct r; cbn; try exact IH. rewrite IH. reflexivity. Qed.

Lemma assoc_in : forall l i n, NoDup (map fst l) -> In (i, n) l -> assoc l i = Some n.
Proof.
  induction l as [|[j m] t IH]; intros i n Hn Hin; [destruct Hin|].
  cbn in Hn. inversion Hn as [|? ? N1 N2]; subst. cbn.
  destruct Hin as [E|Hin].
  - injection E as -> ->. rewrite N.eqb_refl. reflexivity.
  - destruct (j =? i) eqn:C; [|exact (IH _ _ N2 Hin)].
    exfalso. apply N.eqb_eq in C. subst j. apply N1. change i with (fst (i, n)). apply in_map. exact Hin.
Qed.

Lemma assoc_none : forall l i, (forall n, ~ In (i, n) l) -> assoc l i = None.
Proof.
  induction l as [|[j m] t IH]; intros i H; [reflexivity|]. cbn.
  destruct (j =? i) eqn:C.
  - exfalso. apply N.eqb_eq in C. subst j. apply (H m). left. reflexivity.
  - apply IH. intros n Hin. apply (H n). right. exact Hin.
Qed.

Definition gen_entries (sel : rec -> option (N * bytes)) (al : list (N * bytes)) : list fentry :=
  flat_map (fun '(off, l) => match sel (classify l) with Some (i, _) => [mkF i (llen l) off] | None => [] end) al.

Lemma file_entries_gen al : file_entries al = gen_entries sel_file al.
Proof.
  unfold file_entries, gen_entries. apply flat_map_ext. intros [off l]. destruct (classify l); reflexivity.
Qed.
Lemma origin_entries_gen al : origin_entries al = gen_entries sel_origin al.
Proof.
  unfold origin_entries, gen_entries. apply flat_map_ext. intros [off l]. destruct (classify l); reflexivity.
Qed.

(* ---------- bodies ---------- *)

Fixpoint body_lines_of (r : list bytes) : list bytes :=
  match r with [] => [] | l :: t => if is_top l then [] else l :: body_lines_of t end.
Fixpoint after_body (r : list bytes) : list bytes :=
  match r with [] => [] | l :: t => if is_top l then r else after_body t end.

Lemma body_split r : r = body_lines_of r ++ after_body r.
Proof. induction r as [|l t IH]; [reflexivity|]. cbn. destruct (is_top l); [reflexivity|]. cbn. f_equal. exact IH. Qed.

Lemma body_nontop r : Forall (fun l => is_top l = false) (body_lines_of r).
Proof. induction r as [|l t IH]; [constructor|]. cbn. destruct (is_top l) eqn:C; [constructor|]. constructor; assumption. Qed.

Lemma body_of_classify r : body_of (map classify r) = map classify (body_lines_of r).
Proof.
  induction r as [|l t IH]; [reflexivity|]. cbn [map body_of body_lines_of]. unfold is_top.
  destruct (classify l) eqn:C; cbn [map]; rewrite ?C; try reflexivity; rewrite IH; reflexivity.
Qed.

Lemma next_top_body fin : forall r o,
  next_top (with_offsets o r) fin = match after_body r with [] => fin | _ => o + len (rejoin (body_lines_of r) true) end.
Proof.
  induction r as [|l t IH]; intros o; [reflexivity|].
  cbn [with_offsets next_top after_body body_lines_of]. destruct (is_top l).
  - cbn. rewrite N.add_0_r. reflexivity.
  - rewrite IH. destruct (after_body t); [reflexivity|].
    rewrite rejoin_true_cons, len_app, len_cons. lia.
Qed.

(* ---------- everything that refers to one text ---------- *)

Section Agree.
Variables (text : bytes) (term : bool).
Hypothesis Hlen : len text < 4294967296.

Definition SUF (off : N) (r : list bytes) : Prop :=
  r <> [] -> skipn (N.to_nat off) text = rejoin r term /\ off + len (rejoin r term) = len text /\ Forall nonl r /\ last_ok r term.

Lemma SUF_step off l r : SUF off (l :: r) -> SUF (off + len l + 1) r.
Proof.
  intros H Hr. destruct (H ltac:(discriminate)) as (H1 & H2 & H3 & H4).
  rewrite rejoin_cons in H1, H2 by exact Hr.
  repeat split.
  - replace (N.to_nat (off + len l + 1)) with (length (l ++ [NL]) + N.to_nat off)%nat
      by (rewrite app_length; unfold len; cbn [length]; lia).
    rewrite <- skipn_skipn', H1.
    replace (l ++ NL :: rejoin r term) with ((l ++ [NL]) ++ rejoin r term) by (rewrite <- app_assoc; reflexivity).
    rewrite skipn_app, skipn_all, Nat.sub_diag. reflexivity.
  - rewrite len_app, len_cons in H2. lia.
  - inversion H3; assumption.
  - destruct r as [|l2 r]; [congruence|]. exact (last_ok_tail _ _ _ _ H4).
Qed.

Lemma rejoin_head l r t : exists tail, rejoin (l :: r) t = l ++ tail.
Proof.
  destruct r as [|l2 r].
  - cbn. destruct t; [exists [NL]; reflexivity|exists []; rewrite app_nil_r; reflexivity].
  - rewrite rejoin_cons by discriminate. eexists. reflexivity.
Qed.

Lemma sub_prefix off l r p t : SUF off (l :: r) -> l = p ++ t -> sub text off (len p) = Some p.
Proof.
  intros H E. destruct (H ltac:(discriminate)) as (H1 & H2 & _ & _).
  destruct (rejoin_head l r term) as [tail Ht]. rewrite Ht, E, <- app_assoc in H1.
  apply (sub_skipn_firstn _ _ _ _ _ H1 eq_refl). lia.
Qed.

Lemma llen_eq off l r : SUF off (l :: r) -> llen l = len (strip_cr l).
Proof.
  intros H. destruct (H ltac:(discriminate)) as (_ & H2 & _ & _).
  destruct (rejoin_head l r term) as [tail Ht]. rewrite Ht in H2.
  destruct (strip_cr_prefix l) as [t E]. rewrite E in H2 at 1. rewrite !len_app in H2.
  unfold llen. fold (len (strip_cr l)). apply N.mod_small. lia.
Qed.

Lemma sub_stripped off l r : SUF off (l :: r) -> sub text off (llen l) = Some (strip_cr l).
Proof.
  intros H. rewrite (llen_eq _ _ _ H). destruct (strip_cr_prefix l) as [t E]. exact (sub_prefix _ _ _ _ _ H E).
Qed.

(* FILE / INLINE_ORIGIN entries point at their records *)
Definition RF (tag : bytes) (p : N * bytes) (e : fentry) : Prop :=
  f_index e = fst p /\ exists input, sub text (f_off e) (f_len e) = Some input /\ idx_line tag input = Some p.

Lemma gen_entries_RF sel tag :
  (forall l p, sel (classify l) = Some p -> idx_line tag (strip_cr l) = Some p) ->
  forall r off, SUF off r -> Forall2 (RF tag) (picks sel (map classify r)) (gen_entries sel (with_offsets off r)).
Proof.
  intros Hsel. induction r as [|l r IH]; intros off HS; [constructor|].
  cbn [map with_offsets]. unfold picks, gen_entries. cbn [flat_map].
  fold (picks sel (map classify r)). fold (gen_entries sel (with_offsets (off + len l + 1) r)).
  specialize (IH _ (SUF_step _ _ _ HS)).
  destruct (sel (classify l)) as [[i n]|] eqn:E; [|exact IH].
  cbn [app]. constructor; [|exact IH].
  split; [reflexivity|]. exists (strip_cr l). cbn [f_off f_len]. split; [exact (sub_stripped _ _ _ HS)|exact (Hsel _ _ E)].
Qed.

Lemma get_string_agrees tag F E files :
  Forall2 (RF tag) F E -> NoDup (map fst F) -> files = svb_finish (fold_left svb_push E svb_init) ->
  forall i, get_string text tag files i = assoc F i.
Proof.
  intros HF Hn -> i.
  assert (Hk : map fst F = map f_index E) by (apply (Forall2_map_eq (RF tag)); [intros a b [H _]; symmetry; exact H|exact HF]).
  assert (Hinner : sv_inner (fold_left svb_push E svb_init) = E).
  { rewrite svb_pushes; [reflexivity| |discriminate]. cbn. rewrite <- Hk. exact Hn. }
  unfold get_string. destruct (find_f _ i) as [e|] eqn:Ff.
  - destruct (find_f_some _ _ _ Ff) as [H1 H2]. apply svb_finish_sub in H1. rewrite Hinner in H1.
    destruct (Forall2_in_r _ _ _ HF e H1) as ([j n] & P1 & P2 & input & P3 & P4). cbn [fst] in P2.
    rewrite P3, P4. assert (Hji : j = i) by congruence. rewrite Hji in P1. symmetry. apply assoc_in; assumption.
  - symmetry. apply assoc_none. intros n Hin.
    destruct (Forall2_in_l _ _ _ HF _ Hin) as (e & P1 & P2 & _). cbn [fst] in P2.
    rewrite <- Hinner in P1. destruct (svb_finish_key _ _ P1) as (e' & Q1 & Q2).
    apply (find_f_none _ _ Ff e' Q1). congruence.
Qed.

(* symbol entries point at their records *)
Definition RS (y : sym) (e : sentry) : Prop :=
  s_addr e = sym_addr y /\
  match y with
  | SPublic a n => s_kind e = 0 /\ exists line, sub text (s_off e) (s_len e) = Some line /\ public_line line = Some (a, n)
  | SFunc a sz n body =>
      s_kind e = 1 /\ exists block, sub text (s_off e) (s_len e) = Some block /\
      parse_func block = if body_bad body then None else Some (mkFi n sz (body_lines body) (body_inlinees body))
  end.

Lemma func_block off l r : SUF off (l :: r) ->
  exists block rest,
    sub text off ((next_top (with_offsets (off + len l + 1) r) (len text) - off) mod 4294967296) = Some block /\
    cut_line block = (l, rest) /\ block_lines (S (length rest)) rest = body_lines_of r.
Proof.
  intros HS. destruct (HS ltac:(discriminate)) as (H1 & H2 & H3 & H4).
  inversion H3 as [|? ? Hl Hr]; subst.
  rewrite next_top_body. pose proof (body_split r) as Hsp.
  destruct (after_body r) as [|t r'] eqn:EA.
  - rewrite app_nil_r in Hsp. rewrite <- Hsp.
    exists (rejoin (l :: r) term), (rejoin r term).
    replace ((len text - off) mod 4294967296) with (len (rejoin (l :: r) term)) by (rewrite N.mod_small; lia).
    split; [|split].
    + apply (sub_skipn_firstn _ _ _ _ [] ); [rewrite app_nil_r; exact H1|reflexivity|lia].
    + apply cut_line_rejoin. exact Hl.
    + destruct r as [|l2 r2]; [reflexivity|].
      apply block_lines_rejoin; [exact Hr|exact (last_ok_tail _ _ _ _ H4)|lia].
  - set (B := body_lines_of r) in *.
    exists (rejoin (l :: B) true), (rejoin B true).
    assert (HB : Forall nonl B) by (rewrite Hsp in Hr; apply Forall_app in Hr; tauto).
    assert (E : rejoin (l :: r) term = rejoin (l :: B) true ++ rejoin (t :: r') term).
    { rewrite Hsp at 1. change (l :: B ++ t :: r') with ((l :: B) ++ t :: r'). apply rejoin_app. discriminate. }
    assert (Hle : len (rejoin (l :: B) true) < 4294967296) by (rewrite E, len_app in H2; lia).
    replace ((off + len l + 1 + len (rejoin B true) - off) mod 4294967296) with (len (rejoin (l :: B) true))
      by (rewrite N.mod_small; rewrite rejoin_true_cons, len_app, len_cons in *; lia).
    split; [|split].
    + apply (sub_skipn_firstn _ _ _ _ (rejoin (t :: r') term)); [rewrite H1; exact E|reflexivity|lia].
    + apply cut_line_rejoin. exact Hl.
    + apply block_lines_rejoin; [exact HB|intros; discriminate|lia].
Qed.

Lemma entries_RS : forall r off, SUF off r ->
  Forall2 RS (syms_of (map classify r)) (entries (with_offsets off r) (len text)).
Proof.
  induction r as [|l r IH]; intros off HS; [constructor|].
  cbn [map syms_of with_offsets entries].
  specialize (IH _ (SUF_step _ _ _ HS)).
  destruct (classify l) as [i n|i n|a n|a s n|ins| |x| |] eqn:C; try exact IH.
  - constructor; [|exact IH]. split; [reflexivity|]. split; [reflexivity|].
    exists (strip_cr l). cbn [s_off s_len]. split; [exact (sub_stripped _ _ _ HS)|exact (classify_public _ _ _ C)].
  - constructor; [|exact IH]. split; [reflexivity|]. split; [reflexivity|].
    destruct (func_block _ _ _ HS) as (block & rest & S1 & S2 & S3).
    exists block. cbn [s_off s_len]. split; [exact S1|].
    unfold parse_func. rewrite S2, (classify_func _ _ _ _ C), S3.
    rewrite (parse_body_classify _ (body_nontop r)), body_of_classify.
    destruct (body_bad (map classify (body_lines_of r))); reflexivity.
Qed.

End Agree.

(* ---------- the index of a text ---------- *)

Lemma index_shape text first r ix :
  split_lines text = (with_offsets 0 (first :: r), len text) -> module_line_ok (strip_cr first) = true ->
  index_of_text text = Some ix ->
  let al := with_offsets (0 + len first + 1) r in
  i_symbols ix = dedup_s (List.length (entries al (len text))) (sort_s (entries al (len text))) /\
  i_files ix = svb_finish (fold_left svb_push (file_entries al) svb_init) /\
  i_origins ix = svb_finish (fold_left svb_push (origin_entries al) svb_init).
Proof.
  intros Hs Hm Hi al. unfold index_of_text in Hi. rewrite Hs in Hi.
  cbn [with_offsets fold_left] in Hi. fold al in Hi.
  set (c1 := process_line creator_init (0, first)) in Hi.
  assert (Hc1 : core_of c1 = ([], svb_init, svb_init, None) /\ module_found c1 = true).
  { unfold c1, process_line. cbn [module_found creator_init negb]. split; [reflexivity|exact Hm]. }
  destruct Hc1 as [Hc1 Hm1].
  destruct (fold_core al c1 Hm1) as [Hf Hmf]. rewrite Hc1 in Hf.
  set (c2 := fold_left process_line al c1) in *.
  pose proof (fold_core_closed al [] svb_init svb_init None (len text)) as Hcl.
  rewrite <- Hf in Hcl. unfold core_of in Hcl. destruct Hcl as (K1 & K2 & K3).
  unfold creator_finish in Hi. destruct (finish_pending_core c2 (len text)) as [Q1 Q2].
  rewrite Q2, Hmf in Hi. injection Hi as <-. cbn [i_symbols i_files i_origins].
  unfold core_of in Q1. injection Q1 as Q11 Q12 Q13 _.
  rewrite Q11, Q12, Q13, K1, K2, K3. cbn [pend_entry app]. repeat split.
Qed.

(* ---------- the theorem ---------- *)

Theorem lookup_agrees_with_text text ix a :
  len text < 4294967296 -> wf_text text = true -> index_of_text text = Some ix ->
  lookup text ix a = text_lookup text a.
Proof.
  intros Hlen Hwf Hix.
  destruct (lines_exist text) as (L & term & Ht & Hn & Hl).
  assert (Hs : split_lines text = (with_offsets 0 L, len text)) by (rewrite Ht at 1 2; apply split_lines_rejoin; assumption).
  unfold wf_text, text_lookup, records in *. rewrite Hs in *. cbn [fst] in *.
  destruct L as [|first r]; [cbn in Hwf; discriminate|].
  cbn [with_offsets] in Hwf |- *.
  set (o := 0 + len first + 1) in *.
  assert (Hrs : map (fun x : N * bytes => classify (snd x)) (with_offsets o r) = map classify r)
    by (rewrite <- (map_map snd classify), with_offsets_snd; reflexivity).
  rewrite Hrs in *. set (rs := map classify r) in *.
  unfold wf_records in Hwf.
  apply andb_true_iff in Hwf as [Hwf W5]. apply andb_true_iff in Hwf as [Hwf W4].
  apply andb_true_iff in Hwf as [Hwf W3]. apply andb_true_iff in Hwf as [W1 W2].
  apply distinctb_NoDup in W2, W3, W4. rewrite picks_file_keys in W3. rewrite picks_origin_keys in W4.
  rewrite forallb_forall in W5.
  (* the suffix after the MODULE line *)
  assert (HS0 : SUF text term 0 (first :: r)).
  { intros _. repeat split; [exact Ht|rewrite <- Ht; lia|exact Hn|exact Hl]. }
  pose proof (SUF_step text term Hlen 0 first r HS0) as HS. fold o in HS.
  destruct (index_shape text first r ix Hs W1 Hix) as (I1 & I2 & I3). fold o in I1, I2, I3.
  set (al := with_offsets o r) in *. set (E := entries al (len text)) in *.
  pose proof (entries_RS text term Hlen r o HS) as HRS. fold rs in HRS. fold al in HRS. fold E in HRS.
  set (SY := syms_of rs) in *.
  assert (Hk : map sym_addr SY = map s_addr E)
    by (apply (Forall2_map_eq (RS text)); [intros y e [H _]; symmetry; exact H|exact HRS]).
  assert (HnE : NoDup (map s_addr E)) by (rewrite <- Hk; exact W2).
  rewrite (dedup_s_sorted _ _ (sort_s_sorted _ HnE)) in I1.
  pose proof (sort_s_sorted _ HnE) as Hsorted. pose proof (sort_s_perm E) as Hperm.
  (* strings *)
  assert (GF : forall i, get_string text t_FILE (i_files ix) i = file_name rs i).
  { intros i. rewrite file_name_assoc. apply (get_string_agrees text t_FILE _ (file_entries al)); [|exact W3|exact I2].
    rewrite file_entries_gen. apply (gen_entries_RF text term Hlen _ _); [|exact HS].
    intros l [j n] Hsel. destruct (classify l) eqn:C; try discriminate Hsel. injection Hsel as -> ->. exact (classify_file _ _ _ C). }
  assert (GO : forall i, get_string text t_INLINE_ORIGIN (i_origins ix) i = origin_name rs i).
  { intros i. rewrite origin_name_assoc. apply (get_string_agrees text t_INLINE_ORIGIN _ (origin_entries al)); [|exact W4|exact I3].
    rewrite origin_entries_gen. apply (gen_entries_RF text term Hlen _ _); [|exact HS].
    intros l [j n] Hsel. destruct (classify l) eqn:C; try discriminate Hsel. injection Hsel as -> ->. exact (classify_origin _ _ _ C). }
  (* transfer between the sorted entries and the symbols of the text *)
  assert (TE : forall e, In e (sort_s E) -> exists y, In y SY /\ RS text y e).
  { intros e He. apply (Forall2_in_r _ _ _ HRS). apply (Permutation_in _ Hperm). exact He. }
  assert (TY : forall y, In y SY -> exists e, In e (sort_s E) /\ RS text y e).
  { intros y Hy. destruct (Forall2_in_l _ _ _ HRS y Hy) as (e & H1 & H2). exists e. split; [|exact H2].
    apply (Permutation_in _ (Permutation_sym Hperm)). exact H1. }
  unfold lookup, text_lookup_rs. fold SY. rewrite I1.
  pose proof (find_sym_spec a (sort_s E) None Hsorted ltac:(discriminate)) as FS.
  destruct (find_sym (sort_s E) a None) as [[s|] nx].
  2:{ destruct FS as [_ FS]. rewrite best_sym_fold, best_sym_none; [reflexivity|].
      intros z Hz. destruct (TY z Hz) as (e & H1 & H2 & _). rewrite <- H2. exact (FS e H1). }
  destruct FS as (F1 & F2 & F3 & F4). destruct F1 as [F1|F1]; [discriminate|].
  destruct (TE s F1) as (y & Hy & Hys & Hyk).
  assert (HB : best_sym SY a = Some y).
  { rewrite best_sym_fold. apply best_sym_max; [exact W2|exact Hy|lia| |discriminate].
    intros z Hz Hza. destruct (TY z Hz) as (e & H1 & H2 & _). rewrite <- H2, <- Hys. apply F3; [exact H1|lia]. }
  rewrite HB. specialize (W5 y Hy).
  destruct y as [addr name|addr size name body]; cbn [sym_addr] in *.
  - (* PUBLIC *)
    destruct Hyk as (K0 & line & K1 & K2). rewrite K0. cbn [N.eqb]. rewrite K1, K2, Hys. f_equal.
    destruct nx as [n|].
    + destruct F4 as (G1 & G2 & G3). destruct (TE n G1) as (z & Hz & Hzs & _).
      rewrite next_addr_fold, (next_addr_some addr (s_addr n)); [reflexivity|lia| |discriminate|].
      * left. rewrite Hzs. apply in_map. exact Hz.
      * intros w Hw Hwa. destruct (TY w Hw) as (e & H1 & H2 & _). rewrite <- H2.
        destruct (N.le_gt_cases (s_addr e) a) as [Le|Gt]; [specialize (F3 e H1 Le); lia|exact (G3 e H1 Gt)].
    + rewrite next_addr_fold, next_addr_none; [reflexivity|].
      intros w Hw. destruct (TY w Hw) as (e & H1 & H2 & _). rewrite <- H2, <- Hys. apply F3; [exact H1|exact (F4 e H1)].
  - (* FUNC *)
    apply andb_true_iff in W5 as [W5 V4]. apply andb_true_iff in W5 as [W5 V3]. apply andb_true_iff in W5 as [V1 V2].
    apply negb_true_iff in V2.
    destruct Hyk as (K0 & block & K1 & K2). rewrite V2 in K2 |- *. rewrite K0. change (1 =? 0) with false. cbn iota.
    rewrite K1, K2. cbn [fi_size fi_inlinees fi_lines fi_name]. rewrite Hys.
    replace (N.min (addr + size) 4294967295 <=? a) with (addr + size <=? a) by lia.
    destruct (addr + size <=? a); [reflexivity|].
    rewrite (frames_agree text ix rs (mkFi name size (body_lines body) (body_inlinees body)) a
               (fun d => inlinee_agrees _ d a V4) GF GO).
    cbn [fi_inlinees].
    destruct (text_frames (S (List.length (body_inlinees body))) rs (body_inlinees body) a 0 (Some name)) as [frames nm].
    rewrite (covering_line_agrees _ a V3). destruct (covering_line (body_lines body) a) as [sl|]; [rewrite GF|]; reflexivity.
Qed.
