(* C03, thread order: in the serialized order the threads of one process are adjacent, a main thread (if the process has
   one) comes first in its block, and first_thread_index (a counter's mainThreadIndex) is the position of the first thread
   of the process the caller named. *)
From SV Require Import Model.ProfileTables Proofs.ProfileTablesProofs.
From Coq Require Import Lia Permutation Arith.

Definition proc_of (threads : list (nat * tkey)) (h : nat) : nat := fst (nth h threads (0, (false, 0%N, None, (0%N, 0%N)))).
Definition is_main (threads : list (nat * tkey)) (h : nat) : bool :=
  let '(notmain, _, _, _) := tkey_of threads h in negb notmain.
Definition block (threads : list (nat * tkey)) (p : nat) : list nat :=
  sort (fun a b => tkey_leb (tkey_of threads a) (tkey_of threads b)) (threads_of threads p).

Lemma sorted_threads_blocks procs threads : sorted_threads procs threads = flat_map (block threads) (sorted_processes procs).
Proof. reflexivity. Qed.

(* ---------- which handles a block holds ---------- *)

Lemma in_combine_seq {A} (d : A) : forall (l : list A) (s i : nat) (x : A),
  In (i, x) (combine (seq s (length l)) l) <-> (s <= i < s + length l /\ nth (i - s) l d = x).
Proof.
  induction l as [|y l IH]; intros s i x; cbn [length seq combine].
  - split; [intros []|lia].
  - cbn [In]. rewrite IH. split.
    + intros [E|[H1 H2]].
      * injection E as <- <-. rewrite Nat.sub_diag. split; [lia|reflexivity].
      * split; [lia|]. replace (i - s) with (S (i - S s)) by lia. exact H2.
    + intros [H1 H2]. destruct (Nat.eq_dec i s) as [->|Hne].
      * left. rewrite Nat.sub_diag in H2. cbn in H2. subst. reflexivity.
      * right. split; [lia|]. replace (i - s) with (S (i - S s)) in H2 by lia. exact H2.
Qed.

Lemma threads_of_spec threads p h : In h (threads_of threads p) <-> (h < length threads /\ proc_of threads h = p).
Proof.
  unfold threads_of, proc_of. rewrite in_map_iff. split.
  - intros ([i x] & E & Hin). cbn in E. subst i. apply filter_In in Hin as [Hin Hp]. cbn in Hp.
    apply (in_combine_seq (0, (false, 0%N, None, (0%N, 0%N)))) in Hin as [H1 H2].
    rewrite Nat.sub_0_r in H2. unfold tkey in *. split; [lia|]. rewrite H2. apply Nat.eqb_eq in Hp. exact Hp.
  - intros [H1 H2]. exists (h, nth h threads (0, (false, 0%N, None, (0%N, 0%N)))). split; [reflexivity|].
    apply filter_In. split.
    + apply (in_combine_seq (0, (false, 0%N, None, (0%N, 0%N)))). rewrite Nat.sub_0_r. split; [unfold tkey in *; lia|reflexivity].
    + cbn. apply Nat.eqb_eq. exact H2.
Qed.

Lemma block_spec threads p h : In h (block threads p) <-> (h < length threads /\ proc_of threads h = p).
Proof.
  rewrite <- threads_of_spec. unfold block. split; intros H.
  - eapply Permutation_in; [apply sort_perm|exact H].
  - eapply Permutation_in; [apply Permutation_sym, sort_perm|exact H].
Qed.

Lemma block_length threads p : length (block threads p) = length (threads_of threads p).
Proof. apply Permutation_length. apply sort_perm. Qed.

Lemma sorted_processes_nodup procs : NoDup (sorted_processes procs).
Proof.
  unfold sorted_processes. eapply Permutation_NoDup; [apply Permutation_sym, sort_perm|]. apply seq_NoDup.
Qed.

Lemma sorted_processes_in procs p : In p (sorted_processes procs) <-> p < length procs.
Proof.
  unfold sorted_processes. split; intros H.
  - eapply Permutation_in in H; [|apply sort_perm]. apply in_seq in H. lia.
  - eapply Permutation_in; [apply Permutation_sym, sort_perm|]. apply in_seq. lia.
Qed.

(* ---------- adjacency ---------- *)

Section Blocks.
  Context {A K : Type} (f : K -> list A) (key : A -> K).
  Hypothesis f_key : forall p x, In x (f p) -> key x = p.

  Lemma flat_map_key ps x : In x (flat_map f ps) -> In (key x) ps.
  Proof. intros H. apply in_flat_map in H as (p & H1 & H2). rewrite (f_key _ _ H2). exact H1. Qed.

  Lemma blocks_adjacent : forall ps, NoDup ps -> forall i j k xi xj xk, i <= j -> j <= k ->
    nth_error (flat_map f ps) i = Some xi -> nth_error (flat_map f ps) j = Some xj -> nth_error (flat_map f ps) k = Some xk ->
    key xi = key xk -> key xj = key xi.
  Proof.
    induction ps as [|p ps IH]; intros Hn i j k xi xj xk Hij Hjk Hi Hj Hk E; [destruct i; discriminate|].
    inversion Hn as [|? ? N1 N2]; subst. cbn [flat_map] in *.
    destruct (Nat.lt_ge_cases i (length (f p))) as [Li|Li].
    - rewrite nth_error_app1 in Hi by exact Li. apply nth_error_In in Hi. pose proof (f_key _ _ Hi) as Ki.
      destruct (Nat.lt_ge_cases k (length (f p))) as [Lk|Lk].
      + rewrite nth_error_app1 in Hj by lia. apply nth_error_In in Hj. rewrite (f_key _ _ Hj), Ki. reflexivity.
      + rewrite nth_error_app2 in Hk by exact Lk. apply nth_error_In in Hk. apply flat_map_key in Hk.
        exfalso. apply N1. rewrite <- Ki, E. exact Hk.
    - rewrite nth_error_app2 in Hi, Hj, Hk by lia.
      apply (IH N2 (i - length (f p)) (j - length (f p)) (k - length (f p)) xi xj xk); try assumption; lia.
  Qed.

  (* the block of p starts right after the blocks of the processes before it *)
  Lemma block_start pre p post x r : ~ In p pre -> f p = x :: r ->
    nth_error (flat_map f (pre ++ p :: post)) (length (flat_map f pre)) = Some x /\
    forall j y, j < length (flat_map f pre) -> nth_error (flat_map f (pre ++ p :: post)) j = Some y -> key y <> p.
  Proof.
    intros Hn Hf. rewrite flat_map_app. cbn [flat_map]. split.
    - rewrite nth_error_app2 by lia. rewrite Nat.sub_diag, Hf. reflexivity.
    - intros j y Hj Hy. rewrite nth_error_app1 in Hy by exact Hj. apply nth_error_In in Hy.
      apply flat_map_key in Hy. intros E. apply Hn. rewrite <- E. exact Hy.
  Qed.
End Blocks.

Theorem threads_adjacent procs threads i j k hi hj hk : i <= j -> j <= k ->
  nth_error (sorted_threads procs threads) i = Some hi -> nth_error (sorted_threads procs threads) j = Some hj ->
  nth_error (sorted_threads procs threads) k = Some hk ->
  proc_of threads hi = proc_of threads hk -> proc_of threads hj = proc_of threads hi.
Proof.
  rewrite sorted_threads_blocks.
  apply (blocks_adjacent (block threads) (proc_of threads)).
  - intros p x H. apply block_spec in H. tauto.
  - apply sorted_processes_nodup.
Qed.

(* every registered thread of a registered process is serialized exactly once *)
Theorem threads_all_serialized procs threads h : h < length threads -> proc_of threads h < length procs ->
  In h (sorted_threads procs threads).
Proof.
  intros H1 H2. rewrite sorted_threads_blocks. apply in_flat_map. exists (proc_of threads h).
  split; [apply sorted_processes_in; exact H2|apply block_spec; split; [exact H1|reflexivity]].
Qed.

(* ---------- a main thread comes first ---------- *)

Lemma tkey_leb_main_first a b : fst (fst (fst a)) = true -> fst (fst (fst b)) = false -> tkey_leb a b = false.
Proof. destruct a as [[[am ast] an] at_], b as [[[bm bst] bn] bt]. cbn. intros -> ->. reflexivity. Qed.
Lemma tkey_leb_main_stays a b : fst (fst (fst a)) = false -> fst (fst (fst b)) = true -> tkey_leb a b = true.
Proof. destruct a as [[[am ast] an] at_], b as [[[bm bst] bn] bt]. cbn. intros -> ->. reflexivity. Qed.

Definition notmain (threads : list (nat * tkey)) (h : nat) : bool := fst (fst (fst (tkey_of threads h))).
Lemma is_main_notmain threads h : is_main threads h = negb (notmain threads h).
Proof. unfold is_main, notmain. destruct (tkey_of threads h) as [[[m s] n] t]. reflexivity. Qed.

Definition head_main (threads : list (nat * tkey)) (l : list nat) : Prop :=
  (exists h, In h l /\ notmain threads h = false) -> exists h0 r, l = h0 :: r /\ notmain threads h0 = false.

Lemma insert_after_head_main threads x l :
  head_main threads l -> head_main threads (insert_after (fun a b => tkey_leb (tkey_of threads a) (tkey_of threads b)) x l).
Proof.
  intros Hl. destruct l as [|y r]; cbn [insert_after].
  - intros (h & [<-|[]] & Hm). exists x, []. split; [reflexivity|exact Hm].
  - destruct (tkey_leb (tkey_of threads y) (tkey_of threads x)) eqn:C.
    + intros (h & Hin & Hm). exists y, (insert_after (fun a b => tkey_leb (tkey_of threads a) (tkey_of threads b)) x r).
      split; [reflexivity|].
      destruct (notmain threads y) eqn:My; [|reflexivity].
      (* y is not main: then nothing in y :: r is main (head_main), so h = x is main, but then y would not stay in front *)
      assert (Hx : notmain threads x = false).
      { destruct Hin as [<-|Hin]; [congruence|].
        eapply Permutation_in in Hin; [|apply insert_after_perm]. destruct Hin as [<-|Hin]; [exact Hm|].
        destruct (Hl (ex_intro _ h (conj (or_intror Hin) Hm))) as (h0 & r0 & E & M0). injection E as <- <-. congruence. }
      unfold notmain in My, Hx. rewrite (tkey_leb_main_first _ _ My Hx) in C. discriminate.
    + intros (h & Hin & Hm). exists x, (y :: r). split; [reflexivity|].
      destruct (notmain threads x) eqn:Mx; [|reflexivity].
      assert (My : notmain threads y = false).
      { destruct Hin as [<-|Hin]; [congruence|].
        destruct (Hl (ex_intro _ h (conj Hin Hm))) as (h0 & r0 & E & M0). injection E as <- <-. exact M0. }
      unfold notmain in My, Mx. rewrite (tkey_leb_main_stays _ _ My Mx) in C. discriminate.
Qed.

Lemma sort_head_main threads : forall l acc, head_main threads acc ->
  head_main threads (fold_left (fun a x => insert_after (fun a b => tkey_leb (tkey_of threads a) (tkey_of threads b)) x a) l acc).
Proof.
  induction l as [|x l IH]; intros acc H; [exact H|]. cbn [fold_left]. apply IH. apply insert_after_head_main. exact H.
Qed.

Theorem main_thread_first threads p :
  (exists h, h < length threads /\ proc_of threads h = p /\ is_main threads h = true) ->
  exists h0 r, block threads p = h0 :: r /\ is_main threads h0 = true.
Proof.
  intros (h & H1 & H2 & H3).
  assert (HM : head_main threads (block threads p)).
  { unfold block, sort. apply sort_head_main. intros (h' & [] & _). }
  destruct HM as (h0 & r & E & M).
  - exists h. split; [apply block_spec; split; assumption|]. rewrite is_main_notmain in H3. destruct (notmain threads h); [discriminate|reflexivity].
  - exists h0, r. split; [exact E|]. rewrite is_main_notmain, M. reflexivity.
Qed.

(* ---------- first_thread_index ---------- *)

Lemma first_index_aux_spec threads p : forall ps acc i, first_index_aux threads ps p acc = Some i ->
  exists pre post, ps = pre ++ p :: post /\ ~ In p pre /\ i = acc + length (flat_map (block threads) pre).
Proof.
  induction ps as [|q r IH]; intros acc i H; [discriminate|]. cbn [first_index_aux] in H.
  destruct (Nat.eqb q p) eqn:C.
  - apply Nat.eqb_eq in C. subst q. injection H as <-. exists [], r. split; [reflexivity|]. split; [intros []|cbn; lia].
  - apply Nat.eqb_neq in C. destruct (IH _ _ H) as (pre & post & E & Hn & Hi).
    exists (q :: pre), post. split; [cbn; rewrite E; reflexivity|]. split; [intros [F|F]; [congruence|exact (Hn F)]|].
    cbn [flat_map]. rewrite app_length, block_length. lia.
Qed.

(* the index stored for process p is the position of the first thread of p's block: that thread belongs to p, it is a main
   thread if p has one, and no thread before it belongs to p *)
Theorem first_thread_index_denotes procs threads p i :
  first_thread_index procs threads p = Some i -> (exists h, h < length threads /\ proc_of threads h = p) ->
  exists h0, nth_error (sorted_threads procs threads) i = Some h0 /\ proc_of threads h0 = p /\
             ((exists h, h < length threads /\ proc_of threads h = p /\ is_main threads h = true) -> is_main threads h0 = true) /\
             forall j y, j < i -> nth_error (sorted_threads procs threads) j = Some y -> proc_of threads y <> p.
Proof.
  intros H (h & H1 & H2). unfold first_thread_index in H.
  destruct (first_index_aux_spec _ _ _ _ _ H) as (pre & post & E & Hn & Hi). cbn in Hi. subst i.
  assert (Hb : In h (block threads p)) by (apply block_spec; split; assumption).
  destruct (block threads p) as [|h0 r] eqn:EB; [destruct Hb|].
  rewrite sorted_threads_blocks, E.
  assert (Hk : forall q x, In x (block threads q) -> proc_of threads x = q) by (intros q x Hx; apply block_spec in Hx; tauto).
  destruct (block_start (block threads) (proc_of threads) Hk pre p post h0 r Hn EB) as [S1 S2].
  exists h0. split; [exact S1|]. split; [apply Hk; rewrite EB; left; reflexivity|]. split; [|exact S2].
  intros Hm. destruct (main_thread_first threads p Hm) as (h1 & r1 & E1 & M1). rewrite EB in E1. injection E1 as <- <-. exact M1.
Qed.
