(* The index the creator builds, in closed form over the lines of the text: which entries it pushes for which line, and
   what the bytes they point at are.  Also: the per-line reading of the lookup path (parse_body) agrees with the
   classification of the text specification. *)
From Coq Require Import Lia Arith.
From SV Require Import Lib.Bytes Model.LineBuffer Proofs.LineBufferProofs Model.BreakpadIndex Model.BreakpadLookup Spec.BreakpadText.
From SV Require Import Proofs.BreakpadTextLines.
Open Scope N_scope.

(* ---------- prefixes ---------- *)

Lemma starts_with_some p : forall s r, starts_with p s = Some r -> s = p ++ r.
Proof.
  induction p as [|c p IH]; intros s r H; cbn in H; [injection H as ->; reflexivity|].
  destruct s as [|d s]; [discriminate|]. destruct (d =? c) eqn:E; [|discriminate].
  apply N.eqb_eq in E. subst d. cbn. f_equal. apply IH; exact H.
Qed.

Lemma starts_with_app p : forall s r t, starts_with p s = Some r -> starts_with p (s ++ t) = Some (r ++ t).
Proof.
  induction p as [|c p IH]; intros s r t H; cbn in H; [injection H as ->; reflexivity|].
  destruct s as [|d s]; [discriminate|]. cbn. destruct (d =? c); [|discriminate]. apply IH; exact H.
Qed.

Lemma strip_cr_rev_suffix r : exists p, r = p ++ strip_cr_rev r.
Proof.
  induction r as [|c t IH]; [exists []; reflexivity|].
  cbn. destruct (c =? CRb); [|exists []; reflexivity].
  destruct IH as [p Hp]. exists (c :: p). cbn. f_equal. exact Hp.
Qed.

Lemma strip_cr_prefix l : exists t, l = strip_cr l ++ t.
Proof.
  unfold strip_cr. destruct (strip_cr_rev_suffix (rev l)) as [p Hp].
  exists (rev p). rewrite <- rev_app_distr, <- Hp, rev_involutive. reflexivity.
Qed.

Lemma tag_sp_prefix t s r : tag_spn t s = Some r -> exists r0, starts_with t s = Some r0.
Proof. unfold tag_spn. destruct (starts_with t s) as [r0|]; [intros _; exists r0; reflexivity|discriminate]. Qed.

Lemma idx_line_prefix t s x : idx_line t s = Some x -> exists r0, starts_with t s = Some r0.
Proof.
  unfold idx_line. destruct (tag_spn t s) as [r|] eqn:E; [|discriminate]. intros _. exact (tag_sp_prefix _ _ _ E).
Qed.

(* a FILE record is neither an INLINE / INLINE_ORIGIN record nor a line record *)
Lemma file_line_body l x : idx_line t_FILE (strip_cr l) = Some x ->
  starts_with t_INLINE_ORIGIN l = None /\ starts_with t_INLINE l = None /\ parse_data_line l = None.
Proof.
  intros H. destruct (idx_line_prefix _ _ _ H) as [r0 Hr].
  apply starts_with_some in Hr. destruct (strip_cr_prefix l) as [t Ht]. rewrite Hr in Ht.
  rewrite Ht. change t_FILE with [70; 73; 76; 69]. cbn [app].
  repeat split; reflexivity.
Qed.

Lemma origin_line_body l x : idx_line t_INLINE_ORIGIN (strip_cr l) = Some x -> starts_with t_INLINE_ORIGIN l <> None.
Proof.
  intros H. destruct (idx_line_prefix _ _ _ H) as [r0 Hr].
  destruct (strip_cr_prefix l) as [t Ht]. rewrite Ht. rewrite (starts_with_app _ _ _ t Hr). discriminate.
Qed.

(* ---------- classification and the body reader ---------- *)

Definition is_top (l : bytes) : bool :=
  match classify l with RPublic _ _ | RFunc _ _ _ | RBreak => true | _ => false end.

Definition body_view (l : bytes) : Prop :=
  match classify l with
  | RFile _ _ => starts_with t_INLINE_ORIGIN l = None /\ starts_with t_INLINE l = None /\ parse_data_line l = None
  | ROrigin _ _ => starts_with t_INLINE_ORIGIN l <> None
  | RInline ins => starts_with t_INLINE_ORIGIN l = None /\ exists rest, starts_with t_INLINE l = Some rest /\ parse_inline rest = Some ins
  | RBadInline => starts_with t_INLINE_ORIGIN l = None /\ exists rest, starts_with t_INLINE l = Some rest /\ parse_inline rest = None
  | RLine x => starts_with t_INLINE_ORIGIN l = None /\ starts_with t_INLINE l = None /\ parse_data_line l = Some x
  | ROther => starts_with t_INLINE_ORIGIN l <> None \/
              (starts_with t_INLINE_ORIGIN l = None /\ starts_with t_INLINE l = None /\ parse_data_line l = None)
  | _ => True
  end.

Lemma classify_body_view l : body_view l.
Proof.
  unfold body_view, classify.
  destruct (idx_line t_FILE (strip_cr l)) as [[i n]|] eqn:E1; [exact (file_line_body _ _ E1)|].
  destruct (idx_line t_INLINE_ORIGIN (strip_cr l)) as [[i n]|] eqn:E2; [exact (origin_line_body _ _ E2)|].
  destruct (public_line (strip_cr l)) as [[a n]|]; [exact I|].
  destruct (func_line (strip_cr l)) as [[[a s] n]|]; [exact I|].
  destruct (starts_with t_INFO_ (strip_cr l)); [exact I|].
  destruct (starts_with t_STACK_ (strip_cr l)); [exact I|].
  destruct (starts_with t_INLINE_ORIGIN l) eqn:E3; [left; discriminate|].
  destruct (starts_with t_INLINE l) as [rest|] eqn:E4.
  - destruct (parse_inline rest) as [ins|] eqn:E5; (split; [reflexivity|exists rest; split; [reflexivity|exact E5]]).
  - destruct (parse_data_line l) as [x|] eqn:E5; [repeat split; assumption|right; repeat split; assumption].
Qed.

Lemma parse_body_classify : forall L, Forall (fun l => is_top l = false) L ->
  parse_body L = if body_bad (map classify L) then None
                 else Some (body_lines (map classify L), body_inlinees (map classify L)).
Proof.
  induction L as [|l r IH]; intros Hn; [reflexivity|].
  inversion Hn as [|? ? H1 H2]; subst. specialize (IH H2).
  cbn [parse_body map]. rewrite IH. clear IH.
  pose proof (classify_body_view l) as V. unfold body_view in V. unfold is_top in H1.
  unfold body_bad, body_lines, body_inlinees. cbn [existsb flat_map].
  fold (body_bad (map classify r)). fold (body_lines (map classify r)). fold (body_inlinees (map classify r)).
  destruct (classify l) as [i n|i n|a n|a s n|ins| |x| |]; try discriminate.
  - destruct V as (V1 & V2 & V3). cbn [orb app]. destruct (body_bad (map classify r)); [reflexivity|].
    rewrite V1, V2, V3. reflexivity.
  - cbn [orb app]. destruct (body_bad (map classify r)); [reflexivity|].
    destruct (starts_with t_INLINE_ORIGIN l); [reflexivity|congruence].
  - destruct V as (V1 & rest & V2 & V3). cbn [orb]. destruct (body_bad (map classify r)); [reflexivity|].
    rewrite V1, V2, V3. reflexivity.
  - destruct V as (V1 & rest & V2 & V3). cbn [orb]. destruct (body_bad (map classify r)); [reflexivity|].
    rewrite V1, V2, V3. reflexivity.
  - destruct V as (V1 & V2 & V3). cbn [orb app]. destruct (body_bad (map classify r)); [reflexivity|].
    rewrite V1, V2, V3. reflexivity.
  - cbn [orb app]. destruct (body_bad (map classify r)); [reflexivity|].
    destruct V as [V|(V1 & V2 & V3)].
    + destruct (starts_with t_INLINE_ORIGIN l); [reflexivity|congruence].
    + rewrite V1, V2, V3. reflexivity.
Qed.

(* ---------- the creator, one line at a time ---------- *)

Definition core := (list sentry * svb * svb * option (N * N))%type.
Definition core_of (c : creator) : core := (symbols c, files c, inline_origins c, pending c).

Definition close (sy : list sentry) (pe : option (N * N)) (off : N) : list sentry :=
  match pe with Some (a, fo) => sy ++ [mkS a 1 ((off - fo) mod 4294967296) fo] | None => sy end.

Definition llen (l : bytes) : N := N.of_nat (List.length (strip_cr l)) mod 4294967296.

Definition core_step (k : core) (x : N * bytes) : core :=
  let '(sy, fi, og, pe) := k in
  let '(off, l) := x in
  match classify l with
  | RFile idx _ => (sy, svb_push fi (mkF idx (llen l) off), og, pe)
  | ROrigin idx _ => (sy, fi, svb_push og (mkF idx (llen l) off), pe)
  | RPublic addr _ => (close sy pe off ++ [mkS addr 0 (llen l) off], fi, og, None)
  | RFunc addr _ _ => (close sy pe off, fi, og, Some (addr, off))
  | RBreak => (close sy pe off, fi, og, None)
  | _ => k
  end.

Lemma finish_pending_core c off :
  core_of (finish_pending c off) = (close (symbols c) (pending c) off, files c, inline_origins c, None) /\
  module_found (finish_pending c off) = module_found c.
Proof.
  unfold finish_pending, core_of, close. destruct (pending c) as [[a fo]|] eqn:E; cbn; [split; reflexivity|].
  rewrite E. split; reflexivity.
Qed.

Lemma process_line_core c off l : module_found c = true ->
  core_of (process_line c (off, l)) = core_step (core_of c) (off, l) /\ module_found (process_line c (off, l)) = true.
Proof.
  intros Hm. unfold process_line. rewrite Hm. cbn [negb].
  destruct (finish_pending_core c off) as [Hc Hf].
  unfold core_step, core_of at 2, classify, llen.
  destruct (idx_line t_FILE (strip_cr l)) as [[i n]|]; [split; reflexivity|].
  destruct (idx_line t_INLINE_ORIGIN (strip_cr l)) as [[i n]|]; [split; reflexivity|].
  destruct (public_line (strip_cr l)) as [[a n]|].
  { unfold core_of in *. cbn. injection Hc as H1 H2 H3 H4. rewrite H1, H2, H3. split; reflexivity. }
  destruct (func_line (strip_cr l)) as [[[a s] n]|].
  { unfold core_of in *. cbn. injection Hc as H1 H2 H3 H4. rewrite H1, H2, H3. split; reflexivity. }
  destruct (starts_with t_INFO_ (strip_cr l)).
  { unfold core_of in *. cbn. injection Hc as H1 H2 H3 H4. rewrite H1, H2, H3. split; reflexivity. }
  destruct (starts_with t_STACK_ (strip_cr l)).
  { split; [|rewrite Hf; exact Hm]. exact Hc. }
  destruct (starts_with t_INLINE_ORIGIN l); [split; [reflexivity|exact Hm]|].
  destruct (starts_with t_INLINE l) as [rest|].
  - destruct (parse_inline rest); (split; [reflexivity|exact Hm]).
  - destruct (parse_data_line l); (split; [reflexivity|exact Hm]).
Qed.

Lemma fold_core : forall al c, module_found c = true ->
  core_of (fold_left process_line al c) = fold_left core_step al (core_of c) /\
  module_found (fold_left process_line al c) = true.
Proof.
  induction al as [|[off l] r IH]; intros c Hm; [split; [reflexivity|exact Hm]|].
  cbn [fold_left]. destruct (process_line_core c off l Hm) as [H1 H2].
  destruct (IH _ H2) as [H3 H4]. rewrite H3, H1. split; [reflexivity|exact H4].
Qed.

(* ---------- closed form ---------- *)

Fixpoint next_top (al : list (N * bytes)) (fin : N) : N :=
  match al with [] => fin | (off, l) :: r => if is_top l then off else next_top r fin end.

Fixpoint entries (al : list (N * bytes)) (fin : N) : list sentry :=
  match al with
  | [] => []
  | (off, l) :: r =>
      match classify l with
      | RPublic addr _ => mkS addr 0 (llen l) off :: entries r fin
      | RFunc addr _ _ => mkS addr 1 ((next_top r fin - off) mod 4294967296) off :: entries r fin
      | _ => entries r fin
      end
  end.

Definition file_entries (al : list (N * bytes)) : list fentry :=
  flat_map (fun '(off, l) => match classify l with RFile idx _ => [mkF idx (llen l) off] | _ => [] end) al.
Definition origin_entries (al : list (N * bytes)) : list fentry :=
  flat_map (fun '(off, l) => match classify l with ROrigin idx _ => [mkF idx (llen l) off] | _ => [] end) al.

Definition pend_entry (pe : option (N * N)) (e : N) : list sentry :=
  match pe with Some (a, fo) => [mkS a 1 ((e - fo) mod 4294967296) fo] | None => [] end.

Lemma close_pend sy pe e : close sy pe e = sy ++ pend_entry pe e.
Proof. unfold close, pend_entry. destruct pe as [[a fo]|]; [reflexivity|rewrite app_nil_r; reflexivity]. Qed.

Lemma fold_core_closed : forall al sy fi og pe fin,
  let '(sy', fi', og', pe') := fold_left core_step al (sy, fi, og, pe) in
  close sy' pe' fin = sy ++ pend_entry pe (next_top al fin) ++ entries al fin /\
  fi' = fold_left svb_push (file_entries al) fi /\
  og' = fold_left svb_push (origin_entries al) og.
Proof.
  induction al as [|[off l] r IH]; intros sy fi og pe fin.
  - cbn. rewrite app_nil_r. repeat split. apply close_pend.
  - cbn [fold_left]. unfold core_step at 2. cbn [next_top entries]. unfold is_top.
    unfold file_entries, origin_entries. cbn [flat_map]. fold (file_entries r). fold (origin_entries r).
    destruct (classify l) as [i n|i n|a n|a s n|ins| |x| |] eqn:C.
    + specialize (IH sy (svb_push fi (mkF i (llen l) off)) og pe fin).
      destruct (fold_left core_step r _) as [[[sy' fi'] og'] pe']. exact IH.
    + specialize (IH sy fi (svb_push og (mkF i (llen l) off)) pe fin).
      destruct (fold_left core_step r _) as [[[sy' fi'] og'] pe']. exact IH.
    + specialize (IH (close sy pe off ++ [mkS a 0 (llen l) off]) fi og None fin).
      destruct (fold_left core_step r _) as [[[sy' fi'] og'] pe']. destruct IH as (I1 & I2 & I3).
      repeat split; [|exact I2|exact I3]. rewrite I1, close_pend. cbn [pend_entry app]. rewrite <- !app_assoc. reflexivity.
    + specialize (IH (close sy pe off) fi og (Some (a, off)) fin).
      destruct (fold_left core_step r _) as [[[sy' fi'] og'] pe']. destruct IH as (I1 & I2 & I3).
      repeat split; [|exact I2|exact I3]. rewrite I1, close_pend. cbn [pend_entry app]. rewrite <- !app_assoc. reflexivity.
    + specialize (IH sy fi og pe fin). destruct (fold_left core_step r _) as [[[sy' fi'] og'] pe']. exact IH.
    + specialize (IH sy fi og pe fin). destruct (fold_left core_step r _) as [[[sy' fi'] og'] pe']. exact IH.
    + specialize (IH sy fi og pe fin). destruct (fold_left core_step r _) as [[[sy' fi'] og'] pe']. exact IH.
    + specialize (IH (close sy pe off) fi og None fin).
      destruct (fold_left core_step r _) as [[[sy' fi'] og'] pe']. destruct IH as (I1 & I2 & I3).
      repeat split; [|exact I2|exact I3]. rewrite I1, close_pend. cbn [pend_entry app]. rewrite <- !app_assoc. reflexivity.
    + specialize (IH sy fi og pe fin). destruct (fold_left core_step r _) as [[[sy' fi'] og'] pe']. exact IH.
Qed.

