From SV Require Import Model.AsmDecode.
From Coq Require Import Arith Lia ZifyBool ZifyN ZifyNat.
Open Scope N_scope.

Section Chain.
Variable dec : N -> dres.
Variable adj decode_len : N.

(* step taken from a listed instruction *)
Definition step_of (x : N * kind) : N :=
  match snd x with
  | KValid => match dec (fst x) with DOk len => len | _ => 0 end
  | KInvalid => adj
  end.

(* a listing is well-formed from `start`: consecutive offsets advance by exactly the step of the previous entry,
   every offset is below decode_len, every entry's kind agrees with the decoder *)
Fixpoint chain (start : N) (l : list (N * kind)) : Prop :=
  match l with
  | [] => True
  | x :: r =>
      fst x = start /\ start < decode_len /\ 0 < step_of x /\
      (match snd x with KValid => exists len, dec start = DOk len | KInvalid => exists c, dec start = DInvalid c end) /\
      chain (start + step_of x) r
  end.

Definition end_of (start : N) (l : list (N * kind)) : N :=
  fold_left (fun a x => a + step_of x) l start.

Lemma chain_app start l x :
  chain start l -> fst x = end_of start l -> end_of start l < decode_len -> 0 < step_of x ->
  (match snd x with KValid => exists len, dec (end_of start l) = DOk len | KInvalid => exists c, dec (end_of start l) = DInvalid c end) ->
  chain start (l ++ [x]).
Proof.
  revert start. induction l as [|y r IH]; intros start Hc Hx Hlt Hs Hk; cbn [app chain end_of fold_left] in *.
  - repeat split; auto.
  - destruct Hc as [H1 [H2 [H3 [H4 H5]]]]. repeat split; auto.
Qed.

Lemma end_of_app start l x : end_of start (l ++ [x]) = end_of start l + step_of x.
Proof. unfold end_of. rewrite fold_left_app. reflexivity. Qed.

(* consequences of `chain`, in the words of the property *)
Lemma chain_first start l x r : chain start l -> l = x :: r -> fst x = start.
Proof. intros H ->. cbn in H. tauto. Qed.

Lemma chain_in_range start l : chain start l -> forall x, In x l -> start <= fst x /\ fst x < decode_len.
Proof.
  revert start. induction l as [|y r IH]; intros start Hc x Hx; [contradiction|].
  cbn [chain] in Hc. destruct Hc as [H1 [H2 [H3 [H4 H5]]]].
  destruct Hx as [<-|Hx]; [lia|]. destruct (IH _ H5 x Hx). lia.
Qed.

Lemma chain_consecutive start l : chain start l ->
  forall a x y b, l = a ++ x :: y :: b -> fst y = fst x + step_of x /\ fst x < fst y.
Proof.
  revert start. induction l as [|z r IH]; intros start Hc a x y b Heq.
  - destruct a; discriminate.
  - cbn [chain] in Hc. destruct Hc as [H1 [H2 [H3 [H4 H5]]]].
    destruct a as [|a0 a']; cbn [app] in Heq.
    + inversion Heq; subst. cbn [chain] in H5. destruct H5 as [G1 _]. lia.
    + inversion Heq; subst. eapply IH; eauto.
Qed.

End Chain.

Section Proofs.
Variable dec : N -> dres.
Variable nbytes adj decode_len : N.
Hypothesis Hadj : 0 < adj.
(* what is assumed of the decoder: a successful decode consumes at least one byte and no more than remain;
   deciding that bytes are invalid consumes at least one byte *)
Hypothesis Hok : forall off len, dec off = DOk len -> 0 < len /\ off + len <= nbytes.
Hypothesis Hinv : forall off c, dec off = DInvalid c -> 0 < c.

Notation loop := (loop dec nbytes adj decode_len).
Notation chain := (chain dec adj decode_len).
Notation end_of := (end_of dec adj).
Notation step_of := (step_of dec adj).

(* main invariant of the loop *)
Lemma loop_spec : forall fuel offset acc res size,
  chain 0 (rev acc) -> offset = end_of 0 (rev acc) ->
  (forall x, In x acc -> fst x < offset) ->
  loop fuel offset acc = Some (res, size) ->
  chain 0 res /\ (forall x, In x res -> fst x < size).
Proof.
  induction fuel as [|f IH]; intros offset acc res size Hc Ho Hlt H; [discriminate|].
  cbn [AsmDecode.loop] in H.
  destruct (decode_len <=? offset) eqn:C.
  - injection H as <- <-. split; [exact Hc|].
    intros x Hx. apply Hlt. apply in_rev. exact Hx.
  - destruct (dec offset) as [len|c|c] eqn:E.
    + destruct (Hok _ _ E) as [Hl1 Hl2].
      apply (IH _ _ _ _) in H; auto.
      * cbn [rev]. apply chain_app.
        -- exact Hc.
        -- cbn [fst]. exact Ho.
        -- rewrite <- Ho. lia.
        -- unfold step_of. cbn [fst snd]. rewrite E. lia.
        -- cbn [snd]. rewrite <- Ho. eauto.
      * cbn [rev]. rewrite end_of_app. unfold step_of at 1. cbn [fst snd]. rewrite E. lia.
      * intros x [<-|Hx]; cbn [fst]; [lia|]. specialize (Hlt x Hx). lia.
    + injection H as <- <-. split; [exact Hc|].
      intros x Hx. assert (Hx' : In x acc) by (apply in_rev; exact Hx). specialize (Hlt x Hx'). lia.
    + pose proof (Hinv _ _ E) as Hc0.
      assert (Hchain' : chain 0 (rev ((offset, KInvalid) :: acc))).
      { cbn [rev]. apply chain_app.
        - exact Hc.
        - cbn [fst]. exact Ho.
        - rewrite <- Ho. lia.
        - unfold step_of. cbn [snd]. lia.
        - cbn [snd]. rewrite <- Ho. eauto. }
      assert (Hend' : end_of 0 (rev ((offset, KInvalid) :: acc)) = offset + adj).
      { cbn [rev]. rewrite end_of_app. unfold step_of. cbn [snd]. lia. }
      destruct (nbytes <? offset + adj) eqn:D.
      * injection H as <- <-. split; [exact Hchain'|].
        intros x Hx. assert (Hx' : In x ((offset, KInvalid) :: acc)) by (apply in_rev; exact Hx).
        destruct Hx' as [<-|Hx']; cbn [fst]; [lia|]. specialize (Hlt x Hx'). lia.
      * apply (IH _ _ _ _) in H; auto; try lia.
        intros x [<-|Hx]; cbn [fst]; [lia|]. specialize (Hlt x Hx). lia.
Qed.

Lemma loop_terminates : forall fuel offset acc,
  offset <= nbytes -> (N.to_nat (nbytes - offset) + 2 <= fuel)%nat -> loop fuel offset acc <> None.
Proof.
  induction fuel as [|f IH]; intros offset acc Hb Hf; [lia|].
  cbn [AsmDecode.loop]. destruct (decode_len <=? offset); [discriminate|].
  destruct (dec offset) as [len|c|c] eqn:E; [|discriminate|].
  - destruct (Hok _ _ E) as [Hl1 Hl2]. apply IH; lia.
  - destruct (nbytes <? offset + adj) eqn:D; [discriminate|]. apply IH; lia.
Qed.

Theorem listing_ok :
  exists res size, listing dec nbytes adj decode_len = Some (res, size) /\
    chain 0 res /\ (forall x, In x res -> fst x < size).
Proof.
  unfold listing.
  destruct (AsmDecode.loop dec nbytes adj decode_len (N.to_nat nbytes + 2) 0 []) as [[res size]|] eqn:E.
  - exists res, size. split; [reflexivity|].
    apply (loop_spec (N.to_nat nbytes + 2) 0 [] res size); auto; try reflexivity; cbn; try exact I; try contradiction.
  - exfalso. apply (loop_terminates (N.to_nat nbytes + 2) 0 []); [lia|lia|exact E].
Qed.

End Proofs.
