From SV Require Import Model.Symbolicate.
From Coq Require Import Arith Lia ZifyBool ZifyN ZifyNat.
Open Scope N_scope.

Lemma lib_eqb_eq a b : lib_eqb a b = true <-> a = b.
Proof.
  unfold lib_eqb. destruct a as [a1 a2], b as [b1 b2]. cbn [fst snd]. split.
  - intros H. assert (a1 = b1 /\ a2 = b2) by lia. destruct H0; subst; reflexivity.
  - intros H. inversion H; subst. rewrite !N.eqb_refl. reflexivity.
Qed.
Lemma lib_eqb_refl a : lib_eqb a a = true.
Proof. apply lib_eqb_eq. reflexivity. Qed.
Lemma lib_eqb_neq a b : lib_eqb a b = false <-> a <> b.
Proof. split; intros H. - intros ->. rewrite lib_eqb_refl in H. discriminate. - destruct (lib_eqb a b) eqn:E; [apply lib_eqb_eq in E; contradiction|reflexivity]. Qed.

Section Proofs.
Variable load : lib -> bool.
Variable look : lib -> N -> option addr_info.

Notation symbolicate_lib := (symbolicate_lib load look).
Notation result_for_job := (result_for_job).
Notation query := (query load look).
Notation spec_frame := (spec_frame load look).

(* ---- requested addresses ---- *)
Definition has (m : list (lib * list N)) (l : lib) (a : N) : Prop :=
  exists xs, amap_get m l = Some xs /\ In a xs.

Lemma has_add_same m l a : has (amap_add m l [a]) l a.
Proof.
  induction m as [|[k v] r IH]; cbn [amap_add].
  - exists [a]. cbn [amap_get]. rewrite lib_eqb_refl. split; [reflexivity|left; reflexivity].
  - destruct (lib_eqb k l) eqn:E.
    + exists (v ++ [a]). cbn [amap_get]. rewrite E. split; [reflexivity|apply in_or_app; right; left; reflexivity].
    + destruct IH as [xs [H1 H2]]. exists xs. cbn [amap_get]. rewrite E. auto.
Qed.

Lemma has_add_mono m l xs l' a' : has m l' a' -> has (amap_add m l xs) l' a'.
Proof.
  intros [ys [H1 H2]]. revert H1. induction m as [|[k v] r IH]; intros H1; [discriminate|].
  cbn [amap_add]. cbn [amap_get] in H1. unfold has. destruct (lib_eqb k l) eqn:E; cbn [amap_get].
  - destruct (lib_eqb k l') eqn:E'.
    + inversion H1; subst. exists (ys ++ xs). split; [reflexivity|apply in_or_app; left; exact H2].
    + exists ys. auto.
  - destruct (lib_eqb k l') eqn:E'.
    + exists ys. auto.
    + apply IH. exact H1.
Qed.

Lemma gather_frames_ok mm : forall fs acc,
  forallb (fun '(idx, _) => idx <? N.of_nat (length mm)) fs = true ->
  exists acc', gather_frames mm fs acc = Some acc' /\
    (forall l a, has acc l a -> has acc' l a) /\
    (forall idx a l, In (idx, a) fs -> nth_error mm (N.to_nat idx) = Some l -> has acc' l a).
Proof.
  induction fs as [|[idx a] r IH]; intros acc Hv.
  - exists acc. split; [reflexivity|]. split; [auto|]. intros ? ? ? [].
  - cbn [forallb] in Hv. apply andb_true_iff in Hv. destruct Hv as [Hi Hv].
    cbn [gather_frames]. destruct (nth_error mm (N.to_nat idx)) as [l|] eqn:E.
    + destruct (IH (amap_add acc l [a]) Hv) as [acc' [H1 [H2 H3]]]. exists acc'. split; [exact H1|]. split.
      * intros l' a' Hh. apply H2. apply has_add_mono. exact Hh.
      * intros idx' a' l' [Heq|Hin] Hn.
        -- inversion Heq; subst. rewrite E in Hn. inversion Hn; subst. apply H2. apply has_add_same.
        -- eapply H3; eauto.
    + exfalso. apply nth_error_None in E. lia.
Qed.

Lemma gather_frames_bad mm : forall fs acc,
  forallb (fun '(idx, _) => idx <? N.of_nat (length mm)) fs = false -> gather_frames mm fs acc = None.
Proof.
  induction fs as [|[idx a] r IH]; intros acc Hv; [discriminate|].
  cbn [forallb] in Hv. cbn [gather_frames].
  destruct (nth_error mm (N.to_nat idx)) as [l|] eqn:E; [|reflexivity].
  assert (idx <? N.of_nat (length mm) = true).
  { assert (N.to_nat idx < length mm)%nat by (apply nth_error_Some; congruence). lia. }
  rewrite H in Hv. cbn [andb] in Hv. apply IH. exact Hv.
Qed.

Lemma indices_ok_concat j :
  indices_ok j = forallb (fun '(idx, _) => idx <? N.of_nat (length (memory_map j))) (concat (stacks j)).
Proof.
  unfold indices_ok. induction (stacks j) as [|s r IH]; [reflexivity|].
  cbn [forallb concat]. rewrite forallb_app, IH. reflexivity.
Qed.

Lemma gather_jobs_ok : forall js acc,
  forallb indices_ok js = true ->
  exists acc', gather_jobs js acc = Some acc' /\
    (forall l a, has acc l a -> has acc' l a) /\
    (forall j idx a l, In j js -> In (idx, a) (concat (stacks j)) -> nth_error (memory_map j) (N.to_nat idx) = Some l -> has acc' l a).
Proof.
  induction js as [|j r IH]; intros acc Hv.
  - exists acc. split; [reflexivity|]. split; [auto|]. intros ? ? ? ? [].
  - cbn [forallb] in Hv. apply andb_true_iff in Hv. destruct Hv as [Hj Hv]. rewrite indices_ok_concat in Hj.
    cbn [gather_jobs]. destruct (gather_frames_ok (memory_map j) (concat (stacks j)) acc Hj) as [a1 [G1 [G2 G3]]]. rewrite G1.
    destruct (IH a1 Hv) as [acc' [H1 [H2 H3]]]. exists acc'. split; [exact H1|]. split.
    + intros l a Hh. apply H2, G2, Hh.
    + intros j' idx a l [<-|Hin] Hf Hn; [apply H2; eapply G3; eauto|eapply H3; eauto].
Qed.

Lemma gather_jobs_bad : forall js acc, forallb indices_ok js = false -> gather_jobs js acc = None.
Proof.
  induction js as [|j r IH]; intros acc Hv; [discriminate|].
  cbn [forallb] in Hv. cbn [gather_jobs]. destruct (indices_ok j) eqn:Ej.
  - rewrite indices_ok_concat in Ej. destruct (gather_frames_ok (memory_map j) (concat (stacks j)) acc Ej) as [a1 [G1 _]]. rewrite G1.
    apply IH. exact Hv.
  - rewrite indices_ok_concat in Ej. rewrite (gather_frames_bad _ _ acc Ej). reflexivity.
Qed.

(* ---- per-library tables ---- *)
Lemma ins_n_in x l a : In a (ins_n x l) <-> a = x \/ In a l.
Proof.
  induction l as [|y t IH]; cbn [ins_n In]; [intuition|].
  destruct (x <? y); [cbn [In]; intuition|]. destruct (x =? y) eqn:E; cbn [In].
  - assert (x = y) by lia. subst. intuition.
  - rewrite IH. intuition.
Qed.
Lemma sort_dedup_in l a : In a (sort_dedup l) <-> In a l.
Proof.
  unfold sort_dedup. induction l as [|x t IH]; cbn [fold_right In]; [tauto|]. rewrite ins_n_in, IH. intuition.
Qed.

Lemma table_get_map l addrs a : In a addrs -> table_get (map (fun a => (a, look l a)) addrs) a = Some (look l a).
Proof.
  induction addrs as [|x t IH]; intros H; [contradiction|]. cbn [map table_get].
  destruct (x =? a) eqn:E; [assert (x = a) by lia; subst; reflexivity|].
  destruct H as [->|H]; [rewrite N.eqb_refl in E; discriminate|]. apply IH. exact H.
Qed.

Lemma amap_get_map {V W} (f : lib -> V -> W) (m : list (lib * V)) l :
  amap_get (map (fun '(k, v) => (k, f k v)) m) l = option_map (f l) (amap_get m l).
Proof.
  induction m as [|[k v] r IH]; [reflexivity|]. cbn [map amap_get].
  destruct (lib_eqb k l) eqn:E; [apply lib_eqb_eq in E; subst; reflexivity|exact IH].
Qed.

Definition ok_table (results : list (lib * option table)) (l : lib) : option table :=
  match amap_get results l with Some (Some t) => Some t | _ => None end.

Lemma by_index_spec (results : list (lib * option table)) : forall mm n idx,
  by_index_get (flat_map (fun '(i, l) => match amap_get results l with Some (Some t) => [(i, t)] | _ => [] end) (index_from n mm)) idx =
  if idx <? n then None
  else match nth_error mm (N.to_nat (idx - n)) with Some l => ok_table results l | None => None end.
Proof.
  induction mm as [|l r IH]; intros n idx; cbn [index_from flat_map].
  - cbn [by_index_get]. destruct (idx <? n); [reflexivity|]. destruct (N.to_nat (idx - n)); reflexivity.
  - assert (Hrest : by_index_get
              ((match amap_get results l with Some (Some t) => [(n, t)] | _ => [] end) ++
               flat_map (fun '(i, l0) => match amap_get results l0 with Some (Some t) => [(i, t)] | _ => [] end) (index_from (n + 1) r)) idx
            = if idx =? n then ok_table results l
              else by_index_get (flat_map (fun '(i, l0) => match amap_get results l0 with Some (Some t) => [(i, t)] | _ => [] end) (index_from (n + 1) r)) idx).
    { unfold ok_table. destruct (amap_get results l) as [[t|]|]; cbn [app by_index_get].
      - rewrite (N.eqb_sym n idx). reflexivity.
      - destruct (idx =? n) eqn:E; [|reflexivity]. rewrite IH. replace (idx <? n + 1) with true by lia. reflexivity.
      - destruct (idx =? n) eqn:E; [|reflexivity]. rewrite IH. replace (idx <? n + 1) with true by lia. reflexivity. }
    rewrite Hrest. destruct (idx =? n) eqn:E.
    + replace (idx <? n) with false by lia. replace (N.to_nat (idx - n)) with 0%nat by lia. reflexivity.
    + rewrite IH. destruct (idx <? n) eqn:C.
      * replace (idx <? n + 1) with true by lia. reflexivity.
      * replace (idx <? n + 1) with false by lia.
        replace (N.to_nat (idx - n)) with (S (N.to_nat (idx - (n + 1)))) by lia. reflexivity.
Qed.

(* ---- the whole query ---- *)

Hypothesis Hsane : oracle_sane look.

Lemma response_frame_spec (req : list (lib * list N)) mm fi idx a l :
  nth_error mm (N.to_nat idx) = Some l -> has req l a ->
  let results := map (fun '(k, addrs) => (k, symbolicate_lib k addrs)) req in
  response_frame mm (flat_map (fun '(i, l0) => match amap_get results l0 with Some (Some t) => [(i, t)] | _ => [] end) (index_from 0 mm)) fi (idx, a)
  = FOk (spec_frame mm fi (idx, a)).
Proof.
  intros Hn [xs [Hget Hin]] results. unfold response_frame, Symbolicate.spec_frame. cbv beta iota zeta. rewrite Hn.
  assert (Hnth : nth (N.to_nat idx) mm (0, 0) = l) by (apply nth_error_nth; exact Hn). rewrite !Hnth.
  rewrite by_index_spec. replace (idx <? 0) with false by lia. rewrite N.sub_0_r, Hn.
  unfold ok_table. subst results. rewrite (amap_get_map (fun k addrs => symbolicate_lib k addrs)), Hget. cbn [option_map].
  unfold Symbolicate.symbolicate_lib. destruct (load l) eqn:El; [|reflexivity].
  rewrite table_get_map by (apply sort_dedup_in; exact Hin).
  destruct (look l a) as [ai|] eqn:Ea; [|reflexivity].
  destruct (Hsane l a ai Ea) as [Hle Hne].
  replace (a <? ai_sym_addr ai) with false by lia.
  unfold spec_symbol. destruct (ai_frames ai) as [[|f fs]|]; [congruence|reflexivity|reflexivity].
Qed.

Lemma index_from_in {A} (l : list A) : forall n i x, In (i, x) (index_from n l) -> In x l.
Proof.
  induction l as [|y t IH]; intros n i x H; [contradiction|]. cbn [index_from] in H.
  destruct H as [H|H]; [inversion H; left; reflexivity|right; eapply IH; exact H].
Qed.

Definition is_panic (r : fres) : bool := match r with FPanic => true | FOk _ => false end.
Lemma no_panic_inner {A} (g : A -> rframe) l : existsb is_panic (map (fun x => FOk (g x)) l) = false.
Proof. induction l as [|x t IH]; [reflexivity|]. cbn [map existsb is_panic]. exact IH. Qed.
Lemma no_panic_outer {A B} (g : A -> rframe) (h : B -> list A) l :
  existsb (existsb is_panic) (map (fun st => map (fun x => FOk (g x)) (h st)) l) = false.
Proof. induction l as [|x t IH]; [reflexivity|]. cbn [map existsb]. rewrite no_panic_inner. exact IH. Qed.
Lemma extract_ok {A} (g : A -> rframe) l :
  flat_map (fun r => match r with FOk x => [x] | FPanic => [] end) (map (fun x => FOk (g x)) l) = map g l.
Proof. induction l as [|x t IH]; [reflexivity|]. cbn [map flat_map app]. rewrite IH. reflexivity. Qed.

Lemma no_none {A B} (f : A -> B) l : existsb (fun r : option B => match r with None => true | Some _ => false end) (map (fun j => Some (f j)) l) = false.
Proof. induction l as [|x t IH]; [reflexivity|]. cbn [map existsb]. exact IH. Qed.
Lemma extract_some {A B} (f : A -> B) l : flat_map (fun r : option B => match r with Some x => [x] | None => [] end) (map (fun j => Some (f j)) l) = map f l.
Proof. induction l as [|x t IH]; [reflexivity|]. cbn [map flat_map app]. rewrite IH. reflexivity. Qed.

Definition spec_stacks (j : job) : list (list rframe) :=
  map (fun st => map (fun '(fi, fr) => spec_frame (memory_map j) fi fr) (index_from 0 st)) (stacks j).

Definition found_of (results : list (lib * option table)) (j : job) : list (lib * bool) :=
  flat_map (fun '(i, l) => match amap_get results l with Some r => [(l, match r with Some _ => true | None => false end)] | None => [] end)
           (index_from 0 (memory_map j)).

Lemma result_for_job_spec (req : list (lib * list N)) (j : job) :
  indices_ok j = true ->
  (forall idx a l, In (idx, a) (concat (stacks j)) -> nth_error (memory_map j) (N.to_nat idx) = Some l -> has req l a) ->
  let results := map (fun '(k, addrs) => (k, symbolicate_lib k addrs)) req in
  Symbolicate.result_for_job results j = Some (mkJr (spec_stacks j) (found_of results j)).
Proof.
  intros Hok Hhas results. unfold Symbolicate.result_for_job.
  set (mm := memory_map j) in *.
  set (byi := flat_map (fun '(i, l) => match amap_get results l with Some (Some t) => [(i, t)] | _ => [] end) (index_from 0 mm)).
  assert (Hst : map (fun st => map (fun '(fi, fr) => response_frame mm byi fi fr) (index_from 0 st)) (stacks j)
                = map (fun st => map (fun x : N * (N * N) => FOk (let '(fi, fr) := x in spec_frame mm fi fr)) (index_from 0 st)) (stacks j)).
  { apply map_ext_in. intros st Hin. apply map_ext_in. intros [fi [idx a]] Hfr.
    assert (Hin2 : In (idx, a) (concat (stacks j))).
    { apply in_concat. exists st. split; [exact Hin|]. eapply index_from_in. exact Hfr. }
    assert (Hidx : idx <? N.of_nat (length mm) = true).
    { rewrite indices_ok_concat in Hok. rewrite forallb_forall in Hok. exact (Hok (idx, a) Hin2). }
    destruct (nth_error mm (N.to_nat idx)) as [l|] eqn:En.
    - unfold byi, results. apply (response_frame_spec req mm fi idx a l En). exact (Hhas idx a l Hin2 En).
    - exfalso. apply nth_error_None in En. lia. }
  rewrite Hst.
  change (fun r : fres => match r with FPanic => true | FOk _ => false end) with is_panic.
  rewrite (no_panic_outer (fun x : N * (N * N) => let '(fi, fr) := x in spec_frame mm fi fr) (index_from 0) (stacks j)).
  - f_equal. f_equal. unfold spec_stacks. fold mm. rewrite map_map. apply map_ext. intros st.
    rewrite <- (extract_ok (fun x : N * (N * N) => let '(fi, fr) := x in spec_frame mm fi fr) (index_from 0 st)).
    reflexivity.
Qed.

(* a frame that references a module index outside the memory map yields an error response, never a partial one *)
Theorem query_bad_index js : forallb indices_ok js = false -> query js = RErr.
Proof. intros H. unfold Symbolicate.query. rewrite (gather_jobs_bad js [] H). reflexivity. Qed.

(* otherwise: one result per job, one stack per stack, one frame per frame, in order, each exactly what the oracle says *)
Theorem query_ok js :
  forallb indices_ok js = true ->
  exists req, gather_jobs js [] = Some req /\
    let results := map (fun '(k, addrs) => (k, symbolicate_lib k addrs)) req in
    query js = ROk (map (fun j => mkJr (spec_stacks j) (found_of results j)) js).
Proof.
  intros H. destruct (gather_jobs_ok js [] H) as [req [G1 [_ G3]]]. exists req. split; [exact G1|].
  intros results. unfold Symbolicate.query. rewrite G1. fold results.
  assert (Hrs : map (Symbolicate.result_for_job results) js = map (fun j => Some (mkJr (spec_stacks j) (found_of results j))) js).
  { apply map_ext_in. intros j Hj. apply result_for_job_spec.
    - rewrite forallb_forall in H. exact (H j Hj).
    - intros idx a l Hin Hn. eapply G3; eauto. }
  rewrite Hrs.
  rewrite (no_none (fun j => mkJr (spec_stacks j) (found_of results j)) js).
  rewrite (extract_some (fun j => mkJr (spec_stacks j) (found_of results j)) js). reflexivity.
Qed.

(* found_modules: an entry exists exactly for the modules of the job's memory map that some frame of some job references,
   and its value says whether the module could be loaded *)
Lemma found_of_spec (req : list (lib * list N)) (j : job) l b :
  let results := map (fun '(k, addrs) => (k, symbolicate_lib k addrs)) req in
  In (l, b) (found_of results j) -> In l (memory_map j) /\ b = load l /\ amap_get req l <> None.
Proof.
  intros results H. unfold found_of in H. apply in_flat_map in H. destruct H as [[i l0] [Hin H]].
  unfold results in H. rewrite (amap_get_map (fun k addrs => symbolicate_lib k addrs)) in H.
  destruct (amap_get req l0) as [xs|] eqn:E; cbn [option_map] in H; [|contradiction].
  destruct H as [H|[]]. inversion H; subst. split; [eapply index_from_in; exact Hin|]. split; [|congruence].
  unfold Symbolicate.symbolicate_lib. destruct (load l); reflexivity.
Qed.

End Proofs.
