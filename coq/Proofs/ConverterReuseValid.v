(* With --reuse-threads every thread handle the converter holds - in a live process, in a thread pool, in the process pool, in a sample
   buffer - denotes an existing thread entry of the profile; so every output sample is filed on an existing entry. *)
From SV Require Import Model.Converter Model.ConverterReuse Proofs.ConverterProofs Proofs.ConverterNames Proofs.ConverterReuseProofs.
From Coq Require Import Permutation Lia.
Open Scope N_scope.

Definition pool_mem {A} (x : A) (pl : pool A) : Prop := exists n l, In (n, l) pl /\ In x l.

Section PoolFacts.
  Context {A : Type}.
  Variable key : A -> nat.

  Lemma least_in x l : least key x l = x \/ In (least key x l) l.
  Proof.
    revert x. induction l as [|y r IH]; intros x; cbn [least]; [left; reflexivity|].
    destruct (Nat.ltb (key y) (key x)).
    - destruct (IH y) as [H|H]; [rewrite H; right; left; reflexivity | right; right; exact H].
    - destruct (IH x) as [H|H]; [left; exact H | right; right; exact H].
  Qed.
  Lemma remove_first_in k l y : In y (remove_first key k l) -> In y l.
  Proof. induction l as [|z r IH]; cbn; [auto|]. destruct (Nat.eqb (key z) k); cbn; [auto|]. intros [H|H]; auto. Qed.

  Lemma recycle_mem name (pl : pool A) (x : A) pl' : recycle_by_name key name pl = Some (x, pl') ->
    pool_mem x pl /\ forall y, pool_mem y pl' -> pool_mem y pl.
  Proof.
    unfold recycle_by_name. destruct (alookup name pl) as [[|x0 l]|] eqn:E; try discriminate.
    remember (least key x0 l) as m eqn:Em. remember (remove_first key (key m) (x0 :: l)) as rest eqn:Er.
    intros H. pose proof (alookup_in _ _ _ E) as Hin. injection H as <- <-. split.
    - exists name, (x0 :: l). split; [exact Hin|]. rewrite Em. destruct (least_in x0 l) as [H|H]; [rewrite H; left; reflexivity | right; exact H].
    - intros y (n & l' & Hl & Hy). destruct rest as [|z rest'].
      + exists n, l'. split; [eapply in_aremove; exact Hl | exact Hy].
      + apply in_aset in Hl. destruct Hl as [[-> ->]|Hl]; [|exists n, l'; auto].
        exists name, (x0 :: l). split; [exact Hin|]. eapply remove_first_in. rewrite <- Er. exact Hy.
  Qed.

  Lemma add_to_pool_mem name (x : A) (pl : pool A) (y : A) : pool_mem y (add_to_pool name x pl) -> y = x \/ pool_mem y pl.
  Proof.
    intros (n & l & Hl & Hy). unfold add_to_pool in Hl. apply in_aset in Hl. destruct Hl as [[-> ->]|Hl]; [|right; exists n, l; auto].
    destruct Hy as [<-|Hy]; [left; reflexivity|]. destruct (alookup name pl) as [l0|] eqn:E; [|destruct Hy].
    right. exists name, l0. split; [apply alookup_in; exact E | exact Hy].
  Qed.
End PoolFacts.

Section Valid.
  Variable origin : N.

  (* n = number of thread entries of the profile *)
  Definition proc_valid (n : nat) (p : rproc) : Prop :=
    (lt_handle (rp_main p) < n)%nat /\ (forall k t, In (k, t) (rp_threads p) -> (lt_handle t < n)%nat) /\
    (forall h, pool_mem h (rp_trec p) -> (h < n)%nat) /\ (forall h t, In (h, t) (rp_samples p) -> (h < n)%nat).
  Definition prdata_valid (n : nat) (d : prdata) : Prop := (pr_main d < n)%nat /\ forall h, pool_mem h (pr_trec d) -> (h < n)%nat.
  Definition RInv (s : rstate) : Prop :=
    let n := length (r_threads s) in
    (forall k p, In (k, p) (r_live s) -> proc_valid n p) /\ (forall d, pool_mem d (r_prec s) -> prdata_valid n d) /\
    (forall b h t, In b (r_retired s) -> In (h, t) b -> (h < n)%nat).

  Lemma proc_valid_mono n m p : (n <= m)%nat -> proc_valid n p -> proc_valid m p.
  Proof. intros L (A & B & C & D). repeat split; intros; [lia | specialize (B _ _ H); lia | specialize (C _ H); lia | specialize (D _ _ H); lia]. Qed.
  Lemma prdata_valid_mono n m d : (n <= m)%nat -> prdata_valid n d -> prdata_valid m d.
  Proof. intros L (A & B). split; [lia | intros h H; specialize (B _ H); lia]. Qed.

  (* a state whose pools / buffers / live table are those of s up to growth of the thread table, with the entry of pid replaced *)
  Lemma RInv_put s s' pid p :
    (length (r_threads s) <= length (r_threads s'))%nat -> r_prec s' = r_prec s -> r_retired s' = r_retired s -> r_live s' = r_live s ->
    RInv s -> proc_valid (length (r_threads s')) p -> RInv (r_put s' pid p).
  Proof.
    intros L Hp Hr Hl (I1 & I2 & I3) V. unfold RInv, r_put, r_with_live. cbn [r_threads r_live r_prec r_retired].
    split; [|split].
    - intros k q Hin. apply in_aset in Hin. destruct Hin as [[-> ->]|Hin]; [exact V|]. rewrite Hl in Hin. eapply proc_valid_mono; [exact L | eapply I1; exact Hin].
    - intros d Hd. rewrite Hp in Hd. eapply prdata_valid_mono; [exact L | apply I2; exact Hd].
    - intros b h t Hb Hh. rewrite Hr in Hb. specialize (I3 _ _ _ Hb Hh). lia.
  Qed.

  (* the same with nothing replaced *)
  Lemma RInv_frame s s' :
    (length (r_threads s) <= length (r_threads s'))%nat -> r_prec s' = r_prec s -> r_retired s' = r_retired s -> r_live s' = r_live s ->
    RInv s -> RInv s'.
  Proof.
    intros L Hp Hr Hl (I1 & I2 & I3). unfold RInv. rewrite Hp, Hr, Hl. split; [|split].
    - intros k q Hin. eapply proc_valid_mono; [exact L | eapply I1; exact Hin].
    - intros d Hd. eapply prdata_valid_mono; [exact L | apply I2; exact Hd].
    - intros b h t Hb Hh. specialize (I3 _ _ _ Hb Hh). lia.
  Qed.

  Lemma r_add_thread_len s ph tid st m s' h : r_add_thread s ph tid st m = (s', h) ->
    h = length (r_threads s) /\ length (r_threads s') = S (length (r_threads s)) /\ r_procs s' = r_procs s.
  Proof. unfold r_add_thread. destruct (unique (r_utids s) tid). intros H; inversion H; subst; cbn. rewrite app_length. cbn. repeat split; lia. Qed.
  Lemma r_add_process_len s nm pid st s' h : r_add_process s nm pid st = (s', h) -> r_threads s' = r_threads s.
  Proof. unfold r_add_process. destruct (unique (r_upids s) pid). intros H; inversion H; subst; reflexivity. Qed.
  Lemma r_map_thread_len s h f : length (r_threads (r_map_thread s h f)) = length (r_threads s).
  Proof. cbn. apply length_upd_nth. Qed.

  Lemma live_valid s pid p : RInv s -> alookup pid (r_live s) = Some p -> proc_valid (length (r_threads s)) p.
  Proof. intros (I1 & _) H. eapply I1. apply alookup_in. exact H. Qed.

  Lemma r_get_by_pid_inv s pid s' p : RInv s -> r_get_by_pid s pid = (s', p) -> RInv s' /\ (length (r_threads s) <= length (r_threads s'))%nat.
  Proof.
    intros I. unfold r_get_by_pid. destruct (alookup pid (r_live s)) as [p0|] eqn:E.
    - intros H; inversion H; subst. split; [exact I | lia].
    - destruct (r_add_process s (NPid pid) pid 0) as [s1 ph] eqn:E1. destruct (r_add_thread s1 ph pid 0 true) as [s2 th] eqn:E2.
      intros H; inversion H; subst; clear H.
      destruct (r_add_process_frame _ _ _ _ _ _ E1) as [A1 [A2 [_ A4]]]. destruct (r_add_thread_frame _ _ _ _ _ _ _ E2) as [B1 [B2 [_ B4]]].
      pose proof (r_add_process_len _ _ _ _ _ _ E1) as L1. destruct (r_add_thread_len _ _ _ _ _ _ _ E2) as [Hh [L2 _]].
      assert (L : (length (r_threads s) <= length (r_threads s2))%nat) by (rewrite L2, L1; lia).
      split; [|unfold r_put, r_with_live; cbn [r_threads]; exact L].
      apply (RInv_put s s2); [exact L | congruence | congruence | congruence | exact I |].
      repeat split; cbn; [rewrite L2, Hh; lia | intros k t [] | intros h (n & l & [] & _) | intros h t []].
  Qed.

  Lemma r_get_new_process_inv s pid name st : RInv s -> RInv (r_get_new_process s pid name st).
  Proof.
    intros I. unfold r_get_new_process. destruct (alookup pid (r_live s)) as [p|] eqn:E.
    - destruct (lt_last (rp_main p)); [exact I|]. eapply RInv_frame; [| | | |exact I]; cbn; try reflexivity. rewrite length_upd_nth. lia.
    - destruct name as [n|].
      + destruct (recycle_by_name pr_handle n (r_prec s)) as [[d pl]|] eqn:Er.
        * destruct (recycle_mem _ _ _ _ _ Er) as [Hd Hsub]. destruct I as (I1 & I2 & I3).
          destruct (I2 d Hd) as [Dm Dt].
          unfold RInv, r_put, r_with_live, r_with_prec. cbn [r_threads r_live r_prec r_retired]. split; [|split].
          -- intros k q Hin. apply in_aset in Hin. destruct Hin as [[-> ->]|Hin]; [|eapply I1; exact Hin].
             repeat split; cbn; [exact Dm | intros k0 t [] | exact Dt | intros h t []].
          -- intros d' Hd'. apply I2. apply Hsub. exact Hd'.
          -- exact I3.
        * destruct (r_add_process s (oname pid (Some n)) pid st) as [s1 ph] eqn:E1. destruct (r_add_thread s1 ph pid st true) as [s2 th] eqn:E2.
          destruct (r_add_process_frame _ _ _ _ _ _ E1) as [A1 [A2 [_ A4]]]. destruct (r_add_thread_frame _ _ _ _ _ _ _ E2) as [B1 [B2 [_ B4]]].
          pose proof (r_add_process_len _ _ _ _ _ _ E1) as L1. destruct (r_add_thread_len _ _ _ _ _ _ _ E2) as [Hh [L2 _]].
          apply (RInv_put s (r_map_thread s2 th (t_set_name n))); cbn [r_prec r_retired r_live r_map_thread r_threads]; [rewrite length_upd_nth, L2, L1; lia | congruence | congruence | congruence | exact I |].
          repeat split; cbn; [rewrite length_upd_nth, L2, Hh; lia | intros k t [] | intros h (n0 & l & [] & _) | intros h t []].
      + destruct (r_add_process s (oname pid None) pid st) as [s1 ph] eqn:E1. destruct (r_add_thread s1 ph pid st true) as [s2 th] eqn:E2.
        destruct (r_add_process_frame _ _ _ _ _ _ E1) as [A1 [A2 [_ A4]]]. destruct (r_add_thread_frame _ _ _ _ _ _ _ E2) as [B1 [B2 [_ B4]]].
        pose proof (r_add_process_len _ _ _ _ _ _ E1) as L1. destruct (r_add_thread_len _ _ _ _ _ _ _ E2) as [Hh [L2 _]].
        apply (RInv_put s s2); [rewrite L2, L1; lia | congruence | congruence | congruence | exact I |].
        repeat split; cbn; [rewrite L2, Hh; lia | intros k t [] | intros h (n0 & l & [] & _) | intros h t []].
  Qed.

  Lemma r_get_thread_by_tid_inv s pid p tid s' p' t : RInv s -> alookup pid (r_live s) = Some p ->
    r_get_thread_by_tid s pid p tid = (s', p', t) ->
    RInv s' /\ (lt_handle t < length (r_threads s'))%nat /\ (length (r_threads s) <= length (r_threads s'))%nat.
  Proof.
    intros I Hp. pose proof (live_valid s pid p I Hp) as (V1 & V2 & V3 & V4). unfold r_get_thread_by_tid. destruct (tid =? pid).
    - intros H; inversion H; subst. split; [exact I | split; [exact V1 | lia]].
    - destruct (alookup tid (rp_threads p)) as [t0|] eqn:Et.
      + intros H; inversion H; subst. split; [exact I | split; [eapply V2; apply alookup_in; exact Et | lia]].
      + destruct (r_add_thread s (rp_handle p) tid 0 false) as [s1 th] eqn:E1. intros H; inversion H; subst; clear H.
        destruct (r_add_thread_frame _ _ _ _ _ _ _ E1) as [B1 [B2 [_ B4]]]. destruct (r_add_thread_len _ _ _ _ _ _ _ E1) as [Hh [L2 _]].
        split; [|unfold r_put, r_with_live; cbn [r_threads lt_handle]; rewrite L2, Hh; lia].
        apply (RInv_put s s1); [rewrite L2; lia | congruence | congruence | congruence | exact I |].
        repeat split; cbn [rp_main rp_threads rp_trec rp_samples rp_with_threads]; [rewrite L2; lia | | intros h Hm; specialize (V3 _ Hm); rewrite L2; lia | intros h t Hin; specialize (V4 _ _ Hin); rewrite L2; lia].
        intros k t Hin. apply in_aset in Hin. destruct Hin as [[-> ->]|Hin]; [cbn; rewrite L2, Hh; lia | specialize (V2 _ _ Hin); rewrite L2; lia].
  Qed.

  Lemma r_get_new_thread_inv s pid p tid name st : RInv s -> alookup pid (r_live s) = Some p -> RInv (r_get_new_thread s pid p tid name st).
  Proof.
    intros I Hp. pose proof (live_valid s pid p I Hp) as (V1 & V2 & V3 & V4). unfold r_get_new_thread. destruct (tid =? pid); [exact I|].
    destruct (alookup tid (rp_threads p)) as [t0|] eqn:Et.
    - destruct (lt_last t0); [exact I|]. eapply RInv_frame; [| | | |exact I]; cbn; try reflexivity. rewrite length_upd_nth. lia.
    - assert (Fresh : forall nm, RInv (let '(s1, th) := r_add_thread s (rp_handle p) tid st false in
                                       let s2 := match nm with Some n => r_map_thread s1 th (t_set_name n) | None => s1 end in
                                       r_put s2 pid (rp_with_threads p (aset tid (mkLT th nm None) (rp_threads p))))).
      { intros nm. destruct (r_add_thread s (rp_handle p) tid st false) as [s1 th] eqn:E1.
        destruct (r_add_thread_frame _ _ _ _ _ _ _ E1) as [B1 [B2 [_ B4]]]. destruct (r_add_thread_len _ _ _ _ _ _ _ E1) as [Hh [L2 _]].
        set (s2 := match nm with Some n => r_map_thread s1 th (t_set_name n) | None => s1 end).
        assert (F2 : length (r_threads s2) = length (r_threads s1) /\ r_prec s2 = r_prec s1 /\ r_retired s2 = r_retired s1 /\ r_live s2 = r_live s1).
        { unfold s2. destruct nm; cbn; [rewrite length_upd_nth|]; auto. }
        destruct F2 as (F2 & F3 & F4 & F5).
        apply (RInv_put s s2); [rewrite F2, L2; lia | congruence | congruence | congruence | exact I |]. rewrite F2, L2.
        repeat split; cbn [rp_main rp_threads rp_trec rp_samples rp_with_threads]; [lia | | intros h Hm; specialize (V3 _ Hm); lia | intros h t Hin; specialize (V4 _ _ Hin); lia].
        intros k t Hin. apply in_aset in Hin. destruct Hin as [[-> ->]|Hin]; [cbn; lia | specialize (V2 _ _ Hin); lia]. }
      destruct name as [n|]; [|exact (Fresh None)].
      destruct (recycle_by_name thread_key n (rp_trec p)) as [[h pl]|] eqn:Er; [|exact (Fresh (Some n))].
      destruct (recycle_mem _ _ _ _ _ Er) as [Hh Hsub].
      apply (RInv_put s s); [lia | reflexivity | reflexivity | reflexivity | exact I |].
      repeat split; cbn [rp_main rp_threads rp_trec rp_samples rp_with_threads rp_with_trec]; [exact V1 | | intros h0 Hm; apply V3, Hsub, Hm | exact V4].
      intros k t Hin. apply in_aset in Hin. destruct Hin as [[-> ->]|Hin]; [cbn; apply V3; exact Hh | eapply V2; exact Hin].
  Qed.

  Lemma pool_thread_mem name h pl y : pool_mem y (pool_thread name h pl) -> y = h \/ pool_mem y pl.
  Proof. destruct name as [n|]; cbn; [apply add_to_pool_mem | auto]. Qed.

  Lemma r_remove_thread_inv s pid p tid e : RInv s -> alookup pid (r_live s) = Some p -> RInv (r_remove_thread s pid p tid e).
  Proof.
    intros I Hp. pose proof (live_valid s pid p I Hp) as (V1 & V2 & V3 & V4). unfold r_remove_thread.
    destruct (alookup tid (rp_threads p)) as [t0|] eqn:Et; [|exact I].
    apply (RInv_put s (r_map_thread s (lt_handle t0) (t_set_end e))); cbn [r_prec r_retired r_live r_map_thread r_threads]; [rewrite length_upd_nth; lia | reflexivity | reflexivity | reflexivity | exact I |].
    rewrite length_upd_nth.
    repeat split; cbn [rp_main rp_threads rp_trec rp_samples rp_with_threads rp_with_trec]; [exact V1 | | | exact V4].
    - intros k t Hin. apply in_aremove in Hin. eapply V2; exact Hin.
    - intros h Hm. apply pool_thread_mem in Hm. destruct Hm as [->|Hm]; [eapply V2; apply alookup_in; exact Et | apply V3; exact Hm].
  Qed.

  Lemma fold_pool_thread_mem (l : list (N * lthread)) : forall pl y,
    pool_mem y (fold_left (fun pl kt => pool_thread (lt_name (snd kt)) (lt_handle (snd kt)) pl) l pl) ->
    pool_mem y pl \/ exists k t, In (k, t) l /\ y = lt_handle t.
  Proof.
    induction l as [|[k t] l IH]; intros pl y H; cbn [fold_left] in H; [left; exact H|].
    destruct (IH _ _ H) as [Hm|(k' & t' & Hin & ->)].
    - cbn [snd] in Hm. apply pool_thread_mem in Hm. destruct Hm as [->|Hm]; [right; exists k, t; split; [left; reflexivity|reflexivity] | left; exact Hm].
    - right. exists k', t'. split; [right; exact Hin | reflexivity].
  Qed.
  Lemma r_fold_map_thread_len (l : list (N * lthread)) e : forall s,
    length (r_threads (fold_left (fun x kt => r_map_thread x (lt_handle (snd kt)) (t_set_end e)) l s)) = length (r_threads s).
  Proof. induction l as [|x l IH]; intros s; cbn [fold_left]; [reflexivity|]. rewrite IH. apply r_map_thread_len. Qed.
  Lemma r_fold_map_thread_prec (l : list (N * lthread)) e : forall s,
    r_prec (fold_left (fun x kt => r_map_thread x (lt_handle (snd kt)) (t_set_end e)) l s) = r_prec s.
  Proof. induction l as [|x l IH]; intros s; cbn [fold_left]; [reflexivity|]. rewrite IH. reflexivity. Qed.

  Lemma r_remove_process_inv s pid e : RInv s -> RInv (r_remove_process s pid e).
  Proof.
    intros I. unfold r_remove_process. destruct (alookup pid (r_live s)) as [p|] eqn:Hp; [|exact I].
    pose proof (live_valid s pid p I Hp) as (V1 & V2 & V3 & V4). destruct I as (I1 & I2 & I3).
    set (s1 := fold_left _ (rp_threads p) s).
    destruct (r_fold_map_thread_frame (rp_threads p) e s) as [F1 F2]. fold s1 in F1, F2.
    pose proof (r_fold_map_thread_len (rp_threads p) e s) as FL. fold s1 in FL.
    pose proof (r_fold_map_thread_prec (rp_threads p) e s) as FP. fold s1 in FP.
    unfold RInv. cbn [r_threads r_live r_prec r_retired r_map_process r_map_thread]. rewrite length_upd_nth, FL, F1, F2, FP.
    split; [|split].
    - intros k q Hin. apply in_aremove in Hin. eapply I1; exact Hin.
    - intros d Hd. destruct (rp_name p) as [n|]; [|apply I2; exact Hd].
      apply add_to_pool_mem in Hd. destruct Hd as [->|Hd]; [|apply I2; exact Hd].
      split; cbn; [exact V1|]. intros h Hm. apply fold_pool_thread_mem in Hm. destruct Hm as [Hm|(k & t & Hin & ->)]; [apply V3; exact Hm | eapply V2; exact Hin].
    - intros b h t Hb Hh. destruct (rp_samples p) as [|x sm] eqn:Es; [eapply I3; eassumption|].
      apply in_app_or in Hb. destruct Hb as [Hb|[<-|[]]]; [eapply I3; eassumption | eapply V4; exact Hh].
  Qed.

  Lemma r_rename_process_inv s pid p name : RInv s -> alookup pid (r_live s) = Some p -> RInv (r_rename_process s pid p name).
  Proof.
    intros I Hp. pose proof (live_valid s pid p I Hp) as (V1 & V2 & V3 & V4). unfold r_rename_process.
    destruct (recycle_by_name pr_handle name (r_prec s)) as [[d pl]|] eqn:Er.
    - destruct (recycle_mem _ _ _ _ _ Er) as [Hd Hsub]. destruct I as (I1 & I2 & I3). destruct (I2 d Hd) as [Dm Dt].
      unfold RInv, r_put, r_with_live, r_with_prec. cbn [r_threads r_live r_prec r_retired]. split; [|split].
      + intros k q Hin. apply in_aset in Hin. destruct Hin as [[-> ->]|Hin]; [|eapply I1; exact Hin].
        repeat split; cbn; [exact Dm | exact V2 | exact Dt | exact V4].
      + intros d' Hd'. destruct (rp_name p) as [o|]; [|apply I2, Hsub, Hd'].
        apply add_to_pool_mem in Hd'. destruct Hd' as [->|Hd']; [split; cbn; [exact V1 | exact V3] | apply I2, Hsub, Hd'].
      + exact I3.
    - match goal with |- RInv (r_put ?s0 pid ?p') => apply (RInv_put s s0) end; cbn [r_prec r_retired r_live r_map_thread r_map_process r_threads];
        [rewrite length_upd_nth; lia | reflexivity | reflexivity | reflexivity | exact I |].
      rewrite length_upd_nth. repeat split; cbn; assumption.
  Qed.

  Lemma r_rename_thread_inv s pid p tid th name : RInv s -> alookup pid (r_live s) = Some p -> alookup tid (rp_threads p) = Some th ->
    RInv (r_rename_thread s pid p tid th name).
  Proof.
    intros I Hp Ht. pose proof (live_valid s pid p I Hp) as (V1 & V2 & V3 & V4). unfold r_rename_thread.
    destruct (recycle_by_name thread_key name (rp_trec p)) as [[h pl]|] eqn:Er; [|exact I].
    destruct (recycle_mem _ _ _ _ _ Er) as [Hh Hsub].
    apply (RInv_put s s); [lia | reflexivity | reflexivity | reflexivity | exact I |].
    repeat split; cbn [rp_main rp_threads rp_trec rp_samples rp_with_threads rp_with_trec]; [exact V1 | | | exact V4].
    - intros k t Hin. apply in_aset in Hin. destruct Hin as [[-> ->]|Hin]; [cbn; apply V3; exact Hh | eapply V2; exact Hin].
    - intros h0 Hm. apply pool_thread_mem in Hm. destruct Hm as [->|Hm]; [eapply V2; apply alookup_in; exact Ht | apply V3, Hsub, Hm].
  Qed.

  Lemma rstep_inv s r : RInv s -> RInv (rstep origin s r).
  Proof.
    intros I.
    destruct r as [pid ppid tid ptid ts | pid tid ts | pid tid name ex ts | pid tid ts | pid tid | pid tid]; cbn [rstep].
    - destruct (r_get_by_pid s ppid) as [s1 parent] eqn:E1. destruct (r_get_by_pid_inv _ _ _ _ I E1) as [I1 _].
      destruct (r_get_by_pid_spec _ _ _ _ E1) as [A1 _].
      destruct (negb (pid =? ppid)); [apply r_get_new_process_inv; exact I1|].
      destruct (r_get_thread_by_tid s1 ppid parent ptid) as [[s2 parent'] pt] eqn:E2.
      destruct (r_get_thread_by_tid_inv _ _ _ _ _ _ _ I1 A1 E2) as [I2 _].
      destruct (r_get_thread_by_tid_spec _ _ _ _ _ _ _ A1 E2) as [B1 _].
      apply r_get_new_thread_inv; assumption.
    - destruct (tid =? pid); [apply r_remove_process_inv; exact I|].
      destruct (r_get_by_pid s pid) as [s1 p] eqn:E1. destruct (r_get_by_pid_inv _ _ _ _ I E1) as [I1 _].
      destruct (r_get_by_pid_spec _ _ _ _ E1) as [A1 _]. apply r_remove_thread_inv; assumption.
    - destruct ex.
      + destruct (tid =? pid); [apply r_get_new_process_inv, r_remove_process_inv; exact I|].
        destruct (r_get_by_pid s pid) as [s1 p] eqn:E1. destruct (r_get_by_pid_inv _ _ _ _ I E1) as [I1 _].
        destruct (r_get_by_pid_spec _ _ _ _ E1) as [A1 _].
        pose proof (r_remove_thread_inv s1 pid p tid (r_rec_time origin s ts) I1 A1) as I2.
        destruct (alookup pid (r_live (r_remove_thread s1 pid p tid (r_rec_time origin s ts)))) as [p2|] eqn:E2; [|exact I2].
        apply r_get_new_thread_inv; assumption.
      + destruct (tid =? pid).
        * destruct (alookup pid (r_live s)) as [p|] eqn:E; [|apply r_get_new_process_inv; exact I].
          destruct (match rp_name p with Some n => n =? name | None => false end); [exact I|]. apply r_rename_process_inv; assumption.
        * destruct (r_get_by_pid s pid) as [s1 p] eqn:E1. destruct (r_get_by_pid_inv _ _ _ _ I E1) as [I1 _].
          destruct (r_get_by_pid_spec _ _ _ _ E1) as [A1 _].
          destruct (alookup tid (rp_threads p)) as [th|] eqn:Et; [|apply r_get_new_thread_inv; assumption].
          destruct (match lt_name th with Some n => n =? name | None => false end); [exact I1|]. apply r_rename_thread_inv; assumption.
    - destruct (tid =? 0); [exact I|].
      set (s0 := mkR (r_procs s) (r_threads s) (r_upids s) (r_utids s) (r_live s) (r_retired s) ts (r_prec s)).
      assert (I0 : RInv s0) by exact I.
      destruct (r_get_by_pid s0 pid) as [s1 p] eqn:E1. destruct (r_get_by_pid_inv _ _ _ _ I0 E1) as [I1 _].
      destruct (r_get_by_pid_spec _ _ _ _ E1) as [A1 _].
      destruct (r_get_thread_by_tid s1 pid p tid) as [[s2 p2] t] eqn:E2.
      destruct (r_get_thread_by_tid_inv _ _ _ _ _ _ _ I1 A1 E2) as [I2 [Ht _]].
      destruct (r_get_thread_by_tid_spec _ _ _ _ _ _ _ A1 E2) as [B1 _].
      destruct (match lt_last t with Some l => l =? ts | None => false end); [exact I2|].
      pose proof (live_valid s2 pid p2 I2 B1) as (V1 & V2 & V3 & V4).
      apply (RInv_put s2 s2); [lia | reflexivity | reflexivity | reflexivity | exact I2 |].
      destruct (tid =? pid); cbn [rp_main rp_threads rp_trec rp_samples rp_with_threads rp_with_main rp_handle rp_name].
      + repeat split; cbn; [exact Ht | exact V2 | exact V3 |]. intros h t0 Hin. apply in_app_or in Hin. destruct Hin as [Hin|[Hin|[]]]; [eapply V4; exact Hin | inversion Hin; subst; exact Ht].
      + repeat split; cbn; [exact V1 | | exact V3 |].
        * intros k t0 Hin. apply in_aset in Hin. destruct Hin as [[-> ->]|Hin]; [cbn; exact Ht | eapply V2; exact Hin].
        * intros h t0 Hin. apply in_app_or in Hin. destruct Hin as [Hin|[Hin|[]]]; [eapply V4; exact Hin | inversion Hin; subst; exact Ht].
    - destruct (r_get_by_pid s pid) as [s1 p] eqn:E1. destruct (r_get_by_pid_inv _ _ _ _ I E1) as [I1 _].
      destruct (r_get_by_pid_spec _ _ _ _ E1) as [A1 _].
      destruct (r_time s =? origin); [exact I1|].
      destruct (r_get_thread_by_tid s1 pid p tid) as [[s2 p2] t] eqn:E2.
      destruct (r_get_thread_by_tid_inv _ _ _ _ _ _ _ I1 A1 E2) as [I2 _]. exact I2.
    - destruct (tid =? 0); [exact I|].
      destruct (r_get_by_pid s pid) as [s1 p] eqn:E1. destruct (r_get_by_pid_inv _ _ _ _ I E1) as [I1 _].
      destruct (r_get_by_pid_spec _ _ _ _ E1) as [A1 _].
      destruct (r_get_thread_by_tid s1 pid p tid) as [[s2 p2] t] eqn:E2.
      destruct (r_get_thread_by_tid_inv _ _ _ _ _ _ _ I1 A1 E2) as [I2 _]. exact I2.
  Qed.

  Lemma RInv_init : RInv (rinit origin).
  Proof. split; [intros k p []|]. split; [intros d (n & l & [] & _) | intros b h t []]. Qed.

  Lemma rrun_inv rs : RInv (rrun origin rs).
  Proof.
    unfold rrun. assert (G : forall s, RInv s -> RInv (fold_left (rstep origin) rs s)).
    { induction rs as [|r rs IH]; intros s I; cbn [fold_left]; [exact I | apply IH, rstep_inv, I]. }
    apply G, RInv_init.
  Qed.

  (* every sample that is flushed into the profile sits on an existing thread entry *)
  Theorem r_output_on_existing_entries rs h t : In (h, t) (r_output_samples (rrun origin rs)) -> (h < length (r_threads (rrun origin rs)))%nat.
  Proof.
    intros H. destruct (rrun_inv rs) as (I1 & _ & I3). rewrite r_output_is_total in H. unfold rtotal in H. apply in_app_or in H. destruct H as [H|H].
    - apply in_concat in H. destruct H as (b & Hb & Hh). eapply I3; eassumption.
    - unfold rbufs in H. apply in_concat in H. destruct H as (b & Hb & Hh). apply in_map_iff in Hb. destruct Hb as ([k p] & <- & Hin).
      destruct (I1 _ _ Hin) as (_ & _ & _ & V4). eapply V4. exact Hh.
  Qed.
End Valid.
