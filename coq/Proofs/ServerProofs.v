From SV Require Import Generated.Consts Model.Server.
From Coq Require Import Lia ZifyBool ZifyN ZifyNat.
Open Scope N_scope.

Definition no_cors (r : response) : Prop :=
  allow_origin r = false /\ allow_methods r = false /\ max_age r = false /\ allow_headers r = false.

Lemma no_prefix_no_cors profile token req :
  strip_prefix (path_prefix token) (r_path req) = None ->
  let r := route profile token req in
  no_cors r /\ gzip r = false /\ allow r = false /\
  ((status r = 200 /\ rbody r = BLanding /\ r_method req = GET /\ r_path req = [slash]) \/
   (status r = 404 /\ rbody r = BEmpty)).
Proof.
  intros H. unfold route. rewrite H.
  destruct (meth_eqb (r_method req) GET && bytes_eqb (r_path req) [slash]) eqn:C; cbn.
  - split; [repeat split|]. split; [reflexivity|]. split; [reflexivity|]. left.
    apply andb_true_iff in C. destruct C as [C1 C2].
    split; [reflexivity|]. split; [reflexivity|]. split.
    + destruct (r_method req); try discriminate; reflexivity.
    + destruct (r_path req) as [|c [|d t]]; cbn in C2; try discriminate.
      * rewrite andb_true_r in C2. f_equal. lia.
      * destruct (c =? slash); discriminate.
  - split; [repeat split|]. split; [reflexivity|]. split; [reflexivity|]. right. split; reflexivity.
Qed.

Lemma prefix_dispatch profile token req rest :
  strip_prefix (path_prefix token) (r_path req) = Some rest ->
  let r := route profile token req in
  allow_origin r = true /\
  match r_method req with
  | OPTIONS => status r = 204 /\ rbody r = BEmpty /\ allow_methods r = r_acrm req /\ max_age r = r_acrm req /\
               allow_headers r = (r_acrm req && r_acrh req) /\ allow r = negb (r_acrm req)
  | GET => (rbody r = BProfile <-> (exists gz, profile = Some gz) /\ bytes_eqb rest profile_json = true) /\
           (rbody r <> BProfile -> status r = 404 /\ rbody r = BEmpty)
  | POST => status r = 200 /\ rbody r = BApi
  | _ => status r = 404 /\ rbody r = BEmpty
  end.
Proof.
  intros H. unfold route. rewrite H. destruct (r_method req); cbn.
  - split.
    + destruct profile as [gz|]; [destruct (bytes_eqb rest profile_json)|]; reflexivity.
    + destruct profile as [gz|]; [destruct (bytes_eqb rest profile_json) eqn:E|]; cbn.
      * split; [split; [intros _; split; [eauto|reflexivity]|reflexivity]|intros X; congruence].
      * split; [split; [discriminate|intros [_ X]; discriminate]|intros _; split; reflexivity].
      * split; [split; [discriminate|intros [[gz X] _]; discriminate]|intros _; split; reflexivity].
  - split; [reflexivity|split; reflexivity].
  - destruct (r_acrm req); cbn; repeat split; reflexivity.
  - split; [reflexivity|split; reflexivity].
  - split; [reflexivity|split; reflexivity].
  - split; [reflexivity|split; reflexivity].
Qed.

Lemma strip_prefix_some prefix : forall s rest, strip_prefix prefix s = Some rest -> s = prefix ++ rest.
Proof.
  induction prefix as [|p prefix IH]; intros s rest H; cbn in *; [inversion H; reflexivity|].
  destruct s as [|c s']; [discriminate|]. destruct (c =? p) eqn:C; [|discriminate].
  rewrite (IH _ _ H). f_equal. lia.
Qed.

Lemma strip_prefix_app prefix rest : strip_prefix prefix (prefix ++ rest) = Some rest.
Proof. induction prefix as [|p prefix IH]; cbn; [reflexivity|]. rewrite N.eqb_refl. exact IH. Qed.

(* ---- token ---- *)

Lemma range_rev_length n : length (range_rev n) = n.
Proof. induction n; cbn; congruence. Qed.

Lemma token_length bytes : length bytes = 24%nat -> length (to_nix_base32 bytes) = 39%nat.
Proof.
  intros H. unfold to_nix_base32. rewrite map_length, range_rev_length, H. vm_compute. reflexivity.
Qed.

Lemma digit_lt bytes n : digit bytes n < 32.
Proof. unfold digit. apply N.mod_lt. lia. Qed.

Lemma token_alphabet bytes : Forall (fun c => In c base32_chars) (to_nix_base32 bytes).
Proof.
  unfold to_nix_base32. apply Forall_forall. intros c Hc. apply in_map_iff in Hc. destruct Hc as [n [<- _]].
  apply nth_In. pose proof (digit_lt bytes n). change (length base32_chars) with 32%nat. lia.
Qed.
