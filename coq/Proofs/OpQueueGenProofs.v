(* The functions tools/xlate_ho.py regenerates from samply/src/shared/lib_mappings.rs on every run (next_op_if_at_or_before, LibMappingOp::apply_to,
   the regular-library loop of LibMappingsHierarchy::process_ops, the first question of LibMappingsHierarchy::convert_address) compute what
   Model/Attribution.v computes: apply_qop, process_ops (with the cutoff comparison as the source has it) and convert_address on the regular table. *)
From SV Require Import Generated.Consts Model.LibMappings Model.Attribution Generated.OpQueueGen.
From Coq Require Import Lia.
Open Scope N_scope.

Lemma bt_find_none_remove m k : bt_find m k = None -> remove_mapping m k = m.
Proof.
  unfold remove_mapping, bt_remove. induction m as [|x m IH]; cbn [bt_find filter]; intros H; [reflexivity|].
  destruct (m_start x =? k); [discriminate|]. cbn [negb]. rewrite (IH H). reflexivity.
Qed.

Lemma g_apply_to_eq m q : g_apply_to m q = apply_qop m q.
Proof.
  destruct q as [o|a b c]; cbn [g_apply_to apply_qop].
  - destruct o as [x|s|]; cbn [step]; [destruct x; reflexivity|reflexivity|reflexivity].
  - destruct (bt_find m a) eqn:E; [reflexivity|]. cbv zeta. apply bt_find_none_remove. exact E.
Qed.

(* the queue is consumed while the head's time stamp is not after the sample's: the comparison of the source, and the one the model takes from
   Generated/Consts.v, are the same *)
Lemma g_next_op_cutoff t o r ts :
  c_op_cutoff_inclusive = true ->
  g_next_op_if_at_or_before ((t, o) :: r) ts = if cutoff t ts then Some (o, r) else None.
Proof.
  intros Hc. unfold cutoff. rewrite Hc. cbn [g_next_op_if_at_or_before].
  destruct (ts <? t) eqn:E; [apply N.ltb_lt in E|apply N.ltb_ge in E].
  - replace (t <=? ts) with false by (symmetry; apply N.leb_gt; exact E). reflexivity.
  - replace (t <=? ts) with true by (symmetry; apply N.leb_le; exact E). reflexivity.
Qed.

Theorem g_process_ops_eq ts q : c_op_cutoff_inclusive = true -> forall m, g_process_ops ts m q = process_ops ts m q.
Proof.
  intros Hc. induction q as [|[t o] r IH]; intros m; [reflexivity|].
  cbn [g_process_ops process_ops]. change (match g_next_op_if_at_or_before ((t, o) :: r) ts with
                                           | Some (op, _) => g_process_ops ts (g_apply_to m op) r
                                           | None => (m, (t, o) :: r)
                                           end = (if cutoff t ts then process_ops ts (apply_qop m o) r else (m, (t, o) :: r))).
  rewrite (g_next_op_cutoff t o r ts Hc). destruct (cutoff t ts); [|reflexivity].
  rewrite g_apply_to_eq. apply IH.
Qed.

Lemma g_hier_convert_eq m a : g_hier_convert_address m a = convert_address m a.
Proof. reflexivity. Qed.
