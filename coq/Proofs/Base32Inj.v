(* The token encoding (nix-base32 of 24 random bytes) is injective: different byte strings give different tokens. *)
From SV Require Import Generated.Consts Model.Server.
From Coq Require Import ZArith NArith Lia ZifyBool ZifyN ZifyNat List Bool.
Import ListNotations.
Open Scope N_scope.
Ltac Zify.zify_post_hook ::= Z.div_mod_to_equations.

Fixpoint le_val (bs : list N) : N := match bs with [] => 0 | b :: r => b + 256 * le_val r end.

Lemma testbit_small b m : b < 256 -> 8 <= m -> N.testbit b m = false.
Proof.
  intros Hb Hm. destruct (N.eq_dec b 0) as [->|Hz]; [apply N.bits_0|].
  apply N.bits_above_log2. assert (N.log2 b < 8) by (apply N.log2_lt_pow2; lia). lia.
Qed.

Lemma le_val_bits : forall bs m, (forall b, In b bs -> b < 256) ->
  N.testbit (le_val bs) m = N.testbit (nth (N.to_nat (m / 8)) bs 0) (m mod 8).
Proof.
  induction bs as [|b bs IH]; intros m H; cbn [le_val].
  - rewrite N.bits_0. destruct (N.to_nat (m / 8)); cbn [nth]; symmetry; apply N.bits_0.
  - assert (Hb : b < 256) by (apply H; left; reflexivity).
    replace (b + 256 * le_val bs) with (b + le_val bs * 2 ^ 8) by (change (2 ^ 8) with 256; lia).
    destruct (N.lt_ge_cases m 8) as [Hm|Hm].
    + replace (N.to_nat (m / 8)) with 0%nat by lia. cbn [nth]. replace (m mod 8) with m by lia.
      rewrite <- N.shiftl_mul_pow2. rewrite N.add_nocarry_lxor.
      * rewrite N.lxor_spec, N.shiftl_spec_low by lia. apply xorb_false_r.
      * apply N.bits_inj_0. intros k. rewrite N.land_spec. destruct (N.lt_ge_cases k 8); [rewrite N.shiftl_spec_low by lia; apply andb_false_r | rewrite testbit_small by lia; reflexivity].
    + rewrite <- N.shiftl_mul_pow2. rewrite N.add_nocarry_lxor.
      * rewrite N.lxor_spec, N.shiftl_spec_high' by lia. rewrite testbit_small by lia. rewrite xorb_false_l.
        rewrite IH by (intros x Hx; apply H; right; exact Hx).
        replace (N.to_nat (m / 8)) with (S (N.to_nat ((m - 8) / 8))) by lia. cbn [nth].
        replace ((m - 8) mod 8) with (m mod 8) by lia. reflexivity.
      * apply N.bits_inj_0. intros k. rewrite N.land_spec. destruct (N.lt_ge_cases k 8); [rewrite N.shiftl_spec_low by lia; apply andb_false_r | rewrite testbit_small by lia; reflexivity].
Qed.

Lemma nth_lt256 bs i : (forall b, In b bs -> b < 256) -> nth i bs 0 < 256.
Proof. intros H. destruct (Nat.lt_ge_cases i (length bs)) as [L|L]; [apply H; apply nth_In; exact L | rewrite nth_overflow by exact L; lia]. Qed.

(* digit n holds the bits 5n .. 5n+4 of the little-endian value of the bytes *)
Lemma digit_bits bs n k : (forall b, In b bs -> b < 256) -> bs <> [] -> k < 5 ->
  N.testbit (digit bs n) k = N.testbit (le_val bs) (5 * n + k).
Proof.
  intros H Hne Hk. unfold digit. set (i := n * 5 / 8). set (j := (n * 5) mod 8).
  assert (Hj : j < 8) by (unfold j; lia).
  assert (E5 : 5 * n = 8 * i + j) by (unfold i, j; lia).
  pose proof (nth_lt256 bs (N.to_nat i) H) as Hbi. pose proof (nth_lt256 bs (N.to_nat i + 1) H) as Hbi1.
  rewrite N.mod_pow2_bits_low with (n := 5) by lia. change (2 ^ 5) with 32.
  rewrite N.lor_spec.
  unfold shr8. replace (8 <=? j) with false by lia. rewrite N.shiftr_spec by lia.
  rewrite le_val_bits by exact H.
  destruct (N.lt_ge_cases (j + k) 8) as [Hlow|Hhigh].
  - (* the bit lies in byte i *)
    replace ((5 * n + k) / 8) with i by lia. replace ((5 * n + k) mod 8) with (k + j) by lia.
    assert (V2 : N.testbit (if N.of_nat (length bs) - 1 <=? i then 0 else shl8 (nth (N.to_nat i + 1) bs 0) (8 - j)) k = false).
    { destruct (N.of_nat (length bs) - 1 <=? i); [apply N.bits_0|]. unfold shl8. destruct (8 <=? 8 - j); [apply N.bits_0|].
      rewrite N.mod_pow2_bits_low with (n := 8) by lia. apply N.shiftl_spec_low. lia. }
    rewrite V2. apply orb_false_r.
  - (* the bit lies in byte i+1 *)
    rewrite (testbit_small _ (k + j) Hbi) by lia. cbn [orb].
    replace ((5 * n + k) / 8) with (i + 1) by lia. replace ((5 * n + k) mod 8) with (k + j - 8) by lia.
    replace (N.to_nat (i + 1)) with (N.to_nat i + 1)%nat by lia.
    destruct (N.of_nat (length bs) - 1 <=? i) eqn:El.
    + rewrite N.bits_0. rewrite nth_overflow; [symmetry; apply N.bits_0|]. destruct bs; [contradiction|]. cbn [length] in *. lia.
    + unfold shl8. replace (8 <=? 8 - j) with false by lia. rewrite N.mod_pow2_bits_low with (n := 8) by lia.
      rewrite N.shiftl_spec_high' by lia. f_equal. lia.
Qed.

Lemma le_val_inj : forall a b, length a = length b -> (forall x, In x a -> x < 256) -> (forall x, In x b -> x < 256) -> le_val a = le_val b -> a = b.
Proof.
  induction a as [|x a IH]; intros [|y b] L Ha Hb E; cbn [length] in L; try discriminate; [reflexivity|].
  cbn [le_val] in E. assert (x < 256) by (apply Ha; left; reflexivity). assert (y < 256) by (apply Hb; left; reflexivity).
  assert (x = y) by lia. subst y. f_equal. apply IH; [lia | intros z Hz; apply Ha; right; exact Hz | intros z Hz; apply Hb; right; exact Hz | lia].
Qed.

Lemma chars_nodup : NoDup base32_chars.
Proof. unfold base32_chars. repeat (constructor; [cbn; intros H; repeat (destruct H as [H|H]; [discriminate|]); exact H|]). constructor. Qed.

Lemma digit_lt32 bs n : digit bs n < 32.
Proof. unfold digit. apply N.mod_lt. discriminate. Qed.

Lemma map_eq_in {A B} (f g : A -> B) l : map f l = map g l -> forall x, In x l -> f x = g x.
Proof. induction l as [|y l IH]; cbn; intros E x Hx; [destruct Hx|]. inversion E. destruct Hx as [<-|Hx]; [assumption | apply IH; assumption]. Qed.

Lemma in_range_rev n k : (k < n)%nat -> In (N.of_nat k) (range_rev n).
Proof. induction n as [|n IH]; intros H; [lia|]. cbn [range_rev]. destruct (Nat.eq_dec k n) as [->|Hne]; [left; reflexivity | right; apply IH; lia]. Qed.

Theorem token_injective a b :
  length a = 24%nat -> length b = 24%nat -> (forall x, In x a -> x < 256) -> (forall x, In x b -> x < 256) ->
  to_nix_base32 a = to_nix_base32 b -> a = b.
Proof.
  intros La Lb Ha Hb E. unfold to_nix_base32 in E. rewrite La, Lb in E.
  change (N.to_nat ((N.of_nat 24 * 8 - 1) / 5 + 1)) with 39%nat in E.
  assert (D : forall n, n < 39 -> digit a n = digit b n).
  { intros n Hn. pose proof (map_eq_in _ _ _ E n) as H. cbv beta in H.
    assert (Hin : In n (range_rev 39)) by (replace n with (N.of_nat (N.to_nat n)) by lia; apply in_range_rev; lia).
    specialize (H Hin). pose proof (digit_lt32 a n). pose proof (digit_lt32 b n).
    assert (Hi : N.to_nat (digit a n) = N.to_nat (digit b n)).
    { apply (proj1 (NoDup_nth base32_chars 0) chars_nodup); [cbn; lia | cbn; lia | exact H]. }
    lia. }
  apply le_val_inj; [congruence | exact Ha | exact Hb|].
  apply N.bits_inj. intros m.
  assert (Na : a <> []) by (intros ->; discriminate). assert (Nb : b <> []) by (intros ->; discriminate).
  destruct (N.lt_ge_cases m 195) as [Hm|Hm].
  - replace m with (5 * (m / 5) + m mod 5) by lia.
    rewrite <- (digit_bits a (m / 5) (m mod 5) Ha Na) by lia. rewrite <- (digit_bits b (m / 5) (m mod 5) Hb Nb) by lia.
    rewrite D by lia. reflexivity.
  - rewrite !le_val_bits by assumption. rewrite !nth_overflow by lia. reflexivity.
Qed.
