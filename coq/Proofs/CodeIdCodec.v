(* The code-id string codec (samply-symbols/src/shared.rs): printing (Model/LibIdentity.cid_to_str) followed by parsing
   (Model/CodeIdStr.code_id_from_str) gives the id back, for every id outside the ambiguous class of finding F-C19. *)
From Coq Require Import ZArith Lia ZifyBool ZifyN ZifyNat.
From SV Require Import Lib.Bytes Model.CodeIdStr Model.LibIdentity.
Open Scope N_scope.
Ltac Zify.zify_post_hook ::= Z.div_mod_to_equations.

Arguments N.add : simpl never. Arguments N.sub : simpl never. Arguments N.mul : simpl never.
Arguments N.div : simpl never. Arguments N.modulo : simpl never. Arguments N.eqb : simpl never. Arguments N.ltb : simpl never. Arguments N.leb : simpl never.

Lemma hex_digit_of_char u d : d < 16 -> hex_digit (hex_digit_char u d) = Some d.
Proof.
  intros H. unfold hex_digit_char, hex_digit. destruct (d <? 10) eqn:E.
  - replace ((48 <=? 48 + d) && (48 + d <=? 57)) with true by lia. f_equal. lia.
  - destruct u.
    + replace ((48 <=? 55 + d) && (55 + d <=? 57)) with false by lia. replace ((97 <=? 55 + d) && (55 + d <=? 102)) with false by lia.
      replace ((65 <=? 55 + d) && (55 + d <=? 70)) with true by lia. f_equal. lia.
    + replace ((48 <=? 87 + d) && (87 + d <=? 57)) with false by lia. replace ((97 <=? 87 + d) && (87 + d <=? 102)) with true by lia. f_equal. lia.
Qed.
Lemma hex_digit_char_ascii u d : d < 16 -> hex_digit_char u d < 128 /\ hex_digit_char u d <> 43.
Proof. intros H. unfold hex_digit_char. destruct (d <? 10) eqn:E; destruct u; lia. Qed.

Definition ascii (s : bytes) : Prop := forall c, In c s -> c < 128.

Lemma ascii_app a b : ascii a -> ascii b -> ascii (a ++ b).
Proof. intros H1 H2 c H. apply in_app_or in H. destruct H; auto. Qed.

Lemma boundary_ascii s i : ascii s -> i <= blen s -> boundary s i = true.
Proof.
  intros Ha Hi. unfold boundary. destruct (i =? blen s) eqn:E; [reflexivity|]. destruct (blen s <? i) eqn:E2; [lia|].
  assert (Hn : (N.to_nat i < length s)%nat) by (unfold blen in *; lia).
  pose proof (Ha (nth (N.to_nat i) s 0) (nth_In _ _ Hn)) as Hc. unfold is_cont. lia.
Qed.

Lemma sget_ascii s a b : ascii s -> a <= b -> b <= blen s -> sget s a b = Some (firstn (N.to_nat (b - a)) (skipn (N.to_nat a) s)).
Proof.
  intros Ha H1 H2. unfold sget. rewrite (boundary_ascii s a Ha) by lia. rewrite (boundary_ascii s b Ha) by lia.
  replace ((a <=? b) && (b <=? blen s) && true && true) with true by lia. reflexivity.
Qed.

(* --- bytes as two hex digits --- *)
Lemma byte_hex_val u b : b < 256 -> hex_val (byte_hex u b) 0 = Some b.
Proof.
  intros H. unfold byte_hex. cbn [hex_val]. rewrite hex_digit_of_char by lia. rewrite hex_digit_of_char by lia. f_equal. lia.
Qed.
Lemma strip_plus_id (x : N) (r : bytes) : x <> 43 -> match x :: r with 43 :: r' => r' | _ => x :: r end = x :: r.
Proof.
  intros H. destruct x as [|p]; [reflexivity|].
  destruct p as [p|p|]; try reflexivity. destruct p as [p|p|]; try reflexivity. destruct p as [p|p|]; try reflexivity.
  destruct p as [p|p|]; try reflexivity. destruct p as [p|p|]; try reflexivity. destruct p as [p|p|]; try reflexivity.
  exfalso. apply H. reflexivity.
Qed.

Lemma radix16_byte_hex u b : b < 256 -> radix16 255 (byte_hex u b) = Some b.
Proof.
  intros H. unfold radix16.
  assert (Hne : match byte_hex u b with 43 :: r => r | _ => byte_hex u b end = byte_hex u b).
  { unfold byte_hex. apply strip_plus_id. apply hex_digit_char_ascii. lia. }
  rewrite Hne. unfold byte_hex at 1. rewrite byte_hex_val by exact H. replace (b <=? 255) with true by lia. reflexivity.
Qed.
Lemma byte_hex_ascii u b : b < 256 -> ascii (byte_hex u b).
Proof. intros H c [Hc|[Hc|[]]]; subst; apply hex_digit_char_ascii; lia. Qed.
Lemma bytes_hex_ascii u bs : (forall b, In b bs -> b < 256) -> ascii (bytes_hex u bs).
Proof.
  induction bs as [|b bs IH]; intros H; [intros c []|]. unfold bytes_hex. cbn [flat_map]. apply ascii_app.
  - apply byte_hex_ascii. apply H. left. reflexivity.
  - apply IH. intros x Hx. apply H. right. exact Hx.
Qed.
Lemma bytes_hex_length u bs : length (bytes_hex u bs) = (2 * length bs)%nat.
Proof. induction bs as [|b bs IH]; [reflexivity|]. unfold bytes_hex in *. cbn [flat_map]. rewrite app_length, IH. cbn. lia. Qed.
Lemma bytes_hex_app u a b : bytes_hex u (a ++ b) = bytes_hex u a ++ bytes_hex u b.
Proof. unfold bytes_hex. apply flat_map_app. Qed.

(* --- ELF build ids --- *)
Lemma elf_loop_hex u : forall bs pre acc, (forall b, In b (pre ++ bs) -> b < 256) ->
  elf_loop (bytes_hex u (pre ++ bs)) (length pre) (length bs) acc = CElf (rev acc ++ bs).
Proof.
  induction bs as [|b bs IH]; intros pre acc H; cbn [elf_loop length].
  - rewrite app_nil_r. reflexivity.
  - set (s := bytes_hex u (pre ++ b :: bs)).
    assert (Ha : ascii s) by (apply bytes_hex_ascii; exact H).
    assert (Hl : blen s = 2 * N.of_nat (length pre) + 2 + 2 * N.of_nat (length bs)).
    { unfold blen, s. rewrite bytes_hex_length, app_length. cbn [length]. lia. }
    rewrite (sget_ascii s _ _ Ha) by lia.
    replace (N.to_nat (N.of_nat (2 * length pre + 2) - N.of_nat (2 * length pre))) with 2%nat by lia.
    replace (N.to_nat (N.of_nat (2 * length pre))) with (length (bytes_hex u pre)) by (rewrite bytes_hex_length; lia).
    unfold s. rewrite bytes_hex_app, skipn_app, skipn_all, Nat.sub_diag. cbn [skipn app].
    change (bytes_hex u (b :: bs)) with (byte_hex u b ++ bytes_hex u bs). unfold byte_hex at 1. cbn [app firstn].
    fold (byte_hex u b). rewrite radix16_byte_hex by (apply H; apply in_or_app; right; left; reflexivity).
    specialize (IH (pre ++ [b]) (b :: acc)). rewrite <- app_assoc in IH. cbn [app] in IH.
    rewrite app_length in IH. cbn [length] in IH. replace (length pre + 1)%nat with (S (length pre)) in IH by lia.
    replace (bytes_hex u pre ++ byte_hex u b ++ bytes_hex u bs) with (bytes_hex u (pre ++ b :: bs)) by (rewrite bytes_hex_app; reflexivity).
    rewrite IH by exact H. cbn [rev]. rewrite <- app_assoc. reflexivity.
Qed.

Lemma elf_from_str_hex u bs : (forall b, In b bs -> b < 256) -> elf_from_str (bytes_hex u bs) = CElf bs.
Proof.
  intros H. unfold elf_from_str.
  replace (N.to_nat (blen (bytes_hex u bs) / 2)) with (length bs) by (unfold blen; rewrite bytes_hex_length; lia).
  exact (elf_loop_hex u bs [] [] H).
Qed.

(* --- fixed-width and minimal-width hex numbers --- *)
Lemma hex_val_app a : forall b acc, hex_val (a ++ b) acc = match hex_val a acc with Some x => hex_val b x | None => None end.
Proof.
  induction a as [|c a IH]; intros b acc; cbn [app hex_val]; [reflexivity|].
  destruct (hex_digit c); [apply IH | reflexivity].
Qed.

Lemma hex_fixed_val u : forall k v acc, v < 16 ^ N.of_nat k -> hex_val (hex_fixed u k v) acc = Some (acc * 16 ^ N.of_nat k + v).
Proof.
  induction k as [|k IH]; intros v acc H.
  - cbn [hex_fixed hex_val]. cbn in H. f_equal. cbn. lia.
  - cbn [hex_fixed]. rewrite hex_val_app.
    replace (N.of_nat (S k)) with (N.succ (N.of_nat k)) in * by lia. rewrite N.pow_succ_r' in *.
    rewrite IH by lia. cbn [hex_val]. rewrite hex_digit_of_char by lia. f_equal. set (P := 16 ^ N.of_nat k) in *. lia.
Qed.
Lemma hex_fixed_length u : forall k v, length (hex_fixed u k v) = k.
Proof. induction k as [|k IH]; intros v; cbn [hex_fixed]; [reflexivity|]. rewrite app_length, IH. cbn. lia. Qed.
Lemma hex_fixed_ascii u : forall k v, ascii (hex_fixed u k v) /\ (forall c, In c (hex_fixed u k v) -> c <> 43).
Proof.
  induction k as [|k IH]; intros v; cbn [hex_fixed]; [split; intros c []|].
  destruct (IH (v / 16)) as [A1 A2]. split; intros c H; apply in_app_or in H; destruct H as [H|[H|[]]]; auto; subst; apply hex_digit_char_ascii; lia.
Qed.

Lemma strip_zeros_val : forall s, hex_val (strip_zeros s) 0 = hex_val s 0.
Proof.
  induction s as [|c s IH]; [reflexivity|]. cbn [strip_zeros].
  destruct (N.eq_dec c 48) as [->|Hc].
  - destruct s as [|d s']; [reflexivity|]. rewrite IH. cbn [hex_val]. reflexivity.
  - destruct c as [|p]; [reflexivity|]. do 6 (destruct p as [p|p|]; try reflexivity). exfalso. apply Hc. reflexivity.
Qed.
Lemma strip_zeros_sub : forall s c, In c (strip_zeros s) -> In c s.
Proof.
  induction s as [|x s IH]; intros c H; [exact H|]. cbn [strip_zeros] in H.
  destruct (N.eq_dec x 48) as [->|Hx].
  - destruct s as [|d s']; [exact H|]. right. apply IH. exact H.
  - assert (E : strip_zeros (x :: s) = x :: s).
    { cbn [strip_zeros]. destruct x as [|p]; [reflexivity|]. do 6 (destruct p as [p|p|]; try reflexivity). exfalso. apply Hx. reflexivity. }
    cbn [strip_zeros] in E. rewrite E in H. exact H.
Qed.
Lemma strip_zeros_length : forall s, s <> [] -> (1 <= length (strip_zeros s) <= length s)%nat.
Proof.
  induction s as [|x s IH]; intros H; [contradiction|]. cbn [strip_zeros].
  destruct (N.eq_dec x 48) as [->|Hx].
  - destruct s as [|d s']; [cbn; lia|]. specialize (IH ltac:(discriminate)). cbn [length] in *. lia.
  - assert (E : strip_zeros (x :: s) = x :: s).
    { cbn [strip_zeros]. destruct x as [|p]; [reflexivity|]. do 6 (destruct p as [p|p|]; try reflexivity). exfalso. apply Hx. reflexivity. }
    cbn [strip_zeros] in E. rewrite E. cbn. lia.
Qed.

Lemma radix16_plain m s v : s <> [] -> (forall c, In c s -> c <> 43) -> hex_val s 0 = Some v -> v <= m -> radix16 m s = Some v.
Proof.
  intros Hne Hp Hv Hm. unfold radix16. destruct s as [|x r]; [contradiction|].
  rewrite strip_plus_id by (apply Hp; left; reflexivity). rewrite Hv. replace (v <=? m) with true by lia. reflexivity.
Qed.

(* --- PE code ids --- *)
Lemma pe_roundtrip t z : t < 2 ^ 32 -> z < 2 ^ 32 -> pe_from_str (hex_fixed true 8 t ++ hex_min false z) = CPe t z.
Proof.
  intros Ht Hz. set (A := hex_fixed true 8 t). set (B := hex_min false z).
  assert (LA : length A = 8%nat) by apply hex_fixed_length.
  assert (LB : (1 <= length B <= 8)%nat).
  { unfold B, hex_min. pose proof (strip_zeros_length (hex_fixed false 8 z)) as H. rewrite hex_fixed_length in H. apply H.
    intros E. apply (f_equal (@length N)) in E. rewrite hex_fixed_length in E. discriminate. }
  destruct (hex_fixed_ascii true 8 t) as [AA AP]. destruct (hex_fixed_ascii false 8 z) as [BA0 BP0].
  assert (BA : ascii B) by (intros c Hc; apply BA0; apply strip_zeros_sub; exact Hc).
  assert (BP : forall c, In c B -> c <> 43) by (intros c Hc; apply BP0; apply strip_zeros_sub; exact Hc).
  assert (Hs : ascii (A ++ B)) by (apply ascii_app; assumption).
  assert (Hl : blen (A ++ B) = 8 + N.of_nat (length B)) by (unfold blen; rewrite app_length, LA; lia).
  unfold pe_from_str. replace ((blen (A ++ B) <? 9) || (16 <? blen (A ++ B))) with false by lia.
  rewrite (sget_ascii _ 0 8 Hs) by lia. rewrite (sget_ascii _ 8 (blen (A ++ B)) Hs) by lia.
  replace (N.to_nat (8 - 0)) with (length A) by lia. replace (N.to_nat 0) with 0%nat by reflexivity. cbn [skipn].
  rewrite firstn_app, firstn_all, Nat.sub_diag. cbn [firstn]. rewrite app_nil_r.
  replace (N.to_nat 8) with (length A) by lia. rewrite skipn_app, skipn_all, Nat.sub_diag. cbn [skipn app].
  replace (N.to_nat (blen (A ++ B) - 8)) with (length B) by lia. rewrite firstn_all.
  assert (VA : hex_val A 0 = Some t) by (unfold A; rewrite hex_fixed_val by (cbn; lia); f_equal; lia).
  assert (VB : hex_val B 0 = Some z) by (unfold B, hex_min; rewrite strip_zeros_val, hex_fixed_val by (cbn; lia); f_equal; lia).
  rewrite (radix16_plain _ A t) ; [| intros E; rewrite E in LA; discriminate | exact AP | exact VA | lia].
  rewrite (radix16_plain _ B z) ; [| intros E; rewrite E in LB; cbn in LB; lia | exact BP | exact VB | lia].
  reflexivity.
Qed.

(* --- the dispatch on length and letter case --- *)
Lemma upper_hex_digit d : d < 16 -> is_upper_hex (hex_digit_char true d) = true.
Proof. intros H. unfold is_upper_hex, hex_digit_char. destruct (d <? 10) eqn:E; lia. Qed.
Lemma lower_letter_not_upper d : d < 16 -> (d <? 10) = false -> is_upper_hex (hex_digit_char false d) = false.
Proof. intros H E. unfold is_upper_hex, hex_digit_char. rewrite E. lia. Qed.

Lemma bytes_hex_upper bs : (forall b, In b bs -> b < 256) -> forallb is_upper_hex (bytes_hex true bs) = true.
Proof.
  induction bs as [|b bs IH]; intros H; [reflexivity|]. unfold bytes_hex in *. cbn [flat_map]. rewrite forallb_app.
  rewrite IH by (intros x Hx; apply H; right; exact Hx). unfold byte_hex. cbn [forallb].
  assert (b < 256) by (apply H; left; reflexivity). rewrite !upper_hex_digit by lia. reflexivity.
Qed.
Lemma bytes_hex_lower_letter bs : (forall b, In b bs -> b < 256) -> forallb no_letter bs = false -> forallb is_upper_hex (bytes_hex false bs) = false.
Proof.
  induction bs as [|b bs IH]; intros H Hn; [discriminate|]. unfold bytes_hex in *. cbn [flat_map forallb] in *. rewrite forallb_app.
  assert (Hb : b < 256) by (apply H; left; reflexivity).
  destruct (no_letter b) eqn:E.
  - cbn [andb] in Hn. rewrite (IH (fun x Hx => H x (or_intror Hx)) Hn). apply andb_false_r.
  - unfold no_letter in E. unfold byte_hex. cbn [forallb].
    destruct (b / 16 <? 10) eqn:E1.
    + assert (E2 : (b mod 16 <? 10) = false) by lia. rewrite (lower_letter_not_upper (b mod 16)) by lia. rewrite !andb_false_r. reflexivity.
    + rewrite (lower_letter_not_upper (b / 16)) by lia. reflexivity.
Qed.

Definition cid_wf (c : cid) : Prop :=
  match c with
  | IdPe t z => t < 2 ^ 32 /\ z < 2 ^ 32
  | IdUuid b => length b = 16%nat /\ forall x, In x b -> x < 256
  | IdElf b => forall x, In x b -> x < 256
  end.

Theorem code_id_roundtrip c : cid_wf c -> cid_unambiguous c = true -> cid_reparse c = Some c.
Proof.
  intros W U. unfold cid_reparse, code_id_from_str. destruct c as [t z | b | b]; cbn [cid_to_str cid_wf cid_unambiguous] in *.
  - destruct W as [Ht Hz].
    assert (L : blen (hex_fixed true 8 t ++ hex_min false z) <= 16).
    { unfold blen. rewrite app_length, hex_fixed_length. unfold hex_min.
      pose proof (strip_zeros_length (hex_fixed false 8 z)) as H. rewrite hex_fixed_length in H.
      assert (hex_fixed false 8 z <> []) by (intros E; apply (f_equal (@length N)) in E; rewrite hex_fixed_length in E; discriminate). specialize (H H0). lia. }
    replace (blen (hex_fixed true 8 t ++ hex_min false z) <=? 17) with true by lia. rewrite pe_roundtrip by assumption. reflexivity.
  - destruct W as [Wl Wb].
    assert (L : blen (bytes_hex true b) = 32) by (unfold blen; rewrite bytes_hex_length, Wl; reflexivity).
    rewrite L. replace (32 <=? 17) with false by reflexivity. replace (32 =? 32) with true by reflexivity.
    rewrite bytes_hex_upper by exact Wb. cbn [andb cid_of_parsed]. rewrite elf_from_str_hex by exact Wb. reflexivity.
  - apply andb_prop in U. destruct U as [U1 U2].
    assert (L : blen (bytes_hex false b) = 2 * N.of_nat (length b)) by (unfold blen; rewrite bytes_hex_length; lia).
    replace (blen (bytes_hex false b) <=? 17) with false by lia.
    destruct ((blen (bytes_hex false b) =? 32) && forallb is_upper_hex (bytes_hex false b)) eqn:E.
    + exfalso. apply andb_prop in E. destruct E as [E1 E2].
      assert (N.of_nat (length b) =? 16 = true) by lia. rewrite H in U2. cbn [andb] in U2.
      destruct (forallb no_letter b) eqn:En; [discriminate|]. rewrite (bytes_hex_lower_letter b W En) in E2. discriminate.
    + rewrite elf_from_str_hex by exact W. reflexivity.
Qed.
