(* Sample conservation of the converter bookkeeping with --reuse-threads (Model/ConverterReuse.v): recycling moves profile handles
   between live entries and pools, never samples; every accepted sample sits in exactly one buffer and all buffers are flushed. *)
From SV Require Import Model.Converter Model.ConverterReuse Proofs.ConverterProofs.
From Coq Require Import Permutation Lia.
Open Scope N_scope.

Section RProofs.
  Variable origin : N.

  Definition rbufs (l : list (N * rproc)) : list (nat * N) := concat (map (fun kp => rp_samples (snd kp)) l).
  Definition rtotal (s : rstate) : list (nat * N) := concat (r_retired s) ++ rbufs (r_live s).

  Lemma r_output_is_total s : r_output_samples s = rtotal s.
  Proof. unfold r_output_samples, r_all_buffers, rtotal, rbufs. rewrite concat_app, concat_filter_nonempty. reflexivity. Qed.

  Lemma rbufs_app a b : rbufs (a ++ b) = rbufs a ++ rbufs b.
  Proof. unfold rbufs. rewrite map_app, concat_app. reflexivity. Qed.
  Lemma rbufs_cons k p l : rbufs ((k, p) :: l) = rp_samples p ++ rbufs l.
  Proof. reflexivity. Qed.

  Lemma rbufs_aset_some pid p p' l : alookup pid l = Some p ->
    exists a b, rbufs l = a ++ rp_samples p ++ b /\ rbufs (aset pid p' l) = a ++ rp_samples p' ++ b /\ rbufs (aremove pid l) = a ++ b.
  Proof.
    intros H. destruct (alookup_split pid l p H) as [l1 [k' [l2 [H1 [_ [H3 [H4 _]]]]]]].
    exists (rbufs l1), (rbufs l2). rewrite H3, H4. subst l. rewrite !rbufs_app, !rbufs_cons. auto.
  Qed.
  Lemma rbufs_aset_none pid p' l : alookup pid l = None -> rbufs (aset pid p' l) = rbufs l ++ rp_samples p'.
  Proof. intros H. rewrite aset_none by exact H. rewrite rbufs_app, rbufs_cons. cbn. rewrite app_nil_r. reflexivity. Qed.

  Lemma r_add_process_frame s nm pid st s' h : r_add_process s nm pid st = (s', h) ->
    r_live s' = r_live s /\ r_retired s' = r_retired s /\ r_time s' = r_time s /\ r_prec s' = r_prec s.
  Proof. unfold r_add_process. destruct (unique (r_upids s) pid). intros H; inversion H; subst; cbn; auto. Qed.
  Lemma r_add_thread_frame s ph tid st m s' h : r_add_thread s ph tid st m = (s', h) ->
    r_live s' = r_live s /\ r_retired s' = r_retired s /\ r_time s' = r_time s /\ r_prec s' = r_prec s.
  Proof. unfold r_add_thread. destruct (unique (r_utids s) tid). intros H; inversion H; subst; cbn; auto. Qed.

  Lemma rtotal_eq s s' : r_live s' = r_live s -> r_retired s' = r_retired s -> rtotal s' = rtotal s.
  Proof. intros H1 H2. unfold rtotal. rewrite H1, H2. reflexivity. Qed.

  Lemma r_put_same s pid p p' : alookup pid (r_live s) = Some p -> rp_samples p' = rp_samples p ->
    rtotal (r_put s pid p') = rtotal s /\ alookup pid (r_live (r_put s pid p')) = Some p' /\ r_time (r_put s pid p') = r_time s.
  Proof.
    intros H Hs. unfold r_put, r_with_live, rtotal. cbn [r_live r_retired r_time].
    destruct (rbufs_aset_some pid p p' _ H) as [a [b [H1 [H2 _]]]]. rewrite H1, H2, Hs. split; [reflexivity|]. split; [apply alookup_aset_same | reflexivity].
  Qed.
  Lemma r_put_new s pid p' : alookup pid (r_live s) = None -> rp_samples p' = [] ->
    rtotal (r_put s pid p') = rtotal s /\ alookup pid (r_live (r_put s pid p')) = Some p' /\ r_time (r_put s pid p') = r_time s.
  Proof.
    intros H Hs. unfold r_put, r_with_live, rtotal. cbn [r_live r_retired r_time].
    rewrite rbufs_aset_none by exact H. rewrite Hs, app_nil_r. split; [reflexivity|]. split; [apply alookup_aset_same | reflexivity].
  Qed.
  Lemma r_put_append s pid p p' x : alookup pid (r_live s) = Some p -> rp_samples p' = rp_samples p ++ x ->
    Permutation (rtotal (r_put s pid p')) (rtotal s ++ x).
  Proof.
    intros H Hs. unfold r_put, r_with_live, rtotal. cbn [r_live r_retired].
    destruct (rbufs_aset_some pid p p' _ H) as [a [b [H1 [H2 _]]]]. rewrite H1, H2, Hs.
    rewrite <- !app_assoc. apply Permutation_app_head. apply Permutation_app_head. apply Permutation_app_head. apply Permutation_app_comm.
  Qed.

  Lemma r_get_by_pid_spec s pid s' p : r_get_by_pid s pid = (s', p) ->
    alookup pid (r_live s') = Some p /\ rtotal s' = rtotal s /\ r_time s' = r_time s.
  Proof.
    unfold r_get_by_pid. destruct (alookup pid (r_live s)) as [p0|] eqn:E.
    - intros H; inversion H; subst. auto.
    - destruct (r_add_process s (NPid pid) pid 0) as [s1 ph] eqn:E1. destruct (r_add_thread s1 ph pid 0 true) as [s2 th] eqn:E2.
      intros H; inversion H; subst. clear H.
      destruct (r_add_process_frame _ _ _ _ _ _ E1) as [A1 [A2 [A3 _]]]. destruct (r_add_thread_frame _ _ _ _ _ _ _ E2) as [B1 [B2 [B3 _]]].
      assert (N2 : alookup pid (r_live s2) = None) by (rewrite B1, A1; exact E).
      destruct (r_put_new s2 pid (mkRP ph None (mkLT th None None) [] [] []) N2 eq_refl) as [T1 [T2 T3]].
      split; [exact T2|]. split; [rewrite T1; rewrite (rtotal_eq s1 s2 B1 B2); apply rtotal_eq; assumption | congruence].
  Qed.

  Lemma r_get_new_process_total s pid name st : rtotal (r_get_new_process s pid name st) = rtotal s.
  Proof.
    unfold r_get_new_process. destruct (alookup pid (r_live s)) as [p|] eqn:E.
    - destruct (lt_last (rp_main p)); [reflexivity|]. apply rtotal_eq; reflexivity.
    - destruct (match name with Some n => match recycle_by_name pr_handle n (r_prec s) with Some (d, pl) => Some (n, d, pl) | None => None end | None => None end)
        as [[[n d] pl]|].
      + assert (N1 : alookup pid (r_live (r_with_prec s pl)) = None) by exact E.
        destruct (r_put_new _ pid (mkRP (pr_handle d) (Some n) (mkLT (pr_main d) (Some n) None) [] [] (pr_trec d)) N1 eq_refl) as [T1 _].
        rewrite T1. apply rtotal_eq; reflexivity.
      + destruct (r_add_process s (oname pid name) pid st) as [s1 ph] eqn:E1. destruct (r_add_thread s1 ph pid st true) as [s2 th] eqn:E2.
        destruct (r_add_process_frame _ _ _ _ _ _ E1) as [A1 [A2 _]]. destruct (r_add_thread_frame _ _ _ _ _ _ _ E2) as [B1 [B2 _]].
        set (s3 := match name with Some n => r_map_thread s2 th (t_set_name n) | None => s2 end).
        assert (L3 : r_live s3 = r_live s2 /\ r_retired s3 = r_retired s2) by (unfold s3; destruct name; cbn; auto).
        destruct L3 as [L3 R3].
        assert (N3 : alookup pid (r_live s3) = None) by (rewrite L3, B1, A1; exact E).
        destruct (r_put_new s3 pid (mkRP ph name (mkLT th name None) [] [] []) N3 eq_refl) as [T1 _].
        rewrite T1. rewrite (rtotal_eq s2 s3 L3 R3), (rtotal_eq s1 s2 B1 B2). apply rtotal_eq; assumption.
  Qed.

  Lemma r_get_thread_by_tid_spec s pid p tid s' p' t : alookup pid (r_live s) = Some p ->
    r_get_thread_by_tid s pid p tid = (s', p', t) ->
    alookup pid (r_live s') = Some p' /\ rtotal s' = rtotal s /\ rp_samples p' = rp_samples p /\ r_time s' = r_time s.
  Proof.
    intros Hp. unfold r_get_thread_by_tid. destruct (tid =? pid).
    - intros H; inversion H; subst. auto.
    - destruct (alookup tid (rp_threads p)) as [t0|].
      + intros H; inversion H; subst. auto.
      + destruct (r_add_thread s (rp_handle p) tid 0 false) as [s1 th] eqn:E1. intros H; inversion H; subst. clear H.
        destruct (r_add_thread_frame _ _ _ _ _ _ _ E1) as [B1 [B2 [B3 _]]].
        assert (Hp1 : alookup pid (r_live s1) = Some p) by (rewrite B1; exact Hp).
        destruct (r_put_same s1 pid p (rp_with_threads p (aset tid (mkLT th None None) (rp_threads p))) Hp1 eq_refl) as [T1 [T2 T3]].
        split; [exact T2|]. split; [rewrite T1; apply rtotal_eq; assumption|]. split; [reflexivity | congruence].
  Qed.

  Lemma r_get_new_thread_total s pid p tid name st : alookup pid (r_live s) = Some p -> rtotal (r_get_new_thread s pid p tid name st) = rtotal s.
  Proof.
    intros Hp. unfold r_get_new_thread. destruct (tid =? pid); [reflexivity|].
    destruct (alookup tid (rp_threads p)) as [t0|].
    - destruct (lt_last t0); [reflexivity | apply rtotal_eq; reflexivity].
    - destruct (match name with Some n => match recycle_by_name thread_key n (rp_trec p) with Some (h, pl) => Some (n, h, pl) | None => None end | None => None end)
        as [[[n h] pl]|].
      + destruct (r_put_same s pid p (rp_with_trec (rp_with_threads p (aset tid (mkLT h (Some n) None) (rp_threads p))) pl) Hp eq_refl) as [T1 _]. exact T1.
      + destruct (r_add_thread s (rp_handle p) tid st false) as [s1 th] eqn:E1.
        destruct (r_add_thread_frame _ _ _ _ _ _ _ E1) as [B1 [B2 _]].
        set (s2 := match name with Some n => r_map_thread s1 th (t_set_name n) | None => s1 end).
        assert (L2 : r_live s2 = r_live s1 /\ r_retired s2 = r_retired s1) by (unfold s2; destruct name; cbn; auto).
        destruct L2 as [L2 R2].
        assert (Hp2 : alookup pid (r_live s2) = Some p) by (rewrite L2, B1; exact Hp).
        destruct (r_put_same s2 pid p (rp_with_threads p (aset tid (mkLT th name None) (rp_threads p))) Hp2 eq_refl) as [T1 _].
        rewrite T1. rewrite (rtotal_eq s1 s2 L2 R2). apply rtotal_eq; assumption.
  Qed.

  Lemma r_remove_thread_total s pid p tid e : alookup pid (r_live s) = Some p -> rtotal (r_remove_thread s pid p tid e) = rtotal s.
  Proof.
    intros Hp. unfold r_remove_thread. destruct (alookup tid (rp_threads p)) as [t0|]; [|reflexivity].
    assert (Hp1 : alookup pid (r_live (r_map_thread s (lt_handle t0) (t_set_end e))) = Some p) by (cbn; exact Hp).
    match goal with |- rtotal (r_put ?s0 pid ?p') = _ => destruct (r_put_same s0 pid p p' Hp1 eq_refl) as [T1 _]; rewrite T1 end.
    apply rtotal_eq; reflexivity.
  Qed.

  Lemma r_fold_map_thread_frame (l : list (N * lthread)) e : forall s,
    let s' := fold_left (fun x kt => r_map_thread x (lt_handle (snd kt)) (t_set_end e)) l s in
    r_live s' = r_live s /\ r_retired s' = r_retired s.
  Proof. induction l as [|x l IH]; intros s; cbn [fold_left]; [auto|]. destruct (IH (r_map_thread s (lt_handle (snd x)) (t_set_end e))) as [H1 H2]. cbn in *. auto. Qed.

  Lemma r_remove_process_total s pid e : Permutation (rtotal (r_remove_process s pid e)) (rtotal s).
  Proof.
    unfold r_remove_process. destruct (alookup pid (r_live s)) as [p|] eqn:E; [|reflexivity].
    set (s1 := fold_left _ (rp_threads p) s).
    destruct (r_fold_map_thread_frame (rp_threads p) e s) as [F1 F2]. fold s1 in F1, F2.
    unfold rtotal. cbn [r_live r_retired r_map_process r_map_thread]. rewrite F1, F2.
    destruct (rbufs_aset_some pid p p _ E) as [a [b [H1 [_ H3]]]]. rewrite H1, H3.
    destruct (rp_samples p) as [|x sm] eqn:Es.
    - cbn. reflexivity.
    - rewrite concat_app. cbn [concat]. rewrite app_nil_r, <- app_assoc. apply Permutation_app_head.
      rewrite !app_assoc. apply Permutation_app_tail. apply Permutation_app_comm.
  Qed.

  Lemma r_rename_process_total s pid p name : alookup pid (r_live s) = Some p -> rtotal (r_rename_process s pid p name) = rtotal s.
  Proof.
    intros Hp. unfold r_rename_process. destruct (recycle_by_name pr_handle name (r_prec s)) as [[d pl]|].
    - match goal with |- rtotal (r_put ?s0 pid ?p') = _ =>
        assert (Hp1 : alookup pid (r_live s0) = Some p) by (cbn; exact Hp);
        destruct (r_put_same s0 pid p p' Hp1 eq_refl) as [T1 _]; rewrite T1 end.
      apply rtotal_eq; reflexivity.
    - match goal with |- rtotal (r_put ?s0 pid ?p') = _ =>
        assert (Hp1 : alookup pid (r_live s0) = Some p) by (cbn; exact Hp);
        destruct (r_put_same s0 pid p p' Hp1 eq_refl) as [T1 _]; rewrite T1 end.
      apply rtotal_eq; reflexivity.
  Qed.

  Lemma r_rename_thread_total s pid p tid th name : alookup pid (r_live s) = Some p -> rtotal (r_rename_thread s pid p tid th name) = rtotal s.
  Proof.
    intros Hp. unfold r_rename_thread. destruct (recycle_by_name thread_key name (rp_trec p)) as [[h pl]|]; [|reflexivity].
    match goal with |- rtotal (r_put s pid ?p') = _ => destruct (r_put_same s pid p p' Hp eq_refl) as [T1 _]; exact T1 end.
  Qed.

  (* ---- one record ---- *)
  Lemma rstep_total s r : Permutation (rtotal (rstep origin s r)) (rtotal s ++ r_accepted_step origin s r).
  Proof.
    destruct r as [pid ppid tid ptid ts | pid tid ts | pid tid name ex ts | pid tid ts | pid tid | pid tid]; cbn [rstep r_accepted_step]; rewrite ?app_nil_r.
    - (* fork *)
      destruct (r_get_by_pid s ppid) as [s1 parent] eqn:E1. destruct (r_get_by_pid_spec _ _ _ _ E1) as [A1 [A2 _]].
      destruct (negb (pid =? ppid)).
      + rewrite r_get_new_process_total, A2. reflexivity.
      + destruct (r_get_thread_by_tid s1 ppid parent ptid) as [[s2 parent'] pt] eqn:E2.
        destruct (r_get_thread_by_tid_spec _ _ _ _ _ _ _ A1 E2) as [B1 [B2 _]].
        rewrite r_get_new_thread_total by exact B1. rewrite B2, A2. reflexivity.
    - (* exit *)
      destruct (tid =? pid); [apply r_remove_process_total|].
      destruct (r_get_by_pid s pid) as [s1 p] eqn:E1. destruct (r_get_by_pid_spec _ _ _ _ E1) as [A1 [A2 _]].
      rewrite r_remove_thread_total by exact A1. rewrite A2. reflexivity.
    - (* comm *)
      destruct ex.
      + destruct (tid =? pid).
        * rewrite r_get_new_process_total. apply r_remove_process_total.
        * destruct (r_get_by_pid s pid) as [s1 p] eqn:E1. destruct (r_get_by_pid_spec _ _ _ _ E1) as [A1 [A2 _]].
          pose proof (r_remove_thread_total s1 pid p tid (r_rec_time origin s ts) A1) as R.
          destruct (alookup pid (r_live (r_remove_thread s1 pid p tid (r_rec_time origin s ts)))) as [p2|] eqn:E2.
          -- rewrite r_get_new_thread_total by exact E2. rewrite R, A2. reflexivity.
          -- rewrite R, A2. reflexivity.
      + destruct (tid =? pid).
        * destruct (alookup pid (r_live s)) as [p|] eqn:E.
          -- destruct (match rp_name p with Some n => n =? name | None => false end); [reflexivity|].
             rewrite r_rename_process_total by exact E. reflexivity.
          -- rewrite r_get_new_process_total. reflexivity.
        * destruct (r_get_by_pid s pid) as [s1 p] eqn:E1. destruct (r_get_by_pid_spec _ _ _ _ E1) as [A1 [A2 _]].
          destruct (alookup tid (rp_threads p)) as [th|].
          -- destruct (match lt_name th with Some n => n =? name | None => false end); [rewrite A2; reflexivity|].
             rewrite r_rename_thread_total by exact A1. rewrite A2. reflexivity.
          -- rewrite r_get_new_thread_total by exact A1. rewrite A2. reflexivity.
    - (* sample *)
      destruct (tid =? 0); [rewrite app_nil_r; reflexivity|].
      set (s0 := mkR (r_procs s) (r_threads s) (r_upids s) (r_utids s) (r_live s) (r_retired s) ts (r_prec s)).
      assert (T0 : rtotal s0 = rtotal s) by reflexivity.
      destruct (r_get_by_pid s0 pid) as [s1 p] eqn:E1. destruct (r_get_by_pid_spec _ _ _ _ E1) as [A1 [A2 _]].
      destruct (r_get_thread_by_tid s1 pid p tid) as [[s2 p2] t] eqn:E2.
      destruct (r_get_thread_by_tid_spec _ _ _ _ _ _ _ A1 E2) as [B1 [B2 [B3 _]]].
      destruct (match lt_last t with Some l => l =? ts | None => false end).
      + rewrite app_nil_r, B2, A2, T0. reflexivity.
      + match goal with |- Permutation (rtotal (r_put s2 pid ?p')) _ =>
          pose proof (r_put_append s2 pid p2 p' [(lt_handle t, conv origin ts)] B1) as PA end.
        rewrite PA by (cbn [rp_samples]; destruct (tid =? pid); reflexivity).
        rewrite B2, A2, T0. reflexivity.
    - (* mmap *)
      destruct (r_get_by_pid s pid) as [s1 p] eqn:E1. destruct (r_get_by_pid_spec _ _ _ _ E1) as [A1 [A2 _]].
      destruct (r_time s =? origin); [rewrite A2; reflexivity|].
      destruct (r_get_thread_by_tid s1 pid p tid) as [[s2 p2] t] eqn:E2.
      destruct (r_get_thread_by_tid_spec _ _ _ _ _ _ _ A1 E2) as [_ [B2 _]]. cbn [fst]. rewrite B2, A2. reflexivity.
    - (* context switch *)
      destruct (tid =? 0); [reflexivity|].
      destruct (r_get_by_pid s pid) as [s1 p] eqn:E1. destruct (r_get_by_pid_spec _ _ _ _ E1) as [A1 [A2 _]].
      destruct (r_get_thread_by_tid s1 pid p tid) as [[s2 p2] t] eqn:E2.
      destruct (r_get_thread_by_tid_spec _ _ _ _ _ _ _ A1 E2) as [_ [B2 _]]. cbn [fst]. rewrite B2, A2. reflexivity.
  Qed.

  Lemma rrun_total rs : forall s, Permutation (rtotal (fold_left (rstep origin) rs s)) (rtotal s ++ r_accepted origin rs s).
  Proof.
    induction rs as [|r rs IH]; intros s; cbn [fold_left r_accepted]; [rewrite app_nil_r; reflexivity|].
    rewrite IH. rewrite app_assoc. apply Permutation_app_tail. apply rstep_total.
  Qed.

  Theorem r_conservation rs : Permutation (r_output_samples (rrun origin rs)) (r_accepted origin rs (rinit origin)).
  Proof. rewrite r_output_is_total. unfold rrun. rewrite rrun_total. reflexivity. Qed.

  (* every accepted sample comes from a SAMPLE record of a non-idle thread and carries its time relative to the origin *)
  Lemma r_accepted_from_records rs : forall s h t, In (h, t) (r_accepted origin rs s) ->
    exists pid tid ts, In (RSample pid tid ts) rs /\ tid <> 0 /\ t = ts - origin.
  Proof.
    induction rs as [|r rs IH]; intros s h t H; [destruct H|]. cbn [r_accepted] in H. apply in_app_or in H. destruct H as [H|H].
    - destruct r as [| | |pid tid ts| |]; cbn [r_accepted_step] in H; try destruct H.
      destruct (tid =? 0) eqn:E0; [destruct H|].
      destruct (r_get_by_pid _ pid) as [s1 p]. destruct (r_get_thread_by_tid s1 pid p tid) as [[s2 p2] th].
      destruct (match lt_last th with Some l => l =? ts | None => false end); [destruct H|].
      destruct H as [H|[]]. inversion H; subst. exists pid, tid, ts. split; [left; reflexivity|]. split; [apply N.eqb_neq; exact E0 | reflexivity].
    - destruct (IH _ _ _ H) as [pid [tid [ts [H1 H2]]]]. exists pid, tid, ts. split; [right; exact H1 | exact H2].
  Qed.
End RProofs.
