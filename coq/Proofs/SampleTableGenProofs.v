(* The functions tools/xlate_st.py regenerates from fxprof-processed-profile/src/sample_table.rs on every run (new, add_sample,
   modify_last_sample over the struct's four parallel columns) and Model/SampleTable.v's entry-list model (t_add, t_modify_last) - the functions
   the C04 theorems are stated over - are the same thing: read row by row (`abs`), the columns after a translated call are the entries after the
   model's step, a translated call panics (None) exactly when the model's does, and the columns keep equal lengths. *)
From SV Require Import Model.SampleTable Generated.SampleTableGen.
From Coq Require Import Lia Arith.
Open Scope N_scope.

Fixpoint rows (ws : list Z) (ts ss cs : list N) : list entry :=
  match ws, ts, ss, cs with
  | w :: ws', t :: ts', s :: ss', c :: cs' => mkEntry t s c w :: rows ws' ts' ss' cs'
  | _, _, _, _ => []
  end.

Definition abs (g : gtable) : table :=
  mkTable (rows (g_weights g) (g_times g) (g_stacks g) (g_cpus g)) (g_sorted g) (g_last g).

Definition wf (g : gtable) : Prop :=
  length (g_weights g) = length (g_times g) /\ length (g_times g) = length (g_stacks g) /\ length (g_stacks g) = length (g_cpus g).

Lemma abs_new : abs g_new = table_init /\ wf g_new.
Proof. split; [reflexivity|repeat split]. Qed.

Lemma rows_app ws : forall ts ss cs w t s c,
  length ws = length ts -> length ts = length ss -> length ss = length cs ->
  rows (ws ++ [w]) (ts ++ [t]) (ss ++ [s]) (cs ++ [c]) = rows ws ts ss cs ++ [mkEntry t s c w].
Proof.
  induction ws as [|w0 ws IH]; intros ts ss cs w t s c H1 H2 H3;
    destruct ts as [|t0 ts]; destruct ss as [|s0 ss]; destruct cs as [|c0 cs]; cbn [length] in *; try discriminate.
  - reflexivity.
  - cbn [app rows]. rewrite IH by lia. reflexivity.
Qed.

Theorem g_add_sample_abs g t s c w :
  wf g -> abs (g_add_sample g t s c w) = t_add (abs g) (mkEntry t s c w) /\ wf (g_add_sample g t s c w).
Proof.
  intros (H1 & H2 & H3). split.
  - unfold abs, g_add_sample, t_add. cbn [g_weights g_times g_stacks g_cpus g_sorted g_last ents sorted_flag last_ts e_t].
    rewrite rows_app by assumption. reflexivity.
  - unfold wf, g_add_sample. cbn [g_weights g_times g_stacks g_cpus]. rewrite !app_length. cbn [length]. lia.
Qed.

(* ---- modify_last_sample ---- *)
Lemma upd_last_none {A} (f : A -> A) l : upd_last f l = None <-> l = [].
Proof.
  induction l as [|x l IH]; [split; reflexivity|].
  split; [|discriminate]. cbn [upd_last]. destruct l as [|y l]; [discriminate|]. intros H.
  assert (E : upd_last f (y :: l) = None) by (destruct (upd_last f (y :: l)); [discriminate|reflexivity]).
  apply IH in E. discriminate.
Qed.

Lemma upd_last_length {A} (f : A -> A) l l' : upd_last f l = Some l' -> length l' = length l.
Proof.
  revert l'. induction l as [|x l IH]; intros l' H; [discriminate|].
  cbn [upd_last] in H. destruct l as [|y l].
  - inversion H. reflexivity.
  - destruct (upd_last f (y :: l)) as [r|] eqn:E; [|discriminate]. inversion H. cbn [length]. rewrite (IH r eq_refl). reflexivity.
Qed.

Lemma upd_last_cons2 {A} (f : A -> A) (x y : A) l :
  upd_last f (x :: y :: l) = match upd_last f (y :: l) with Some r => Some (x :: r) | None => None end.
Proof. reflexivity. Qed.

Lemma rows_modify ws : forall ts ss cs ws' ts' t w,
  length ws = length ts -> length ts = length ss -> length ss = length cs ->
  upd_last (fun x => (x + w)%Z) ws = Some ws' -> upd_last (fun _ => t) ts = Some ts' ->
  rows ws' ts' ss cs = modify_last (rows ws ts ss cs) t w.
Proof.
  induction ws as [|w0 ws IH]; intros ts ss cs ws' ts' t w H1 H2 H3 Hw Ht; [discriminate|].
  destruct ts as [|t0 ts]; destruct ss as [|s0 ss]; destruct cs as [|c0 cs]; cbn [length] in *; try discriminate.
  destruct ws as [|w1 ws]; destruct ts as [|t1 ts]; cbn [length] in *; try discriminate.
  - destruct ss; destruct cs; cbn [length] in *; try discriminate.
    cbn in Hw, Ht. inversion Hw. inversion Ht. reflexivity.
  - destruct ss as [|s1 ss]; destruct cs as [|c1 cs]; cbn [length] in *; try discriminate.
    rewrite upd_last_cons2 in Hw. rewrite upd_last_cons2 in Ht.
    destruct (upd_last (fun x => (x + w)%Z) (w1 :: ws)) as [rw|] eqn:Ew; [|discriminate].
    destruct (upd_last (fun _ => t) (t1 :: ts)) as [rt|] eqn:Et; [|discriminate].
    assert (Hw' : ws' = w0 :: rw) by (inversion Hw; reflexivity).
    assert (Ht' : ts' = t0 :: rt) by (inversion Ht; reflexivity).
    subst ws' ts'.
    change (rows (w0 :: rw) (t0 :: rt) (s0 :: s1 :: ss) (c0 :: c1 :: cs)) with (mkEntry t0 s0 c0 w0 :: rows rw rt (s1 :: ss) (c1 :: cs)).
    rewrite (IH (t1 :: ts) (s1 :: ss) (c1 :: cs) rw rt t w) by (cbn [length]; try lia; assumption).
    reflexivity.
Qed.

(* the timestamp of the second-last row, as the source reads it after the update (the update only touches the last one) *)
Lemma second_last_rows ws : forall ts ss cs ts' t,
  length ws = length ts -> length ts = length ss -> length ss = length cs ->
  upd_last (fun _ => t) ts = Some ts' ->
  second_last_t (rows ws ts ss cs) = (if Nat.leb 2 (length ts') then nth_error ts' (length ts' - 2) else None).
Proof.
  induction ws as [|w0 ws IH]; intros ts ss cs ts' t H1 H2 H3 Ht.
  - destruct ts; [discriminate|cbn [length] in H1; discriminate].
  - destruct ts as [|t0 ts]; destruct ss as [|s0 ss]; destruct cs as [|c0 cs]; cbn [length] in *; try discriminate.
    destruct ws as [|w1 ws]; destruct ts as [|t1 ts]; cbn [length] in *; try discriminate.
    + destruct ss; destruct cs; cbn [length] in *; try discriminate. cbn in Ht. inversion Ht. reflexivity.
    + destruct ss as [|s1 ss]; destruct cs as [|c1 cs]; cbn [length] in *; try discriminate.
      rewrite upd_last_cons2 in Ht.
      destruct (upd_last (fun _ => t) (t1 :: ts)) as [rt|] eqn:Et; [|discriminate].
      assert (Ht' : ts' = t0 :: rt) by (inversion Ht; reflexivity). subst ts'.
      pose proof (upd_last_length _ _ _ Et) as Hl. cbn [length] in Hl.
      pose proof (IH (t1 :: ts) (s1 :: ss) (c1 :: cs) rt t) as IH'. cbn [length] in IH'.
      specialize (IH' ltac:(lia) ltac:(lia) ltac:(lia) Et).
      change (rows (w0 :: w1 :: ws) (t0 :: t1 :: ts) (s0 :: s1 :: ss) (c0 :: c1 :: cs))
        with (mkEntry t0 s0 c0 w0 :: rows (w1 :: ws) (t1 :: ts) (s1 :: ss) (c1 :: cs)).
      destruct ws as [|w2 ws]; destruct ts as [|t2 ts]; cbn [length] in *; try discriminate.
      * destruct ss; destruct cs; cbn [length] in *; try discriminate.
        cbn in Et. inversion Et. subst rt. reflexivity.
      * destruct ss as [|s2 ss]; destruct cs as [|c2 cs]; cbn [length] in *; try discriminate.
        destruct rt as [|r0 rt]; [cbn [length] in Hl; discriminate|].
        destruct rt as [|r1 rt]; [cbn [length] in Hl; discriminate|].
        cbn [length] in *.
        change (rows (w1 :: w2 :: ws) (t1 :: t2 :: ts) (s1 :: s2 :: ss) (c1 :: c2 :: cs))
          with (mkEntry t1 s1 c1 w1 :: rows (w2 :: ws) (t2 :: ts) (s2 :: ss) (c2 :: cs)) in *.
        cbn [second_last_t] in *.
        destruct (rows (w2 :: ws) (t2 :: ts) (s2 :: ss) (c2 :: cs)) eqn:ER; [cbn in ER; discriminate|].
        rewrite IH'. replace (Nat.leb 2 (S (S (length rt)))) with true by reflexivity.
        replace (Nat.leb 2 (S (S (S (length rt))))) with true by reflexivity.
        replace (S (S (S (length rt))) - 2)%nat with (S (S (S (length rt)) - 2))%nat by lia.
        reflexivity.
Qed.

Theorem g_modify_last_sample_abs g t w :
  wf g ->
  option_map abs (g_modify_last_sample g t w) = t_modify_last (abs g) t w /\
  (forall g', g_modify_last_sample g t w = Some g' -> wf g').
Proof.
  intros (H1 & H2 & H3). unfold g_modify_last_sample, t_modify_last.
  change (ents (abs g)) with (rows (g_weights g) (g_times g) (g_stacks g) (g_cpus g)).
  change (sorted_flag (abs g)) with (g_sorted g).
  destruct (upd_last (fun x_ => (x_ + w)%Z) (g_weights g)) as [ws'|] eqn:Ew.
  2:{ apply upd_last_none in Ew. rewrite Ew in *. destruct (g_times g); [|cbn [length] in H1; discriminate]. cbn. split; [reflexivity|discriminate]. }
  destruct (upd_last (fun _ => t) (g_times g)) as [ts'|] eqn:Et.
  2:{ apply upd_last_none in Et. rewrite Et in *. destruct (g_weights g); [discriminate|cbn [length] in H1; discriminate]. }
  pose proof (rows_modify _ _ _ _ _ _ _ _ H1 H2 H3 Ew Et) as HR.
  pose proof (second_last_rows _ _ _ _ _ _ H1 H2 H3 Et) as HS.
  pose proof (upd_last_length _ _ _ Ew) as Lw. pose proof (upd_last_length _ _ _ Et) as Lt.
  assert (Hne : rows (g_weights g) (g_times g) (g_stacks g) (g_cpus g) <> []).
  { destruct (g_weights g) as [|a ?]; [discriminate|]. destruct (g_times g) as [|b ?]; [discriminate|].
    destruct (g_stacks g) as [|c ?]; [cbn [length] in H2; discriminate|]. destruct (g_cpus g) as [|d ?]; [cbn [length] in H3; discriminate|]. discriminate. }
  destruct (rows (g_weights g) (g_times g) (g_stacks g) (g_cpus g)) as [|e0 er] eqn:ER; [contradiction|].
  rewrite HS. destruct (Nat.leb 2 (length ts')) eqn:E2.
  - destruct (nth_error ts' (length ts' - 2)) as [p|] eqn:En.
    + cbn [option_map]. split.
      * unfold abs. cbn [g_weights g_times g_stacks g_cpus g_sorted g_last]. rewrite HR. reflexivity.
      * intros g' Hg. inversion Hg. unfold wf. cbn [g_weights g_times g_stacks g_cpus]. lia.
    + exfalso. apply nth_error_None in En. apply Nat.leb_le in E2. lia.
  - cbn [option_map]. split.
    + unfold abs. cbn [g_weights g_times g_stacks g_cpus g_sorted g_last]. rewrite HR. reflexivity.
    + intros g' Hg. inversion Hg. unfold wf. cbn [g_weights g_times g_stacks g_cpus]. lia.
Qed.

(* ---- any history of calls on the table ---- *)
Inductive tcall := TAdd (t stack cpu : N) (w : Z) | TModify (t : N) (w : Z).

Definition g_tstep (g : option gtable) (c : tcall) : option gtable :=
  match g with
  | None => None
  | Some g => match c with TAdd t s cp w => Some (g_add_sample g t s cp w) | TModify t w => g_modify_last_sample g t w end
  end.
Definition m_tstep (tb : option table) (c : tcall) : option table :=
  match tb with
  | None => None
  | Some tb => match c with TAdd t s cp w => Some (t_add tb (mkEntry t s cp w)) | TModify t w => t_modify_last tb t w end
  end.

Lemma tstep_abs g c :
  (forall g0, g = Some g0 -> wf g0) ->
  option_map abs (g_tstep g c) = m_tstep (option_map abs g) c /\ (forall g1, g_tstep g c = Some g1 -> wf g1).
Proof.
  intros Hwf. destruct g as [g0|]; [|split; [reflexivity|discriminate]].
  specialize (Hwf g0 eq_refl). destruct c as [t s cp w|t w]; cbn [g_tstep m_tstep option_map].
  - destruct (g_add_sample_abs g0 t s cp w Hwf) as (A & B). rewrite A. split; [reflexivity|]. intros g1 H. inversion H. subst. exact B.
  - exact (g_modify_last_sample_abs g0 t w Hwf).
Qed.

Theorem g_history_abs calls :
  option_map abs (fold_left g_tstep calls (Some g_new)) = fold_left m_tstep calls (Some table_init).
Proof.
  assert (G : forall calls g, (forall g0, g = Some g0 -> wf g0) ->
              option_map abs (fold_left g_tstep calls g) = fold_left m_tstep calls (option_map abs g)).
  { induction calls0 as [|c cs IH]; intros g Hwf; [reflexivity|].
    cbn [fold_left]. destruct (tstep_abs g c Hwf) as (A & B). rewrite <- A. apply IH. exact B. }
  rewrite (G calls (Some g_new)).
  - cbn [option_map]. rewrite (proj1 abs_new). reflexivity.
  - intros g0 H. inversion H. exact (proj2 abs_new).
Qed.
