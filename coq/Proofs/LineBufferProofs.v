From SV Require Import Model.LineBuffer.
From Coq Require Import Arith Lia ZifyBool ZifyN ZifyNat.
Open Scope N_scope.

Lemma len_app a b : len (a ++ b) = len a + len b.
Proof. unfold len. rewrite app_length. lia. Qed.
Lemma len_cons x a : len (x :: a) = len a + 1.
Proof. unfold len. cbn [length]. lia. Qed.
Lemma len_nil : len [] = 0.
Proof. reflexivity. Qed.

Lemma split_nl_some chunk x y : split_nl chunk = Some (x, y) ->
  chunk = x ++ NL :: y /\ ~ In NL x /\ (length y < length chunk)%nat.
Proof.
  revert x y. induction chunk as [|b r IH]; intros x y H; [discriminate|].
  cbn [split_nl] in H. destruct (b =? NL) eqn:C.
  - inversion H; subst. assert (b = NL) by lia. subst. cbn. repeat split; auto.
  - destruct (split_nl r) as [[x' y']|] eqn:E; [|discriminate]. inversion H; subst.
    destruct (IH _ _ eq_refl) as [H1 [H2 H3]]. subst r. repeat split.
    + intros [Hb|Hin]; [lia|contradiction].
    + cbn [length]. lia.
Qed.

Lemma split_nl_none chunk : split_nl chunk = None -> ~ In NL chunk.
Proof.
  induction chunk as [|b r IH]; intros H; [intros []|].
  cbn [split_nl] in H. destruct (b =? NL) eqn:C; [discriminate|].
  destruct (split_nl r) as [[x y]|] eqn:E; [discriminate|].
  intros [Hb|Hin]; [lia|]. exact (IH eq_refl Hin).
Qed.

(* the specification on a newline-free prefix *)
Lemma spec_lines_no_nl x : ~ In NL x -> forall off acc rest,
  spec_lines off acc (x ++ rest) = spec_lines (off + len x) (acc ++ x) rest.
Proof.
  induction x as [|b r IH]; intros Hn off acc rest.
  - cbn [app]. rewrite len_nil, N.add_0_r, app_nil_r. reflexivity.
  - cbn [app spec_lines]. replace (b =? NL) with false by (assert (b <> NL) by (intros ->; apply Hn; left; reflexivity); lia).
    rewrite IH by (intros Hin; apply Hn; right; exact Hin).
    rewrite len_cons. rewrite <- app_assoc. cbn [app]. f_equal. lia.
Qed.

(* state well-formedness: the leftover bytes were all counted in `cur` *)
Definition WF (st : lbuf) : Prop := bad st = false /\ len (leftover st) <= cur st.

(* consume_loop refines the specification *)
Lemma consume_loop_spec : forall fuel st chunk rest,
  (length chunk < fuel)%nat -> WF st ->
  let '(st', ls) := consume_loop fuel st chunk in
  WF st' /\
  spec_lines (cur st) (leftover st) (chunk ++ rest) =
    (let '(ls2, fin) := spec_lines (cur st') (leftover st') rest in (ls ++ ls2, fin)).
Proof.
  induction fuel as [|f IH]; intros st chunk rest Hf [Hb Hl]; [lia|].
  cbn [consume_loop]. destruct (split_nl chunk) as [[before after]|] eqn:E.
  - destruct (split_nl_some _ _ _ E) as [Hc [Hn Hlen]].
    set (st1 := mkLb [] (cur st + len before + 1) (bad st)).
    assert (Hwf1 : WF st1) by (unfold WF, st1; cbn [bad leftover cur]; rewrite len_nil; split; [exact Hb|lia]).
    specialize (IH st1 after rest ltac:(lia) Hwf1).
    destruct (consume_loop f st1 after) as [st2 ls2] eqn:E2.
    destruct IH as [Hwf2 Hspec].
    assert (Hline : (match leftover st with [] => (before, cur st) | _ :: _ => (leftover st ++ before, cur st - len (leftover st)) end)
                    = (leftover st ++ before, cur st - len (leftover st))).
    { destruct (leftover st); [cbn [app]; rewrite len_nil; f_equal; lia|reflexivity]. }
    rewrite Hline. split; [exact Hwf2|].
    rewrite Hc, <- app_assoc. rewrite (spec_lines_no_nl before Hn). cbn [app spec_lines].
    replace (NL =? NL) with true by reflexivity.
    cbn [cur leftover] in Hspec. unfold st1 in Hspec. cbn [cur leftover] in Hspec. rewrite Hspec.
    destruct (spec_lines (cur st2) (leftover st2) rest) as [ls3 fin]. cbn [app].
    rewrite len_app. f_equal. f_equal. f_equal. lia.
  - pose proof (split_nl_none _ E) as Hn. split.
    + unfold WF; cbn [bad leftover cur]. rewrite len_app. split; [exact Hb|lia].
    + cbn [cur leftover]. rewrite (spec_lines_no_nl chunk Hn).
      destruct (spec_lines (cur st + len chunk) (leftover st ++ chunk) rest). reflexivity.
Qed.

Lemma consume_spec st chunk rest :
  WF st ->
  let '(st', ls) := consume st chunk in
  WF st' /\
  spec_lines (cur st) (leftover st) (chunk ++ rest) =
    (let '(ls2, fin) := spec_lines (cur st') (leftover st') rest in (ls ++ ls2, fin)).
Proof.
  intros [Hb Hl]. unfold consume.
  replace (bad st || (cur st <? len (leftover st))) with false by (rewrite Hb; lia).
  apply (consume_loop_spec (S (length chunk)) (mkLb (leftover st) (cur st) false) chunk rest); [lia|].
  split; [reflexivity|exact Hl].
Qed.

Lemma feed_spec chunks : forall st,
  WF st ->
  let '(st', ls) := feed st chunks in
  WF st' /\
  spec_lines (cur st) (leftover st) (concat chunks) =
    (let '(ls2, fin) := spec_lines (cur st') (leftover st') [] in (ls ++ ls2, fin)).
Proof.
  induction chunks as [|c r IH]; intros st Hwf; cbn [feed concat].
  - split; [exact Hwf|]. destruct (spec_lines (cur st) (leftover st) []); reflexivity.
  - pose proof (consume_spec st c (concat r) Hwf) as H1.
    destruct (consume st c) as [st1 l1]. destruct H1 as [Hwf1 Hs1].
    specialize (IH st1 Hwf1). destruct (feed st1 r) as [st2 l2]. destruct IH as [Hwf2 Hs2].
    split; [exact Hwf2|]. rewrite Hs1, Hs2.
    destruct (spec_lines (cur st2) (leftover st2) []) as [l3 fin]. rewrite app_assoc. reflexivity.
Qed.

(* For EVERY partition of a byte string into chunks: the lines handed to the callback (with their offsets), followed by
   the line `finish` hands out, and the final offset, are exactly the lines of the whole string; the assertion never fires. *)
Theorem chunking chunks :
  lines_of_chunks chunks = (fst (split_lines (concat chunks)), snd (split_lines (concat chunks)), false).
Proof.
  unfold lines_of_chunks, split_lines.
  assert (Hwf : WF lb_init) by (split; [reflexivity|cbn; lia]).
  pose proof (feed_spec chunks lb_init Hwf) as H. destruct (feed lb_init chunks) as [st ls]. destruct H as [[Hb Hl] Hs].
  cbn [cur leftover lb_init] in Hs. rewrite Hs. unfold finish. cbn [spec_lines].
  destruct (leftover st); cbn [fst snd]; rewrite Hb; reflexivity.
Qed.

Corollary chunk_invariance chunks1 chunks2 :
  concat chunks1 = concat chunks2 -> lines_of_chunks chunks1 = lines_of_chunks chunks2.
Proof. intros H. rewrite !chunking, H. reflexivity. Qed.
