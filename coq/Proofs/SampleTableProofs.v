From SV Require Import Model.SampleTable Spec.SampleTableSpec.
From Coq Require Import Lia ZifyBool ZifyN Permutation.
Open Scope N_scope.

(* ---- insertion sort ---- *)

Lemma insert_perm e l : Permutation (insert_by_t e l) (e :: l).
Proof.
  induction l as [|x r IH]; cbn [insert_by_t]; [reflexivity|].
  destruct (e_t e <? e_t x); [reflexivity|].
  rewrite IH. apply perm_swap.
Qed.

Lemma sort_perm l : Permutation (sort_by_t l) l.
Proof.
  induction l as [|x r IH]; cbn [sort_by_t]; [reflexivity|].
  rewrite insert_perm. constructor. exact IH.
Qed.

Lemma nondec_weaken lo lo' l : lo' <= lo -> nondecreasing_t lo l -> nondecreasing_t lo' l.
Proof. destruct l; cbn; [auto|]. intros H [H1 H2]. split; [lia|assumption]. Qed.

Lemma insert_sorted lo e l :
  lo <= e_t e -> nondecreasing_t lo l -> nondecreasing_t lo (insert_by_t e l).
Proof.
  revert lo. induction l as [|x r IH]; intros lo Hlo Hs; cbn [insert_by_t nondecreasing_t] in *.
  - split; [assumption|exact I].
  - destruct Hs as [H1 H2]. destruct (e_t e <? e_t x) eqn:C; cbn [nondecreasing_t].
    + split; [assumption|]. split; [lia|assumption].
    + split; [assumption|]. apply IH; [lia|assumption].
Qed.

Lemma sort_sorted l : nondecreasing_t 0 (sort_by_t l).
Proof.
  induction l as [|x r IH]; cbn [sort_by_t]; [exact I|].
  apply insert_sorted; [lia|assumption].
Qed.

(* ---- table invariant ---- *)

Definition last_t (l : list entry) : N := match rev l with e :: _ => e_t e | [] => 0 end.

Definition TInv (tb : table) : Prop :=
  sorted_flag tb = true -> nondecreasing_t 0 (ents tb) /\ last_ts tb = last_t (ents tb).

Lemma last_t_snoc l e : last_t (l ++ [e]) = e_t e.
Proof. unfold last_t. rewrite rev_app_distr. reflexivity. Qed.

Lemma nondec_snoc lo l e :
  nondecreasing_t lo l -> (match l with [] => lo | _ => last_t l end) <= e_t e -> nondecreasing_t lo (l ++ [e]).
Proof.
  revert lo. induction l as [|x r IH]; intros lo Hs Hle; cbn [app nondecreasing_t] in *.
  - split; [assumption|exact I].
  - destruct Hs as [H1 H2]. split; [assumption|]. apply IH; [assumption|].
    destruct r as [|y r']; [unfold last_t in Hle; cbn in Hle; assumption|].
    unfold last_t in *. cbn [rev] in *.
    destruct (rev r' ++ [y]) eqn:E; [destruct (rev r'); discriminate|].
    cbn [app] in Hle. exact Hle.
Qed.

Lemma TInv_init : TInv table_init.
Proof. intros _. split; [exact I|reflexivity]. Qed.

Lemma TInv_add tb e : TInv tb -> TInv (t_add tb e).
Proof.
  intros HI Hf. unfold t_add in *. cbn [sorted_flag ents last_ts] in *.
  destruct (e_t e <? last_ts tb) eqn:C; [discriminate|].
  destruct (HI Hf) as [Hs Hl]. split; [|rewrite last_t_snoc; reflexivity].
  apply nondec_snoc; [assumption|]. destruct (ents tb); [lia|]. rewrite <- Hl. lia.
Qed.

Lemma modify_last_nonempty l t w : l <> [] -> modify_last l t w <> [].
Proof. destruct l as [|a [|b r]]; cbn; congruence. Qed.

Lemma last_t_modify l t w : l <> [] -> last_t (modify_last l t w) = t.
Proof.
  induction l as [|a r IH]; [congruence|]. intros _.
  destruct r as [|b r']; [reflexivity|].
  change (modify_last (a :: b :: r') t w) with (a :: modify_last (b :: r') t w).
  assert (Hne : b :: r' <> []) by congruence. specialize (IH Hne).
  unfold last_t in *. cbn [rev]. 
  destruct (rev (modify_last (b :: r') t w)) eqn:E.
  - exfalso. apply (modify_last_nonempty (b :: r') t w Hne).
    apply (f_equal (@rev entry)) in E. rewrite rev_involutive in E. exact E.
  - cbn [app]. exact IH.
Qed.

Lemma second_last_some l : forall a b, exists p, second_last_t (a :: b :: l) = Some p.
Proof.
  induction l as [|c r IH]; intros a b; [exists (e_t a); reflexivity|].
  destruct (IH b c) as [p Hp]. exists p.
  change (second_last_t (a :: b :: c :: r)) with (second_last_t (b :: c :: r)). exact Hp.
Qed.

Lemma nondec_modify lo l t w :
  nondecreasing_t lo l -> l <> [] ->
  (match second_last_t l with Some p => p <= t | None => lo <= t end) ->
  nondecreasing_t lo (modify_last l t w).
Proof.
  revert lo. induction l as [|a r IH]; intros lo Hs Hne Hc; [congruence|].
  destruct r as [|b r'].
  - cbn [modify_last nondecreasing_t second_last_t e_t] in *. split; [assumption|exact I].
  - change (modify_last (a :: b :: r') t w) with (a :: modify_last (b :: r') t w).
    cbn [nondecreasing_t] in Hs |- *. destruct Hs as [H1 H2]. split; [assumption|].
    apply IH; [assumption|congruence|].
    destruct r' as [|c r'']; [cbn [second_last_t] in *; assumption|].
    change (second_last_t (a :: b :: c :: r'')) with (second_last_t (b :: c :: r'')) in Hc.
    destruct (second_last_some r'' b c) as [p Hp]. rewrite Hp in *. exact Hc.
Qed.

Lemma TInv_modify tb t w tb' : TInv tb -> t_modify_last tb t w = Some tb' -> TInv tb'.
Proof.
  intros HI H. unfold t_modify_last in H.
  destruct (ents tb) as [|a r] eqn:E; [discriminate|].
  assert (Hne : a :: r <> []) by congruence.
  remember (a :: r) as l eqn:El. injection H as <-.
  intros Hf. cbn [sorted_flag ents last_ts] in *.
  split; [|rewrite last_t_modify; auto].
  destruct (second_last_t l) as [p|] eqn:E2.
  - destruct (t <? p) eqn:C; [discriminate|]. destruct (HI Hf) as [Hs _]. rewrite E in Hs.
    apply nondec_modify; auto. rewrite E2. lia.
  - destruct (HI Hf) as [Hs _]. rewrite E in Hs. apply nondec_modify; auto. rewrite E2. lia.
Qed.

Lemma t_modify_last_some tb t w tb' :
  t_modify_last tb t w = Some tb' -> ents tb <> [] /\ ents tb' = modify_last (ents tb) t w.
Proof.
  unfold t_modify_last. destruct (ents tb) as [|a r] eqn:E; [discriminate|].
  remember (a :: r) as l eqn:El. intros H. injection H as <-. cbn [ents]. split; [subst; congruence|reflexivity].
Qed.

(* ---- thread level ---- *)

Definition ThInv (th : thread) : Prop :=
  TInv (tbl th) /\ panicked th = false /\ (last_zero th = true -> ents (tbl th) <> []).

Lemma ThInv_init : ThInv thread_init.
Proof. split; [apply TInv_init|]. split; [reflexivity|]. cbn. discriminate. Qed.

Lemma ThInv_step th o : ThInv th -> ThInv (th_step th o).
Proof.
  intros [HT [Hp Hz]]. unfold th_step. rewrite Hp.
  destruct o as [t s c w|t w].
  - split; [apply TInv_add; assumption|]. split; [reflexivity|].
    intros _. cbn. destruct (ents (tbl th)); discriminate.
  - destruct (last_zero th) eqn:Z.
    + specialize (Hz eq_refl).
      destruct (t_modify_last (tbl th) t w) as [tb|] eqn:E.
      * split; [eapply TInv_modify; eauto|]. split; [reflexivity|]. intros _. cbn [tbl].
        destruct (t_modify_last_some _ _ _ _ E) as [Hne Heq]. rewrite Heq. apply modify_last_nonempty. exact Hne.
      * exfalso. unfold t_modify_last in E. destruct (ents (tbl th)); [congruence|discriminate].
    + split; [apply TInv_add; assumption|]. split; [reflexivity|].
      intros _. cbn. destruct (ents (tbl th)); discriminate.
Qed.

Lemma ThInv_run_from ops th : ThInv th -> ThInv (fold_left th_step ops th).
Proof.
  revert th. induction ops as [|o r IH]; intros th H; [exact H|]. cbn [fold_left]. apply IH. apply ThInv_step. exact H.
Qed.

Lemma ThInv_run ops : ThInv (th_run ops).
Proof. apply ThInv_run_from. apply ThInv_init. Qed.

(* ---- the table holds exactly the effective entries of the history ---- *)

Lemma run_effective_from ops : forall th,
  ThInv th ->
  effective_from (ents (tbl th)) (last_zero th) (last_stack th) ops
  = Some (ents (tbl (fold_left th_step ops th))).
Proof.
  induction ops as [|o r IH]; intros th HI; [reflexivity|].
  cbn [fold_left effective_from]. pose proof (ThInv_step th o HI) as HI'.
  destruct HI as [HT [Hp Hz]]. rewrite <- (IH _ HI'). unfold th_step. rewrite Hp.
  destruct o as [t s c w|t w]; [reflexivity|].
  destruct (last_zero th) eqn:Z; [|reflexivity].
  specialize (Hz eq_refl). unfold t_modify_last.
  destruct (ents (tbl th)) eqn:E; [congruence|]. reflexivity.
Qed.

Lemma run_effective ops : effective ops = Some (ents (tbl (th_run ops))).
Proof. apply (run_effective_from ops thread_init ThInv_init). Qed.

(* ---- serialization ---- *)

Lemma serialize_order_sorted tb : TInv tb -> nondecreasing_t 0 (serialize_order tb).
Proof.
  intros HI. unfold serialize_order. destruct (sorted_flag tb) eqn:F; [apply HI; assumption|apply sort_sorted].
Qed.

Lemma serialize_order_perm tb : Permutation (serialize_order tb) (ents tb).
Proof. unfold serialize_order. destruct (sorted_flag tb); [reflexivity|apply sort_perm]. Qed.

Lemma deltas_roundtrip l : forall prev,
  nondecreasing_t prev l ->
  snd (deltas_from prev l) = false /\
  length (fst (deltas_from prev l)) = length l /\
  rows_to_entries prev (map (fun '(d, e) => (d, e_stack e, e_w e, e_cpu e)) (combine (fst (deltas_from prev l)) l)) = l.
Proof.
  induction l as [|e r IH]; intros prev Hs; [repeat split|].
  cbn [nondecreasing_t] in Hs. destruct Hs as [H1 H2].
  cbn [deltas_from]. destruct (deltas_from (e_t e) r) as [ds u] eqn:E.
  specialize (IH (e_t e) H2). rewrite E in IH. cbn [fst snd] in *. destruct IH as [Hu [Hlen Hrt]].
  split; [rewrite Hu; lia|]. split; [cbn; lia|].
  cbn [combine map rows_to_entries].
  replace (prev + (e_t e - prev)) with (e_t e) by lia.
  rewrite Hrt. destruct e; reflexivity.
Qed.

Lemma sum_w_perm a b : Permutation a b -> sum_w a = sum_w b.
Proof. unfold sum_w. induction 1; cbn [fold_right] in *; lia. Qed.
Lemma sum_cpu_perm a b : Permutation a b -> sum_cpu a = sum_cpu b.
Proof. unfold sum_cpu. induction 1; cbn [fold_right] in *; lia. Qed.

Lemma sum_w_app a b : sum_w (a ++ b) = (sum_w a + sum_w b)%Z.
Proof. unfold sum_w. induction a; cbn [fold_right app] in *; lia. Qed.
Lemma sum_cpu_app a b : sum_cpu (a ++ b) = sum_cpu a + sum_cpu b.
Proof. unfold sum_cpu. induction a; cbn [fold_right app] in *; lia. Qed.
Lemma sum_w_modify l t w : l <> [] -> sum_w (modify_last l t w) = (sum_w l + w)%Z.
Proof.
  induction l as [|a r IH]; [congruence|]. intros _. destruct r as [|b r'].
  - unfold sum_w. cbn [modify_last fold_right e_w]. lia.
  - change (modify_last (a :: b :: r') t w) with (a :: modify_last (b :: r') t w).
    unfold sum_w in *. cbn [fold_right] in *. rewrite IH by congruence. lia.
Qed.
Lemma sum_cpu_modify l t w : sum_cpu (modify_last l t w) = sum_cpu l.
Proof.
  induction l as [|a r IH]; [reflexivity|]. destruct r as [|b r'].
  - unfold sum_cpu. cbn [modify_last fold_right e_cpu]. lia.
  - change (modify_last (a :: b :: r') t w) with (a :: modify_last (b :: r') t w).
    unfold sum_cpu in *. cbn [fold_right] in *. rewrite IH. reflexivity.
Qed.

Lemma totals_from ops : forall th, ThInv th ->
  sum_w (ents (tbl (fold_left th_step ops th))) = (sum_w (ents (tbl th)) + fold_right (fun o a => op_w o + a) 0 ops)%Z /\
  sum_cpu (ents (tbl (fold_left th_step ops th))) = sum_cpu (ents (tbl th)) + fold_right (fun o a => op_cpu o + a) 0 ops.
Proof.
  induction ops as [|o r IH]; intros th HI; [cbn; split; lia|].
  cbn [fold_left fold_right]. destruct (IH _ (ThInv_step th o HI)) as [I1 I2]. rewrite I1, I2.
  destruct HI as [HT [Hp Hz]]. unfold th_step. rewrite Hp.
  destruct o as [t s c w|t w]; cbn [op_w op_cpu].
  - cbn [tbl t_add ents]. rewrite sum_w_app, sum_cpu_app. cbn. split; lia.
  - destruct (last_zero th) eqn:Z.
    + specialize (Hz eq_refl). unfold t_modify_last. destruct (ents (tbl th)) eqn:E; [congruence|].
      cbn [tbl ents]. rewrite sum_w_modify by congruence. rewrite sum_cpu_modify. split; lia.
    + cbn [tbl t_add ents]. rewrite sum_w_app, sum_cpu_app. cbn. split; lia.
Qed.

Theorem serialized_table ops :
  let '(rows, underflow) := serialize (tbl (th_run ops)) in
  let back := rows_to_entries 0 rows in
  panicked (th_run ops) = false /\ underflow = false /\
  nondecreasing_t 0 back /\
  (exists eff, effective ops = Some eff /\ Permutation back eff) /\
  sum_w back = fold_right (fun o a => (op_w o + a)%Z) 0%Z ops /\
  sum_cpu back = fold_right (fun o a => op_cpu o + a) 0 ops.
Proof.
  pose proof (ThInv_run ops) as [HT [Hp _]].
  unfold serialize.
  pose proof (serialize_order_sorted _ HT) as Hs.
  pose proof (serialize_order_perm (tbl (th_run ops))) as Hperm.
  destruct (deltas_roundtrip _ 0 Hs) as [Hu [_ Hrt]].
  destruct (deltas_from 0 (serialize_order (tbl (th_run ops)))) as [ds u]. cbn [fst snd] in *.
  rewrite Hrt.
  split; [exact Hp|]. split; [exact Hu|]. split; [exact Hs|].
  split; [exists (ents (tbl (th_run ops))); split; [apply run_effective|exact Hperm]|].
  destruct (totals_from ops thread_init ThInv_init) as [T1 T2].
  rewrite (sum_w_perm _ _ Hperm), (sum_cpu_perm _ _ Hperm).
  unfold th_run. rewrite T1, T2. cbn. split; lia.
Qed.

(* ---- the boolean checker accepts every permutation of the effective entries ---- *)
From SV Require Import Tie.C04.

Lemma entry_eqb_eq a b : entry_eqb a b = true <-> a = b.
Proof.
  unfold entry_eqb. destruct a as [t1 s1 c1 w1], b as [t2 s2 c2 w2]; cbn [e_t e_stack e_cpu e_w]. split.
  - intros H. assert (H0 : t1 = t2 /\ s1 = s2 /\ c1 = c2 /\ w1 = w2) by lia.
    destruct H0 as [-> [-> [-> ->]]]. reflexivity.
  - intros H. inversion H; subst. rewrite !N.eqb_refl, Z.eqb_refl. reflexivity.
Qed.

Lemma remove_first_perm e l l' : remove_first e l = Some l' -> Permutation l (e :: l').
Proof.
  revert l'. induction l as [|x r IH]; intros l' H; [discriminate|].
  cbn [remove_first] in H. destruct (entry_eqb e x) eqn:C.
  - apply entry_eqb_eq in C. subst. inversion H; subst. reflexivity.
  - destruct (remove_first e r) as [r'|]; [|discriminate]. inversion H; subst.
    rewrite (IH r' eq_refl). apply perm_swap.
Qed.

Lemma remove_first_in e l : In e l -> exists l', remove_first e l = Some l'.
Proof.
  induction l as [|x r IH]; [contradiction|]. intros [->|H]; cbn [remove_first].
  - replace (entry_eqb e e) with true by (symmetry; apply entry_eqb_eq; reflexivity). eauto.
  - destruct (entry_eqb e x); [eauto|]. destruct (IH H) as [l' ->]. eauto.
Qed.

Lemma permb_sound a b : permb a b = true -> Permutation a b.
Proof.
  revert b. induction a as [|e r IH]; intros b H; cbn [permb] in H.
  - destruct b; [reflexivity|discriminate].
  - destruct (remove_first e b) as [b'|] eqn:E; [|discriminate].
    rewrite (remove_first_perm _ _ _ E). constructor. apply IH. exact H.
Qed.

Lemma permb_complete a b : Permutation a b -> permb a b = true.
Proof.
  revert b. induction a as [|e r IH]; intros b H; cbn [permb].
  - apply Permutation_nil in H. subst. reflexivity.
  - assert (Hin : In e b) by (eapply Permutation_in; [exact H|left; reflexivity]).
    destruct (remove_first_in e b Hin) as [b' E]. rewrite E. apply IH.
    apply remove_first_perm in E. apply (Permutation_cons_inv (a := e)).
    rewrite H. exact E.
Qed.

Theorem checker_accepts_model ops : chk ops (fst (serialize (tbl (th_run ops)))) = true.
Proof.
  pose proof (serialized_table ops) as H.
  destruct (serialize (tbl (th_run ops))) as [rows u]. cbn [fst].
  destruct H as [_ [_ [_ [[eff [He Hp]] _]]]]. unfold chk. rewrite He. apply permb_complete. exact Hp.
Qed.

(* and what acceptance means *)
Theorem checker_sound ops rows :
  chk ops rows = true ->
  exists eff, effective ops = Some eff /\ Permutation (rows_to_entries 0 rows) eff.
Proof.
  unfold chk. destruct (effective ops) as [eff|]; [|discriminate]. intros H. exists eff. split; [reflexivity|].
  apply permb_sound. exact H.
Qed.
