(* Identity of thread / process entries (who is who) and the immediate effect of COMM / FORK / EXIT records on names and lifetimes. *)
From SV Require Import Model.Converter Proofs.ConverterProofs.
From Coq Require Import Arith Lia.
Open Scope N_scope.

Lemma nth_error_upd_nth {A} (f : A -> A) : forall (l : list A) n m,
  nth_error (upd_nth n f l) m = if Nat.eqb m n then option_map f (nth_error l m) else nth_error l m.
Proof.
  induction l as [|x l IH]; intros n m; destruct n as [|n]; destruct m as [|m]; cbn; try reflexivity.
  - destruct (Nat.eqb m n); reflexivity.
  - apply IH.
Qed.
Lemma length_upd_nth {A} (f : A -> A) : forall (l : list A) n, length (upd_nth n f l) = length l.
Proof. induction l as [|x l IH]; intros [|n]; cbn; auto. Qed.

(* identity fields of entries *)
Definition t_ident (e : tentry) := (te_proc e, te_tid e, te_sfx e, te_main e).
Definition p_ident (e : pentry) := (pe_pid e, pe_sfx e).

(* s' extends s: entries are only appended, identity fields never change *)
Definition extends (s s' : cstate) : Prop :=
  (forall h e, nth_error (pthreads s) h = Some e -> exists e', nth_error (pthreads s') h = Some e' /\ t_ident e' = t_ident e) /\
  (forall h e, nth_error (pprocs s) h = Some e -> exists e', nth_error (pprocs s') h = Some e' /\ p_ident e' = p_ident e).

Lemma extends_refl s : extends s s.
Proof. split; intros h e H; exists e; auto. Qed.
Lemma extends_trans a b c : extends a b -> extends b c -> extends a c.
Proof.
  intros [A1 A2] [B1 B2]. split; intros h e H.
  - destruct (A1 _ _ H) as [e1 [H1 I1]]. destruct (B1 _ _ H1) as [e2 [H2 I2]]. exists e2. split; [exact H2 | congruence].
  - destruct (A2 _ _ H) as [e1 [H1 I1]]. destruct (B2 _ _ H1) as [e2 [H2 I2]]. exists e2. split; [exact H2 | congruence].
Qed.

Lemma extends_same_tables s s' : pthreads s' = pthreads s -> pprocs s' = pprocs s -> extends s s'.
Proof. intros H1 H2. split; intros h e H; exists e; rewrite ?H1, ?H2; auto. Qed.

Lemma extends_map_thread s h f : (forall e, t_ident (f e) = t_ident e) -> extends s (map_thread s h f).
Proof.
  intros Hf. split; intros k e H; cbn [map_thread pthreads pprocs].
  - rewrite nth_error_upd_nth. destruct (Nat.eqb k h); [rewrite H; cbn; exists (f e); auto | exists e; auto].
  - exists e; auto.
Qed.
Lemma extends_map_process s h f : (forall e, p_ident (f e) = p_ident e) -> extends s (map_process s h f).
Proof.
  intros Hf. split; intros k e H; cbn [map_process pthreads pprocs].
  - exists e; auto.
  - rewrite nth_error_upd_nth. destruct (Nat.eqb k h); [rewrite H; cbn; exists (f e); auto | exists e; auto].
Qed.

Lemma nth_error_app_old {A} (l : list A) x h e : nth_error l h = Some e -> nth_error (l ++ x) h = Some e.
Proof. intros H. rewrite nth_error_app1; [exact H | apply nth_error_Some; congruence]. Qed.

Lemma add_process_spec s nm pid st s' h : add_process s nm pid st = (s', h) ->
  extends s s' /\ h = length (pprocs s) /\ pthreads s' = pthreads s /\
  exists sfx, nth_error (pprocs s') h = Some (mkP nm pid sfx st None) /\ length (pprocs s') = S (length (pprocs s)).
Proof.
  unfold add_process. destruct (unique (used_pids s) pid) as [sfx u]. intros H; inversion H; subst; clear H. cbn [pprocs pthreads].
  split; [|split; [reflexivity|split; [reflexivity|]]].
  - split; intros k e H; exists e; cbn [pthreads pprocs]; [auto | split; [apply nth_error_app_old; exact H | reflexivity]].
  - exists sfx. rewrite nth_error_app2 by lia. rewrite Nat.sub_diag. cbn. rewrite app_length. cbn. split; [reflexivity | lia].
Qed.
Lemma add_thread_spec s ph tid st m s' h : add_thread s ph tid st m = (s', h) ->
  extends s s' /\ h = length (pthreads s) /\ pprocs s' = pprocs s /\
  exists sfx, nth_error (pthreads s') h = Some (mkT ph tid sfx st None None m) /\ length (pthreads s') = S (length (pthreads s)).
Proof.
  unfold add_thread. destruct (unique (used_tids s) tid) as [sfx u]. intros H; inversion H; subst; clear H. cbn [pprocs pthreads].
  split; [|split; [reflexivity|split; [reflexivity|]]].
  - split; intros k e H; exists e; cbn [pthreads pprocs]; [split; [apply nth_error_app_old; exact H | reflexivity] | auto].
  - exists sfx. rewrite nth_error_app2 by lia. rewrite Nat.sub_diag. cbn. rewrite app_length. cbn. split; [reflexivity | lia].
Qed.

(* a live thread / process points at an entry with its ids *)
Definition thread_ok (s : cstate) (ph : nat) (is_main : bool) (tid : N) (t : lthread) : Prop :=
  exists e, nth_error (pthreads s) (lt_handle t) = Some e /\ te_tid e = tid /\ te_proc e = ph /\ te_main e = is_main.
Definition proc_ok (s : cstate) (pid : N) (p : lproc) : Prop :=
  (exists e, nth_error (pprocs s) (lp_handle p) = Some e /\ pe_pid e = pid) /\
  thread_ok s (lp_handle p) true pid (lp_main p) /\
  (forall tid t, In (tid, t) (lp_threads p) -> thread_ok s (lp_handle p) false tid t).
Definition WF (s : cstate) : Prop := forall pid p, In (pid, p) (lprocs s) -> proc_ok s pid p.

Lemma in_aset {A} k (v : A) l k' v' : In (k', v') (aset k v l) -> (k' = k /\ v' = v) \/ In (k', v') l.
Proof.
  induction l as [|[k0 v0] l IH]; cbn.
  - intros [H|[]]. inversion H; auto.
  - destruct (k0 =? k); cbn; intros [H|H]; try (inversion H; subst; auto; fail); auto.
    destruct (IH H) as [E|E]; auto.
Qed.
Lemma in_aremove {A} k (l : list (N * A)) x : In x (aremove k l) -> In x l.
Proof. induction l as [|[k0 v0] l IH]; cbn; [auto|]. destruct (k0 =? k); cbn; [auto|]. intros [H|H]; auto. Qed.
Lemma alookup_in {A} k (l : list (N * A)) v : alookup k l = Some v -> In (k, v) l.
Proof.
  induction l as [|[k0 v0] l IH]; cbn; [discriminate|]. destruct (k0 =? k) eqn:E.
  - intros H; inversion H; subst. apply N.eqb_eq in E. subst. auto.
  - intros H. right. apply IH. exact H.
Qed.

Lemma thread_ok_extends s s' ph m tid t : extends s s' -> thread_ok s ph m tid t -> thread_ok s' ph m tid t.
Proof.
  intros [E1 _] [e [H1 [H2 [H3 H4]]]]. destruct (E1 _ _ H1) as [e' [H1' I]]. exists e'. unfold t_ident in I. inversion I. repeat split; congruence.
Qed.
Lemma proc_ok_extends s s' pid p : extends s s' -> proc_ok s pid p -> proc_ok s' pid p.
Proof.
  intros E [[e [H1 H2]] [Hm Ht]]. split; [|split].
  - destruct (proj2 E _ _ H1) as [e' [H1' I]]. exists e'. unfold p_ident in I. inversion I. split; congruence.
  - eapply thread_ok_extends; eauto.
  - intros tid t H. eapply thread_ok_extends; eauto.
Qed.

Lemma alookup_aset {A} k k' (v : A) l : alookup k' (aset k v l) = if k =? k' then Some v else alookup k' l.
Proof.
  induction l as [|[k0 v0] l IH]; cbn.
  - destruct (k =? k'); reflexivity.
  - destruct (k0 =? k) eqn:E; cbn.
    + apply N.eqb_eq in E. subst k0. destruct (k =? k'); reflexivity.
    + rewrite IH. destruct (k0 =? k') eqn:E2; [|reflexivity]. apply N.eqb_eq in E2. subst k0. rewrite N.eqb_sym, E. reflexivity.
Qed.
Lemma alookup_aremove_some {A} k k' (l : list (N * A)) v : alookup k' (aremove k l) = Some v -> exists v', alookup k' l = Some v' .
Proof.
  induction l as [|[k0 v0] l IH]; cbn; [discriminate|]. destruct (k0 =? k) eqn:E.
  - intros H. destruct (k0 =? k'); eauto.
  - cbn. destruct (k0 =? k'); eauto.
Qed.

(* WF is about the table; a table with the same or fewer entries over an extended profile stays WF *)
Lemma WF_put s s' pid p : WF s -> extends s s' -> lprocs s' = aset pid p (lprocs s) -> proc_ok s' pid p -> WF s'.
Proof.
  intros W E HL Hp k q H. rewrite HL in H. apply in_aset in H. destruct H as [[-> ->]|H]; [exact Hp|].
  eapply proc_ok_extends; [exact E | apply W; exact H].
Qed.
Lemma WF_same s s' : WF s -> extends s s' -> lprocs s' = lprocs s -> WF s'.
Proof. intros W E HL k q H. rewrite HL in H. eapply proc_ok_extends; eauto. Qed.

Lemma with_lprocs_tables s l : pthreads (with_lprocs s l) = pthreads s /\ pprocs (with_lprocs s l) = pprocs s /\ lprocs (with_lprocs s l) = l.
Proof. cbn. auto. Qed.

Lemma get_by_pid_wf s pid s' p : WF s -> get_by_pid s pid = (s', p) ->
  WF s' /\ extends s s' /\ alookup pid (lprocs s') = Some p.
Proof.
  intros W. unfold get_by_pid. destruct (alookup pid (lprocs s)) as [p0|] eqn:E.
  - intros H; inversion H; subst. split; [exact W|]. split; [apply extends_refl | exact E].
  - destruct (add_process s (NPid pid) pid 0) as [s1 ph] eqn:E1. destruct (add_thread s1 ph pid 0 true) as [s2 th] eqn:E2.
    intros H; inversion H; subst; clear H.
    destruct (add_process_spec _ _ _ _ _ _ E1) as [X1 [Hph [T1 [sfx [N1 _]]]]].
    destruct (add_thread_spec _ _ _ _ _ _ _ E2) as [X2 [Hth [P2 [sfx2 [N2 _]]]]].
    destruct (add_process_frame _ _ _ _ _ _ E1) as [L1 _]. destruct (add_thread_frame _ _ _ _ _ _ _ E2) as [L2 _].
    set (p := mkLP ph None (mkLT th None None) [] []).
    assert (Ext : extends s (with_lprocs s2 (aset pid p (lprocs s2)))).
    { eapply extends_trans; [exact X1|]. eapply extends_trans; [exact X2|]. apply extends_same_tables; reflexivity. }
    split; [|split; [exact Ext | cbn; apply alookup_aset_same]].
    eapply (WF_put s _ pid p W Ext).
    + cbn. rewrite L2, L1. reflexivity.
    + split; [|split].
      * exists (mkP (NPid pid) pid sfx 0 None). cbn [pprocs with_lprocs lp_handle p]. rewrite P2. split; [exact N1 | reflexivity].
      * exists (mkT ph pid sfx2 0 None None true). cbn [pthreads with_lprocs lp_main lt_handle p]. split; [exact N2 | auto].
      * intros tid t H. destruct H.
Qed.

Lemma map_thread_name_ext s h n : extends s (map_thread s h (t_set_name n)).
Proof. apply extends_map_thread. intros e; reflexivity. Qed.
Lemma map_thread_start_ext s h n : extends s (map_thread s h (t_set_start n)).
Proof. apply extends_map_thread. intros e; reflexivity. Qed.
Lemma map_thread_end_ext s h n : extends s (map_thread s h (t_set_end n)).
Proof. apply extends_map_thread. intros e; reflexivity. Qed.

Lemma get_new_process_wf s pid name st : WF s -> WF (fst (get_new_process s pid name st)) /\ extends s (fst (get_new_process s pid name st)).
Proof.
  intros W. unfold get_new_process. destruct (alookup pid (lprocs s)) as [p|] eqn:E.
  - destruct (lt_last (lp_main p)); cbn [fst]; [split; [exact W | apply extends_refl]|].
    assert (Ext : extends s (map_thread (map_process s (lp_handle p) (p_set_start st)) (lt_handle (lp_main p)) (t_set_start st))).
    { eapply extends_trans; [apply (extends_map_process s (lp_handle p) (p_set_start st)); intros e; reflexivity | apply map_thread_start_ext]. }
    split; [eapply WF_same; [exact W | exact Ext | reflexivity] | exact Ext].
  - destruct (add_process s (oname pid name) pid st) as [s1 ph] eqn:E1. destruct (add_thread s1 ph pid st true) as [s2 th] eqn:E2.
    destruct (add_process_spec _ _ _ _ _ _ E1) as [X1 [Hph [T1 [sfx [N1 _]]]]].
    destruct (add_thread_spec _ _ _ _ _ _ _ E2) as [X2 [Hth [P2 [sfx2 [N2 _]]]]].
    destruct (add_process_frame _ _ _ _ _ _ E1) as [L1 _]. destruct (add_thread_frame _ _ _ _ _ _ _ E2) as [L2 _].
    cbn [fst].
    set (s3 := match name with Some n => map_thread s2 th (t_set_name n) | None => s2 end).
    assert (X3 : extends s2 s3) by (unfold s3; destruct name; [apply map_thread_name_ext | apply extends_refl]).
    assert (L3 : lprocs s3 = lprocs s2) by (unfold s3; destruct name; reflexivity).
    assert (P3 : pprocs s3 = pprocs s2) by (unfold s3; destruct name; reflexivity).
    set (p := mkLP ph name (mkLT th name None) [] []).
    assert (Ext : extends s (with_lprocs s3 (aset pid p (lprocs s3)))).
    { eapply extends_trans; [exact X1|]. eapply extends_trans; [exact X2|]. eapply extends_trans; [exact X3|]. apply extends_same_tables; reflexivity. }
    split; [|exact Ext].
    eapply (WF_put s _ pid p W Ext).
    + cbn. rewrite L3, L2, L1. reflexivity.
    + split; [|split].
      * exists (mkP (oname pid name) pid sfx st None). cbn [pprocs with_lprocs lp_handle p]. rewrite P3, P2. split; [exact N1 | reflexivity].
      * destruct (proj1 X3 _ _ N2) as [e' [H1 I]]. exists e'. cbn [pthreads with_lprocs lp_main lt_handle p]. unfold t_ident in I. inversion I. cbn in *. repeat split; congruence.
      * intros tid t H. destruct H.
Qed.

Lemma proc_ok_threads s pid p l : proc_ok s pid p ->
  (forall tid t, In (tid, t) l -> thread_ok s (lp_handle p) false tid t) -> proc_ok s pid (p_with_threads p l).
Proof. intros [A [B C]] H. split; [exact A | split; [exact B | exact H]]. Qed.

Lemma put_proc_wf s pid p : WF s -> proc_ok s pid p -> WF (put_proc s pid p) /\ extends s (put_proc s pid p).
Proof.
  intros W Hp. assert (Ext : extends s (put_proc s pid p)) by (apply extends_same_tables; reflexivity).
  split; [|exact Ext]. eapply (WF_put s _ pid p W Ext); [reflexivity|]. eapply proc_ok_extends; eauto.
Qed.

Lemma get_thread_by_tid_wf s pid p tid s' p' t : WF s -> alookup pid (lprocs s) = Some p ->
  get_thread_by_tid s pid p tid = (s', p', t) ->
  WF s' /\ extends s s' /\ alookup pid (lprocs s') = Some p' /\ lp_handle p' = lp_handle p /\
  thread_ok s' (lp_handle p) (tid =? pid) tid t.
Proof.
  intros W Hp. pose proof (W _ _ (alookup_in _ _ _ Hp)) as [A [B C]]. unfold get_thread_by_tid. destruct (tid =? pid) eqn:Et.
  - intros H; inversion H; subst. apply N.eqb_eq in Et. subst tid. split; [exact W|]. split; [apply extends_refl|]. auto.
  - destruct (alookup tid (lp_threads p)) as [t0|] eqn:El.
    + intros H; inversion H; subst. split; [exact W|]. split; [apply extends_refl|]. repeat split; auto. apply C. apply alookup_in. exact El.
    + destruct (add_thread s (lp_handle p) tid 0 false) as [s1 th] eqn:E1. intros H; inversion H; subst; clear H.
      destruct (add_thread_spec _ _ _ _ _ _ _ E1) as [X1 [Hth [P1 [sfx [N1 _]]]]].
      destruct (add_thread_frame _ _ _ _ _ _ _ E1) as [L1 _].
      set (t := mkLT th None None). set (p' := p_with_threads p (aset tid t (lp_threads p))).
      assert (W1 : WF s1) by (eapply WF_same; [exact W | exact X1 | exact L1]).
      assert (Tok : thread_ok s1 (lp_handle p) false tid t) by (exists (mkT (lp_handle p) tid sfx 0 None None false); cbn; auto).
      assert (Hp' : proc_ok s1 pid p').
      { apply proc_ok_threads; [eapply proc_ok_extends; [exact X1 | split; [exact A | split; [exact B | exact C]]]|].
        intros k q H. apply in_aset in H. destruct H as [[-> ->]|H]; [exact Tok|].
        eapply thread_ok_extends; [exact X1 | apply C; exact H]. }
      destruct (put_proc_wf s1 pid p' W1 Hp') as [W2 X2].
      split; [exact W2|]. split; [eapply extends_trans; eauto|]. split; [cbn; apply alookup_aset_same|]. split; [reflexivity|].
      eapply thread_ok_extends; [exact X2 | exact Tok].
Qed.

Lemma get_new_thread_wf s pid p tid name st : WF s -> alookup pid (lprocs s) = Some p ->
  WF (get_new_thread s pid p tid name st) /\ extends s (get_new_thread s pid p tid name st).
Proof.
  intros W Hp. pose proof (W _ _ (alookup_in _ _ _ Hp)) as [A [B C]]. unfold get_new_thread. destruct (tid =? pid); [split; [exact W | apply extends_refl]|].
  destruct (alookup tid (lp_threads p)) as [t0|] eqn:El.
  - destruct (lt_last t0); [split; [exact W | apply extends_refl]|].
    split; [eapply WF_same; [exact W | apply map_thread_start_ext | reflexivity] | apply map_thread_start_ext].
  - destruct (add_thread s (lp_handle p) tid st false) as [s1 th] eqn:E1.
    destruct (add_thread_spec _ _ _ _ _ _ _ E1) as [X1 [Hth [P1 [sfx [N1 _]]]]].
    destruct (add_thread_frame _ _ _ _ _ _ _ E1) as [L1 _].
    set (s2 := match name with Some n => map_thread s1 th (t_set_name n) | None => s1 end).
    assert (X2 : extends s1 s2) by (unfold s2; destruct name; [apply map_thread_name_ext | apply extends_refl]).
    assert (L2 : lprocs s2 = lprocs s1) by (unfold s2; destruct name; reflexivity).
    set (t := mkLT th name None). set (p' := p_with_threads p (aset tid t (lp_threads p))).
    assert (X12 : extends s s2) by (eapply extends_trans; eauto).
    assert (W2 : WF s2) by (eapply WF_same; [exact W | exact X12 | rewrite L2; exact L1]).
    assert (Tok1 : thread_ok s1 (lp_handle p) false tid t) by (exists (mkT (lp_handle p) tid sfx st None None false); cbn; auto).
    assert (Tok : thread_ok s2 (lp_handle p) false tid t) by (exact (thread_ok_extends s1 s2 _ _ _ _ X2 Tok1)).
    assert (Hp' : proc_ok s2 pid p').
    { apply proc_ok_threads; [eapply proc_ok_extends; [exact X12 | split; [exact A | split; [exact B | exact C]]]|].
      intros k q H. apply in_aset in H. destruct H as [[-> ->]|H]; [exact Tok|].
      eapply thread_ok_extends; [exact X12 | apply C; exact H]. }
    destruct (put_proc_wf s2 pid p' W2 Hp') as [W3 X3].
    split; [exact W3 | eapply extends_trans; eauto].
Qed.


Lemma remove_thread_wf s pid p tid e : WF s -> alookup pid (lprocs s) = Some p ->
  WF (remove_thread s pid p tid e) /\ extends s (remove_thread s pid p tid e).
Proof.
  intros W Hp. pose proof (W _ _ (alookup_in _ _ _ Hp)) as [A [B C]]. unfold remove_thread.
  destruct (alookup tid (lp_threads p)) as [t0|]; [|split; [exact W | apply extends_refl]].
  set (s1 := map_thread s (lt_handle t0) (t_set_end e)).
  assert (X1 : extends s s1) by apply map_thread_end_ext.
  assert (W1 : WF s1) by (eapply WF_same; [exact W | exact X1 | reflexivity]).
  assert (Hp' : proc_ok s1 pid (p_with_threads p (aremove tid (lp_threads p)))).
  { apply proc_ok_threads; [eapply proc_ok_extends; [exact X1 | split; [exact A | split; [exact B | exact C]]]|].
    intros k q H. apply in_aremove in H. eapply thread_ok_extends; [exact X1 | apply C; exact H]. }
  destruct (put_proc_wf s1 pid _ W1 Hp') as [W2 X2]. split; [exact W2 | eapply extends_trans; eauto].
Qed.

Lemma fold_end_ext (l : list (N * lthread)) e : forall s,
  extends s (fold_left (fun x kt => map_thread x (lt_handle (snd kt)) (t_set_end e)) l s) /\
  lprocs (fold_left (fun x kt => map_thread x (lt_handle (snd kt)) (t_set_end e)) l s) = lprocs s.
Proof.
  induction l as [|x l IH]; intros s; cbn [fold_left]; [split; [apply extends_refl | reflexivity]|].
  destruct (IH (map_thread s (lt_handle (snd x)) (t_set_end e))) as [H1 H2]. split; [eapply extends_trans; [apply map_thread_end_ext | exact H1] | rewrite H2; reflexivity].
Qed.

Lemma remove_process_wf s pid e : WF s -> WF (remove_process s pid e) /\ extends s (remove_process s pid e).
Proof.
  intros W. unfold remove_process. destruct (alookup pid (lprocs s)) as [p|]; [|split; [exact W | apply extends_refl]].
  destruct (fold_end_ext (lp_threads p) e s) as [X1 L1].
  set (s1 := fold_left _ (lp_threads p) s) in *.
  set (s2 := map_thread s1 (lt_handle (lp_main p)) (t_set_end e)).
  set (s3 := map_process s2 (lp_handle p) (p_set_end e)).
  assert (X : extends s s3).
  { eapply extends_trans; [exact X1|]. eapply extends_trans; [apply map_thread_end_ext|]. apply extends_map_process. intros x; reflexivity. }
  assert (Ext : extends s (mkC (pprocs s3) (pthreads s3) (used_pids s3) (used_tids s3) (aremove pid (lprocs s3))
                               (match lp_samples p with [] => retired s3 | b => retired s3 ++ [b] end) (cur_time s3))).
  { eapply extends_trans; [exact X | apply extends_same_tables; reflexivity]. }
  split; [|exact Ext].
  intros k q H. cbn [lprocs] in H. apply in_aremove in H. cbn in H. rewrite L1 in H. eapply proc_ok_extends; [exact Ext | apply W; exact H].
Qed.

Section Step.
  Variable origin : N.

  Lemma set_cur_time_wf s ts : WF s -> WF (mkC (pprocs s) (pthreads s) (used_pids s) (used_tids s) (lprocs s) (retired s) ts) /\
    extends s (mkC (pprocs s) (pthreads s) (used_pids s) (used_tids s) (lprocs s) (retired s) ts).
  Proof. intros W. split; [eapply WF_same; [exact W | apply extends_same_tables; reflexivity | reflexivity] | apply extends_same_tables; reflexivity]. Qed.

  Lemma proc_ok_rename s pid p nm (m : lthread) : proc_ok s pid p -> lt_handle m = lt_handle (lp_main p) ->
    proc_ok s pid (mkLP (lp_handle p) nm m (lp_threads p) (lp_samples p)).
  Proof.
    intros [A [[e [B1 B2]] C]] Hm. split; [exact A|]. split; [|exact C]. exists e. cbn [lp_main lp_handle]. rewrite Hm. auto.
  Qed.

  Lemma step_wf s r : WF s -> WF (step origin s r) /\ extends s (step origin s r).
  Proof.
    intros W. destruct r as [pid ppid tid ptid ts | pid tid ts | pid tid name ex ts | pid tid ts | pid tid | pid tid]; cbn [step].
    - destruct (get_by_pid s ppid) as [s1 parent] eqn:E1. destruct (get_by_pid_wf _ _ _ _ W E1) as [W1 [X1 A1]].
      destruct (negb (pid =? ppid)).
      + destruct (get_new_process_wf s1 pid (lp_name parent) (conv origin ts) W1) as [W2 X2]. split; [exact W2 | eapply extends_trans; eauto].
      + destruct (get_thread_by_tid s1 ppid parent ptid) as [[s2 parent'] pt] eqn:E2.
        destruct (get_thread_by_tid_wf _ _ _ _ _ _ _ W1 A1 E2) as [W2 [X2 [A2 _]]].
        destruct (get_new_thread_wf s2 ppid parent' tid (lt_name pt) (conv origin ts) W2 A2) as [W3 X3].
        split; [exact W3 | eapply extends_trans; [exact X1 | eapply extends_trans; eauto]].
    - destruct (tid =? pid); [apply remove_process_wf; exact W|].
      destruct (get_by_pid s pid) as [s1 p] eqn:E1. destruct (get_by_pid_wf _ _ _ _ W E1) as [W1 [X1 A1]].
      destruct (remove_thread_wf s1 pid p tid (conv origin ts) W1 A1) as [W2 X2]. split; [exact W2 | eapply extends_trans; eauto].
    - destruct ex.
      + destruct (tid =? pid).
        * destruct (remove_process_wf s pid (rec_time origin s ts) W) as [W1 X1].
          destruct (get_new_process_wf _ pid (Some name) (rec_time origin s ts) W1) as [W2 X2]. split; [exact W2 | eapply extends_trans; eauto].
        * destruct (get_by_pid s pid) as [s1 p] eqn:E1. destruct (get_by_pid_wf _ _ _ _ W E1) as [W1 [X1 A1]].
          destruct (remove_thread_wf s1 pid p tid (rec_time origin s ts) W1 A1) as [W2 X2].
          destruct (alookup pid (lprocs (remove_thread s1 pid p tid (rec_time origin s ts)))) as [p2|] eqn:E2.
          -- destruct (get_new_thread_wf _ pid p2 tid (Some name) (rec_time origin s ts) W2 E2) as [W3 X3].
             split; [exact W3 | eapply extends_trans; [exact X1 | eapply extends_trans; eauto]].
          -- split; [exact W2 | eapply extends_trans; eauto].
      + destruct (tid =? pid).
        * destruct (alookup pid (lprocs s)) as [p|] eqn:E.
          -- destruct (match lp_name p with Some n => n =? name | None => false end); [split; [exact W | apply extends_refl]|].
             set (s1 := map_thread (map_process s (lp_handle p) (p_set_name name)) (lt_handle (lp_main p)) (t_set_name name)).
             assert (X1 : extends s s1).
             { eapply extends_trans; [apply (extends_map_process s (lp_handle p) (p_set_name name)); intros e; reflexivity | apply map_thread_name_ext]. }
             assert (W1 : WF s1) by (eapply WF_same; [exact W | exact X1 | reflexivity]).
             pose proof (W _ _ (alookup_in _ _ _ E)) as Hp.
             assert (Hp' : proc_ok s1 pid (mkLP (lp_handle p) (Some name) (mkLT (lt_handle (lp_main p)) (Some name) (lt_last (lp_main p))) (lp_threads p) (lp_samples p))).
             { apply proc_ok_rename; [eapply proc_ok_extends; eauto | reflexivity]. }
             destruct (put_proc_wf s1 pid _ W1 Hp') as [W2 X2]. split; [exact W2 | eapply extends_trans; eauto].
          -- apply get_new_process_wf. exact W.
        * destruct (get_by_pid s pid) as [s1 p] eqn:E1. destruct (get_by_pid_wf _ _ _ _ W E1) as [W1 [X1 A1]].
          destruct (alookup tid (lp_threads p)) as [th|] eqn:El.
          -- destruct (match lt_name th with Some n => n =? name | None => false end); [split; [exact W1 | exact X1]|].
             set (s2 := map_thread s1 (lt_handle th) (t_set_name name)).
             assert (X2 : extends s1 s2) by apply map_thread_name_ext.
             assert (W2 : WF s2) by (eapply WF_same; [exact W1 | exact X2 | reflexivity]).
             pose proof (W1 _ _ (alookup_in _ _ _ A1)) as [A [B C]].
             assert (Hp' : proc_ok s2 pid (p_with_threads p (aset tid (mkLT (lt_handle th) (Some name) (lt_last th)) (lp_threads p)))).
             { apply proc_ok_threads; [eapply proc_ok_extends; [exact X2 | split; [exact A | split; [exact B | exact C]]]|].
               intros k q H. apply in_aset in H. destruct H as [[-> ->]|H].
               - pose proof (C _ _ (alookup_in _ _ _ El)) as [e [H1 H2]]. eapply thread_ok_extends; [exact X2|]. exists e. cbn [lt_handle]. auto.
               - eapply thread_ok_extends; [exact X2 | apply C; exact H]. }
             destruct (put_proc_wf s2 pid _ W2 Hp') as [W3 X3]. split; [exact W3 | eapply extends_trans; [exact X1 | eapply extends_trans; eauto]].
          -- destruct (get_new_thread_wf s1 pid p tid (Some name) (rec_time origin s ts) W1 A1) as [W2 X2]. split; [exact W2 | eapply extends_trans; eauto].
    - destruct (tid =? 0); [split; [exact W | apply extends_refl]|].
      destruct (set_cur_time_wf s ts W) as [W0 X0].
      set (s0 := mkC (pprocs s) (pthreads s) (used_pids s) (used_tids s) (lprocs s) (retired s) ts) in *.
      destruct (get_by_pid s0 pid) as [s1 p] eqn:E1. destruct (get_by_pid_wf _ _ _ _ W0 E1) as [W1 [X1 A1]].
      destruct (get_thread_by_tid s1 pid p tid) as [[s2 p2] t] eqn:E2.
      destruct (get_thread_by_tid_wf _ _ _ _ _ _ _ W1 A1 E2) as [W2 [X2 [A2 [Hh Tok]]]].
      assert (X02 : extends s s2) by (eapply extends_trans; [exact X0 | eapply extends_trans; eauto]).
      destruct (match lt_last t with Some l => l =? ts | None => false end); [split; [exact W2 | exact X02]|].
      pose proof (W2 _ _ (alookup_in _ _ _ A2)) as [A [B C]].
      match goal with |- WF (put_proc s2 pid ?p') /\ _ => assert (Hp' : proc_ok s2 pid p') end.
      { destruct (tid =? pid) eqn:Et; cbn [lp_handle lp_name lp_main lp_threads lp_samples p_with_main p_with_threads].
        - split; [exact A|]. split; [|exact C]. cbn [lp_main lp_handle].
          unfold get_thread_by_tid in E2. rewrite Et in E2. inversion E2; subst. exact B.
        - split; [exact A|]. split; [exact B|]. cbn [lp_threads lp_handle].
          intros k q H. apply in_aset in H. destruct H as [[-> ->]|H]; [|apply C; exact H].
          destruct Tok as [e [H1 H2]]. exists e. cbn [lt_handle]. rewrite Hh. auto. }
      destruct (put_proc_wf s2 pid _ W2 Hp') as [W3 X3]. split; [exact W3 | eapply extends_trans; eauto].
    - destruct (get_by_pid s pid) as [s1 p] eqn:E1. destruct (get_by_pid_wf _ _ _ _ W E1) as [W1 [X1 A1]].
      destruct (cur_time s =? origin); [split; [exact W1 | exact X1]|].
      destruct (get_thread_by_tid s1 pid p tid) as [[s2 p2] t] eqn:E2.
      destruct (get_thread_by_tid_wf _ _ _ _ _ _ _ W1 A1 E2) as [W2 [X2 _]]. cbn [fst]. split; [exact W2 | eapply extends_trans; eauto].
    - destruct (tid =? 0); [split; [exact W | apply extends_refl]|].
      destruct (get_by_pid s pid) as [s1 p] eqn:E1. destruct (get_by_pid_wf _ _ _ _ W E1) as [W1 [X1 A1]].
      destruct (get_thread_by_tid s1 pid p tid) as [[s2 p2] t] eqn:E2.
      destruct (get_thread_by_tid_wf _ _ _ _ _ _ _ W1 A1 E2) as [W2 [X2 _]]. cbn [fst]. split; [exact W2 | eapply extends_trans; eauto].
  Qed.

  Lemma wf_init : WF (init origin).
  Proof. intros pid p H. destruct H. Qed.

  Lemma run_from_wf rs : forall s, WF s -> WF (fold_left (step origin) rs s) /\ extends s (fold_left (step origin) rs s).
  Proof.
    induction rs as [|r rs IH]; intros s W; cbn [fold_left]; [split; [exact W | apply extends_refl]|].
    destruct (step_wf s r W) as [W1 X1]. destruct (IH _ W1) as [W2 X2]. split; [exact W2 | eapply extends_trans; eauto].
  Qed.

  (* an accepted sample is filed under an entry that carries the sample's tid, inside a process entry that carries its pid *)
  Lemma accepted_step_right_thread s pid tid ts h t : WF s -> In (h, t) (accepted_step origin s (RSample pid tid ts)) ->
    exists e pe, nth_error (pthreads (step origin s (RSample pid tid ts))) h = Some e /\ te_tid e = tid /\
                 nth_error (pprocs (step origin s (RSample pid tid ts))) (te_proc e) = Some pe /\ pe_pid pe = pid.
  Proof.
    intros W H. cbn [accepted_step step] in *. destruct (tid =? 0); [destruct H|].
    destruct (set_cur_time_wf s ts W) as [W0 X0].
    set (s0 := mkC (pprocs s) (pthreads s) (used_pids s) (used_tids s) (lprocs s) (retired s) ts) in *.
    destruct (get_by_pid s0 pid) as [s1 p] eqn:E1. destruct (get_by_pid_wf _ _ _ _ W0 E1) as [W1 [X1 A1]].
    destruct (get_thread_by_tid s1 pid p tid) as [[s2 p2] th] eqn:E2.
    destruct (get_thread_by_tid_wf _ _ _ _ _ _ _ W1 A1 E2) as [W2 [X2 [A2 [Hh Tok]]]].
    destruct (match lt_last th with Some l => l =? ts | None => false end); [destruct H|].
    destruct H as [H|[]]. inversion H; subst h t. clear H.
    destruct Tok as [e [T1 [T2 [T3 T4]]]].
    pose proof (W1 _ _ (alookup_in _ _ _ A1)) as [[pe [P1 P2]] _].
    destruct (proj2 X2 _ _ P1) as [pe' [P1' I]]. unfold p_ident in I. inversion I.
    exists e, pe'. unfold put_proc, with_lprocs. cbn [pthreads pprocs]. rewrite T3. repeat split; try assumption. congruence.
  Qed.
End Step.

Section History.
  Variable origin : N.

  Lemma right_thread_from rs : forall s h t, WF s -> In (h, t) (accepted origin rs s) ->
    exists pid tid ts e pe, In (RSample pid tid ts) rs /\ tid <> 0 /\ t = ts - origin /\
      nth_error (pthreads (fold_left (step origin) rs s)) h = Some e /\ te_tid e = tid /\
      nth_error (pprocs (fold_left (step origin) rs s)) (te_proc e) = Some pe /\ pe_pid pe = pid.
  Proof.
    induction rs as [|r rs IH]; intros s h t W H; [destruct H|]. cbn [accepted fold_left] in *.
    destruct (step_wf origin s r W) as [W1 X1].
    apply in_app_or in H. destruct H as [H|H].
    - destruct r as [| | |pid tid ts| |]; try (cbn [accepted_step] in H; destruct H; fail).
      destruct (accepted_step_right_thread origin s pid tid ts h t W H) as [e [pe [H1 [H2 [H3 H4]]]]].
      assert (Ht : tid <> 0 /\ t = ts - origin).
      { cbn [accepted_step] in H. destruct (tid =? 0) eqn:E0; [destruct H|]. destruct (get_by_pid _ pid) as [s1 p]. destruct (get_thread_by_tid s1 pid p tid) as [[s2 p2] th].
        destruct (match lt_last th with Some l => l =? ts | None => false end); [destruct H|]. destruct H as [H|[]]. inversion H. split; [apply N.eqb_neq; exact E0 | reflexivity]. }
      destruct (run_from_wf origin rs _ W1) as [_ [XT XP]].
      destruct (XT _ _ H1) as [e' [H1' I]]. unfold t_ident in I. inversion I.
      destruct (XP _ _ H3) as [pe' [H3' J]]. unfold p_ident in J. inversion J.
      exists pid, tid, ts, e', pe'. split; [left; reflexivity|]. split; [exact (proj1 Ht)|]. split; [exact (proj2 Ht)|]. repeat split; try congruence.
    - destruct (IH _ _ _ W1 H) as [pid [tid [ts [e [pe [A B]]]]]]. exists pid, tid, ts, e, pe. split; [right; exact A | exact B].
  Qed.

  Theorem right_thread rs h t : In (h, t) (output_samples (run origin rs)) ->
    exists pid tid ts e pe, In (RSample pid tid ts) rs /\ tid <> 0 /\ t = ts - origin /\
      nth_error (pthreads (run origin rs)) h = Some e /\ te_tid e = tid /\
      nth_error (pprocs (run origin rs)) (te_proc e) = Some pe /\ pe_pid pe = pid.
  Proof.
    intros H. assert (Ha : In (h, t) (accepted origin rs (init origin))) by (eapply Permutation.Permutation_in; [apply conservation | exact H]).
    exact (right_thread_from rs (init origin) h t (wf_init origin) Ha).
  Qed.
End History.

(* ---- immediate effect of COMM / FORK / EXIT on names and lifetimes (default options) ---- *)
Section Effects.
  Variable origin : N.

  Lemma alookup_put s pid p : alookup pid (lprocs (put_proc s pid p)) = Some p.
  Proof. cbn. apply alookup_aset_same. Qed.

  (* COMM for a non-main thread: afterwards the live thread (pid, tid) exists and is called `name` *)
  Lemma comm_thread_live_name s pid tid name ts : (tid =? pid) = false ->
    exists p t, alookup pid (lprocs (step origin s (RComm pid tid name false ts))) = Some p /\
                alookup tid (lp_threads p) = Some t /\ lt_name t = Some name.
  Proof.
    intros Ht. cbn [step]. rewrite Ht.
    destruct (get_by_pid s pid) as [s1 p] eqn:E1. destruct (get_by_pid_spec _ _ _ _ E1) as [A1 _].
    destruct (alookup tid (lp_threads p)) as [th|] eqn:El.
    - destruct (lt_name th) as [n|] eqn:En.
      + destruct (n =? name) eqn:Enn.
        * apply N.eqb_eq in Enn. subst n. exists p, th. auto.
        * eexists _, _. split; [apply alookup_put|]. cbn [lp_threads p_with_threads]. split; [apply alookup_aset_same | reflexivity].
      + eexists _, _. split; [apply alookup_put|]. cbn [lp_threads p_with_threads]. split; [apply alookup_aset_same | reflexivity].
    - unfold get_new_thread. rewrite Ht, El.
      destruct (add_thread s1 (lp_handle p) tid (rec_time origin s ts) false) as [s2 th].
      eexists _, _. split; [apply alookup_put|]. cbn [lp_threads p_with_threads]. split; [apply alookup_aset_same | reflexivity].
  Qed.

  (* ... and when the name actually changes, the profile entry of that thread shows it *)
  Lemma comm_thread_entry_name s pid tid name ts p th : WF s -> (tid =? pid) = false ->
    alookup pid (lprocs s) = Some p -> alookup tid (lp_threads p) = Some th ->
    (match lt_name th with Some n => n =? name | None => false end) = false ->
    exists e, nth_error (pthreads (step origin s (RComm pid tid name false ts))) (lt_handle th) = Some e /\ te_name e = Some name /\ te_tid e = tid.
  Proof.
    intros W Ht Hp Hl Hn. cbn [step]. rewrite Ht. unfold get_by_pid. rewrite Hp, Hl, Hn.
    pose proof (W _ _ (alookup_in _ _ _ Hp)) as [_ [_ C]]. destruct (C _ _ (alookup_in _ _ _ Hl)) as [e [H1 [H2 _]]].
    exists (t_set_name name e). unfold put_proc, with_lprocs. cbn [pthreads map_thread]. rewrite nth_error_upd_nth, Nat.eqb_refl, H1. cbn. auto.
  Qed.

  (* COMM (not exec) for the main thread: the process is called `name` *)
  Lemma comm_process_live_name s pid name ts :
    exists p, alookup pid (lprocs (step origin s (RComm pid pid name false ts))) = Some p /\ lp_name p = Some name.
  Proof.
    cbn [step]. rewrite N.eqb_refl. destruct (alookup pid (lprocs s)) as [p|] eqn:E.
    - destruct (lp_name p) as [n|] eqn:En.
      + destruct (n =? name) eqn:Enn.
        * apply N.eqb_eq in Enn. subst n. exists p. split; [exact E | exact En].
        * eexists. split; [apply alookup_put | reflexivity].
      + eexists. split; [apply alookup_put | reflexivity].
    - unfold get_new_process. rewrite E. destruct (add_process s (oname pid (Some name)) pid (rec_time origin s ts)) as [s1 ph].
      destruct (add_thread s1 ph pid (rec_time origin s ts) true) as [s2 th]. cbn [fst]. eexists. split; [cbn; apply alookup_aset_same | reflexivity].
  Qed.

  (* ... and when the name changes, the process entry shows it (the main thread is displayed under the process name) *)
  Lemma comm_process_entry_name s pid name ts p : WF s -> alookup pid (lprocs s) = Some p ->
    (match lp_name p with Some n => n =? name | None => false end) = false ->
    exists e, nth_error (pprocs (step origin s (RComm pid pid name false ts))) (lp_handle p) = Some e /\ pe_name e = NGiven name /\ pe_pid e = pid.
  Proof.
    intros W Hp Hn. cbn [step]. rewrite N.eqb_refl, Hp, Hn.
    pose proof (W _ _ (alookup_in _ _ _ Hp)) as [[e [H1 H2]] _].
    exists (p_set_name name e). unfold put_proc, with_lprocs. cbn [pprocs map_thread map_process]. rewrite nth_error_upd_nth, Nat.eqb_refl, H1. cbn. auto.
  Qed.

  (* FORK of a thread whose tid is new in a live process: a fresh entry, started at the FORK time, named like the forking thread *)
  Lemma fork_thread_entry s pid tid ptid ts p pt : WF s -> (tid =? pid) = false ->
    alookup pid (lprocs s) = Some p -> alookup tid (lp_threads p) = None ->
    (if ptid =? pid then Some (lp_main p) else alookup ptid (lp_threads p)) = Some pt ->
    let s' := step origin s (RFork pid pid tid ptid ts) in
    exists e, nth_error (pthreads s') (length (pthreads s)) = Some e /\ te_tid e = tid /\ te_start e = ts - origin /\ te_end e = None /\
              te_name e = lt_name pt /\ te_main e = false /\
              exists p' t, alookup pid (lprocs s') = Some p' /\ alookup tid (lp_threads p') = Some t /\ lt_handle t = length (pthreads s) /\ lt_name t = lt_name pt.
  Proof.
    intros W Ht Hp Hl Hpt. cbn [step]. unfold get_by_pid. rewrite Hp, N.eqb_refl. cbn [negb].
    unfold get_thread_by_tid. destruct (ptid =? pid) eqn:Ep.
    - inversion Hpt; subst pt. unfold get_new_thread. rewrite Ht, Hl.
      unfold add_thread. destruct (unique (used_tids s) tid) as [sfx u].
      destruct (lt_name (lp_main p)) as [n|] eqn:En; cbn [pthreads map_thread put_proc with_lprocs lprocs].
      + rewrite nth_error_upd_nth, Nat.eqb_refl. rewrite nth_error_app2 by lia. rewrite Nat.sub_diag. cbn.
        eexists. repeat split. eexists _, _. split; [apply alookup_aset_same|]. cbn. split; [apply alookup_aset_same | auto].
      + rewrite nth_error_app2 by lia. rewrite Nat.sub_diag. cbn.
        eexists. repeat split. eexists _, _. split; [apply alookup_aset_same|]. cbn. split; [apply alookup_aset_same | auto].
    - rewrite Hpt. unfold get_new_thread. rewrite Ht, Hl.
      unfold add_thread. destruct (unique (used_tids s) tid) as [sfx u].
      destruct (lt_name pt) as [n|] eqn:En; cbn [pthreads map_thread put_proc with_lprocs lprocs].
      + rewrite nth_error_upd_nth, Nat.eqb_refl. rewrite nth_error_app2 by lia. rewrite Nat.sub_diag. cbn.
        eexists. repeat split. eexists _, _. split; [apply alookup_aset_same|]. cbn. split; [apply alookup_aset_same | auto].
      + rewrite nth_error_app2 by lia. rewrite Nat.sub_diag. cbn.
        eexists. repeat split. eexists _, _. split; [apply alookup_aset_same|]. cbn. split; [apply alookup_aset_same | auto].
  Qed.

  (* EXIT of a live non-main thread: its entry ends at the EXIT time and the thread is no longer live *)
  Lemma exit_thread_entry s pid tid ts p th : WF s -> (tid =? pid) = false ->
    alookup pid (lprocs s) = Some p -> alookup tid (lp_threads p) = Some th ->
    let s' := step origin s (RExit pid tid ts) in
    (exists e, nth_error (pthreads s') (lt_handle th) = Some e /\ te_end e = Some (ts - origin) /\ te_tid e = tid) /\
    exists p', alookup pid (lprocs s') = Some p' /\ lp_threads p' = aremove tid (lp_threads p).
  Proof.
    intros W Ht Hp Hl. cbn [step]. rewrite Ht. unfold get_by_pid. rewrite Hp. unfold remove_thread. rewrite Hl.
    pose proof (W _ _ (alookup_in _ _ _ Hp)) as [_ [_ C]]. destruct (C _ _ (alookup_in _ _ _ Hl)) as [e [H1 [H2 _]]].
    split.
    - exists (t_set_end (conv origin ts) e). unfold put_proc, with_lprocs. cbn [pthreads map_thread]. rewrite nth_error_upd_nth, Nat.eqb_refl, H1. cbn. auto.
    - eexists. split; [apply alookup_put | reflexivity].
  Qed.

  (* EXIT of the main thread: the process entry and all its thread entries are no longer live (what F-C17 is about) *)
  Lemma exit_main_removes s pid ts p : alookup pid (lprocs s) = Some p ->
    lprocs (step origin s (RExit pid pid ts)) = aremove pid (lprocs s).
  Proof.
    intros Hp. cbn [step]. rewrite N.eqb_refl. unfold remove_process. rewrite Hp.
    destruct (fold_end_ext (lp_threads p) (conv origin ts) s) as [_ L]. cbn [lprocs map_process map_thread]. rewrite L. reflexivity.
  Qed.
End Effects.
