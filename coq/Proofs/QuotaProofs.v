From SV Require Import Model.Quota.
From Coq Require Import Lia ZifyBool ZifyN Permutation.
Open Scope N_scope.

(* ---- generic facts ---- *)

Lemma perm_filter {A} (f : A -> bool) l l' : Permutation l l' -> Permutation (filter f l) (filter f l').
Proof.
  induction 1; cbn.
  - constructor.
  - destruct (f x); [constructor|]; assumption.
  - destruct (f x), (f y); try reflexivity. apply perm_swap.
  - etransitivity; eassumption.
Qed.

Lemma total_perm l l' : Permutation l l' -> total l = total l'.
Proof. unfold total. induction 1; cbn [fold_right] in *; lia. Qed.

Lemma total_app a b : total (a ++ b) = total a + total b.
Proof. unfold total. induction a; cbn [fold_right app] in *; lia. Qed.

Lemma total_filter_le f l : total (filter f l) <= total l.
Proof. unfold total. induction l as [|x t IH]; cbn [filter fold_right] in *; [lia|]. destruct (f x); cbn [fold_right]; lia. Qed.

Lemma filter_all_true {A} (f : A -> bool) l : (forall x, f x = true) -> filter f l = l.
Proof. intros H. induction l as [|x t IH]; cbn; [reflexivity|]. rewrite H, IH. reflexivity. Qed.

Lemma filter_filter {A} (f g : A -> bool) l : filter f (filter g l) = filter (fun x => g x && f x) l.
Proof. induction l as [|x t IH]; cbn; [reflexivity|]. destruct (g x); cbn; [destruct (f x)|]; rewrite ?IH; reflexivity. Qed.

Lemma NoDup_snoc {A} (l : list A) x : NoDup l -> ~ In x l -> NoDup (l ++ [x]).
Proof.
  induction 1 as [|y t Hy Ht IH]; intros Hx; cbn; [constructor; [intros []|constructor]|].
  constructor.
  - intros Hin. apply in_app_or in Hin. destruct Hin as [Hin|[->|[]]]; [contradiction|]. apply Hx. left. reflexivity.
  - apply IH. intros Hin. apply Hx. right. exact Hin.
Qed.

(* ---- LRU order ---- *)

Lemma lru_insert_perm x l : Permutation (lru_insert x l) (x :: l).
Proof.
  induction l as [|y t IH]; cbn [lru_insert]; [reflexivity|].
  destruct (r_age y <=? r_age x); [reflexivity|]. rewrite IH. apply perm_swap.
Qed.

Lemma lru_order_perm l : Permutation (lru_order l) l.
Proof. induction l as [|x t IH]; cbn [lru_order]; [reflexivity|]. rewrite lru_insert_perm. constructor. exact IH. Qed.

(* oldest first: ages are non-increasing along the list *)
Fixpoint oldest_first (l : list row) : Prop :=
  match l with
  | [] => True
  | x :: t => (match t with [] => True | y :: _ => r_age y <= r_age x end) /\ oldest_first t
  end.

Lemma lru_insert_sorted x l : oldest_first l -> oldest_first (lru_insert x l).
Proof.
  induction l as [|y t IH]; intros H; cbn [lru_insert].
  - cbn. auto.
  - destruct (r_age y <=? r_age x) eqn:C.
    + cbn [oldest_first]. split; [lia|exact H].
    + cbn [oldest_first] in H. destruct H as [H1 H2]. specialize (IH H2).
      cbn [oldest_first]. split; [|exact IH].
      destruct t as [|z t']; cbn [lru_insert]; [lia|].
      destruct (r_age z <=? r_age x); lia.
Qed.

Lemma lru_order_sorted l : oldest_first (lru_order l).
Proof. induction l as [|x t IH]; cbn [lru_order]; [exact I|]. apply lru_insert_sorted. exact IH. Qed.

(* ---- take_until: the shortest prefix that covers the excess ---- *)

Lemma take_until_prefix e l : exists rest, l = take_until e l ++ rest.
Proof.
  revert e. induction l as [|x t IH]; intros e; cbn [take_until]; [exists []; reflexivity|].
  destruct (e - r_size x =? 0).
  - exists t. reflexivity.
  - destruct (IH (e - r_size x)) as [rest Hr]. exists rest. cbn [app]. f_equal. exact Hr.
Qed.

Lemma take_until_covers e l : 0 < e -> e <= total (take_until e l) \/ take_until e l = l.
Proof.
  revert e. induction l as [|x t IH]; intros e He; cbn [take_until]; [right; reflexivity|].
  destruct (e - r_size x =? 0) eqn:C.
  - left. unfold total. cbn [fold_right]. lia.
  - destruct (IH (e - r_size x) ltac:(lia)) as [H|H].
    + left. unfold total in *. cbn [fold_right]. lia.
    + right. f_equal. exact H.
Qed.

Lemma take_until_minimal e l p x : 0 < e -> take_until e l = p ++ [x] -> total p < e.
Proof.
  revert e p. induction l as [|y t IH]; intros e p He H; cbn [take_until] in H.
  - destruct p; discriminate.
  - destruct (e - r_size y =? 0) eqn:C.
    + destruct p as [|p0 p']; [unfold total; cbn; lia|]. destruct p'; discriminate.
    + destruct p as [|p0 p'].
      * unfold total. cbn. lia.
      * cbn [app] in H. inversion H as [[Hy Ht]]. subst p0.
        specialize (IH (e - r_size y) p' ltac:(lia) Ht). unfold total in *. cbn [fold_right]. lia.
Qed.

(* ---- rows with unique keys ---- *)

Definition keys (l : list row) : list N := map r_key l.
Definition UniqueKeys (l : list row) : Prop := NoDup (keys l).

Lemma del_row_keys l k : keys (del_row l k) = filter (fun x => negb (x =? k)) (keys l).
Proof. unfold keys, del_row. induction l as [|x t IH]; cbn; [reflexivity|]. destruct (r_key x =? k); cbn; congruence. Qed.

Lemma NoDup_filter {A} (f : A -> bool) l : NoDup l -> NoDup (filter f l).
Proof.
  induction 1 as [|x t Hx Ht IH]; cbn; [constructor|]. destruct (f x); [|exact IH].
  constructor; [|exact IH]. intros Hin. apply filter_In in Hin. tauto.
Qed.

Lemma unique_del l k : UniqueKeys l -> UniqueKeys (del_row l k).
Proof. unfold UniqueKeys. rewrite del_row_keys. apply NoDup_filter. Qed.

Lemma upsert_keys l r : keys (upsert l r) = if existsb (N.eqb (r_key r)) (keys l) then keys l else keys l ++ [r_key r].
Proof.
  unfold keys. induction l as [|x t IH]; cbn [upsert map existsb]; [reflexivity|].
  destruct (r_key x =? r_key r) eqn:C.
  - replace (r_key r =? r_key x) with true by lia. cbn [orb map]. f_equal. lia.
  - replace (r_key r =? r_key x) with false by lia. cbn [orb map]. rewrite IH.
    destruct (existsb (N.eqb (r_key r)) (map r_key t)); reflexivity.
Qed.

Lemma unique_upsert l r : UniqueKeys l -> UniqueKeys (upsert l r).
Proof.
  unfold UniqueKeys. rewrite upsert_keys. intros H.
  destruct (existsb (N.eqb (r_key r)) (keys l)) eqn:E; [exact H|].
  apply NoDup_snoc; [exact H|]. intros Hin.
  assert (existsb (N.eqb (r_key r)) (keys l) = true).
  { apply existsb_exists. exists (r_key r). split; [exact Hin|apply N.eqb_refl]. }
  congruence.
Qed.

Lemma set_age_keys l k a : keys (set_age l k a) = keys l.
Proof. unfold keys, set_age. rewrite map_map. apply map_ext. intros x. destruct (r_key x =? k); reflexivity. Qed.

(* deleting a list of files from the rows *)
Definition rows_minus (l fs : list row) : list row :=
  filter (fun x => negb (existsb (N.eqb (r_key x)) (keys fs))) l.

Lemma delete_files_rows st fs :
  rows (delete_files st fs) = rows_minus (rows st) fs /\
  disk_out (delete_files st fs) = disk_out st /\ max_size (delete_files st fs) = max_size st /\
  max_age2 (delete_files st fs) = max_age2 st /\
  disk_in (delete_files st fs) = filter (fun k => negb (existsb (N.eqb k) (keys fs))) (disk_in st).
Proof.
  unfold delete_files. revert st. induction fs as [|f t IH]; intros st; cbn [fold_left].
  - unfold rows_minus. cbn [keys map existsb negb]. rewrite !filter_all_true by reflexivity. repeat split; reflexivity.
  - destruct (IH (mkSt (del_row (rows st) (r_key f)) (del_key (disk_in st) (r_key f)) (disk_out st) (max_size st) (max_age2 st)))
      as [H1 [H2 [H3 [H4 H5]]]].
    rewrite H1, H2, H3, H4, H5. cbn [rows disk_in disk_out max_size max_age2].
    repeat split; try reflexivity.
    + unfold rows_minus, del_row. rewrite filter_filter. apply filter_ext. intros x.
      cbn [keys map existsb]. destruct (r_key x =? r_key f); cbn; reflexivity.
    + unfold del_key. rewrite filter_filter. apply filter_ext. intros x.
      cbn [keys map existsb]. destruct (x =? r_key f); cbn; reflexivity.
Qed.

(* ---- removing selected files from rows with unique keys ---- *)

Lemma NoDup_app_disjoint {A} (a b : list A) : NoDup (a ++ b) -> forall x, In x b -> ~ In x a.
Proof.
  induction a as [|y t IH]; intros H x Hb Ha; [contradiction|].
  cbn [app] in H. inversion H as [|? ? Hy Ht]; subst.
  destruct Ha as [->|Ha]; [apply Hy; apply in_or_app; right; exact Hb|]. exact (IH Ht x Hb Ha).
Qed.

Lemma existsb_key_in k ks : existsb (N.eqb k) ks = true <-> In k ks.
Proof.
  rewrite existsb_exists. split.
  - intros [x [Hx He]]. apply N.eqb_eq in He. subst. exact Hx.
  - intros H. exists k. split; [exact H|apply N.eqb_refl].
Qed.

Lemma rows_minus_self_prefix fs rest :
  UniqueKeys (fs ++ rest) -> rows_minus (fs ++ rest) fs = rest.
Proof.
  unfold UniqueKeys, rows_minus. intros Hnd. rewrite filter_app.
  assert (H1 : filter (fun x => negb (existsb (N.eqb (r_key x)) (keys fs))) fs = []).
  { set (ks := keys fs). assert (Hin : forall x, In x fs -> In (r_key x) ks) by (intros x Hx; apply in_map; exact Hx).
    clearbody ks. clear Hnd. induction fs as [|y t IH]; [reflexivity|]. cbn [filter].
    assert (E : existsb (N.eqb (r_key y)) ks = true) by (apply existsb_key_in; apply Hin; left; reflexivity).
    rewrite E. cbn [negb]. apply IH. intros x Hx. apply Hin. right. exact Hx. }
  rewrite H1. cbn [app].
  unfold keys in Hnd. rewrite map_app in Hnd.
  assert (H2 : forall x, In x rest -> existsb (N.eqb (r_key x)) (keys fs) = false).
  { intros x Hx. destruct (existsb (N.eqb (r_key x)) (keys fs)) eqn:E; [|reflexivity]. exfalso.
    apply existsb_key_in in E. apply (NoDup_app_disjoint _ _ Hnd (r_key x)); [apply in_map; exact Hx|exact E]. }
  clear H1 Hnd. induction rest as [|y t IH]; [reflexivity|]. cbn [filter].
  rewrite (H2 y (or_introl eq_refl)). cbn [negb]. f_equal. apply IH. intros x Hx. apply H2. right. exact Hx.
Qed.

Lemma unique_perm l l' : Permutation l l' -> UniqueKeys l -> UniqueKeys l'.
Proof. unfold UniqueKeys, keys. intros Hp Hn. eapply Permutation_NoDup; [apply Permutation_map; exact Hp|exact Hn]. Qed.

Lemma rows_minus_perm l l' fs : Permutation l l' -> Permutation (rows_minus l fs) (rows_minus l' fs).
Proof. apply perm_filter. Qed.

Lemma rows_minus_nil l : rows_minus l [] = l.
Proof. unfold rows_minus. apply filter_all_true. reflexivity. Qed.

Lemma unique_filter f l : UniqueKeys l -> UniqueKeys (filter f l).
Proof. unfold UniqueKeys, keys. intros H. induction l as [|x t IH]; cbn [filter map]; [constructor|].
  inversion H as [|? ? Hx Ht]; subst. destruct (f x); [|apply IH; exact Ht].
  cbn [map]. constructor; [|apply IH; exact Ht]. intros Hin. apply Hx. apply in_map_iff in Hin. destruct Hin as [y [Hy Hyin]].
  apply filter_In in Hyin. apply in_map_iff. exists y. tauto.
Qed.

Lemma unique_rows_minus l fs : UniqueKeys l -> UniqueKeys (rows_minus l fs).
Proof. unfold UniqueKeys, rows_minus, keys. intros H. induction l as [|x t IH]; cbn [filter map]; [constructor|].
  inversion H as [|? ? Hx Ht]; subst. destruct (negb _); [|apply IH; exact Ht].
  cbn [map]. constructor; [|apply IH; exact Ht]. intros Hin. apply Hx. apply in_map_iff in Hin. destruct Hin as [y [Hy Hyin]].
  apply filter_In in Hyin. apply in_map_iff. exists y. tauto.
Qed.

(* the size pass *)
Theorem size_pass_bound l m : UniqueKeys l -> total (rows_minus l (files_for_size l m)) <= m.
Proof.
  intros Hu. unfold files_for_size. destruct (total l <? m) eqn:C1.
  - rewrite rows_minus_nil. lia.
  - destruct (total l - m =? 0) eqn:C2; [rewrite rows_minus_nil; lia|].
    set (e := total l - m) in *.
    destruct (take_until_prefix e (lru_order l)) as [rest Hr].
    pose proof (lru_order_perm l) as Hp.
    rewrite (total_perm _ _ (rows_minus_perm _ _ (take_until e (lru_order l)) (Permutation_sym Hp))).
    assert (Hu' : UniqueKeys (lru_order l)) by (eapply unique_perm; [apply Permutation_sym; exact Hp|exact Hu]).
    rewrite Hr at 1. rewrite Hr in Hu'. rewrite (rows_minus_self_prefix _ _ Hu').
    assert (Ht : total l = total (take_until e (lru_order l)) + total rest).
    { rewrite <- total_app, <- Hr. symmetry. apply total_perm. exact Hp. }
    destruct (take_until_covers e (lru_order l) ltac:(lia)) as [Hc|Hc].
    + lia.
    + rewrite Hc in Hr. assert (rest = []).
      { apply (f_equal (@length row)) in Hr. rewrite app_length in Hr. destruct rest; [reflexivity|cbn in Hr; lia]. }
      subst rest. unfold total at 1. cbn. lia.
Qed.

Theorem size_pass_nothing_when_fits l m : total l <= m -> files_for_size l m = [].
Proof.
  intros H. unfold files_for_size. destruct (total l <? m) eqn:C1; [reflexivity|].
  replace (total l - m =? 0) with true by lia. reflexivity.
Qed.

(* least-recently-used first, and no more than necessary *)
Theorem size_pass_lru_minimal l m :
  m < total l ->
  let fs := files_for_size l m in
  exists rest, lru_order l = fs ++ rest /\ Permutation (lru_order l) l /\ oldest_first (lru_order l) /\
               (forall p x, fs = p ++ [x] -> total p < total l - m) /\
               (total l - m <= total fs \/ rest = []).
Proof.
  intros H fs. subst fs. unfold files_for_size.
  replace (total l <? m) with false by lia. replace (total l - m =? 0) with false by lia.
  destruct (take_until_prefix (total l - m) (lru_order l)) as [rest Hr]. exists rest.
  split; [exact Hr|]. split; [apply lru_order_perm|]. split; [apply lru_order_sorted|]. split.
  - intros p x Hp. eapply take_until_minimal; [lia|exact Hp].
  - destruct (take_until_covers (total l - m) (lru_order l) ltac:(lia)) as [Hc|Hc]; [left; exact Hc|right].
    rewrite Hc in Hr. apply (f_equal (@length row)) in Hr. rewrite app_length in Hr. destruct rest; [reflexivity|cbn in Hr; lia].
Qed.

(* the age pass *)
Lemma rows_minus_filter l f : UniqueKeys l -> rows_minus l (filter f l) = filter (fun x => negb (f x)) l.
Proof.
  intros Hu. unfold rows_minus.
  assert (H : forall x, In x l -> existsb (N.eqb (r_key x)) (keys (filter f l)) = f x).
  { intros x Hx. destruct (f x) eqn:E.
    - apply existsb_key_in. apply in_map. apply filter_In. tauto.
    - destruct (existsb (N.eqb (r_key x)) (keys (filter f l))) eqn:E2; [|reflexivity]. exfalso.
      apply existsb_key_in in E2. unfold keys in E2. apply in_map_iff in E2. destruct E2 as [y [Hk Hy]].
      apply filter_In in Hy. destruct Hy as [Hy Hfy].
      (* x and y have the same key, both in l, keys unique -> x = y *)
      assert (x = y).
      { clear -Hu Hx Hy Hk. unfold UniqueKeys, keys in Hu. induction l as [|z t IH]; [contradiction|].
        cbn [map] in Hu. inversion Hu as [|? ? Hz Ht]; subst.
        destruct Hx as [->|Hx], Hy as [->|Hy]; auto.
        - exfalso. apply Hz. rewrite <- Hk. apply in_map. exact Hy.
        - exfalso. apply Hz. rewrite Hk. apply in_map. exact Hx. }
      subst y. congruence. }
  clear Hu. set (ks := keys (filter f l)) in *. clearbody ks.
  induction l as [|z t IH]; [reflexivity|]. cbn [filter].
  rewrite (H z (or_introl eq_refl)). rewrite IH; [reflexivity|]. intros x Hx. apply H. right. exact Hx.
Qed.

(* ---- evict as a whole ---- *)

Definition size_stage (st : state) : state :=
  match max_size st with Some m => delete_files st (files_for_size (rows st) m) | None => st end.

Lemma evict_unfold st :
  evict st = match max_age2 (size_stage st) with
             | Some a => delete_files (size_stage st) (files_for_age (rows (size_stage st)) a)
             | None => size_stage st end.
Proof. reflexivity. Qed.

Lemma size_stage_facts st :
  UniqueKeys (rows st) ->
  UniqueKeys (rows (size_stage st)) /\ max_size (size_stage st) = max_size st /\ max_age2 (size_stage st) = max_age2 st /\
  disk_out (size_stage st) = disk_out st /\
  (forall m, max_size st = Some m -> total (rows (size_stage st)) <= m) /\
  total (rows (size_stage st)) <= total (rows st).
Proof.
  intros Hu. unfold size_stage. destruct (max_size st) as [m|] eqn:E.
  - destruct (delete_files_rows st (files_for_size (rows st) m)) as [H1 [H2 [H3 [H4 H5]]]].
    rewrite H1, H2, H3, H4. split; [apply unique_rows_minus; exact Hu|]. repeat split; auto.
    + intros m' Hm. inversion Hm; subst. apply size_pass_bound. exact Hu.
    + apply total_filter_le.
  - repeat split; auto. intros m Hm. discriminate. lia.
Qed.

Theorem evict_facts st :
  UniqueKeys (rows st) ->
  let st' := evict st in
  UniqueKeys (rows st') /\ max_size st' = max_size st /\ max_age2 st' = max_age2 st /\ disk_out st' = disk_out st /\
  (forall m, max_size st = Some m -> total (rows st') <= m) /\
  (forall a, max_age2 st = Some a -> forall x, In x (rows st') -> 2 * r_age x <= a) /\
  (forall x, In x (rows st') -> In x (rows st)).
Proof.
  intros Hu st'. subst st'. rewrite evict_unfold.
  destruct (size_stage_facts st Hu) as [Hu1 [Hm1 [Ha1 [Ho1 [Hb1 Hle1]]]]].
  assert (Hsub1 : forall x, In x (rows (size_stage st)) -> In x (rows st)).
  { unfold size_stage. destruct (max_size st) as [m|]; [|auto].
    destruct (delete_files_rows st (files_for_size (rows st) m)) as [H1 _]. rewrite H1.
    intros x Hx. apply filter_In in Hx. tauto. }
  rewrite Ha1. destruct (max_age2 st) as [a|] eqn:Ea.
  - destruct (delete_files_rows (size_stage st) (files_for_age (rows (size_stage st)) a)) as [H1 [H2 [H3 [H4 H5]]]].
    rewrite H1, H2, H3, H4. unfold files_for_age. rewrite (rows_minus_filter _ _ Hu1).
    split; [apply unique_filter; exact Hu1|].
    split; [exact Hm1|]. split; [exact Ha1|]. split; [exact Ho1|]. split; [|split].
    + intros m Hm. specialize (Hb1 m Hm). pose proof (total_filter_le (fun x => negb (a <? 2 * r_age x)) (rows (size_stage st))). lia.
    + intros a' Ha' x Hx. inversion Ha'; subst. apply filter_In in Hx. lia.
    + intros x Hx. apply filter_In in Hx. apply Hsub1. tauto.
  - split; [exact Hu1|]. split; [exact Hm1|]. split; [exact Ha1|]. split; [exact Ho1|]. split; [exact Hb1|]. split; [discriminate|exact Hsub1].
Qed.

(* a pass that directly follows another removes nothing *)
Theorem evict_idempotent st : UniqueKeys (rows st) -> evict (evict st) = evict st.
Proof.
  intros Hu. destruct (evict_facts st Hu) as [Hu' [Hm [Ha [_ [Hb [Hage _]]]]]].
  set (s1 := evict st) in *.
  rewrite (evict_unfold s1).
  assert (Hs : size_stage s1 = s1).
  { unfold size_stage. rewrite Hm. destruct (max_size st) as [m|] eqn:E; [|reflexivity].
    rewrite (size_pass_nothing_when_fits _ _ (Hb m eq_refl)). reflexivity. }
  rewrite Hs, Ha. destruct (max_age2 st) as [a|] eqn:E; [|reflexivity].
  assert (Hnone : files_for_age (rows s1) a = []).
  { unfold files_for_age. specialize (Hage a eq_refl).
    assert (G : forall l, (forall x, In x l -> 2 * r_age x <= a) -> filter (fun x => a <? 2 * r_age x) l = []).
    { induction l as [|x t IH]; intros Hl; [reflexivity|]. cbn [filter].
      replace (a <? 2 * r_age x) with false by (specialize (Hl x (or_introl eq_refl)); lia).
      apply IH. intros y Hy. apply Hl. right. exact Hy. }
    apply G. exact Hage. }
  rewrite Hnone. reflexivity.
Qed.

(* bookkeeping: whatever was selected for deletion is gone from the rows and from the disk *)
Theorem delete_files_bookkeeping st fs f :
  In f fs -> ~ In (r_key f) (keys (rows (delete_files st fs))) /\ ~ In (r_key f) (disk_in (delete_files st fs)).
Proof.
  intros Hf. destruct (delete_files_rows st fs) as [H1 [_ [_ [_ H5]]]]. rewrite H1, H5.
  assert (E : existsb (N.eqb (r_key f)) (keys fs) = true) by (apply existsb_key_in; apply in_map; exact Hf).
  split.
  - intros Hin. unfold keys, rows_minus in Hin. apply in_map_iff in Hin. destruct Hin as [y [Hk Hy]].
    apply filter_In in Hy. destruct Hy as [_ Hy]. rewrite Hk, E in Hy. discriminate.
  - intros Hin. apply filter_In in Hin. destruct Hin as [_ Hy]. rewrite E in Hy. discriminate.
Qed.

(* ---- reachable states ---- *)

Lemma age_all_keys l : keys (age_all l) = keys l.
Proof. unfold keys, age_all. rewrite map_map. reflexivity. Qed.

Lemma total_age_all l : total (age_all l) = total l.
Proof. induction l as [|x l IH]; [reflexivity|]. change (r_size x + total (age_all l) = r_size x + total l). rewrite IH. reflexivity. Qed.

Lemma step_unique st o : UniqueKeys (rows st) -> UniqueKeys (rows (step st o)).
Proof.
  intros Hu. destruct o; cbn [step rows]; auto.
  - apply unique_upsert. exact Hu.
  - unfold UniqueKeys. rewrite set_age_keys. exact Hu.
  - apply unique_del. exact Hu.
  - apply (evict_facts st Hu).
  - unfold UniqueKeys. rewrite age_all_keys. exact Hu.
Qed.

(* the age limit is a matter of the clock alone: when time passes between two passes with no activity, no settings change and no
   restart in between, the second pass still leaves no file older than the maximum age - and it removes exactly the rows that have
   aged past it (the size stage has nothing to do: the total still fits) *)
Theorem evict_after_tick st :
  UniqueKeys (rows st) ->
  let s1 := evict st in
  let s2 := evict (step s1 Tick) in
  (forall a, max_age2 st = Some a -> forall x, In x (rows s2) -> 2 * r_age x <= a) /\
  (forall a, max_age2 st = Some a -> rows s2 = filter (fun x => negb (a <? 2 * r_age x)) (age_all (rows s1))) /\
  (max_age2 st = None -> rows s2 = age_all (rows s1)).
Proof.
  intros Hu s1 s2.
  destruct (evict_facts st Hu) as [Hu1 [Hm1 [Ha1 [_ [Hb1 _]]]]]. fold s1 in Hu1, Hm1, Ha1, Hb1.
  set (t := step s1 Tick) in *.
  assert (Hut : UniqueKeys (rows t)) by (apply step_unique; exact Hu1).
  assert (Hmt : max_size t = max_size st) by exact Hm1.
  assert (Hat : max_age2 t = max_age2 st) by exact Ha1.
  assert (Hrt : rows t = age_all (rows s1)) by reflexivity.
  assert (Htot : total (rows t) = total (rows s1)).
  { rewrite Hrt. apply total_age_all. }
  destruct (evict_facts t Hut) as [_ [_ [_ [_ [_ [Hage2 _]]]]]]. fold s2 in Hage2.
  assert (Hs : size_stage t = t).
  { unfold size_stage. rewrite Hmt. destruct (max_size st) as [m|] eqn:E; [|reflexivity].
    rewrite (size_pass_nothing_when_fits (rows t) m); [reflexivity|]. rewrite Htot. apply Hb1. reflexivity. }
  split; [|split].
  - intros a Ha. apply Hage2. rewrite Hat. exact Ha.
  - intros a Ha. unfold s2. rewrite evict_unfold, Hs, Hat, Ha.
    destruct (delete_files_rows t (files_for_age (rows t) a)) as [H1 _]. rewrite H1.
    unfold files_for_age. rewrite (rows_minus_filter _ _ Hut). rewrite Hrt. reflexivity.
  - intros Ha. unfold s2. rewrite evict_unfold, Hs, Hat, Ha. exact Hrt.
Qed.

Lemma reachable_unique ops : forall st, UniqueKeys (rows st) -> UniqueKeys (rows (fold_left step ops st)).
Proof. induction ops as [|o r IH]; intros st H; [exact H|]. cbn [fold_left]. apply IH. apply step_unique. exact H. Qed.

Lemma init_unique : UniqueKeys (rows init).
Proof. constructor. Qed.

(* the managed directory boundary: nothing outside is ever deleted, and outside notifications never create rows *)
Lemma step_outside st o :
  match o with CreateOut _ _ _ => True | _ => disk_out (step st o) = disk_out st end /\
  match o with CreateOut _ _ _ | AccessOut _ _ => rows (step st o) = rows st | _ => True end.
Proof.
  destruct o; cbn [step disk_out rows]; auto.
  split; [|exact I]. unfold evict.
  destruct (max_size st) as [m|].
  - destruct (delete_files_rows st (files_for_size (rows st) m)) as [_ [H2 [_ [H4 _]]]]. rewrite H4.
    destruct (max_age2 st) as [a|]; [|exact H2].
    destruct (delete_files_rows (delete_files st (files_for_size (rows st) m)) (files_for_age (rows (delete_files st (files_for_size (rows st) m))) a)) as [_ [H2' _]].
    rewrite H2'. exact H2.
  - destruct (max_age2 st) as [a|]; [|reflexivity].
    destruct (delete_files_rows st (files_for_age (rows st) a)) as [_ [H2 _]]. exact H2.
Qed.
