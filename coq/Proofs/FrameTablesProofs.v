From SV Require Import Model.ProfileTables Proofs.ProfileTablesProofs Model.FrameTables.
From Coq Require Import NArith Lia.

Lemma onat_eqb_spec a b : onat_eqb a b = true <-> a = b.
Proof. destruct a, b; cbn; rewrite ?Nat.eqb_eq; split; intros H; try discriminate; try reflexivity; [subst; reflexivity | inversion H; reflexivity]. Qed.
Lemma oN_eqb_spec a b : oN_eqb a b = true <-> a = b.
Proof. destruct a, b; cbn; rewrite ?N.eqb_eq; split; intros H; try discriminate; try reflexivity; [subst; reflexivity | inversion H; reflexivity]. Qed.
Lemma natinfo_eqb_spec a b : natinfo_eqb a b = true <-> a = b.
Proof.
  destruct a, b. unfold natinfo_eqb. cbn. rewrite !andb_true_iff, Nat.eqb_eq, !N.eqb_eq, onat_eqb_spec.
  split; [intros [[[-> ->] ->] ->]; reflexivity | intros H; inversion H; auto].
Qed.
Lemma fkey_eqb_spec a b : fkey_eqb a b = true <-> a = b.
Proof.
  destruct a as [n v f l c [s1 s2] fl], b as [n' v' f' l' c' [s1' s2'] fl']. unfold fkey_eqb. cbn.
  rewrite !andb_true_iff, !Nat.eqb_eq, onat_eqb_spec, !oN_eqb_spec, N.eqb_eq.
  split.
  - intros [[[[[[[-> Hv] ->] ->] ->] ->] ->] ->]. destruct v as [x|], v' as [y|]; try discriminate; [apply natinfo_eqb_spec in Hv; subst|]; reflexivity.
  - intros H. inversion H; subst. repeat split. destruct v' as [y|]; [apply natinfo_eqb_spec|]; reflexivity.
Qed.
Lemma funckey_eqb_spec a b : funckey_eqb a b = true <-> a = b.
Proof.
  destruct a, b. unfold funckey_eqb. cbn. rewrite !andb_true_iff, Nat.eqb_eq, !onat_eqb_spec, N.eqb_eq.
  split; [intros [[[-> ->] ->] ->]; reflexivity | intros H; inversion H; auto].
Qed.
Lemma ns_key_eqb_spec a b : ns_key_eqb a b = true <-> a = b.
Proof. destruct a, b. unfold ns_key_eqb. cbn [fst snd]. rewrite andb_true_iff, Nat.eqb_eq, N.eqb_eq. split; [intros [-> ->]; reflexivity | intros H; inversion H; auto]. Qed.
Lemma nat_eqb_spec a b : Nat.eqb a b = true <-> a = b.
Proof. apply Nat.eqb_eq. Qed.
Lemma n_eqb_spec a b : N.eqb a b = true <-> a = b.
Proof. apply N.eqb_eq. Qed.

Lemma index_of_lt {K} (eqb : K -> K -> bool) (H : forall a b, eqb a b = true <-> a = b) k l i : index_of eqb k l = Some i -> i < length l.
Proof. intros E. apply nth_error_Some. rewrite (index_of_some eqb H _ _ _ E). discriminate. Qed.

(* t' extends t: every table only grows *)
Record grows (t t' : ttab) : Prop := mkGrows {
  g_strings : length (tt_strings t) <= length (tt_strings t');
  g_res : length (tt_res_lib t) <= length (tt_res_lib t');
  g_funcs : length (tt_funcs t) <= length (tt_funcs t');
  g_ns : length (tt_ns t) <= length (tt_ns t') }.
Lemma grows_refl t : grows t t.
Proof. constructor; lia. Qed.
Lemma grows_trans a b c : grows a b -> grows b c -> grows a c.
Proof. intros [A1 A2 A3 A4] [B1 B2 B3 B4]. constructor; lia. Qed.

Lemma wf_more_strings n t ss : tt_wf n t -> length (tt_strings t) <= length ss ->
  tt_wf n (mkTT ss (tt_res_lib t) (tt_res_name t) (tt_funcs t) (tt_func_res t) (tt_frames t) (tt_frame_func t) (tt_ns t) (tt_ns_name t)).
Proof.
  intros W L. constructor; cbn [tt_strings tt_res_lib tt_res_name tt_funcs tt_func_res tt_frames tt_frame_func tt_ns tt_ns_name].
  - exact (w_res_len n t W).
  - exact (w_func_len n t W).
  - exact (w_frame_len n t W).
  - exact (w_ns_len n t W).
  - exact (w_res_lib n t W).
  - intros x Hx. pose proof (w_res_name n t W x Hx). lia.
  - intros x Hx. pose proof (w_func_name n t W x Hx). lia.
  - intros x f Hx Hf. pose proof (w_func_file n t W x f Hx Hf). lia.
  - exact (w_func_res n t W).
  - intros x Hx. pose proof (w_frame_name n t W x Hx). lia.
  - exact (w_frame_func n t W).
  - exact (w_ns_lib n t W).
  - intros x Hx. pose proof (w_ns_name n t W x Hx). lia.
  - exact (w_frame_ns n t W).
Qed.

Lemma intern_string_wf n t s : tt_wf n t ->
  tt_wf n (snd (intern_string t s)) /\ fst (intern_string t s) < length (tt_strings (snd (intern_string t s))) /\ grows t (snd (intern_string t s)) /\
  tt_frames (snd (intern_string t s)) = tt_frames t /\ tt_ns (snd (intern_string t s)) = tt_ns t /\ tt_ns_name (snd (intern_string t s)) = tt_ns_name t /\
  tt_res_lib (snd (intern_string t s)) = tt_res_lib t /\ tt_funcs (snd (intern_string t s)) = tt_funcs t.
Proof.
  intros W. unfold intern_string. destruct (intern N.eqb (tt_strings t) s) as [i l] eqn:E. cbn [fst snd tt_strings tt_frames tt_ns tt_ns_name tt_res_lib tt_funcs].
  destruct (intern_spec N.eqb n_eqb_spec _ _ _ _ E) as [H1 [[ext H2] _]].
  assert (L : length (tt_strings t) <= length l) by (subst l; rewrite app_length; lia).
  split; [apply wf_more_strings; assumption|]. split; [apply nth_error_Some; congruence|]. split; [constructor; cbn; lia|]. repeat split; reflexivity.
Qed.

Lemma resource_for_lib_wf n t lib libname : tt_wf n t -> lib < n ->
  tt_wf n (snd (resource_for_lib t lib libname)) /\ fst (resource_for_lib t lib libname) < length (tt_res_lib (snd (resource_for_lib t lib libname))) /\
  grows t (snd (resource_for_lib t lib libname)) /\ tt_frames (snd (resource_for_lib t lib libname)) = tt_frames t /\
  tt_funcs (snd (resource_for_lib t lib libname)) = tt_funcs t /\ tt_ns (snd (resource_for_lib t lib libname)) = tt_ns t.
Proof.
  intros W Hl. unfold resource_for_lib. destruct (index_of Nat.eqb lib (tt_res_lib t)) as [r|] eqn:E.
  - cbn [fst snd]. split; [exact W|]. split; [eapply index_of_lt; [apply nat_eqb_spec | exact E]|]. split; [apply grows_refl | auto].
  - destruct (intern_string t libname) as [nm t1] eqn:E1.
    pose proof (intern_string_wf n t libname W) as [W1 [I1 [G1 [Fr1 [Ns1 [Nn1 [R1 F1]]]]]]]. rewrite E1 in *. cbn [fst snd] in *.
    cbn [fst snd tt_res_lib tt_frames tt_funcs tt_ns].
    split; [|split; [rewrite app_length; cbn; lia | split; [destruct G1; constructor; cbn [tt_strings tt_res_lib tt_funcs tt_ns]; rewrite ?app_length; lia | auto]]].
    constructor; cbn [tt_strings tt_res_lib tt_res_name tt_funcs tt_func_res tt_frames tt_frame_func tt_ns tt_ns_name].
    + rewrite !app_length, (w_res_len n t1 W1). reflexivity.
    + exact (w_func_len n t1 W1).
    + exact (w_frame_len n t1 W1).
    + exact (w_ns_len n t1 W1).
    + intros l Hin. apply in_app_or in Hin. destruct Hin as [Hin|[<-|[]]]; [exact (w_res_lib n t1 W1 l Hin) | exact Hl].
    + intros x Hin. apply in_app_or in Hin. destruct Hin as [Hin|[<-|[]]]; [exact (w_res_name n t1 W1 x Hin) | exact I1].
    + exact (w_func_name n t1 W1).
    + exact (w_func_file n t1 W1).
    + intros r Hin. pose proof (w_func_res n t1 W1 r Hin). rewrite app_length. lia.
    + exact (w_frame_name n t1 W1).
    + exact (w_frame_func n t1 W1).
    + exact (w_ns_lib n t1 W1).
    + exact (w_ns_name n t1 W1).
    + exact (w_frame_ns n t1 W1).
Qed.

Lemma func_for_wf n t k libname : tt_wf n t -> fu_name k < length (tt_strings t) -> (forall f, fu_file k = Some f -> f < length (tt_strings t)) ->
  (forall l, fu_lib k = Some l -> l < n) ->
  tt_wf n (snd (func_for t k libname)) /\ fst (func_for t k libname) < length (tt_funcs (snd (func_for t k libname))) /\
  grows t (snd (func_for t k libname)) /\ tt_frames (snd (func_for t k libname)) = tt_frames t /\ tt_ns (snd (func_for t k libname)) = tt_ns t.
Proof.
  intros W Hk Hf Hl. unfold func_for. destruct (index_of funckey_eqb k (tt_funcs t)) as [i|] eqn:E.
  - cbn [fst snd]. split; [exact W|]. split; [eapply index_of_lt; [apply funckey_eqb_spec | exact E]|]. split; [apply grows_refl | auto].
  - assert (Step : exists res t1, (match fu_lib k with Some lib => let '(r, t') := resource_for_lib t lib libname in (Some r, t') | None => (None, t) end) = (res, t1) /\
                   tt_wf n t1 /\ grows t t1 /\ tt_frames t1 = tt_frames t /\ tt_funcs t1 = tt_funcs t /\ tt_ns t1 = tt_ns t /\
                   (forall r, res = Some r -> r < length (tt_res_lib t1))).
    { destruct (fu_lib k) as [lib|] eqn:Ek.
      - destruct (resource_for_lib t lib libname) as [r t1] eqn:E1.
        pose proof (resource_for_lib_wf n t lib libname W (Hl lib eq_refl)) as [W1 [I1 [G1 [Fr1 [F1 Ns1]]]]]. rewrite E1 in *. cbn [fst snd] in *.
        exists (Some r), t1. refine (conj eq_refl (conj W1 (conj G1 (conj Fr1 (conj F1 (conj Ns1 _)))))). intros r0 Hr; inversion Hr; subst; exact I1.
      - exists None, t. refine (conj eq_refl (conj W (conj (grows_refl t) (conj eq_refl (conj eq_refl (conj eq_refl _)))))). intros r Hr; discriminate. }
    destruct Step as [res [t1 [Es [W1 [G1 [Fr1 [F1 [Ns1 Hres]]]]]]]]. rewrite Es. cbn [fst snd tt_funcs tt_frames tt_ns].
    split; [|split; [rewrite app_length; cbn; lia | split; [destruct G1; constructor; cbn [tt_strings tt_res_lib tt_funcs tt_ns]; rewrite ?app_length; lia | auto]]].
    constructor; cbn [tt_strings tt_res_lib tt_res_name tt_funcs tt_func_res tt_frames tt_frame_func tt_ns tt_ns_name].
    + exact (w_res_len n t1 W1).
    + rewrite !app_length, (w_func_len n t1 W1). reflexivity.
    + exact (w_frame_len n t1 W1).
    + exact (w_ns_len n t1 W1).
    + exact (w_res_lib n t1 W1).
    + exact (w_res_name n t1 W1).
    + intros x Hin. apply in_app_or in Hin. destruct Hin as [Hin|[<-|[]]]; [exact (w_func_name n t1 W1 x Hin) | destruct G1; lia].
    + intros x f Hin Hxf. apply in_app_or in Hin. destruct Hin as [Hin|[<-|[]]]; [exact (w_func_file n t1 W1 x f Hin Hxf) | specialize (Hf f Hxf); destruct G1; lia].
    + intros r Hin. apply in_app_or in Hin. destruct Hin as [Hin|[Hx|[]]]; [exact (w_func_res n t1 W1 r Hin) | apply Hres; exact Hx].
    + exact (w_frame_name n t1 W1).
    + intros f Hin. pose proof (w_frame_func n t1 W1 f Hin). rewrite app_length. lia.
    + exact (w_ns_lib n t1 W1).
    + exact (w_ns_name n t1 W1).
    + exact (w_frame_ns n t1 W1).
Qed.

Lemma frame_for_wf n t k libname : tt_wf n t -> fk_name k < length (tt_strings t) ->
  (forall f, fk_file k = Some f -> f < length (tt_strings t)) ->
  (forall ni, fk_native k = Some ni -> ni_lib ni < n) -> (forall ni i, fk_native k = Some ni -> ni_ns ni = Some i -> i < length (tt_ns t)) ->
  tt_wf n (snd (frame_for t k libname)) /\ fst (frame_for t k libname) < length (tt_frames (snd (frame_for t k libname))).
Proof.
  intros W Hk Hf Hl Hns. unfold frame_for. destruct (index_of fkey_eqb k (tt_frames t)) as [i|] eqn:E.
  - cbn [fst snd]. split; [exact W | eapply index_of_lt; [apply fkey_eqb_spec | exact E]].
  - set (fu := mkFu (fk_name k) (fk_file k) (option_map ni_lib (fk_native k)) (fk_flags k)).
    destruct (func_for t fu libname) as [f t1] eqn:E1.
    assert (Hl' : forall l, fu_lib fu = Some l -> l < n).
    { intros l H. cbn in H. destruct (fk_native k) as [ni|] eqn:Ek; cbn in H; [inversion H; subst; apply Hl; reflexivity | discriminate]. }
    pose proof (func_for_wf n t fu libname W Hk Hf Hl') as [W1 [I1 [G1 [Fr1 Ns1]]]]. rewrite E1 in *. cbn [fst snd] in *.
    cbn [fst snd tt_frames]. split; [|rewrite app_length; cbn; lia].
    constructor; cbn [tt_strings tt_res_lib tt_res_name tt_funcs tt_func_res tt_frames tt_frame_func tt_ns tt_ns_name].
    + exact (w_res_len n t1 W1).
    + exact (w_func_len n t1 W1).
    + rewrite !app_length, (w_frame_len n t1 W1). reflexivity.
    + exact (w_ns_len n t1 W1).
    + exact (w_res_lib n t1 W1).
    + exact (w_res_name n t1 W1).
    + exact (w_func_name n t1 W1).
    + exact (w_func_file n t1 W1).
    + exact (w_func_res n t1 W1).
    + intros x Hin. apply in_app_or in Hin. destruct Hin as [Hin|[<-|[]]]; [exact (w_frame_name n t1 W1 x Hin) | destruct G1; lia].
    + intros x Hin. apply in_app_or in Hin. destruct Hin as [Hin|[<-|[]]]; [exact (w_frame_func n t1 W1 x Hin) | exact I1].
    + exact (w_ns_lib n t1 W1).
    + exact (w_ns_name n t1 W1).
    + intros k0 ni i Hin Hni Hi. apply in_app_or in Hin. destruct Hin as [Hin|[<-|[]]]; [exact (w_frame_ns n t1 W1 k0 ni i Hin Hni Hi)|].
      rewrite Ns1. exact (Hns ni i Hni Hi).
Qed.

Lemma native_symbol_for_wf n t lib addr symname : tt_wf n t -> lib < n ->
  let r := native_symbol_for t lib addr symname in
  tt_wf n (snd r) /\ fst r < length (tt_ns (snd r)) /\ grows t (snd r).
Proof.
  intros W Hl. unfold native_symbol_for. destruct (index_of ns_key_eqb (lib, addr) (tt_ns t)) as [i|] eqn:E.
  - cbn [fst snd]. split; [exact W|]. split; [eapply index_of_lt; [apply ns_key_eqb_spec | exact E] | apply grows_refl].
  - destruct (intern_string t symname) as [nm t1] eqn:E1.
    pose proof (intern_string_wf n t symname W) as [W1 [I1 [G1 _]]]. rewrite E1 in *. cbn [fst snd] in *.
    cbn [fst snd tt_ns]. split; [|split; [rewrite app_length; cbn; lia | destruct G1; constructor; cbn [tt_strings tt_res_lib tt_funcs tt_ns]; rewrite ?app_length; lia]].
    constructor; cbn [tt_strings tt_res_lib tt_res_name tt_funcs tt_func_res tt_frames tt_frame_func tt_ns tt_ns_name].
    + exact (w_res_len n t1 W1).
    + exact (w_func_len n t1 W1).
    + exact (w_frame_len n t1 W1).
    + rewrite !app_length, (w_ns_len n t1 W1). reflexivity.
    + exact (w_res_lib n t1 W1).
    + exact (w_res_name n t1 W1).
    + exact (w_func_name n t1 W1).
    + exact (w_func_file n t1 W1).
    + exact (w_func_res n t1 W1).
    + exact (w_frame_name n t1 W1).
    + exact (w_frame_func n t1 W1).
    + intros k Hin. apply in_app_or in Hin. destruct Hin as [Hin|[<-|[]]]; [exact (w_ns_lib n t1 W1 k Hin) | exact Hl].
    + intros x Hin. apply in_app_or in Hin. destruct Hin as [Hin|[<-|[]]]; [exact (w_ns_name n t1 W1 x Hin) | exact I1].
    + intros k0 ni i Hin Hni Hi. pose proof (w_frame_ns n t1 W1 k0 ni i Hin Hni Hi). rewrite app_length. lia.
Qed.

Lemma tt_empty_wf n : tt_wf n tt_empty.
Proof. constructor; cbn; auto; intros; contradiction. Qed.

Lemma intern_opt_wf n t s : tt_wf n t ->
  let r := intern_opt t s in
  tt_wf n (snd r) /\ (forall f, fst r = Some f -> f < length (tt_strings (snd r))) /\ grows t (snd r) /\
  tt_ns (snd r) = tt_ns t /\ tt_ns_name (snd r) = tt_ns_name t.
Proof.
  intros W. unfold intern_opt. destruct s as [x|].
  - destruct (intern_string t x) as [i t1] eqn:E. pose proof (intern_string_wf n t x W) as [W1 [I1 [G1 [_ [Ns1 [Nn1 _]]]]]]. rewrite E in *. cbn [fst snd] in *.
    refine (conj W1 (conj _ (conj G1 (conj Ns1 Nn1)))). intros f Hf. inversion Hf; subst. exact I1.
  - cbn. refine (conj W (conj _ (conj (grows_refl t) (conj eq_refl eq_refl)))). discriminate.
Qed.

Lemma do_req_wf n t r sc fl : tt_wf n t -> req_ok n r -> tt_wf n (do_req t r sc fl).
Proof.
  intros W Hr.
  destruct r as [s | name | name file line col | lib rel hexname libname | lib rel symaddr symname libname | lib symaddr symname
                 | addr hexname nslib nsaddr name file line col depth libname]; cbn [do_req].
  - apply intern_string_wf. exact W.
  - destruct (intern_string t name) as [i t1] eqn:E. pose proof (intern_string_wf n t name W) as [W1 [I1 _]]. rewrite E in *. cbn [fst snd] in *.
    apply frame_for_wf; cbn; [exact W1 | exact I1 | discriminate | discriminate | discriminate].
  - destruct (intern_string t name) as [i t1] eqn:E. pose proof (intern_string_wf n t name W) as [W1 [I1 [G1 _]]]. rewrite E in *. cbn [fst snd] in *.
    destruct (intern_opt t1 file) as [f t2] eqn:E2. pose proof (intern_opt_wf n t1 file W1) as [W2 [I2 [G2 _]]]. rewrite E2 in *. cbn [fst snd] in *.
    apply frame_for_wf; cbn; [exact W2 | destruct G2; lia | exact I2 | discriminate | discriminate].
  - destruct (intern_string t hexname) as [i t1] eqn:E. pose proof (intern_string_wf n t hexname W) as [W1 [I1 _]]. rewrite E in *. cbn [fst snd] in *.
    apply frame_for_wf; cbn; [exact W1 | exact I1 | discriminate | intros ni H; inversion H; subst; exact Hr | intros ni i0 H H2; inversion H; subst; discriminate].
  - destruct (native_symbol_for t lib symaddr symname) as [ns t1] eqn:E.
    pose proof (native_symbol_for_wf n t lib symaddr symname W Hr) as [W1 [I1 _]]. rewrite E in *. cbn [fst snd] in *.
    apply frame_for_wf; cbn; [exact W1 | | discriminate | intros ni H; inversion H; subst; exact Hr | intros ni i H H2; inversion H; subst; inversion H2; subst; exact I1].
    apply (w_ns_name n t1 W1). apply nth_In. rewrite (w_ns_len n t1 W1). exact I1.
  - apply native_symbol_for_wf; assumption.
  - destruct (index_of ns_key_eqb (nslib, nsaddr) (tt_ns t)) as [ns|] eqn:En; [|exact W].
    assert (Ins : ns < length (tt_ns t)) by (eapply index_of_lt; [apply ns_key_eqb_spec | exact En]).
    destruct (intern_opt t name) as [nm t1] eqn:E1. pose proof (intern_opt_wf n t name W) as [W1 [I1 [G1 [Ns1 Nn1]]]]. rewrite E1 in *. cbn [fst snd] in *.
    assert (Step : exists variant nn t2,
               (match addr with
                | None => match nm with Some i => (None, i, t1) | None => let '(i, t') := intern_string t1 hexname in (None, i, t') end
                | Some (lib, rel) => (Some (mkNI lib rel (Some ns) depth), match nm with Some i => i | None => nth ns (tt_ns_name t1) 0 end, t1)
                end) = (variant, nn, t2) /\
               tt_wf n t2 /\ nn < length (tt_strings t2) /\ tt_ns t2 = tt_ns t /\
               (forall ni, variant = Some ni -> ni_lib ni < n /\ ni_ns ni = Some ns)).
    { destruct addr as [[lib rel]|].
      - eexists _, _, _. split; [reflexivity|]. split; [exact W1|]. split; [|split; [exact Ns1|]].
        + destruct nm as [i|]; [apply I1; reflexivity|]. apply (w_ns_name n t1 W1). apply nth_In. rewrite (w_ns_len n t1 W1), Ns1. exact Ins.
        + intros ni H. inversion H; subst. split; [exact Hr|reflexivity].
      - destruct nm as [i|].
        + eexists _, _, _. split; [reflexivity|]. split; [exact W1|]. split; [apply I1; reflexivity|]. split; [exact Ns1|discriminate].
        + destruct (intern_string t1 hexname) as [i t'] eqn:E2. pose proof (intern_string_wf n t1 hexname W1) as [W2 [I2 [_ [_ [Ns2 _]]]]]. rewrite E2 in *. cbn [fst snd] in *.
          eexists _, _, _. split; [reflexivity|]. split; [exact W2|]. split; [exact I2|]. split; [congruence|discriminate]. }
    destruct Step as (variant & nn & t2 & Es & W2 & I2 & Ns2 & Hv). rewrite Es.
    destruct (intern_opt t2 file) as [f t3] eqn:E3. pose proof (intern_opt_wf n t2 file W2) as [W3 [I3 [G3 [Ns3 _]]]]. rewrite E3 in *. cbn [fst snd] in *.
    apply frame_for_wf; cbn; [exact W3 | destruct G3; lia | exact I3 | intros ni H; apply (Hv ni H) |].
    intros ni i H H2. destruct (Hv ni H) as [_ H3]. rewrite H3 in H2. inversion H2; subst. rewrite Ns3, Ns2. exact Ins.
Qed.

Theorem run_reqs_wf n rs : Forall (fun r => req_ok n (fst r)) rs -> tt_wf n (run_reqs rs).
Proof.
  intros H. unfold run_reqs. assert (G : forall t, tt_wf n t -> tt_wf n (fold_left (fun t r => do_req t (fst r) (fst (snd r)) (snd (snd r))) rs t)).
  { induction H as [|r rs Hr _ IH]; intros t W; cbn [fold_left]; [exact W | apply IH; apply do_req_wf; assumption]. }
  apply G. apply tt_empty_wf.
Qed.

Lemma intern_string_frames t s : tt_frames (snd (intern_string t s)) = tt_frames t.
Proof. unfold intern_string. destruct (intern N.eqb (tt_strings t) s). reflexivity. Qed.
Lemma resource_for_lib_frames t lib libname : tt_frames (snd (resource_for_lib t lib libname)) = tt_frames t.
Proof.
  unfold resource_for_lib. destruct (index_of Nat.eqb lib (tt_res_lib t)); [reflexivity|].
  pose proof (intern_string_frames t libname) as H. destruct (intern_string t libname) as [n t1]. cbn [snd tt_frames] in *. exact H.
Qed.
Lemma func_for_frames t k libname : tt_frames (snd (func_for t k libname)) = tt_frames t.
Proof.
  unfold func_for. destruct (index_of funckey_eqb k (tt_funcs t)); [reflexivity|].
  destruct (fu_lib k) as [lib|].
  - pose proof (resource_for_lib_frames t lib libname) as H. destruct (resource_for_lib t lib libname) as [r t']. cbn [snd tt_frames] in *. exact H.
  - reflexivity.
Qed.
Lemma native_symbol_for_frames t lib addr symname : tt_frames (snd (native_symbol_for t lib addr symname)) = tt_frames t.
Proof.
  unfold native_symbol_for. destruct (index_of ns_key_eqb (lib, addr) (tt_ns t)); [reflexivity|].
  pose proof (intern_string_frames t symname) as H. destruct (intern_string t symname) as [n t1]. cbn [snd tt_frames] in *. exact H.
Qed.
Lemma intern_opt_frames t s : tt_frames (snd (intern_opt t s)) = tt_frames t.
Proof.
  unfold intern_opt. destruct s as [x|]; [|reflexivity].
  pose proof (intern_string_frames t x) as H. destruct (intern_string t x) as [i t1]. cbn [snd] in *. exact H.
Qed.

(* the subcategory column of the frame table only holds handles the caller passed in *)
Lemma frame_for_subs t k libname (P : nat * nat -> Prop) : (forall x, In x (tt_frames t) -> P (fk_sub x)) -> P (fk_sub k) ->
  forall x, In x (tt_frames (snd (frame_for t k libname))) -> P (fk_sub x).
Proof.
  intros H Hk x. unfold frame_for. destruct (index_of fkey_eqb k (tt_frames t)) as [i|] eqn:E; cbn [snd]; [apply H|].
  destruct (func_for t (mkFu (fk_name k) (fk_file k) (option_map ni_lib (fk_native k)) (fk_flags k)) libname) as [f t1] eqn:E1.
  cbn [snd tt_frames]. intros Hin. apply in_app_or in Hin. destruct Hin as [Hin|[<-|[]]]; [|exact Hk].
  apply H. replace (tt_frames t) with (tt_frames t1); [exact Hin|].
  pose proof (func_for_frames t (mkFu (fk_name k) (fk_file k) (option_map ni_lib (fk_native k)) (fk_flags k)) libname) as Hf. rewrite E1 in Hf. exact Hf.
Qed.

Lemma do_req_subs t r sc fl (P : nat * nat -> Prop) : (forall x, In x (tt_frames t) -> P (fk_sub x)) -> P sc -> forall x, In x (tt_frames (do_req t r sc fl)) -> P (fk_sub x).
Proof.
  intros H Hsc.
  destruct r as [s | name | name file line col | lib rel hexname libname | lib rel symaddr symname libname | lib symaddr symname
                 | addr hexname nslib nsaddr name file line col depth libname]; cbn [do_req].
  - rewrite intern_string_frames. exact H.
  - pose proof (intern_string_frames t name) as E. destruct (intern_string t name) as [i t1]. cbn [snd] in E.
    apply frame_for_subs; [rewrite E; exact H|exact Hsc].
  - pose proof (intern_string_frames t name) as E. destruct (intern_string t name) as [i t1]. cbn [snd] in E.
    pose proof (intern_opt_frames t1 file) as E2. destruct (intern_opt t1 file) as [f t2]. cbn [snd] in E2.
    apply frame_for_subs; [rewrite E2, E; exact H|exact Hsc].
  - pose proof (intern_string_frames t hexname) as E. destruct (intern_string t hexname) as [i t1]. cbn [snd] in E.
    apply frame_for_subs; [rewrite E; exact H|exact Hsc].
  - pose proof (native_symbol_for_frames t lib symaddr symname) as E. destruct (native_symbol_for t lib symaddr symname) as [ns t1]. cbn [snd] in E.
    apply frame_for_subs; [rewrite E; exact H|exact Hsc].
  - rewrite native_symbol_for_frames. exact H.
  - destruct (index_of ns_key_eqb (nslib, nsaddr) (tt_ns t)) as [ns|]; [|exact H].
    pose proof (intern_opt_frames t name) as E1. destruct (intern_opt t name) as [nm t1]. cbn [snd] in E1.
    assert (Step : exists variant nn t2,
               (match addr with
                | None => match nm with Some i => (None, i, t1) | None => let '(i, t') := intern_string t1 hexname in (None, i, t') end
                | Some (lib, rel) => (Some (mkNI lib rel (Some ns) depth), match nm with Some i => i | None => nth ns (tt_ns_name t1) 0 end, t1)
                end) = (variant, nn, t2) /\ tt_frames t2 = tt_frames t1).
    { destruct addr as [[lib rel]|]; [eexists _, _, _; split; reflexivity|].
      destruct nm as [i|]; [eexists _, _, _; split; reflexivity|].
      pose proof (intern_string_frames t1 hexname) as E2. destruct (intern_string t1 hexname) as [i t']. cbn [snd] in E2.
      eexists _, _, _. split; [reflexivity|exact E2]. }
    destruct Step as (variant & nn & t2 & Es & E2). rewrite Es.
    pose proof (intern_opt_frames t2 file) as E3. destruct (intern_opt t2 file) as [f t3]. cbn [snd] in E3.
    apply frame_for_subs; [rewrite E3, E2, E1; exact H|exact Hsc].
Qed.

(* ... for ANY request sequence: every row's (category, subcategory) is the handle some call was given *)
Theorem run_reqs_subs rs : forall x, In x (tt_frames (run_reqs rs)) -> In (fk_sub x) (map (fun r => fst (snd r)) rs).
Proof.
  unfold run_reqs.
  assert (G : forall (rs : list (freq * (nat * nat * N))) t (P : nat * nat -> Prop), (forall x, In x (tt_frames t) -> P (fk_sub x)) -> (forall r, In r rs -> P (fst (snd r))) ->
              forall x, In x (tt_frames (fold_left (fun t r => do_req t (fst r) (fst (snd r)) (snd (snd r))) rs t)) -> P (fk_sub x)).
  { clear rs. induction rs as [|r rs IH]; intros t P H Hr; cbn [fold_left]; [exact H|].
    apply IH; [|intros r' Hin; apply Hr; right; exact Hin]. apply do_req_subs; [exact H|apply Hr; left; reflexivity]. }
  apply (G rs tt_empty (fun h => In h (map (fun r => fst (snd r)) rs))); [intros x []|]. intros r Hin. apply (in_map (fun r => fst (snd r))). exact Hin.
Qed.
