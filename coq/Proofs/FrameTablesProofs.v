From SV Require Import Model.ProfileTables Proofs.ProfileTablesProofs Model.FrameTables.
From Coq Require Import NArith Lia.

Lemma fkey_eqb_spec a b : fkey_eqb a b = true <-> a = b.
Proof.
  destruct a as [n [[l r]|]], b as [n' [[l' r']|]]; unfold fkey_eqb; cbn [fst snd]; rewrite ?andb_true_iff, ?Nat.eqb_eq, ?N.eqb_eq.
  - split; [intros [-> [-> ->]]; reflexivity | intros H; inversion H; auto].
  - split; [intros [_ H]; discriminate | intros H; inversion H].
  - split; [intros [_ H]; discriminate | intros H; inversion H].
  - split; [intros [-> _]; reflexivity | intros H; inversion H; auto].
Qed.
Lemma funckey_eqb_spec a b : funckey_eqb a b = true <-> a = b.
Proof.
  destruct a as [n [l|]], b as [n' [l'|]]; unfold funckey_eqb; cbn [fst snd]; rewrite ?andb_true_iff, ?Nat.eqb_eq.
  - split; [intros [-> ->]; reflexivity | intros H; inversion H; auto].
  - split; [intros [_ H]; discriminate | intros H; inversion H].
  - split; [intros [_ H]; discriminate | intros H; inversion H].
  - split; [intros [-> _]; reflexivity | intros H; inversion H; auto].
Qed.
Lemma nat_eqb_spec a b : Nat.eqb a b = true <-> a = b.
Proof. apply Nat.eqb_eq. Qed.
Lemma n_eqb_spec a b : N.eqb a b = true <-> a = b.
Proof. apply N.eqb_eq. Qed.

Lemma index_of_lt {K} (eqb : K -> K -> bool) (H : forall a b, eqb a b = true <-> a = b) k l i : index_of eqb k l = Some i -> i < length l.
Proof. intros E. apply nth_error_Some. rewrite (index_of_some eqb H _ _ _ E). discriminate. Qed.

(* growing the string table keeps everything well-formed *)
Lemma wf_more_strings n t ss : tt_wf n t -> length (tt_strings t) <= length ss ->
  tt_wf n (mkTT ss (tt_res_lib t) (tt_res_name t) (tt_funcs t) (tt_func_res t) (tt_frames t) (tt_frame_func t)).
Proof.
  intros [A [B [C [D [E [F [G [H I]]]]]]]] L. unfold tt_wf. cbn [tt_strings tt_res_lib tt_res_name tt_funcs tt_func_res tt_frames tt_frame_func].
  repeat split; auto; intros x Hx; [specialize (E _ Hx) | specialize (F _ Hx) | specialize (H _ Hx)]; lia.
Qed.

Lemma intern_string_wf n t s : tt_wf n t ->
  tt_wf n (snd (intern_string t s)) /\ fst (intern_string t s) < length (tt_strings (snd (intern_string t s))) /\
  length (tt_strings t) <= length (tt_strings (snd (intern_string t s))) /\
  tt_res_lib (snd (intern_string t s)) = tt_res_lib t /\ tt_funcs (snd (intern_string t s)) = tt_funcs t /\ tt_frames (snd (intern_string t s)) = tt_frames t.
Proof.
  intros W. unfold intern_string. destruct (intern N.eqb (tt_strings t) s) as [i l] eqn:E. cbn [fst snd tt_strings tt_res_lib tt_funcs tt_frames].
  destruct (intern_spec N.eqb n_eqb_spec _ _ _ _ E) as [H1 [[ext H2] _]].
  assert (L : length (tt_strings t) <= length l) by (subst l; rewrite app_length; lia).
  split; [apply wf_more_strings; assumption|]. split; [apply nth_error_Some; congruence|]. auto.
Qed.

Lemma resource_for_lib_wf n t lib libname : tt_wf n t -> lib < n ->
  tt_wf n (snd (resource_for_lib t lib libname)) /\ fst (resource_for_lib t lib libname) < length (tt_res_lib (snd (resource_for_lib t lib libname))) /\
  length (tt_strings t) <= length (tt_strings (snd (resource_for_lib t lib libname))) /\
  tt_funcs (snd (resource_for_lib t lib libname)) = tt_funcs t /\ tt_frames (snd (resource_for_lib t lib libname)) = tt_frames t /\
  length (tt_res_lib t) <= length (tt_res_lib (snd (resource_for_lib t lib libname))).
Proof.
  intros W Hl. unfold resource_for_lib. destruct (index_of Nat.eqb lib (tt_res_lib t)) as [r|] eqn:E.
  - cbn [fst snd]. split; [exact W|]. split; [eapply index_of_lt; [apply nat_eqb_spec | exact E]|]. auto.
  - destruct (intern_string t libname) as [nm t1] eqn:E1.
    pose proof (intern_string_wf n t libname W) as [W1 [I1 [L1 [R1 [F1 Fr1]]]]]. rewrite E1 in *. cbn [fst snd] in *.
    cbn [fst snd tt_strings tt_res_lib tt_funcs tt_frames].
    split; [|split; [rewrite app_length; cbn; lia | split; [exact L1 | split; [exact F1 | split; [exact Fr1 | rewrite R1, app_length; lia]]]]].
    destruct W1 as [A [B [C [D [Ee [F [G [H I]]]]]]]]. unfold tt_wf. cbn [tt_strings tt_res_lib tt_res_name tt_funcs tt_func_res tt_frames tt_frame_func].
    repeat split; auto.
    + rewrite !app_length. cbn. lia.
    + intros l Hin. apply in_app_or in Hin. destruct Hin as [Hin|[<-|[]]]; auto.
    + intros x Hin. apply in_app_or in Hin. destruct Hin as [Hin|[<-|[]]]; auto.
    + intros r Hin. specialize (G _ Hin). rewrite app_length. lia.
Qed.

Lemma func_for_wf n t k libname : tt_wf n t -> fst k < length (tt_strings t) -> (forall l, snd k = Some l -> l < n) ->
  tt_wf n (snd (func_for t k libname)) /\ fst (func_for t k libname) < length (tt_funcs (snd (func_for t k libname))) /\
  length (tt_strings t) <= length (tt_strings (snd (func_for t k libname))) /\ tt_frames (snd (func_for t k libname)) = tt_frames t /\
  length (tt_funcs t) <= length (tt_funcs (snd (func_for t k libname))).
Proof.
  intros W Hk Hl. unfold func_for. destruct (index_of funckey_eqb k (tt_funcs t)) as [i|] eqn:E.
  - cbn [fst snd]. split; [exact W|]. split; [eapply index_of_lt; [apply funckey_eqb_spec | exact E]|]. auto.
  - destruct k as [nm [lib|]]; cbn [fst snd] in *.
    + destruct (resource_for_lib t lib libname) as [r t1] eqn:E1.
      pose proof (resource_for_lib_wf n t lib libname W (Hl lib eq_refl)) as [W1 [I1 [L1 [F1 [Fr1 R1]]]]]. rewrite E1 in *. cbn [fst snd] in *.
      cbn [fst snd tt_strings tt_funcs tt_frames].
      split; [|split; [rewrite app_length; cbn; lia | split; [exact L1 | split; [exact Fr1 | rewrite F1, app_length; lia]]]].
      destruct W1 as [A [B [C [D [Ee [F [G [H I]]]]]]]]. unfold tt_wf. cbn [tt_strings tt_res_lib tt_res_name tt_funcs tt_func_res tt_frames tt_frame_func].
      repeat split; auto.
      * rewrite !app_length. cbn. lia.
      * intros x Hin. apply in_app_or in Hin. destruct Hin as [Hin|[<-|[]]]; auto. cbn. lia.
      * intros x Hin. apply in_app_or in Hin. destruct Hin as [Hin|[Hx|[]]]; auto. inversion Hx; subst. exact I1.
      * intros f Hin. specialize (I _ Hin). rewrite app_length. lia.
    + cbn [fst snd tt_strings tt_funcs tt_frames].
      split; [|split; [rewrite app_length; cbn; lia | split; [lia | split; [reflexivity | rewrite app_length; lia]]]].
      destruct W as [A [B [C [D [Ee [F [G [H I]]]]]]]]. unfold tt_wf. cbn [tt_strings tt_res_lib tt_res_name tt_funcs tt_func_res tt_frames tt_frame_func].
      repeat split; auto.
      * rewrite !app_length. cbn. lia.
      * intros x Hin. apply in_app_or in Hin. destruct Hin as [Hin|[<-|[]]]; auto.
      * intros x Hin. apply in_app_or in Hin. destruct Hin as [Hin|[Hx|[]]]; auto. discriminate.
      * intros f Hin. specialize (I _ Hin). rewrite app_length. lia.
Qed.

Lemma frame_for_wf n t k libname : tt_wf n t -> fst k < length (tt_strings t) -> (forall l r, snd k = Some (l, r) -> l < n) ->
  tt_wf n (snd (frame_for t k libname)) /\ fst (frame_for t k libname) < length (tt_frames (snd (frame_for t k libname))).
Proof.
  intros W Hk Hl. unfold frame_for. destruct (index_of fkey_eqb k (tt_frames t)) as [i|] eqn:E.
  - cbn [fst snd]. split; [exact W | eapply index_of_lt; [apply fkey_eqb_spec | exact E]].
  - destruct (func_for t (fst k, option_map fst (snd k)) libname) as [f t1] eqn:E1.
    assert (Hl' : forall l, snd (fst k, option_map fst (snd k)) = Some l -> l < n).
    { intros l H. cbn in H. destruct (snd k) as [[l' r]|] eqn:Ek; cbn in H; [inversion H; subst; eapply Hl; reflexivity | discriminate]. }
    pose proof (func_for_wf n t (fst k, option_map fst (snd k)) libname W Hk Hl') as [W1 [I1 [L1 [Fr1 _]]]]. rewrite E1 in *. cbn [fst snd] in *.
    cbn [fst snd tt_frames]. split; [|rewrite app_length; cbn; lia].
    destruct W1 as [A [B [C [D [Ee [F [G [H I]]]]]]]]. unfold tt_wf. cbn [tt_strings tt_res_lib tt_res_name tt_funcs tt_func_res tt_frames tt_frame_func].
    repeat split; auto.
    + rewrite !app_length. cbn. lia.
    + intros x Hin. apply in_app_or in Hin. destruct Hin as [Hin|[<-|[]]]; auto. lia.
    + intros x Hin. apply in_app_or in Hin. destruct Hin as [Hin|[<-|[]]]; auto.
Qed.

Lemma tt_empty_wf n : tt_wf n tt_empty.
Proof. unfold tt_wf, tt_empty. cbn. repeat split; auto; intros ? []. Qed.

Lemma do_req_wf n t r : tt_wf n t -> req_ok n r -> tt_wf n (do_req t r).
Proof.
  intros W Hr. destruct r as [s | name | lib rel hexname libname]; cbn [do_req].
  - apply intern_string_wf. exact W.
  - destruct (intern_string t name) as [i t1] eqn:E. pose proof (intern_string_wf n t name W) as [W1 [I1 _]]. rewrite E in *. cbn [fst snd] in *.
    apply frame_for_wf; [exact W1 | exact I1 | intros l r H; discriminate].
  - destruct (intern_string t hexname) as [i t1] eqn:E. pose proof (intern_string_wf n t hexname W) as [W1 [I1 _]]. rewrite E in *. cbn [fst snd] in *.
    apply frame_for_wf; [exact W1 | exact I1 | intros l r H; inversion H; subst; exact Hr].
Qed.

Theorem run_reqs_wf n rs : Forall (req_ok n) rs -> tt_wf n (run_reqs rs).
Proof.
  intros H. unfold run_reqs. assert (G : forall t, tt_wf n t -> tt_wf n (fold_left do_req rs t)).
  { induction H as [|r rs Hr _ IH]; intros t W; cbn [fold_left]; [exact W | apply IH; apply do_req_wf; assumption]. }
  apply G. apply tt_empty_wf.
Qed.
