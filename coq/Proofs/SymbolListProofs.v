From SV Require Import Model.SymbolList.
From Coq Require Import Lia ZifyBool ZifyN.
Open Scope N_scope.

(* strictly increasing addresses *)
Fixpoint strict_from (lo : option N) (l : list entry) : Prop :=
  match l with
  | [] => True
  | x :: r => (match lo with Some v => v < fst x | None => True end) /\ strict_from (Some (fst x)) r
  end.
Definition StrictSorted (l : list entry) : Prop := strict_from None l.

Lemma strict_from_weaken lo l : strict_from lo l -> strict_from None l.
Proof. destruct l as [|x r]; cbn; [auto|]. intros [_ H]. auto. Qed.

Lemma strict_from_all lo l : strict_from (Some lo) l -> forall x, In x l -> lo < fst x.
Proof.
  revert lo. induction l as [|y r IH]; intros lo H x Hx; [contradiction|].
  cbn in H. destruct H as [H1 H2]. destruct Hx as [<-|Hx]; [exact H1|].
  specialize (IH _ H2 x Hx). lia.
Qed.

(* ---- find_le ---- *)
Lemma find_le_spec : forall l a best lo,
  strict_from lo l ->
  (match best, lo with Some b, Some v => fst b = v /\ v <= a | None, None => True | _, _ => False end) ->
  match find_le l a best with
  | (Some (s, k), nxt) =>
      s <= a /\ (In (s, k) l \/ best = Some (s, k)) /\
      (forall x, In x l -> fst x <= a -> fst x <= s) /\
      match nxt with
      | Some (e, k') => a < e /\ In (e, k') l /\ (forall x, In x l -> a < fst x -> e <= fst x)
      | None => forall x, In x l -> fst x <= a
      end
  | (None, nxt) =>
      best = None /\
      match nxt with
      | Some (e, k') => a < e /\ In (e, k') l /\ (forall x, In x l -> e <= fst x)
      | None => l = []
      end
  end.
Proof.
  induction l as [|[s0 k0] r IH]; intros a best lo Hs Hb; cbn [find_le].
  - destruct best as [[s k]|]; [|auto].
    destruct lo as [v|]; [|contradiction]. cbn [fst] in Hb. destruct Hb as [-> Hle].
    split; [exact Hle|]. split; [right; reflexivity|]. split; intros x Hx; contradiction.
  - cbn [strict_from fst] in Hs. destruct Hs as [Hlo Hs].
    destruct (s0 <=? a) eqn:C; cbn [fst] in C |- *; rewrite C.
    + specialize (IH a (Some (s0, k0)) (Some s0) Hs).
      assert (Hb' : fst (s0, k0) = s0 /\ s0 <= a) by (cbn; split; [reflexivity|lia]).
      specialize (IH Hb'). unfold entry in *. remember (find_le r a (Some (s0, k0))) as res eqn:Er. destruct res as [[[s k]|] nxt]; cbv beta iota in IH |- *.
      * destruct IH as [H1 [H2 [H3 H4]]]. split; [exact H1|]. split.
        -- destruct H2 as [H2|H2]; [left; right; exact H2|inversion H2; subst; left; left; reflexivity].
        -- split.
           ++ intros x [<-|Hx] Hxa; cbn [fst]; [|apply H3; assumption].
              destruct H2 as [H2|H2]; [pose proof (strict_from_all _ _ Hs _ H2); cbn [fst] in *; lia|inversion H2; lia].
           ++ destruct nxt as [[e k']|].
              ** destruct H4 as [G1 [G2 G3]]. split; [exact G1|]. split; [right; exact G2|].
                 intros x [<-|Hx] Hxa; cbn [fst] in *; [lia|apply G3; assumption].
              ** intros x [<-|Hx]; cbn [fst]; [lia|apply H4; exact Hx].
      * destruct IH as [IH _]. discriminate.
    + destruct best as [[s k]|].
      * destruct lo as [v|]; [|contradiction]. cbn [fst] in Hb. destruct Hb as [-> Hle].
        split; [exact Hle|]. split; [right; reflexivity|]. split.
        -- intros x [<-|Hx] Hxa; cbn [fst] in *; [lia|]. pose proof (strict_from_all _ _ Hs _ Hx). cbn [fst] in *. lia.
        -- split; [lia|]. split; [left; reflexivity|].
           intros x [<-|Hx] Hxa; cbn [fst] in *; [lia|]. pose proof (strict_from_all _ _ Hs _ Hx). cbn [fst] in *. lia.
      * split; [reflexivity|]. split; [lia|]. split; [left; reflexivity|].
        intros x [<-|Hx]; cbn [fst] in *; [lia|]. pose proof (strict_from_all _ _ Hs _ Hx). cbn [fst] in *. lia.
Qed.

(* a successful lookup: start <= a < end; the entry is enumerated (not an end marker) and no entry lies in (start, a] *)
Theorem lookup_rel_spec l a s e :
  StrictSorted l -> lookup_rel l a = Some (s, e) ->
  s <= a /\ a < e /\ s < e /\
  (exists k, In (s, k) (enumerate l)) /\
  (forall x, In x l -> ~ (s < fst x /\ fst x <= a)).
Proof.
  intros Hs H. unfold lookup_rel in H.
  pose proof (find_le_spec l a None None Hs I) as F. unfold entry in *.
  match type of H with context [find_le l a ?b] => remember (find_le l a b) as res eqn:Er end.
  destruct res as [[[s0 k0]|] [[e0 k1]|]]; cbv beta iota in H, F; try discriminate.
  destruct (is_end k0) eqn:Ek; cbv beta iota in H; [discriminate|]. inversion H; subst.
  destruct F as [H1 [H2 [H3 [G1 [G2 G3]]]]].
  destruct H2 as [H2|H2]; [|discriminate].
  split; [exact H1|]. split; [exact G1|]. split; [lia|]. split.
  - exists k0. unfold enumerate. apply filter_In. cbn [snd]. rewrite Ek. split; [exact H2|reflexivity].
  - intros x Hx [Ha Hb]. specialize (H3 x Hx Hb). lia.
Qed.

(* ---- address forms ---- *)
Theorem forms_svma base ranges l r :
  r < two32 -> base + r < two64 ->
  lookup base ranges l (ASvma (base + r)) = lookup base ranges l (ARel r).
Proof.
  intros Hr Hb. cbn [lookup]. unfold lookup_svma.
  replace (base <=? base + r) with true by lia. replace (base + r - base) with r by lia.
  replace (r <? two32) with true by lia. replace (base + r <? two64) with true by lia. reflexivity.
Qed.

Theorem forms_offset base ranges l o v :
  off_to_svma ranges o = Some v -> lookup base ranges l (AOff o) = lookup base ranges l (ASvma v).
Proof. intros H. cbn [lookup]. rewrite H. reflexivity. Qed.

Lemma off_to_svma_spec ranges o v :
  off_to_svma ranges o = Some v ->
  exists svma fo size, In (svma, fo, size) ranges /\ fo <= o /\ o < fo + size /\ v = svma + (o - fo).
Proof.
  induction ranges as [|[[svma fo] size] r IH]; [discriminate|]. cbn [off_to_svma].
  destruct ((fo <=? o) && (o <? fo + size)) eqn:C.
  - destruct (svma + (o - fo) <? two64); [|discriminate]. intros H; inversion H; subst.
    exists svma, fo, size. split; [left; reflexivity|]. lia.
  - intros H. destruct (IH H) as [a [b [c [Hin Hr]]]]. exists a, b, c. split; [right; exact Hin|exact Hr].
Qed.

(* ---- build: sorted, unique, keeps the best entry per address ---- *)
Fixpoint sorted_from (lo : option N) (l : list entry) : Prop :=
  match l with
  | [] => True
  | x :: r => (match lo with Some v => v <= fst x | None => True end) /\ sorted_from (Some (fst x)) r
  end.

Lemma ins_e_sorted x : forall l lo, sorted_from lo l -> (match lo with Some v => v <= fst x | None => True end) -> sorted_from lo (ins_e x l).
Proof.
  induction l as [|y t IH]; intros lo Hs Hlo; cbn [ins_e].
  - cbn. auto.
  - cbn [sorted_from] in Hs. destruct Hs as [H1 H2]. destruct (fst x <=? fst y) eqn:C.
    + cbn [sorted_from]. split; [exact Hlo|]. split; [lia|exact H2].
    + cbn [sorted_from]. split; [exact H1|]. apply IH; [exact H2|lia].
Qed.

Lemma sort_e_sorted l : sorted_from None (sort_e l).
Proof. induction l as [|x t IH]; cbn; [exact I|]. apply ins_e_sorted; [exact IH|exact I]. Qed.

Lemma dedup_e_head x t : exists t', dedup_e (x :: t) = x :: t'.
Proof. cbn [dedup_e]. destruct (dedup_e t) as [|y t']; [eauto|]. destruct (fst x =? fst y); eauto. Qed.

Lemma dedup_e_strict : forall l lo, sorted_from lo l ->
  strict_from None (dedup_e l) /\
  (forall v, lo = Some v -> forall x, In x (dedup_e l) -> v <= fst x).
Proof.
  induction l as [|x t IH]; intros lo Hs; [cbn; split; [exact I|intros ? _ ? []]|].
  cbn [sorted_from] in Hs. destruct Hs as [Hlo Hs]. destruct (IH (Some (fst x)) Hs) as [I1 I2].
  cbn [dedup_e]. destruct (dedup_e t) as [|y t'] eqn:E.
  - split; [cbn; auto|]. intros v -> z [<-|[]]. exact Hlo.
  - specialize (I2 (fst x) eq_refl).
    assert (Hy : fst x <= fst y) by (apply I2; left; reflexivity).
    cbn [strict_from] in I1. destruct I1 as [_ I1].
    destruct (fst x =? fst y) eqn:C.
    + assert (Heq : fst x = fst y) by lia. split.
      * cbn [strict_from]. split; [exact I|]. rewrite Heq. exact I1.
      * intros v -> z [<-|Hz]; [exact Hlo|]. pose proof (strict_from_all _ _ I1 _ Hz). lia.
    + split.
      * cbn [strict_from]. split; [exact I|]. split; [lia|exact I1].
      * intros v -> z [<-|[<-|Hz]]; [exact Hlo|lia|]. pose proof (strict_from_all _ _ I1 _ Hz). lia.
Qed.

Theorem build_strict sources : StrictSorted (build sources).
Proof. unfold build, StrictSorted. apply (dedup_e_strict (sort_e sources) None (sort_e_sorted sources)). Qed.

(* ---- jitdump ---- *)
Lemma jfind_some key l a : forall best x, jfind key l a best = Some x -> (In x l \/ best = Some x) /\ (best = Some x \/ key x <= a).
Proof.
  induction l as [|y r IH]; intros best x H; cbn [jfind] in H.
  - split; [right; exact H|left; exact H].
  - destruct (key y <=? a) eqn:C.
    + destruct (IH _ _ H) as [[H1|H1] H2].
      * split; [left; right; exact H1|]. destruct H2 as [H2|H2]; [inversion H2; subst; right; lia|right; exact H2].
      * inversion H1; subst. split; [left; left; reflexivity|right; lia].
    + split; [right; exact H|left; exact H].
Qed.

Theorem jlookup_rel_contains l a s off :
  jlookup_rel l a = Some (s, off) -> s <= a /\ a = s + off /\ exists x, In x l /\ je_rel x = s /\ off < je_len x.
Proof.
  unfold jlookup_rel. destruct (jfind je_rel l a None) as [x|] eqn:E; [|discriminate].
  destruct (a - je_rel x <? je_len x) eqn:C; [|discriminate]. intros H; inversion H; subst.
  destruct (jfind_some _ _ _ _ _ E) as [[H1|H1] [H2|H2]]; try discriminate.
  split; [exact H2|]. split; [lia|]. exists x. split; [exact H1|]. split; [reflexivity|lia].
Qed.

Theorem jlookup_off_contains l o s off :
  jlookup_off l o = Some (s, off) -> exists x, In x l /\ je_rel x = s /\ je_cbo x <= o /\ o = je_cbo x + off /\ off < je_len x.
Proof.
  unfold jlookup_off. destruct (jfind je_cbo l o None) as [x|] eqn:E; [|discriminate].
  destruct (o - je_cbo x <? je_len x) eqn:C; [|discriminate]. intros H; inversion H; subst.
  destruct (jfind_some _ _ _ _ _ E) as [[H1|H1] [H2|H2]]; try discriminate.
  exists x. split; [exact H1|]. split; [reflexivity|]. split; [exact H2|]. split; lia.
Qed.
