(* The converter's second off-CPU mode (a sched:sched_switch event next to the main event, no context-switch records): how
   handle_sched_switch_sample / handle_main_event_sample drive the handler - a sched_switch sample is a switch-out; a main-event sample is an
   on-CPU sample, followed by consume_cpu_delta for the first sample of the off-CPU group if one came back, then by consume_cpu_delta for the
   sample itself.  sched_events spells that driving out as an event list of the handler model; sched_expect (Tie/C12.v) is the sample table it
   leaves.  Conservation for this mode follows from the handler's conservation theorem: the CPU deltas of the table sum to the time observed
   running, the weights beyond one per main-event sample to the sleeping time in whole intervals. *)
From SV Require Import Model.ContextSwitch Spec.ContextSwitchSpec Proofs.ContextSwitchProofs Tie.C12.
From Coq Require Import Lia Arith PeanoNat.
Open Scope N_scope.

Definition dsum (l : list obs3) : N := fold_right N.add 0 (map (fun x : obs3 => snd (fst x)) l).
Definition wsum (l : list obs3) : N := fold_right N.add 0 (map (fun x : obs3 => snd x) l).
Fixpoint nmain (evs : list ev) : N :=
  match evs with [] => 0 | Sample _ :: r => 1 + nmain r | _ :: r => nmain r end.
(* the records this mode knows: sched_switch samples (SwOut) and main-event samples (Sample) *)
Fixpoint sched_only (evs : list ev) : list ev :=
  match evs with
  | [] => []
  | SwOut t :: r => SwOut t :: sched_only r
  | Sample t :: r => Sample t :: sched_only r
  | _ :: r => sched_only r
  end.

Fixpoint sched_events (I : N) (s : cs) (evs : list ev) : list ev :=
  match evs with
  | [] => []
  | SwOut t :: r => SwOut t :: sched_events I (switch_out t s) r
  | Sample t :: r =>
      let '(s1, o) := switch_in I t s in
      match o with
      | OGroup _ _ _ => Sample t :: Consume :: Consume :: sched_events I (consume (consume s1)) r
      | _ => Sample t :: Consume :: sched_events I (consume s1) r
      end
  | _ :: r => sched_events I s r
  end.

(* the handler state of the thread after the history *)
Fixpoint sched_final (I : N) (s : cs) (evs : list ev) : cs :=
  match evs with
  | [] => s
  | SwOut t :: r => sched_final I (switch_out t s) r
  | Sample t :: r =>
      let '(s1, o) := switch_in I t s in
      match o with
      | OGroup _ _ _ => sched_final I (consume (consume s1)) r
      | _ => sched_final I (consume s1) r
      end
  | _ :: r => sched_final I s r
  end.

(* does the history end with a main-event sample?  (b: the answer for the part seen so far) *)
Fixpoint last_is_sample (b : bool) (evs : list ev) : bool :=
  match evs with
  | [] => b
  | Sample _ :: r => last_is_sample true r
  | SwOut _ :: r => last_is_sample false r
  | _ :: r => last_is_sample b r
  end.

Lemma maybe_consume_out I t s :
  0 < I ->
  snd (maybe_consume_off_cpu I t s) = ONothing \/
  exists b e c, snd (maybe_consume_off_cpu I t s) = OGroup b e c /\ 1 <= c.
Proof.
  intros HI. unfold maybe_consume_off_cpu.
  destruct (off_acc s <? I) eqn:E; [left; reflexivity|].
  destruct (I =? 0) eqn:E0; [apply N.eqb_eq in E0; lia|].
  right. unfold csub. cbn [snd]. do 3 eexists. split; [reflexivity|].
  apply N.ltb_ge in E. apply N.div_le_lower_bound; lia.
Qed.

Lemma switch_in_out I t s :
  0 < I ->
  snd (switch_in I t s) = ONothing \/
  exists b e c, snd (switch_in I t s) = OGroup b e c /\ 1 <= c.
Proof.
  intros HI. unfold switch_in.
  destruct (st s) as [|t0|t0].
  - left. reflexivity.
  - unfold csub.
    destruct (maybe_consume_out I t (mkCs (Off t0) (on_acc s) (off_acc s + (t - t0)) (bad s || (t <? t0))) HI) as [H|(b & e & c & H & Hc)];
      destruct (maybe_consume_off_cpu I t _) as [s1 o]; cbn [snd] in *; subst o.
    + left. reflexivity.
    + right. eauto.
  - left. unfold csub. reflexivity.
Qed.

Lemma sched_run I : 0 < I -> forall evs s s' os,
  run I s (sched_events I s evs) = (s', os) ->
  sum_deltas os = dsum (sched_expect I s evs) /\
  sum_counts os + nmain evs = wsum (sched_expect I s evs) /\
  timed (sched_events I s evs) = timed (sched_only evs) /\
  s' = sched_final I s evs.
Proof.
  intros HI. induction evs as [|e evs IH]; intros s s' os H.
  - cbn in H. inversion H. subst. cbn. auto.
  - destruct e as [t|t|t|].
    + (* SwIn: not a record of this mode *)
      cbn [sched_events sched_expect nmain sched_only sched_final] in *. apply IH in H. exact H.
    + (* SwOut *)
      cbn [sched_events sched_expect nmain sched_only timed sched_final] in *. cbn [run step] in H.
      destruct (run I (switch_out t s) (sched_events I (switch_out t s) evs)) as [s2 os2] eqn:E.
      inversion H; subst. destruct (IH _ _ _ E) as (A & B & C & D).
      cbn [sum_deltas sum_counts]. rewrite C. auto.
    + (* Sample *)
      cbn [sched_events sched_expect nmain sched_only timed sched_final] in *.
      pose proof (switch_in_out I t s HI) as Ho.
      destruct (switch_in I t s) as [s1 o] eqn:Esw. cbn [snd] in Ho.
      destruct Ho as [Ho|(b & e & c & Ho & Hc)]; subst o.
      * cbn [run step] in H. cbn [timed]. rewrite Esw in H.
        destruct (run I (consume s1) (sched_events I (consume s1) evs)) as [s2 os2] eqn:E.
        unfold consume in *. cbn [st on_acc off_acc bad] in *. rewrite E in H.
        inversion H; subst. destruct (IH _ _ _ E) as (A & B & C & D).
        cbn [sum_deltas sum_counts app]. unfold dsum, wsum in *. cbn [map fold_right fst snd]. rewrite C. repeat split; try lia. exact D.
      * cbn [run step] in H. cbn [timed]. rewrite Esw in H.
        destruct (run I (consume (consume s1)) (sched_events I (consume (consume s1)) evs)) as [s2 os2] eqn:E.
        unfold consume in *. cbn [st on_acc off_acc bad] in *. rewrite E in H.
        inversion H; subst. destruct (IH _ _ _ E) as (A & B & C & D).
        cbn [sum_deltas sum_counts]. unfold dsum, wsum in *. rewrite C.
        destruct (1 <? c) eqn:E1; cbn [app map fold_right fst snd]; [apply N.ltb_lt in E1|apply N.ltb_ge in E1]; repeat split; try lia; exact D.
    + (* Consume: not a record of this mode *)
      cbn [sched_events sched_expect nmain sched_only sched_final] in *. apply IH in H. exact H.
Qed.

Theorem sched_mode_conservation I evs :
  0 < I -> nondecreasing_from 0 (timed (sched_only evs)) ->
  exists s' : cs,
    let obs := sched_expect I cs_init evs in
    let l := timed (sched_only evs) in
    bad s' = false /\
    dsum obs + on_acc s' = running l /\
    nmain evs <= wsum obs /\
    (wsum obs - nmain evs) * I + off_acc s' + pending_sleep l = sleeping l /\
    off_acc s' < I.
Proof.
  intros HI Hn.
  destruct (run I cs_init (sched_events I cs_init evs)) as [s' os] eqn:E.
  destruct (sched_run I HI evs cs_init s' os E) as (A & B & C & _).
  rewrite <- C in Hn.
  destruct (conservation I _ s' os HI Hn E) as (Hb & Hr & Hs & Hlt & _).
  exists s'. cbn zeta. rewrite <- C, <- A, <- B.
  replace (sum_counts os + nmain evs - nmain evs) with (sum_counts os) by lia.
  repeat split; try assumption; lia.
Qed.

(* ---- histories that end with a main-event sample: nothing is pending, so the table alone carries the sums ---- *)
Definition is_on (s : cs) : Prop := exists t, st s = On t.

Lemma switch_in_on I t s : is_on (fst (switch_in I t s)).
Proof.
  unfold switch_in.
  destruct (match st s with
            | Unknown => (s, ONothing)
            | Off t0 => let '(d, u) := csub t t0 in maybe_consume_off_cpu I t (mkCs (st s) (on_acc s) (off_acc s + d) (bad s || u))
            | On t0 => let '(d, u) := csub t t0 in (mkCs (st s) (on_acc s + d) (off_acc s) (bad s || u), ONothing)
            end) as [s1 o].
  cbn [fst set_st]. exists t. reflexivity.
Qed.

Lemma final_after_sample I : forall evs s b,
  (b = true -> on_acc s = 0) ->
  last_is_sample b evs = true ->
  on_acc (sched_final I s evs) = 0.
Proof.
  induction evs as [|e evs IH]; intros s b Hb Hl.
  - cbn in *. auto.
  - destruct e as [t|t|t|]; cbn [last_is_sample sched_final] in *.
    + eapply IH; eauto.
    + eapply (IH _ false); [discriminate|exact Hl].
    + destruct (switch_in I t s) as [s1 o]. destruct o; eapply (IH _ true); try exact Hl; intros _; reflexivity.
    + eapply IH; eauto.
Qed.

Lemma no_sleep_after_sample : forall evs cur b,
  (b = true -> cur = None) ->
  last_is_sample b evs = true ->
  sleep_start_from cur (timed (sched_only evs)) = None.
Proof.
  induction evs as [|e evs IH]; intros cur b Hb Hl.
  - cbn in *. auto.
  - destruct e as [t|t|t|]; cbn [last_is_sample sched_only timed sleep_start_from] in *.
    + eapply IH; eauto.
    + eapply (IH _ false); [discriminate|exact Hl].
    + eapply (IH _ true); [reflexivity|exact Hl].
    + eapply IH; eauto.
Qed.

Theorem sched_mode_table I evs :
  0 < I -> nondecreasing_from 0 (timed (sched_only evs)) -> last_is_sample false evs = true ->
  let obs := sched_expect I cs_init evs in
  let l := timed (sched_only evs) in
  dsum obs = running l /\ nmain evs <= wsum obs /\ wsum obs - nmain evs = sleeping l / I.
Proof.
  intros HI Hn Hl.
  destruct (run I cs_init (sched_events I cs_init evs)) as [s' os] eqn:E.
  destruct (sched_run I HI evs cs_init s' os E) as (A & B & C & D).
  pose proof Hn as Hn'. rewrite <- C in Hn'.
  destruct (conservation I _ s' os HI Hn' E) as (Hb & Hr & Hs & Hlt & _).
  assert (Hon : on_acc s' = 0) by (rewrite D; eapply (final_after_sample I evs cs_init false); [discriminate|exact Hl]).
  assert (Hp : pending_sleep (timed (sched_only evs)) = 0).
  { unfold pending_sleep, sleep_start. rewrite (no_sleep_after_sample evs None false); [reflexivity|discriminate|exact Hl]. }
  cbn zeta. rewrite C in Hr, Hs. rewrite Hon in Hr. rewrite Hp in Hs.
  rewrite <- A, <- B.
  replace (sum_counts os + nmain evs - nmain evs) with (sum_counts os) by lia.
  repeat split; try lia.
  apply (N.div_unique _ _ _ (off_acc s')); [exact Hlt|lia].
Qed.

(* ---- the decision function of the correspondence run accepts the model's own table ---- *)
Lemma same_multiset3_refl l : same_multiset3 l l = true.
Proof.
  unfold same_multiset3. rewrite Nat.eqb_refl. cbn [andb].
  apply forallb_forall. intros x _. apply Nat.eqb_refl.
Qed.

Lemma nmain_filter evs :
  N.of_nat (length (filter (fun e => match e with Sample _ => true | _ => false end) evs)) = nmain evs.
Proof.
  induction evs as [|e evs IH]; [reflexivity|].
  destruct e; cbn [filter nmain length]; rewrite ?Nat2N.inj_succ; lia.
Qed.

Theorem sched_checker_accepts_model I evs :
  0 < I -> sched_only evs = evs -> nondecreasing_from 0 (timed evs) -> last_is_sample false evs = true ->
  (verdict_e2e_sched (I, evs, sched_expect I cs_init evs, false) mod 10 = 0)%N.
Proof.
  intros HI Ho Hn Hl.
  pose proof (sched_mode_table I evs HI) as T. rewrite Ho in T. specialize (T Hn Hl). cbn zeta in T.
  destruct T as (T1 & T2 & T3). unfold dsum, wsum in *.
  unfold verdict_e2e_sched. cbv zeta. rewrite nmain_filter, same_multiset3_refl.
  rewrite T1, N.eqb_refl. cbn [negb orb].
  replace (nmain evs <=? _) with true by (symmetry; apply N.leb_le; exact T2).
  assert (Hp : pending_sleep (timed evs) = 0).
  { unfold pending_sleep, sleep_start. rewrite <- Ho. rewrite (no_sleep_after_sample evs None false); [reflexivity|discriminate|exact Hl]. }
  rewrite Hp, N.sub_0_r, T3, N.eqb_refl. cbn [negb orb].
  destruct (nmain evs <? _); reflexivity.
Qed.
