(* The definitions tools/xlate_fl.py regenerates from samply/src/shared/stack_depth_limiting_frame_iter.rs on every run (g_should_elide_frames,
   g_new, g_loop1, g_next) yield, when next() is called until it returns None, exactly what the hand-written model (Model/FrameLimit.v: limit)
   yields - for every length hint and every inner stream, and without reaching a point where a debug build panics.  So the C14 theorems,
   stated over the hand-written model, hold of the translation of the current source. *)
From SV Require Import Generated.Consts Model.FrameLimit Generated.FrameLimitGen.
From Coq Require Import Lia Arith List.
From Coq Require String.
Import ListNotations.

(* next() called until it returns None; `fuel` bounds the number of calls *)
Fixpoint g_iter (fuel : nat) (s : g_state) (inner : list N) : list outf :=
  match fuel with
  | 0 => []
  | S f =>
      match g_next s inner with
      | (Some x, s', inner') => x :: g_iter f s' inner'
      | (None, _, _) => []
      end
  end.

(* StackDepthLimitingFrameIter::new for an inner iterator whose size hint is `hint`, then next() to exhaustion.
   Every call that returns a frame pulls at least one inner frame, except the one that hands out the placeholder: length + 2 calls suffice.
   None = new() panicked. *)
Definition g_limit (hint : nat) (fs : list N) : option (list outf) :=
  match g_new hint with
  | Some s => Some (g_iter (length fs + 2) s fs)
  | None => None
  end.

Lemma g_should_elide_ok n len : 0 < n -> g_should_elide_frames n len = Some (should_elide n len).
Proof.
  intros Hn. unfold g_should_elide_frames, should_elide, csub, cdiv.
  destruct (n + n + n / 2 <=? len) eqn:E; [|reflexivity].
  apply Nat.leb_le in E.
  replace (n <=? len) with true by (symmetry; apply Nat.leb_le; lia).
  replace (n / 2 <=? len - n) with true by (symmetry; apply Nat.leb_le; lia).
  replace (n =? 0) with false by (symmetry; apply Nat.eqb_neq; lia).
  reflexivity.
Qed.

Lemma g_loop1_done inner idx a h b :
  b - idx <= length inner ->
  g_loop1 idx a h b inner = (true, Nat.max idx b, skipn (b - idx) inner).
Proof.
  revert idx. induction inner as [|x inner IH]; intros idx Hl; cbn [g_loop1 length] in *.
  - destruct (idx <? b) eqn:E.
    + apply Nat.ltb_lt in E. lia.
    + apply Nat.ltb_ge in E. replace (b - idx) with 0 by lia. cbn [skipn]. f_equal. f_equal. lia.
  - destruct (idx <? b) eqn:E.
    + apply Nat.ltb_lt in E. rewrite IH by lia.
      replace (b - idx) with (S (b - (idx + 1))) by lia. cbn [skipn]. f_equal. f_equal. lia.
    + apply Nat.ltb_ge in E. replace (b - idx) with 0 by lia. cbn [skipn]. f_equal. f_equal. lia.
Qed.

Lemma g_loop1_short inner idx a h b :
  length inner < b - idx ->
  fst (fst (g_loop1 idx a h b inner)) = false.
Proof.
  revert idx. induction inner as [|x inner IH]; intros idx Hl; cbn [g_loop1 length] in *.
  - destruct (idx <? b) eqn:E; [reflexivity|]. apply Nat.ltb_ge in E. lia.
  - destruct (idx <? b) eqn:E.
    + apply IH. lia.
    + apply Nat.ltb_ge in E. lia.
Qed.

Lemma g_iter_nomore inner fuel i :
  length inner < fuel -> g_iter fuel (NoMoreElision i) inner = map Frame inner.
Proof.
  revert fuel i. induction inner as [|x inner IH]; intros fuel i Hf; destruct fuel as [|fuel]; cbn [length] in Hf; try lia.
  - reflexivity.
  - cbn [g_iter g_next map]. rewrite IH by lia. reflexivity.
Qed.

Lemma g_iter_before inner fuel idx first after k :
  length inner + 2 <= fuel ->
  g_iter fuel (BeforeElidedPiece idx first (Placeholder k) after) inner = before idx first after k inner.
Proof.
  revert fuel idx. induction inner as [|x inner IH]; intros fuel idx Hf; destruct fuel as [|fuel]; cbn [length] in Hf; try lia.
  - reflexivity.
  - cbn [g_iter g_next before]. rewrite Nat.add_1_r.
    destruct (S idx =? first) eqn:E.
    + destruct (after - S idx <=? length inner) eqn:L.
      * apply Nat.leb_le in L. rewrite g_loop1_done by exact L.
        destruct fuel as [|fuel]; [lia|]. cbn [g_iter g_next].
        rewrite g_iter_nomore; [reflexivity|].
        rewrite skipn_length. lia.
      * apply Nat.leb_gt in L.
        pose proof (g_loop1_short inner (S idx) first (Placeholder k) after L) as Hs.
        destruct (g_loop1 (S idx) first (Placeholder k) after inner) as [[ok i'] inner']. cbn [fst] in Hs. subst ok. reflexivity.
    + rewrite IH by lia. reflexivity.
Qed.

Theorem g_limit_eq hint fs :
  0 < g_limit_literal -> g_limit hint fs = Some (limit g_limit_literal hint fs).
Proof.
  intros Hn. unfold g_limit, g_new, limit. rewrite (g_should_elide_ok _ _ Hn).
  destruct (should_elide g_limit_literal hint) as [[first k]|].
  - rewrite g_iter_before by lia. reflexivity.
  - rewrite g_iter_nomore by lia. reflexivity.
Qed.

(* the literal in `should_elide_frames::<N>(..)` as the translator read it is the constant the regular-expression reader (tools/consts.py) found *)
Lemma g_literal_is_limit_n : g_limit_literal = limit_n.
Proof. vm_compute. reflexivity. Qed.

Theorem g_limit_is_model hint fs : g_limit hint fs = Some (limit limit_n hint fs).
Proof.
  rewrite <- g_literal_is_limit_n. apply g_limit_eq. vm_compute. lia.
Qed.

(* the label of the placeholder frame is the count between "(" and " frames elided)" *)
Import String.
Lemma g_label_is_count : g_label_format = "({elided_count} frames elided)"%string.
Proof. reflexivity. Qed.
