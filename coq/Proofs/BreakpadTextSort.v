(* Sorting, de-duplication and searching of the index tables, and the searches of the text specification, characterised by
   what they return.  Used by Proofs/BreakpadTextProofs.v. *)
From Coq Require Import Lia Arith Permutation Sorted ZifyBool ZifyN ZifyNat.
From SV Require Import Lib.Bytes Model.LineBuffer Model.BreakpadIndex Model.BreakpadLookup Spec.BreakpadText.
Open Scope N_scope.

Lemma distinctb_NoDup l : distinctb l = true -> NoDup l.
Proof.
  induction l as [|x t IH]; intros H; [constructor|].
  cbn in H. apply andb_true_iff in H as [H1 H2]. constructor; [|exact (IH H2)].
  intros Hin. apply negb_true_iff in H1.
  assert (existsb (N.eqb x) t = true) by (apply existsb_exists; exists x; split; [exact Hin|apply N.eqb_refl]).
  congruence.
Qed.

(* ---------- symbols: sort, dedup, binary search ---------- *)

Definition ssorted (l : list sentry) : Prop := StronglySorted (fun x y => s_addr x < s_addr y) l.

Lemma ins_s_perm x l : Permutation (ins_s x l) (x :: l).
Proof.
  induction l as [|y t IH]; [reflexivity|].
  cbn. destruct (s_addr x <? s_addr y); [reflexivity|].
  rewrite IH. apply perm_swap.
Qed.

Lemma sort_s_perm l : Permutation (sort_s l) l.
Proof. induction l as [|x t IH]; [reflexivity|]. cbn. rewrite ins_s_perm. constructor. exact IH. Qed.

Lemma ins_s_sorted x l : ssorted l -> ~ In (s_addr x) (map s_addr l) -> ssorted (ins_s x l).
Proof.
  induction l as [|y t IH]; intros Hs Hn.
  - cbn. constructor; constructor.
  - cbn. inversion Hs as [|? ? Hst Hf]; subst.
    destruct (s_addr x <? s_addr y) eqn:C.
    + constructor; [exact Hs|]. constructor; [lia|].
      rewrite Forall_forall in *. intros z Hz. specialize (Hf z Hz). lia.
    + assert (s_addr y <> s_addr x) by (intros E; apply Hn; left; exact E).
      constructor.
      * apply IH; [exact Hst|]. intros Hin. apply Hn. right. exact Hin.
      * assert (HF : Forall (fun y0 => s_addr y < s_addr y0) (x :: t)) by (constructor; [lia|exact Hf]).
        revert HF. apply Permutation_Forall. symmetry. apply ins_s_perm.
Qed.

Lemma sort_s_sorted l : NoDup (map s_addr l) -> ssorted (sort_s l).
Proof.
  induction l as [|x t IH]; intros Hn; [constructor|].
  cbn. inversion Hn as [|? ? H1 H2]; subst. apply ins_s_sorted; [exact (IH H2)|].
  intros Hin. apply H1. apply (Permutation_in (l := map s_addr (sort_s t))); [|exact Hin].
  apply Permutation_map. apply sort_s_perm.
Qed.

Lemma dedup_s_sorted : forall fuel l, ssorted l -> dedup_s fuel l = l.
Proof.
  induction fuel as [|f IH]; intros l Hs; [reflexivity|].
  destruct l as [|x [|y t]]; [reflexivity|reflexivity|].
  cbn [dedup_s]. inversion Hs as [|? ? Hst Hf]; subst.
  inversion Hf as [|? ? Hxy _]; subst.
  replace (s_addr x =? s_addr y) with false by lia.
  f_equal. apply IH. exact Hst.
Qed.

Lemma find_sym_spec a : forall L best, ssorted L ->
  (forall b, best = Some b -> s_addr b <= a /\ forall e, In e L -> s_addr b < s_addr e) ->
  match find_sym L a best with
  | (None, _) => best = None /\ forall e, In e L -> a < s_addr e
  | (Some s, nx) =>
      (Some s = best \/ In s L) /\ s_addr s <= a /\ (forall e, In e L -> s_addr e <= a -> s_addr e <= s_addr s) /\
      match nx with
      | Some n => In n L /\ a < s_addr n /\ forall e, In e L -> a < s_addr e -> s_addr n <= s_addr e
      | None => forall e, In e L -> s_addr e <= a
      end
  end.
Proof.
  induction L as [|x r IH]; intros best Hs Hb.
  - cbn. destruct best as [b|].
    + destruct (Hb b eq_refl) as [H1 _]. repeat split; [left; reflexivity|exact H1|intros e []|intros e []].
    + split; [reflexivity|intros e []].
  - inversion Hs as [|? ? Hst Hf]; subst. rewrite Forall_forall in Hf.
    cbn [find_sym]. destruct (s_addr x <=? a) eqn:C.
    + specialize (IH (Some x) Hst).
      assert (Hx : forall b, Some x = Some b -> s_addr b <= a /\ (forall e, In e r -> s_addr b < s_addr e)).
      { intros b E. injection E as <-. split; [lia|exact Hf]. }
      specialize (IH Hx). destruct (find_sym r a (Some x)) as [[s|] nx].
      * destruct IH as (I1 & I2 & I3 & I4). repeat split.
        -- right. destruct I1 as [E|Hin]; [injection E as ->; left; reflexivity|right; exact Hin].
        -- exact I2.
        -- intros e [<-|Hin] He; [|exact (I3 e Hin He)].
           destruct I1 as [E|Hin]; [injection E as ->; lia|]. specialize (Hf s Hin). lia.
        -- destruct nx as [n|].
           ++ destruct I4 as (J1 & J2 & J3). repeat split; [right; exact J1|exact J2|].
              intros e [<-|Hin] He; [lia|exact (J3 e Hin He)].
           ++ intros e [<-|Hin]; [lia|exact (I4 e Hin)].
      * destruct IH as [E _]. discriminate.
    + destruct best as [b|].
      * destruct (Hb b eq_refl) as [H1 H2]. repeat split.
        -- left; reflexivity.
        -- exact H1.
        -- intros e [<-|Hin] He; [lia|]. specialize (Hf e Hin). lia.
        -- left; reflexivity.
        -- lia.
        -- intros e [<-|Hin] He; [lia|]. specialize (Hf e Hin). lia.
      * split; [reflexivity|]. intros e [<-|Hin]; [lia|]. specialize (Hf e Hin). lia.
Qed.

(* ---------- the searches of the text specification ---------- *)

Definition best_step (a : N) (best : option sym) (s : sym) : option sym :=
  if sym_addr s <=? a then
    match best with Some b => if sym_addr b <? sym_addr s then Some s else best | None => Some s end
  else best.

Lemma best_sym_fold ss a : best_sym ss a = fold_left (best_step a) ss None.
Proof. reflexivity. Qed.

Lemma best_stays a y : forall r, (forall z, In z r -> sym_addr z <= a -> sym_addr z <= sym_addr y) ->
  fold_left (best_step a) r (Some y) = Some y.
Proof.
  induction r as [|z r IH]; intros H; [reflexivity|].
  cbn [fold_left]. unfold best_step at 2.
  destruct (sym_addr z <=? a) eqn:C.
  - assert (sym_addr z <= sym_addr y) by (apply H; [left; reflexivity|lia]).
    replace (sym_addr y <? sym_addr z) with false by lia. apply IH. intros z' Hz. apply H. right. exact Hz.
  - apply IH. intros z' Hz. apply H. right. exact Hz.
Qed.

Lemma best_sym_max a y : forall ss best, NoDup (map sym_addr ss) -> In y ss -> sym_addr y <= a ->
  (forall z, In z ss -> sym_addr z <= a -> sym_addr z <= sym_addr y) ->
  (forall b, best = Some b -> sym_addr b < sym_addr y) ->
  fold_left (best_step a) ss best = Some y.
Proof.
  induction ss as [|z r IH]; intros best Hn Hin Hy Hmax Hb; [destruct Hin|].
  inversion Hn as [|? ? N1 N2]; subst.
  cbn [fold_left].
  destruct (N.eq_dec (sym_addr z) (sym_addr y)) as [E|E].
  - (* the head is y *)
    assert (z = y).
    { destruct Hin as [H|H]; [exact H|]. exfalso. apply N1. rewrite E. apply in_map. exact H. }
    subst z. unfold best_step at 2. replace (sym_addr y <=? a) with true by lia.
    assert (Hst : forall z, In z r -> sym_addr z <= a -> sym_addr z <= sym_addr y)
      by (intros z Hz; apply Hmax; right; exact Hz).
    destruct best as [b|].
    + specialize (Hb b eq_refl). replace (sym_addr b <? sym_addr y) with true by lia. apply best_stays. exact Hst.
    + apply best_stays. exact Hst.
  - destruct Hin as [H|H]; [congruence|].
    apply IH; [exact N2|exact H|exact Hy|intros z' Hz; apply Hmax; right; exact Hz|].
    intros b Hbb. unfold best_step in Hbb.
    destruct (sym_addr z <=? a) eqn:C.
    + assert (sym_addr z <= sym_addr y) by (apply Hmax; [left; reflexivity|lia]).
      destruct best as [b0|].
      * specialize (Hb b0 eq_refl). destruct (sym_addr b0 <? sym_addr z); injection Hbb as <-; lia.
      * injection Hbb as <-. lia.
    + exact (Hb b Hbb).
Qed.

Lemma best_sym_none a : forall ss, (forall z, In z ss -> a < sym_addr z) -> fold_left (best_step a) ss None = None.
Proof.
  induction ss as [|z r IH]; intros H; [reflexivity|].
  cbn [fold_left]. unfold best_step at 2.
  assert (a < sym_addr z) by (apply H; left; reflexivity).
  replace (sym_addr z <=? a) with false by lia. apply IH. intros z' Hz. apply H. right. exact Hz.
Qed.

Definition next_step (a0 : N) (best : option N) (s : sym) : option N :=
  if a0 <? sym_addr s then
    match best with Some b => if sym_addr s <? b then Some (sym_addr s) else best | None => Some (sym_addr s) end
  else best.

Lemma next_addr_fold ss a0 : next_addr ss a0 = fold_left (next_step a0) ss None.
Proof. reflexivity. Qed.

Lemma next_addr_some a0 m : forall ss best, a0 < m ->
  (In m (map sym_addr ss) \/ best = Some m) -> (forall b, best = Some b -> m <= b) ->
  (forall z, In z ss -> a0 < sym_addr z -> m <= sym_addr z) ->
  fold_left (next_step a0) ss best = Some m.
Proof.
  induction ss as [|z r IH]; intros best Hm Hin Hb Hmin.
  - cbn. destruct Hin as [[]|H]; exact H.
  - cbn [fold_left]. apply IH; [exact Hm| | |intros z' Hz; apply Hmin; right; exact Hz].
    + unfold next_step. destruct (a0 <? sym_addr z) eqn:C.
      * assert (m <= sym_addr z) by (apply Hmin; [left; reflexivity|lia]).
        destruct Hin as [[E|Hin]|Hin].
        -- right. destruct best as [b|]; [|rewrite E; reflexivity].
           specialize (Hb b eq_refl). destruct (sym_addr z <? b) eqn:D; [rewrite E; reflexivity|f_equal; lia].
        -- left. exact Hin.
        -- right. subst best. replace (sym_addr z <? m) with false by lia. reflexivity.
      * destruct Hin as [[E|Hin]|Hin]; [lia|left; exact Hin|right; exact Hin].
    + intros b Hbb. unfold next_step in Hbb. destruct (a0 <? sym_addr z) eqn:C; [|exact (Hb b Hbb)].
      assert (m <= sym_addr z) by (apply Hmin; [left; reflexivity|lia]).
      destruct best as [b0|].
      * specialize (Hb b0 eq_refl). destruct (sym_addr z <? b0); injection Hbb as <-; lia.
      * injection Hbb as <-. lia.
Qed.

Lemma next_addr_none a0 : forall ss, (forall z, In z ss -> sym_addr z <= a0) -> fold_left (next_step a0) ss None = None.
Proof.
  induction ss as [|z r IH]; intros H; [reflexivity|].
  cbn [fold_left]. unfold next_step at 2.
  assert (sym_addr z <= a0) by (apply H; left; reflexivity).
  replace (a0 <? sym_addr z) with false by lia. apply IH. intros z' Hz. apply H. right. exact Hz.
Qed.

(* ---------- files / inline origins: SortedVecBuilder ---------- *)

Lemma svb_pushes : forall xs b,
  NoDup (map f_index (sv_inner b ++ xs)) ->
  (forall last, sv_last b = Some last -> In last (map f_index (sv_inner b))) ->
  sv_inner (fold_left svb_push xs b) = sv_inner b ++ xs.
Proof.
  induction xs as [|x xs IH]; intros b Hn Hl; [cbn; rewrite app_nil_r; reflexivity|].
  cbn [fold_left].
  assert (Hx : ~ In (f_index x) (map f_index (sv_inner b))).
  { rewrite map_app in Hn. cbn [map] in Hn. apply NoDup_remove_2 in Hn. intros Hin. apply Hn. apply in_or_app. left. exact Hin. }
  assert (Hn' : NoDup (map f_index ((sv_inner b ++ [x]) ++ xs))) by (rewrite <- app_assoc; exact Hn).
  assert (Hin1 : forall i, In i (map f_index (sv_inner b)) -> In i (map f_index (sv_inner b ++ [x])))
    by (intros i Hi; rewrite map_app; apply in_or_app; left; exact Hi).
  assert (Hin2 : In (f_index x) (map f_index (sv_inner b ++ [x])))
    by (rewrite map_app; apply in_or_app; right; left; reflexivity).
  unfold svb_push. destruct (sv_sorted b).
  - destruct (sv_last b) as [last|] eqn:EL.
    + destruct (last <? f_index x).
      * rewrite IH; cbn [sv_inner sv_last]; [rewrite <- app_assoc; reflexivity|exact Hn'|].
        intros l0 E; injection E as <-; exact Hin2.
      * destruct (f_index x =? last) eqn:C.
        -- exfalso. apply Hx. apply N.eqb_eq in C. rewrite C. apply Hl. reflexivity.
        -- rewrite IH; cbn [sv_inner sv_last]; [rewrite <- app_assoc; reflexivity|exact Hn'|].
           intros l0 E. injection E as <-. apply Hin1. apply Hl. reflexivity.
    + rewrite IH; cbn [sv_inner sv_last]; [rewrite <- app_assoc; reflexivity|exact Hn'|].
      intros l0 E; injection E as <-; exact Hin2.
  - rewrite IH; cbn [sv_inner sv_last]; [rewrite <- app_assoc; reflexivity|exact Hn'|].
    intros l0 E. apply Hin1. apply Hl. exact E.
Qed.

Lemma ins_f_in x e : forall l, In e (ins_f x l) <-> e = x \/ In e l.
Proof.
  induction l as [|y t IH]; cbn; [intuition congruence|].
  destruct (f_index x <? f_index y); cbn; [intuition congruence|]. rewrite IH. intuition congruence.
Qed.

Lemma sort_f_in e : forall l, In e (sort_f l) <-> In e l.
Proof. induction l as [|x t IH]; cbn; [tauto|]. rewrite ins_f_in, IH. intuition congruence. Qed.

Lemma dedup_f_in_sub e : forall fuel l, In e (dedup_f' fuel l) -> In e l.
Proof.
  induction fuel as [|f IH]; intros l H; [exact H|].
  destruct l as [|x [|y t]]; [exact H|exact H|]. cbn [dedup_f'] in H.
  destruct (f_index x =? f_index y).
  - apply IH in H. destruct H as [<-|H]; [left; reflexivity|right; right; exact H].
  - destruct H as [<-|H]; [left; reflexivity|]. apply IH in H. right. exact H.
Qed.

Lemma dedup_f_in_key : forall fuel l e, In e l -> exists e', In e' (dedup_f' fuel l) /\ f_index e' = f_index e.
Proof.
  induction fuel as [|f IH]; intros l e H; [exists e; split; [exact H|reflexivity]|].
  destruct l as [|x [|y t]]; [destruct H|exists e; split; [exact H|reflexivity]|]. cbn [dedup_f'].
  destruct (f_index x =? f_index y) eqn:C.
  - apply N.eqb_eq in C. destruct H as [<-|[<-|H]].
    + apply IH. left. reflexivity.
    + destruct (IH (x :: t) x (or_introl eq_refl)) as (e' & H1 & H2). exists e'. split; [exact H1|congruence].
    + apply IH. right. exact H.
  - destruct H as [<-|H].
    + exists x. split; [left; reflexivity|reflexivity].
    + destruct (IH (y :: t) e H) as (e' & H1 & H2). exists e'. split; [right; exact H1|exact H2].
Qed.

Lemma svb_finish_sub b e : In e (svb_finish b) -> In e (sv_inner b).
Proof.
  unfold svb_finish. destruct (sv_sorted b); [tauto|]. intros H. apply dedup_f_in_sub in H. exact (proj1 (sort_f_in e _) H).
Qed.

Lemma svb_finish_key b e : In e (sv_inner b) -> exists e', In e' (svb_finish b) /\ f_index e' = f_index e.
Proof.
  unfold svb_finish. destruct (sv_sorted b); [intros H; exists e; split; [exact H|reflexivity]|].
  intros H. apply dedup_f_in_key. exact (proj2 (sort_f_in e _) H).
Qed.

Lemma find_f_some : forall l idx e, find_f l idx = Some e -> In e l /\ f_index e = idx.
Proof.
  induction l as [|x r IH]; intros idx e H; [discriminate|]. cbn in H.
  destruct (f_index x =? idx) eqn:C.
  - injection H as <-. split; [left; reflexivity|lia].
  - destruct (IH _ _ H) as [H1 H2]. split; [right; exact H1|exact H2].
Qed.

Lemma find_f_none : forall l idx, find_f l idx = None -> forall e, In e l -> f_index e <> idx.
Proof.
  induction l as [|x r IH]; intros idx H e Hin; [destruct Hin|]. cbn in H.
  destruct (f_index x =? idx) eqn:C; [discriminate|].
  destruct Hin as [<-|Hin]; [lia|exact (IH _ H e Hin)].
Qed.
