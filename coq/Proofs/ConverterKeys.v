(* Key uniqueness of the converter's live tables, and what it gives together with the identity invariant (WF):
   after a thread's EXIT no live thread points at its entry any more, so the entry is frozen (Proofs/ConverterFrozen.v). *)
From SV Require Import Model.Converter Proofs.ConverterProofs Proofs.ConverterNames Proofs.ConverterFrozen.
From Coq Require Import Arith Lia.
Open Scope N_scope.

Definition keys {A} (l : list (N * A)) : list N := map fst l.

Lemma keys_aset {A} k (v : A) l : NoDup (keys l) -> NoDup (keys (aset k v l)).
Proof.
  induction l as [|[k0 v0] l IH]; cbn; intros H; [constructor; [intros [] | constructor]|].
  inversion H; subst. destruct (k0 =? k) eqn:E; cbn.
  - apply N.eqb_eq in E. subst. constructor; assumption.
  - constructor; [|apply IH; assumption]. intros Hin. apply H2. clear - Hin E.
    induction l as [|[k1 v1] l IH]; cbn in *; [destruct Hin as [Hin|[]]; subst; rewrite N.eqb_refl in E; discriminate|].
    destruct (k1 =? k) eqn:E1; cbn in Hin; [apply N.eqb_eq in E1; subst; destruct Hin as [Hin|Hin]; [subst; rewrite N.eqb_refl in E; discriminate | right; exact Hin]|].
    destruct Hin as [Hin|Hin]; [left; exact Hin | right; apply IH; exact Hin].
Qed.
Lemma in_keys_aremove {A} k k' (l : list (N * A)) : In k' (keys (aremove k l)) -> In k' (keys l).
Proof. induction l as [|[k0 v0] l IH]; cbn; [auto|]. destruct (k0 =? k); cbn; [auto|]. intros [H|H]; auto. Qed.
Lemma keys_aremove {A} k (l : list (N * A)) : NoDup (keys l) -> NoDup (keys (aremove k l)) /\ ~ In k (keys (aremove k l)).
Proof.
  induction l as [|[k0 v0] l IH]; cbn; intros H; [split; [constructor | intros []]|].
  inversion H; subst. destruct (k0 =? k) eqn:E.
  - apply N.eqb_eq in E. subst. split; assumption.
  - destruct (IH H3) as [A1 A2]. cbn. split.
    + constructor; [intros Hin; apply H2; eapply in_keys_aremove; exact Hin | exact A1].
    + intros [Hk|Hk]; [subst; rewrite N.eqb_refl in E; discriminate | exact (A2 Hk)].
Qed.

Definition KU (s : cstate) : Prop :=
  NoDup (keys (lprocs s)) /\ forall pid p, In (pid, p) (lprocs s) -> NoDup (keys (lp_threads p)) /\ ~ In pid (keys (lp_threads p)).

Lemma KU_same s s' : KU s -> lprocs s' = lprocs s -> KU s'.
Proof. intros [A B] H. unfold KU. rewrite H. auto. Qed.
Lemma KU_put s pid p : KU s -> NoDup (keys (lp_threads p)) -> ~ In pid (keys (lp_threads p)) -> KU (put_proc s pid p).
Proof.
  intros [A B] H1 H2. split; cbn [put_proc with_lprocs lprocs]; [apply keys_aset; exact A|].
  intros k q Hin. apply in_aset in Hin. destruct Hin as [[-> ->]|Hin]; [auto | apply B; exact Hin].
Qed.
Lemma KU_lookup s pid p : KU s -> alookup pid (lprocs s) = Some p -> NoDup (keys (lp_threads p)) /\ ~ In pid (keys (lp_threads p)).
Proof. intros [_ B] H. apply B. apply alookup_in. exact H. Qed.

Lemma add_process_lprocs s nm pid st s' h : add_process s nm pid st = (s', h) -> lprocs s' = lprocs s.
Proof. intros H. exact (proj1 (add_process_frame _ _ _ _ _ _ H)). Qed.
Lemma add_thread_lprocs s ph tid st m s' h : add_thread s ph tid st m = (s', h) -> lprocs s' = lprocs s.
Proof. intros H. exact (proj1 (add_thread_frame _ _ _ _ _ _ _ H)). Qed.

Lemma get_by_pid_KU s pid s' p : KU s -> get_by_pid s pid = (s', p) -> KU s' /\ alookup pid (lprocs s') = Some p.
Proof.
  intros K. unfold get_by_pid. destruct (alookup pid (lprocs s)) as [p0|] eqn:E; [intros H; inversion H; subst; auto|].
  destruct (add_process s (NPid pid) pid 0) as [s1 ph] eqn:E1. destruct (add_thread s1 ph pid 0 true) as [s2 th] eqn:E2. intros H; inversion H; subst; clear H.
  assert (K2 : KU s2) by (eapply KU_same; [exact K | rewrite (add_thread_lprocs _ _ _ _ _ _ _ E2), (add_process_lprocs _ _ _ _ _ _ E1); reflexivity]).
  split; [|cbn; apply alookup_aset_same].
  change (with_lprocs s2 (aset pid (mkLP ph None (mkLT th None None) [] []) (lprocs s2))) with (put_proc s2 pid (mkLP ph None (mkLT th None None) [] [])).
  apply KU_put; [exact K2 | constructor | intros []].
Qed.

Lemma get_new_process_KU s pid name st : KU s -> KU (fst (get_new_process s pid name st)).
Proof.
  intros K. unfold get_new_process. destruct (alookup pid (lprocs s)) as [p|] eqn:E.
  - destruct (lt_last (lp_main p)); cbn [fst]; [exact K | eapply KU_same; [exact K | reflexivity]].
  - destruct (add_process s (oname pid name) pid st) as [s1 ph] eqn:E1. destruct (add_thread s1 ph pid st true) as [s2 th] eqn:E2. cbn [fst].
    set (s3 := match name with Some n => map_thread s2 th (t_set_name n) | None => s2 end).
    assert (K3 : KU s3).
    { eapply KU_same; [exact K|]. unfold s3. destruct name; cbn [map_thread lprocs]; rewrite (add_thread_lprocs _ _ _ _ _ _ _ E2), (add_process_lprocs _ _ _ _ _ _ E1); reflexivity. }
    change (with_lprocs s3 (aset pid (mkLP ph name (mkLT th name None) [] []) (lprocs s3))) with (put_proc s3 pid (mkLP ph name (mkLT th name None) [] [])).
    apply KU_put; [exact K3 | constructor | intros []].
Qed.

Lemma alookup_none_keys {A} k (l : list (N * A)) : alookup k l = None -> ~ In k (keys l).
Proof.
  induction l as [|[k0 v0] l IH]; cbn; [auto|]. destruct (k0 =? k) eqn:E; [discriminate|]. intros H [H1|H1]; [subst; rewrite N.eqb_refl in E; discriminate | exact (IH H H1)].
Qed.
Lemma in_keys_aset {A} k (v : A) l k' : In k' (keys (aset k v l)) -> k' = k \/ In k' (keys l).
Proof.
  induction l as [|[k0 v0] l IH]; cbn; [intros [H|[]]; auto|]. destruct (k0 =? k) eqn:E; cbn.
  - apply N.eqb_eq in E. subst. intros [H|H]; auto.
  - intros [H|H]; auto. destruct (IH H); auto.
Qed.

Lemma get_thread_by_tid_KU s pid p tid s' p' t : KU s -> alookup pid (lprocs s) = Some p ->
  get_thread_by_tid s pid p tid = (s', p', t) -> KU s' /\ alookup pid (lprocs s') = Some p'.
Proof.
  intros K Hp. destruct (KU_lookup s pid p K Hp) as [N1 N2]. unfold get_thread_by_tid. destruct (tid =? pid) eqn:Et; [intros H; inversion H; subst; auto|].
  destruct (alookup tid (lp_threads p)) as [t0|] eqn:El; [intros H; inversion H; subst; auto|].
  destruct (add_thread s (lp_handle p) tid 0 false) as [s1 th] eqn:E1. intros H; inversion H; subst; clear H.
  assert (K1 : KU s1) by (eapply KU_same; [exact K | exact (add_thread_lprocs _ _ _ _ _ _ _ E1)]).
  split; [|cbn; apply alookup_aset_same].
  apply KU_put; [exact K1 | apply keys_aset; exact N1|]. cbn [p_with_threads lp_threads].
  intros Hin. apply in_keys_aset in Hin. destruct Hin as [Hin|Hin]; [subst; rewrite N.eqb_refl in Et; discriminate | exact (N2 Hin)].
Qed.

Lemma get_new_thread_KU s pid p tid name st : KU s -> alookup pid (lprocs s) = Some p -> KU (get_new_thread s pid p tid name st).
Proof.
  intros K Hp. destruct (KU_lookup s pid p K Hp) as [N1 N2]. unfold get_new_thread. destruct (tid =? pid) eqn:Et; [exact K|].
  destruct (alookup tid (lp_threads p)) as [t0|] eqn:El.
  - destruct (lt_last t0); [exact K | eapply KU_same; [exact K | reflexivity]].
  - destruct (add_thread s (lp_handle p) tid st false) as [s1 th] eqn:E1.
    set (s2 := match name with Some n => map_thread s1 th (t_set_name n) | None => s1 end).
    assert (K2 : KU s2) by (eapply KU_same; [exact K | unfold s2; destruct name; cbn [map_thread lprocs]; exact (add_thread_lprocs _ _ _ _ _ _ _ E1)]).
    apply KU_put; [exact K2 | apply keys_aset; exact N1|]. cbn [p_with_threads lp_threads].
    intros Hin. apply in_keys_aset in Hin. destruct Hin as [Hin|Hin]; [subst; rewrite N.eqb_refl in Et; discriminate | exact (N2 Hin)].
Qed.

Lemma remove_thread_KU s pid p tid e : KU s -> alookup pid (lprocs s) = Some p -> KU (remove_thread s pid p tid e).
Proof.
  intros K Hp. destruct (KU_lookup s pid p K Hp) as [N1 N2]. unfold remove_thread. destruct (alookup tid (lp_threads p)) as [t0|]; [|exact K].
  apply KU_put; [eapply KU_same; [exact K | reflexivity] | exact (proj1 (keys_aremove tid _ N1))|].
  cbn [p_with_threads lp_threads]. intros Hin. apply N2. eapply in_keys_aremove. exact Hin.
Qed.

Lemma remove_process_KU s pid e : KU s -> KU (remove_process s pid e) /\ alookup pid (lprocs (remove_process s pid e)) = None.
Proof.
  intros [A B]. unfold remove_process. destruct (alookup pid (lprocs s)) as [p|] eqn:E; [|split; [split; assumption | exact E]].
  destruct (fold_end_ext (lp_threads p) e s) as [_ L]. cbn [lprocs map_process map_thread]. rewrite L.
  destruct (keys_aremove pid _ A) as [K1 K2]. split.
  - split; [exact K1|]. intros k q Hin. apply B. eapply in_aremove. exact Hin.
  - destruct (alookup pid (aremove pid (lprocs s))) as [q|] eqn:E2; [|reflexivity]. exfalso. apply K2. apply alookup_in in E2. apply in_map_iff. exists (pid, q). auto.
Qed.

Section StepKeys.
  Variable origin : N.

  Lemma step_KU s r : KU s -> KU (step origin s r).
  Proof.
    intros K. destruct r as [pid ppid tid ptid ts | pid tid ts | pid tid name ex ts | pid tid ts | pid tid | pid tid]; cbn [step].
    - destruct (get_by_pid s ppid) as [s1 parent] eqn:E1. destruct (get_by_pid_KU _ _ _ _ K E1) as [K1 A1].
      destruct (negb (pid =? ppid)); [apply get_new_process_KU; exact K1|].
      destruct (get_thread_by_tid s1 ppid parent ptid) as [[s2 parent'] pt] eqn:E2.
      destruct (get_thread_by_tid_KU _ _ _ _ _ _ _ K1 A1 E2) as [K2 A2]. apply get_new_thread_KU; assumption.
    - destruct (tid =? pid); [exact (proj1 (remove_process_KU s pid (conv origin ts) K))|].
      destruct (get_by_pid s pid) as [s1 p] eqn:E1. destruct (get_by_pid_KU _ _ _ _ K E1) as [K1 A1]. apply remove_thread_KU; assumption.
    - destruct ex.
      + destruct (tid =? pid); [apply get_new_process_KU; exact (proj1 (remove_process_KU s pid _ K))|].
        destruct (get_by_pid s pid) as [s1 p] eqn:E1. destruct (get_by_pid_KU _ _ _ _ K E1) as [K1 A1].
        pose proof (remove_thread_KU s1 pid p tid (rec_time origin s ts) K1 A1) as K2.
        destruct (alookup pid (lprocs (remove_thread s1 pid p tid (rec_time origin s ts)))) as [p2|] eqn:E2; [apply get_new_thread_KU; assumption | exact K2].
      + destruct (tid =? pid) eqn:Et.
        * destruct (alookup pid (lprocs s)) as [p|] eqn:E; [|apply get_new_process_KU; exact K].
          destruct (match lp_name p with Some n => n =? name | None => false end); [exact K|].
          destruct (KU_lookup s pid p K E) as [N1 N2]. apply KU_put; [eapply KU_same; [exact K | reflexivity] | exact N1 | exact N2].
        * destruct (get_by_pid s pid) as [s1 p] eqn:E1. destruct (get_by_pid_KU _ _ _ _ K E1) as [K1 A1].
          destruct (alookup tid (lp_threads p)) as [th|] eqn:El; [|apply get_new_thread_KU; assumption].
          destruct (match lt_name th with Some n => n =? name | None => false end); [exact K1|].
          destruct (KU_lookup s1 pid p K1 A1) as [N1 N2].
          apply KU_put; [eapply KU_same; [exact K1 | reflexivity] | apply keys_aset; exact N1|]. cbn [p_with_threads lp_threads].
          intros Hin. apply in_keys_aset in Hin. destruct Hin as [Hin|Hin]; [subst; rewrite N.eqb_refl in Et; discriminate | exact (N2 Hin)].
    - destruct (tid =? 0); [exact K|].
      set (s0 := mkC (pprocs s) (pthreads s) (used_pids s) (used_tids s) (lprocs s) (retired s) ts).
      assert (K0 : KU s0) by (eapply KU_same; [exact K | reflexivity]).
      destruct (get_by_pid s0 pid) as [s1 p] eqn:E1. destruct (get_by_pid_KU _ _ _ _ K0 E1) as [K1 A1].
      destruct (get_thread_by_tid s1 pid p tid) as [[s2 p2] t] eqn:E2.
      destruct (get_thread_by_tid_KU _ _ _ _ _ _ _ K1 A1 E2) as [K2 A2].
      destruct (match lt_last t with Some l => l =? ts | None => false end); [exact K2|].
      destruct (KU_lookup s2 pid p2 K2 A2) as [N1 N2].
      destruct (tid =? pid) eqn:Et; (apply KU_put; [exact K2 | |]); cbn [lp_threads p_with_main p_with_threads]; auto.
      * apply keys_aset; exact N1.
      * intros Hin. apply in_keys_aset in Hin. destruct Hin as [Hin|Hin]; [subst; rewrite N.eqb_refl in Et; discriminate | exact (N2 Hin)].
    - destruct (get_by_pid s pid) as [s1 p] eqn:E1. destruct (get_by_pid_KU _ _ _ _ K E1) as [K1 A1].
      destruct (cur_time s =? origin); [exact K1|].
      destruct (get_thread_by_tid s1 pid p tid) as [[s2 p2] t] eqn:E2. exact (proj1 (get_thread_by_tid_KU _ _ _ _ _ _ _ K1 A1 E2)).
    - destruct (tid =? 0); [exact K|].
      destruct (get_by_pid s pid) as [s1 p] eqn:E1. destruct (get_by_pid_KU _ _ _ _ K E1) as [K1 A1].
      destruct (get_thread_by_tid s1 pid p tid) as [[s2 p2] t] eqn:E2. exact (proj1 (get_thread_by_tid_KU _ _ _ _ _ _ _ K1 A1 E2)).
  Qed.

  Lemma KU_init : KU (init origin).
  Proof. split; [constructor | intros ? ? []]. Qed.
  Lemma run_KU rs : forall s, KU s -> KU (fold_left (step origin) rs s).
  Proof. induction rs as [|r rs IH]; intros s K; cbn [fold_left]; [exact K | apply IH; apply step_KU; exact K]. Qed.
End StepKeys.

Lemma nodup_in_lookup {A} k (v : A) l : NoDup (keys l) -> In (k, v) l -> alookup k l = Some v.
Proof.
  induction l as [|[k0 v0] l IH]; cbn; intros H Hin; [destruct Hin|]. inversion H; subst.
  destruct Hin as [Hin|Hin].
  - inversion Hin; subst. rewrite N.eqb_refl. reflexivity.
  - destruct (k0 =? k) eqn:E; [|apply IH; assumption]. apply N.eqb_eq in E. subst. exfalso. apply H2. apply in_map_iff. exists (k, v). auto.
Qed.

Section ExitFreezes.
  Variable origin : N.

  (* after the EXIT of a live non-main thread no live thread points at its entry any more ... *)
  Lemma exit_thread_not_live s pid tid ts p th : WF s -> KU s -> (tid =? pid) = false ->
    alookup pid (lprocs s) = Some p -> alookup tid (lp_threads p) = Some th ->
    ~ In (lt_handle th) (live_threads (step origin s (RExit pid tid ts))).
  Proof.
    intros W K Ht Hp Hl Hin.
    set (s' := step origin s (RExit pid tid ts)) in *.
    destruct (step_wf origin s (RExit pid tid ts) W) as [W' X]. fold s' in W', X.
    pose proof (step_KU origin s (RExit pid tid ts) K) as K'. fold s' in K'.
    (* identity of the entry, before *)
    pose proof (W _ _ (alookup_in _ _ _ Hp)) as [[pe [P1 P2]] [_ C]].
    destruct (C _ _ (alookup_in _ _ _ Hl)) as [e [E1 [E2 [E3 E4]]]].
    destruct (proj1 X _ _ E1) as [e' [E1' I]]. unfold t_ident in I. inversion I as [[I1 I2 I3 I4]].
    destruct (proj2 X _ _ P1) as [pe' [P1' J]]. unfold p_ident in J. inversion J as [[J1 J2]].
    (* the live thread that supposedly points at it, after *)
    apply in_live_threads in Hin. destruct Hin as [pid' [p' [Hp' Hh]]].
    pose proof (W' _ _ Hp') as [[qe [Q1 Q2]] [[m [M1 [M2 [M3 M4]]]] C']].
    destruct Hh as [Hh|Hh].
    - (* it would be a main thread: but the entry is not a main-thread entry *)
      rewrite <- Hh in E1'. rewrite M1 in E1'. inversion E1'; subst m. congruence.
    - apply in_map_iff in Hh. destruct Hh as [[tid' t'] [Hh Hin']]. cbn in Hh.
      destruct (C' _ _ Hin') as [m' [M1' [M2' [M3' M4']]]]. rewrite Hh in M1'. rewrite E1' in M1'. inversion M1'; subst m'.
      assert (Htid : tid' = tid) by congruence.
      assert (Hph : lp_handle p' = lp_handle p) by congruence.
      assert (Hpid : pid' = pid).
      { rewrite Hph in Q1. rewrite P1' in Q1. inversion Q1 as [Hq]. rewrite <- Hq in Q2. congruence. }
      rewrite Htid in Hin'. rewrite Hpid in Hp'. clear Htid Hpid.
      (* what the table holds for pid after the EXIT *)
      assert (Hs' : alookup pid (lprocs s') = Some (p_with_threads p (aremove tid (lp_threads p)))).
      { unfold s'. cbn [step]. rewrite Ht. unfold get_by_pid. rewrite Hp. unfold remove_thread. rewrite Hl. apply alookup_put. }
      pose proof (nodup_in_lookup pid p' _ (proj1 K') Hp') as Hs''. rewrite Hs' in Hs''. inversion Hs'' as [Hpp]. rewrite <- Hpp in Hin'.
      cbn [p_with_threads lp_threads] in Hin'.
      destruct (KU_lookup s pid p K Hp) as [N1 _]. destruct (keys_aremove tid _ N1) as [_ N3]. apply N3. apply in_map_iff. exists (tid, t'). auto.
  Qed.

  (* ... so its end time (the EXIT time) and its name stay as they are, whatever records follow *)
  Theorem exit_thread_frozen s pid tid ts p th rs : WF s -> KU s -> (tid =? pid) = false ->
    alookup pid (lprocs s) = Some p -> alookup tid (lp_threads p) = Some th ->
    exists e, nth_error (pthreads (step origin s (RExit pid tid ts))) (lt_handle th) = Some e /\ te_end e = Some (ts - origin) /\ te_tid e = tid /\
              nth_error (pthreads (fold_left (step origin) rs (step origin s (RExit pid tid ts)))) (lt_handle th) = Some e.
  Proof.
    intros W K Ht Hp Hl.
    destruct (exit_thread_entry origin s pid tid ts p th W Ht Hp Hl) as [[e [E1 [E2 E3]]] _].
    exists e. split; [exact E1|]. split; [exact E2|]. split; [exact E3|].
    apply frozen_thread_entry; [exact E1 | eapply exit_thread_not_live; eassumption].
  Qed.

  (* the EXIT of the main thread retires the process: its own entry and those of all its threads are frozen from then on *)
  Lemma exit_main_not_live s pid ts p : WF s -> KU s -> alookup pid (lprocs s) = Some p ->
    forall h, In h (proc_thread_handles p) -> ~ In h (live_threads (step origin s (RExit pid pid ts))).
  Proof.
    intros W K Hp h Hh Hin.
    set (s' := step origin s (RExit pid pid ts)) in *.
    destruct (step_wf origin s (RExit pid pid ts) W) as [W' X]. fold s' in W', X.
    pose proof (W _ _ (alookup_in _ _ _ Hp)) as [[pe [P1 P2]] [Bm C]].
    destruct (proj2 X _ _ P1) as [pe' [P1' J]]. unfold p_ident in J. inversion J as [[J1 J2]].
    (* the entry at h belongs to process entry lp_handle p *)
    assert (Hent : exists e, nth_error (pthreads s) h = Some e /\ te_proc e = lp_handle p).
    { destruct Hh as [Hh|Hh].
      - destruct Bm as [e [E1 [_ [E3 _]]]]. exists e. subst h. auto.
      - apply in_map_iff in Hh. destruct Hh as [[tid t] [Hh Hin']]. cbn in Hh. destruct (C _ _ Hin') as [e [E1 [_ [E3 _]]]]. exists e. subst h. auto. }
    destruct Hent as [e [E1 E3]]. destruct (proj1 X _ _ E1) as [e' [E1' I]]. unfold t_ident in I. inversion I as [[I1 I2 I3 I4]].
    apply in_live_threads in Hin. destruct Hin as [pid' [p' [Hp' Hh']]].
    pose proof (W' _ _ Hp') as [[qe [Q1 Q2]] [[m [M1 [M2 [M3 M4]]]] C']].
    assert (Hproc : lp_handle p' = lp_handle p).
    { destruct Hh' as [Hh'|Hh'].
      - rewrite <- Hh' in E1'. rewrite M1 in E1'. inversion E1'; subst m. congruence.
      - apply in_map_iff in Hh'. destruct Hh' as [[tid' t'] [Hh' Hin'']]. cbn in Hh'. destruct (C' _ _ Hin'') as [m' [M1' [_ [M3' _]]]].
        rewrite Hh' in M1'. rewrite E1' in M1'. inversion M1'; subst m'. congruence. }
    assert (Hpid : pid' = pid) by (rewrite Hproc in Q1; rewrite P1' in Q1; inversion Q1 as [Hq]; rewrite <- Hq in Q2; congruence). rewrite Hpid in Hp'.
    (* but pid is not in the table after the EXIT *)
    assert (Hnone : alookup pid (lprocs s') = None).
    { unfold s'. cbn [step]. rewrite N.eqb_refl. exact (proj2 (remove_process_KU s pid (conv origin ts) K)). }
    pose proof (step_KU origin s (RExit pid pid ts) K) as K'. fold s' in K'.
    rewrite (nodup_in_lookup pid p' _ (proj1 K') Hp') in Hnone. discriminate.
  Qed.
End ExitFreezes.
