(* Proofs about Model/Categories.v: handles stay valid and keep denoting what the caller named. *)
From SV Require Import Model.ProfileTables Proofs.ProfileTablesProofs Model.Categories.
From Coq Require Import NArith Lia.
Local Open Scope N_scope.

Lemma Neqb_spec' a b : N.eqb a b = true <-> a = b.
Proof. apply N.eqb_eq. Qed.

(* l' extends l: every category keeps its index, name and colour; its subcategory list only grows at the end *)
Definition ext (l l' : list cat) : Prop :=
  forall i x, nth_error l i = Some x ->
    exists x', nth_error l' i = Some x' /\ c_name x' = c_name x /\ c_color x' = c_color x /\ exists e, c_subs x' = c_subs x ++ e.

Lemma ext_refl l : ext l l.
Proof. intros i x H. exists x. repeat split; try assumption. exists []. now rewrite app_nil_r. Qed.
Lemma ext_trans a b c : ext a b -> ext b c -> ext a c.
Proof.
  intros H1 H2 i x Hx. destruct (H1 i x Hx) as (y & Hy & Hn & Hc & e1 & He1).
  destruct (H2 i y Hy) as (z & Hz & Hn2 & Hc2 & e2 & He2).
  exists z. repeat split; try congruence. exists (e1 ++ e2). rewrite He2, He1, app_assoc. reflexivity.
Qed.
Lemma ext_app l e : ext l (l ++ e).
Proof.
  intros i x H. exists x. split; [|repeat split; try reflexivity; exists []; now rewrite app_nil_r].
  rewrite nth_error_app1; [exact H|]. apply nth_error_Some. congruence.
Qed.

Lemma denotes_ext l l' h nm : ext l l' -> denotes l h nm -> denotes l' h nm.
Proof.
  intros E (x & Hx & Hn & Hc & Hs). destruct (E _ _ Hx) as (x' & Hx' & Hn' & Hc' & e & He).
  exists x'. repeat split; try congruence. rewrite He. rewrite nth_error_app1; [exact Hs|]. apply nth_error_Some. congruence.
Qed.

Lemma find_cat_some n c : forall l i, find_cat n c l = Some i -> exists x, nth_error l i = Some x /\ c_name x = n /\ c_color x = c.
Proof.
  induction l as [|y r IH]; intros i H; [discriminate|]. cbn [find_cat] in H.
  destruct (cat_is n c y) eqn:E.
  - inversion H; subst. exists y. unfold cat_is in E. apply andb_true_iff in E. destruct E as [E1 E2].
    apply N.eqb_eq in E1. apply N.eqb_eq in E2. auto.
  - destruct (find_cat n c r) as [j|] eqn:F; [|discriminate]. inversion H; subst. exact (IH j eq_refl).
Qed.
Lemma find_cat_none n c : forall l, find_cat n c l = None -> forall x, In x l -> ~ (c_name x = n /\ c_color x = c).
Proof.
  induction l as [|y r IH]; intros H x Hx; [destruct Hx|]. cbn [find_cat] in H.
  destruct (cat_is n c y) eqn:E; [discriminate|]. destruct (find_cat n c r) eqn:F; [discriminate|].
  destruct Hx as [->|Hx]; [|exact (IH eq_refl x Hx)].
  intros [H1 H2]. unfold cat_is in E. rewrite H1, H2, !N.eqb_refl in E. discriminate.
Qed.
Lemma find_cat_first n c : forall l i, find_cat n c l = Some i -> forall j y, (j < i)%nat -> nth_error l j = Some y -> ~ (c_name y = n /\ c_color y = c).
Proof.
  induction l as [|z r IH]; intros i H j y Hj Hy; [discriminate|]. cbn [find_cat] in H.
  destruct (cat_is n c z) eqn:E; [inversion H; subst; lia|].
  destruct (find_cat n c r) as [k|] eqn:F; [|discriminate]. inversion H; subst.
  destruct j as [|j']; cbn in Hy.
  - inversion Hy; subst. intros [H1 H2]. unfold cat_is in E. rewrite H1, H2, !N.eqb_refl in E. discriminate.
  - apply (IH k eq_refl j' y); [lia|exact Hy].
Qed.

Lemma set_subs_length : forall l i s, length (set_subs l i s) = length l.
Proof. induction l as [|x r IH]; intros [|i] s; cbn; auto. Qed.
Lemma set_subs_same : forall l i s x, nth_error l i = Some x -> nth_error (set_subs l i s) i = Some (mkCat (c_name x) (c_color x) s).
Proof. induction l as [|y r IH]; intros [|i] s x H; cbn in *; try discriminate; [inversion H; reflexivity|apply IH; exact H]. Qed.
Lemma set_subs_other : forall l i s j, j <> i -> nth_error (set_subs l i s) j = nth_error l j.
Proof. induction l as [|y r IH]; intros [|i] s [|j] H; cbn; try reflexivity; try congruence. apply IH. congruence. Qed.

Section Categories.
  Variable other gray : N.

  (* every category's first subcategory is "Other" (SubcategoryIndex::OTHER = 0, the default subcategory) *)
  Definition wfc (l : list cat) : Prop := forall x, In x l -> nth_error (c_subs x) 0 = Some other.
  (* no two categories with one (name, colour), no two subcategories of one category with one name *)
  Definition cats_canonical (l : list cat) : Prop :=
    NoDup (map (fun x => (c_name x, c_color x)) l) /\ forall x, In x l -> NoDup (c_subs x).

  Lemma hfc_spec l n c i l' : wfc l -> handle_for_category other l n c = (i, l') ->
    ext l l' /\ wfc l' /\ denotes l' (i, 0%nat) (n, c, other).
  Proof.
    intros W H. unfold handle_for_category in H. destruct (find_cat n c l) as [j|] eqn:F; inversion H; subst; clear H.
    - split; [apply ext_refl|]. split; [exact W|]. destruct (find_cat_some _ _ _ _ F) as (x & Hx & Hn & Hc).
      exists x. cbn. repeat split; try assumption. apply W. eapply nth_error_In; exact Hx.
    - split; [apply ext_app|]. split.
      + intros x Hx. apply in_app_or in Hx. destruct Hx as [Hx|[<-|[]]]; [exact (W x Hx)|reflexivity].
      + exists (mkCat n c [other]). cbn. repeat split; try reflexivity. rewrite nth_error_app2, Nat.sub_diag; [reflexivity|lia].
  Qed.

  Lemma hfc_canonical l n c i l' : cats_canonical l -> handle_for_category other l n c = (i, l') -> cats_canonical l'.
  Proof.
    intros [C1 C2] H. unfold handle_for_category in H. destruct (find_cat n c l) as [j|] eqn:F; inversion H; subst; clear H; [split; assumption|].
    split.
    - rewrite map_app. cbn. apply nodup_snoc; [exact C1|].
      intros Hin. apply in_map_iff in Hin. destruct Hin as (x & Hk & Hx). inversion Hk; subst.
      exact (find_cat_none _ _ _ F x Hx (conj eq_refl eq_refl)).
    - intros x Hx. apply in_app_or in Hx. destruct Hx as [Hx|[<-|[]]]; [exact (C2 x Hx)|]. cbn. constructor; [intros []|constructor].
  Qed.

  Lemma hfs_spec l ci s x : wfc l -> nth_error l ci = Some x ->
    exists si l', handle_for_subcategory l ci s = Some ((ci, si), l') /\ ext l l' /\ wfc l' /\ denotes l' (ci, si) (c_name x, c_color x, s) /\ length l' = length l.
  Proof.
    intros W Hx. unfold handle_for_subcategory. rewrite Hx. destruct (intern N.eqb (c_subs x) s) as [si subs] eqn:E.
    destruct (intern_spec N.eqb Neqb_spec' _ _ _ _ E) as (Hnth & (e & He) & _).
    exists si, (set_subs l ci subs). split; [reflexivity|]. split; [|split; [|split]].
    - intros j y Hy. destruct (Nat.eq_dec j ci) as [->|Hne].
      + rewrite Hx in Hy. injection Hy as <-. eexists. split; [apply set_subs_same; exact Hx|]. cbn. repeat split. exists e. exact He.
      + exists y. rewrite set_subs_other by exact Hne. split; [exact Hy|]. repeat split. exists []. now rewrite app_nil_r.
    - intros y Hy. apply In_nth_error in Hy. destruct Hy as [j Hj]. destruct (Nat.eq_dec j ci) as [->|Hne].
      + rewrite (set_subs_same _ _ _ _ Hx) in Hj. injection Hj as <-. cbn. rewrite He.
        assert (H0 := W x (nth_error_In _ _ Hx)). destruct (c_subs x); [discriminate|exact H0].
      + rewrite set_subs_other in Hj by exact Hne. apply W. eapply nth_error_In; exact Hj.
    - eexists. split; [cbn; apply set_subs_same; exact Hx|]. cbn. repeat split. exact Hnth.
    - apply set_subs_length.
  Qed.

  Lemma hfs_canonical l ci s h l' : cats_canonical l -> handle_for_subcategory l ci s = Some (h, l') -> cats_canonical l'.
  Proof.
    intros [C1 C2] H. unfold handle_for_subcategory in H. destruct (nth_error l ci) as [x|] eqn:Hx; [|discriminate].
    destruct (intern N.eqb (c_subs x) s) as [si subs] eqn:E. inversion H; subst; clear H.
    split.
    - assert (Hm : map (fun x => (c_name x, c_color x)) (set_subs l ci subs) = map (fun x => (c_name x, c_color x)) l).
      { clear C1 C2. revert ci Hx. induction l as [|y r IH]; intros [|ci] Hx; cbn in *; try discriminate; [reflexivity|f_equal; apply IH; exact Hx]. }
      rewrite Hm. exact C1.
    - intros y Hy. apply In_nth_error in Hy. destruct Hy as [j Hj]. destruct (Nat.eq_dec j ci) as [->|Hne].
      + rewrite (set_subs_same _ _ _ _ Hx) in Hj. inversion Hj; subst. cbn.
        replace subs with (snd (intern N.eqb (c_subs x) s)) by (rewrite E; reflexivity).
        apply (intern_nodup N.eqb Neqb_spec'). apply C2. eapply nth_error_In; exact Hx.
      + rewrite set_subs_other in Hj by exact Hne. apply C2. eapply nth_error_In; exact Hj.
  Qed.

  (* the invariant of a run: handles and names go in step, every handle returned so far denotes what its call named *)
  Definition inv (st : cstate) (names : list (N * N * N)) : Prop :=
    length (snd st) = length names /\
    (forall j h nm, nth_error (snd st) j = Some h -> nth_error names j = Some nm -> denotes (fst st) h nm) /\
    wfc (fst st) /\ cats_canonical (fst st).

  Lemma inv_push l l' hs names h nm : inv (l, hs) names -> ext l l' -> wfc l' -> cats_canonical l' -> denotes l' h nm -> inv (l', hs ++ [h]) (names ++ [nm]).
  Proof.
    intros (Hl & Hd & _ & _) E W C D. cbn [fst snd] in *. split; [cbn [fst snd]; rewrite !app_length; cbn [length]; lia|]. split; [|split; assumption].
    cbn [fst snd]. intros j h' nm' Hh Hn. destruct (Nat.lt_ge_cases j (length hs)) as [Hlt|Hge].
    - rewrite nth_error_app1 in Hh by exact Hlt. rewrite nth_error_app1 in Hn by lia. eapply denotes_ext; [exact E|]. eapply Hd; eassumption.
    - assert (j = length hs). { assert (j < length (hs ++ [h]))%nat by (apply nth_error_Some; congruence). rewrite app_length in *; cbn in *; lia. }
      subst j. rewrite nth_error_app2, Nat.sub_diag in Hh by lia. rewrite Hl in Hn. rewrite nth_error_app2, Nat.sub_diag in Hn by lia.
      cbn in Hh, Hn. inversion Hh; inversion Hn; subst. exact D.
  Qed.

  Lemma cstep_inv st names o : inv st names -> match o with CSub k _ => (k < length (snd st))%nat | _ => True end ->
    exists st', cstep other st o = Some st' /\ inv st' (names ++ [name_of other names o]).
  Proof.
    destruct st as [l hs]. intros I Hk. assert (I' := I). destruct I' as (Hl & Hd & W & C). cbn [fst snd] in *.
    destruct o as [n c|k s|n c s]; cbn [cstep name_of].
    - destruct (handle_for_category other l n c) as [i l'] eqn:E.
      destruct (hfc_spec _ _ _ _ _ W E) as (Ex & W' & D). eexists. split; [reflexivity|].
      apply (inv_push l); try assumption. eapply hfc_canonical; eassumption.
    - destruct (nth_error hs k) as [h|] eqn:Hh; [|apply nth_error_None in Hh; lia].
      assert (Hn : exists nm, nth_error names k = Some nm). { destruct (nth_error names k) eqn:F; [eauto|apply nth_error_None in F; lia]. }
      destruct Hn as [[[n c] s0] Hn]. destruct (Hd _ _ _ Hh Hn) as (x & Hx & Hxn & Hxc & _). cbn in Hxn, Hxc.
      destruct (hfs_spec l (fst h) s x W Hx) as (si & l' & E & Ex & W' & D & _). rewrite E. eexists. split; [reflexivity|].
      rewrite (nth_error_nth _ _ _ Hn). apply (inv_push l); try assumption; [eapply hfs_canonical; eassumption|]. rewrite <- Hxn, <- Hxc. exact D.
    - destruct (handle_for_category other l n c) as [i l1] eqn:E1.
      destruct (hfc_spec _ _ _ _ _ W E1) as (Ex1 & W1 & (x & Hx & Hxn & Hxc & _)). cbn in Hx, Hxn, Hxc.
      destruct (hfs_spec l1 i s x W1 Hx) as (si & l2 & E2 & Ex2 & W2 & D & _). rewrite E2. eexists. split; [reflexivity|].
      apply (inv_push l); try assumption; [eapply ext_trans; eassumption| |rewrite <- Hxn, <- Hxc; exact D].
      eapply hfs_canonical; [|exact E2]. eapply hfc_canonical; eassumption.
  Qed.

  Lemma crun_inv : forall ops st names, inv st names -> cops_ok (length (snd st)) ops ->
    exists st', crun other st ops = Some st' /\ inv st' (fold_left (fun nm o => nm ++ [name_of other nm o]) ops names) /\
                length (snd st') = (length (snd st) + length ops)%nat.
  Proof.
    induction ops as [|o r IH]; intros st names I Hok.
    - exists st. cbn. split; [reflexivity|]. split; [exact I|lia].
    - cbn [cops_ok] in Hok. destruct Hok as [Ho Hr]. destruct (cstep_inv st names o I Ho) as (st1 & E1 & I1).
      assert (Hlen : length (snd st1) = S (length (snd st))).
      { destruct I as (Ha & _), I1 as (Hb & _). rewrite Hb, app_length, Ha. cbn. lia. }
      rewrite <- Hlen in Hr. destruct (IH st1 _ I1 Hr) as (st' & E & I' & L).
      exists st'. cbn [crun fold_left]. rewrite E1. split; [exact E|]. split; [exact I'|]. rewrite L, Hlen. cbn. lia.
  Qed.

  Lemma inv_init : inv (cats_init other gray, []) [].
  Proof.
    split; [reflexivity|]. split; [intros [|j] h nm H; discriminate|]. split.
    - intros x [<-|[]]. reflexivity.
    - split; cbn; [constructor; [intros []|constructor]|]. intros x [<-|[]]. cbn. constructor; [intros []|constructor].
  Qed.

  (* For ANY sequence of category / subcategory requests that uses handles after they were obtained - by handle or by value, repeated,
     interleaved in any order - no request fails, and in the final table every handle ever returned still denotes the category name,
     colour and subcategory name its call supplied (so the category and subcategory indices stored anywhere point at existing rows
     and at the right ones); the table holds each (name, colour) once and each subcategory name once per category. *)
  Theorem cat_handles_denote ops : cops_ok 0 ops ->
    exists l hs, crun other (cats_init other gray, []) ops = Some (l, hs) /\ length hs = length ops /\
      (forall j h, nth_error hs j = Some h -> denotes l h (nth j (names_of other ops) (0, 0, 0))) /\
      cats_canonical l /\ wfc l.
  Proof.
    intros Hok. destruct (crun_inv ops _ [] inv_init Hok) as ([l hs] & E & (Hl & Hd & W & C) & L). cbn [fst snd] in *.
    exists l, hs. split; [exact E|]. split; [cbn in L; exact L|]. split; [|split; assumption].
    intros j h Hh. unfold names_of. destruct (nth_error (fold_left (fun nm o => nm ++ [name_of other nm o]) ops []) j) as [nm|] eqn:F.
    - rewrite (nth_error_nth _ _ _ F). eapply Hd; eassumption.
    - apply nth_error_None in F. assert (j < length hs)%nat by (apply nth_error_Some; congruence). lia.
  Qed.

  (* a valid handle's indices are in range: category < number of categories, subcategory < number of that category's subcategories *)
  Lemma denotes_in_range l h nm : denotes l h nm -> exists x, nth_error l (fst h) = Some x /\ (fst h < length l)%nat /\ (snd h < length (c_subs x))%nat.
  Proof.
    intros (x & Hx & _ & _ & Hs). exists x. split; [exact Hx|]. split; apply nth_error_Some; congruence.
  Qed.
End Categories.
