From SV Require Import Model.FrameLimit.
From Coq Require Import ZArith Lia ZifyBool ZifyNat.
Ltac Zify.zify_post_hook ::= Z.div_mod_to_equations.

Lemma before_char k first after : forall fs idx,
  idx < first -> first <= after ->
  before idx first after k fs =
    if length fs <? first - idx then map Frame fs
    else if length fs <? after - idx then map Frame (firstn (first - idx - 1) fs)
    else map Frame (firstn (first - idx) fs) ++ Placeholder k :: map Frame (skipn (after - idx) fs).
Proof.
  induction fs as [|f r IH]; intros idx Hi Ha.
  - cbn [before length]. replace (0 <? first - idx) with true by lia. reflexivity.
  - cbn [before length]. destruct (S idx =? first) eqn:C.
    + assert (first = S idx) by lia. subst first.
      replace (S idx - idx) with 1 by lia. replace (S (length r) <? 1) with false by lia.
      destruct (after - S idx <=? length r) eqn:D.
      * replace (S (length r) <? after - idx) with false by lia.
        replace (after - idx) with (S (after - S idx)) by lia. cbn [firstn skipn map app]. reflexivity.
      * replace (S (length r) <? after - idx) with true by lia. reflexivity.
    + rewrite IH by lia.
      replace (first - idx) with (S (first - S idx)) by lia.
      replace (after - idx) with (S (after - S idx)) by lia.
      replace (S (length r) <? S (first - S idx)) with (length r <? first - S idx) by lia.
      replace (S (length r) <? S (after - S idx)) with (length r <? after - S idx) by lia.
      destruct (length r <? first - S idx); [reflexivity|].
      destruct (length r <? after - S idx).
      * replace (S (first - S idx) - 1) with (S (first - S idx - 1)) by lia. reflexivity.
      * reflexivity.
Qed.

(* Characterisation of `limit` for any n > 0, any hint, any actual stream. *)
Lemma limit_char n hint fs :
  0 < n ->
  limit n hint fs =
    if hint <? n + n + n / 2 then map Frame fs
    else
      let k := (hint - n - n / 2) / n * n in
      if length fs <? n then map Frame fs
      else if length fs <? n + k then map Frame (firstn (n - 1) fs)
      else map Frame (firstn n fs) ++ Placeholder k :: map Frame (skipn (n + k) fs).
Proof.
  intros Hn. unfold limit, should_elide.
  destruct (n + n + n / 2 <=? hint) eqn:C.
  - replace (hint <? n + n + n / 2) with false by lia.
    rewrite before_char by lia. rewrite !Nat.sub_0_r. reflexivity.
  - replace (hint <? n + n + n / 2) with true by lia. reflexivity.
Qed.

Lemma length_drop_le r : length (drop_markers r) <= length r.
Proof. induction r as [|[x|] r IH]; cbn; lia. Qed.

(* The main statement, with the literals of the property text, for n = 200. *)
Lemma main_200 (r : raw) (extra : option N) :
  limit_n = 200 ->
  let fs := true_frames r extra in
  let d := length (drop_markers r) in
  let out := convert limit_n r extra in
  (d < 500 -> out = map Frame fs) /\
  (500 <= d -> exists k leaf,
      out = map Frame (firstn 200 fs) ++ Placeholder k :: map Frame leaf /\
      leaf = skipn (200 + k) fs /\ 0 < k /\ k mod 200 = 0 /\
      100 <= length leaf <= 300 /\ 200 + k + length leaf = length fs) /\
  length out <= 501.
Proof.
  intros Hn fs d out. subst out. unfold convert. rewrite Hn.
  set (fr := drop_markers r) in *.
  assert (Hfs : fs = match extra with Some x => x :: fr | None => fr end) by reflexivity.
  rewrite <- Hfs. rewrite limit_char by lia. fold d.
  assert (HL : length fs = d \/ length fs = S d).
  { rewrite Hfs. destruct extra; cbn [length]; fold d; lia. }
  change (200 + 200 + 200 / 2) with 500. change (200 / 2) with 100.
  destruct (d <? 500) eqn:C.
  - split; [reflexivity|]. split; [lia|]. rewrite map_length. lia.
  - set (k := (d - 200 - 100) / 200 * 200).
    assert (Hk : 0 < k /\ k mod 200 = 0 /\ 200 + k + 100 <= d /\ d < 200 + k + 300).
    { subst k. split; [|split]; lia. }
    destruct Hk as [Hk0 [Hkm [Hk1 Hk2]]].
    cbv zeta. fold k.
    replace (length fs <? 200) with false by lia.
    replace (length fs <? 200 + k) with false by lia.
    split; [lia|]. split.
    + intros _. exists k, (skipn (200 + k) fs). split; [reflexivity|]. split; [reflexivity|].
      rewrite skipn_length. repeat split; lia.
    + rewrite app_length. cbn [length]. rewrite !map_length, firstn_length, skipn_length. lia.
Qed.

(* ---- the boolean checker (property text with its literals) accepts the model ---- *)
From SV Require Import Tie.C14.

Lemma outf_eqb_refl a : outf_eqb a a = true.
Proof. destruct a; cbn; [apply N.eqb_refl|apply Nat.eqb_refl]. Qed.
Lemma outs_eqb_refl l : outs_eqb l l = true.
Proof. induction l as [|a l IH]; cbn; [reflexivity|]. rewrite outf_eqb_refl, IH. reflexivity. Qed.

Lemma split_ph_app a k b : split_ph (map Frame a ++ Placeholder k :: b) = Some (map Frame a, k, b).
Proof. induction a as [|x a IH]; cbn; [reflexivity|]. rewrite IH. reflexivity. Qed.

Theorem checker_accepts_model (r : raw) (extra : option N) :
  limit_n = 200 -> chk_sample (true_frames r extra) (convert limit_n r extra) = true.
Proof.
  intros Hn. destruct (main_200 r extra Hn) as [H1 [H2 H3]].
  set (fs := true_frames r extra) in *. set (d := length (drop_markers r)) in *.
  set (out := convert limit_n r extra) in *.
  assert (HL : length fs = d \/ length fs = S d).
  { subst fs d. unfold true_frames. destruct extra; cbn [length]; lia. }
  unfold chk_sample. replace (length out <=? 501) with true by lia. cbn [andb].
  destruct (Nat.lt_ge_cases d 500) as [Hd|Hd].
  - rewrite (H1 Hd). rewrite outs_eqb_refl.
    destruct (length fs <? 500); [reflexivity|]. destruct (500 <? length fs) eqn:C; [lia|reflexivity].
  - destruct (H2 Hd) as [k [leaf [Ho [Hleaf [Hk0 [Hkm [Hlen Hsum]]]]]]].
    replace (length fs <? 500) with false by lia.
    assert (He : match split_ph out with
                 | Some (pre, k0, post) =>
                     outs_eqb pre (map Frame (firstn 200 fs)) && outs_eqb post (map Frame (skipn (200 + k0) fs)) &&
                     (0 <? k0) && (100 <=? length post) && (length post <=? 300) && (200 + k0 + length post =? length fs)
                 | None => false end = true).
    { rewrite Ho, split_ph_app. rewrite Hleaf, !outs_eqb_refl, map_length. rewrite <- Hleaf.
      replace (0 <? k) with true by lia. replace (100 <=? length leaf) with true by lia.
      replace (length leaf <=? 300) with true by lia. replace (200 + k + length leaf =? length fs) with true by lia. reflexivity. }
    rewrite He. destruct (500 <? length fs); [reflexivity|apply orb_true_r].
Qed.
