(* Line structure of a .sym text: every byte string is a sequence of '\n'-terminated lines followed by an unterminated
   rest; split_lines hands out exactly these lines with their offsets; the bytes between two line offsets are the lines in
   between, and the block reader of the lookup path (cut_line / block_lines) recovers them.  Used by the proof that lookups
   through the index agree with the reading of the text (Proofs/BreakpadTextProofs.v). *)
From Coq Require Import Lia Arith.
From SV Require Import Lib.Bytes Model.LineBuffer Proofs.LineBufferProofs Model.BreakpadIndex Model.BreakpadLookup.
Open Scope N_scope.

(* ---------- lists / sub ---------- *)

Lemma len_length (l : bytes) : len l = N.of_nat (length l).
Proof. reflexivity. Qed.

Lemma sub_skipn_firstn (s : bytes) off n x rest :
  skipn (N.to_nat off) s = x ++ rest -> n = len x -> off <= len s -> sub s off n = Some x.
Proof.
  intros Hs -> Hoff. unfold sub.
  assert (Hl : length (skipn (N.to_nat off) s) = (length s - N.to_nat off)%nat) by apply skipn_length.
  rewrite Hs, app_length in Hl. unfold len in *.
  destruct (off + N.of_nat (length x) <=? N.of_nat (length s)) eqn:C; [|lia].
  rewrite Hs. f_equal. rewrite Nat2N.id.
  rewrite firstn_app, Nat.sub_diag, firstn_all. cbn [firstn]. apply app_nil_r.
Qed.

(* ---------- lines ---------- *)

Definition nonl (l : bytes) : Prop := ~ In NL l.

(* the bytes of a list of lines; `term` = the final line is terminated too *)
Fixpoint rejoin (ls : list bytes) (term : bool) : bytes :=
  match ls with
  | [] => []
  | [l] => if term then l ++ [NL] else l
  | l :: r => l ++ NL :: rejoin r term
  end.

Lemma rejoin_cons l r term : r <> [] -> rejoin (l :: r) term = l ++ NL :: rejoin r term.
Proof. destruct r; [congruence|reflexivity]. Qed.

Lemma rejoin_true_cons l r : rejoin (l :: r) true = l ++ NL :: rejoin r true.
Proof. destruct r; reflexivity. Qed.

Lemma rejoin_app A B term : B <> [] -> rejoin (A ++ B) term = rejoin A true ++ rejoin B term.
Proof.
  intros HB. induction A as [|a A IH]; [reflexivity|].
  cbn [app]. rewrite rejoin_cons by (destruct A; cbn; [exact HB|congruence]).
  rewrite rejoin_true_cons, IH, <- app_assoc. reflexivity.
Qed.

Lemma rejoin_app_true A B : rejoin (A ++ B) true = rejoin A true ++ rejoin B true.
Proof.
  destruct B as [|b B]; [rewrite !app_nil_r; reflexivity|]. apply rejoin_app. congruence.
Qed.

(* offsets of consecutive lines *)
Fixpoint with_offsets (off : N) (ls : list bytes) : list (N * bytes) :=
  match ls with [] => [] | l :: r => (off, l) :: with_offsets (off + len l + 1) r end.

Lemma with_offsets_snd off ls : map snd (with_offsets off ls) = ls.
Proof. revert off; induction ls as [|l r IH]; intros off; cbn; [reflexivity|]. rewrite IH. reflexivity. Qed.

Lemma with_offsets_app off A B :
  with_offsets off (A ++ B) = with_offsets off A ++ with_offsets (off + len (rejoin A true)) B.
Proof.
  revert off; induction A as [|a A IH]; intros off.
  - cbn. rewrite N.add_0_r. reflexivity.
  - cbn [app with_offsets]. rewrite IH. rewrite rejoin_true_cons, len_app, len_cons. f_equal. f_equal. f_equal. lia.
Qed.

(* decomposition of any byte string into lines *)
Definition last_ok (ls : list bytes) (term : bool) : Prop :=
  term = false -> exists A l, ls = A ++ [l] /\ l <> [].

Lemma last_ok_tail l l2 r term : last_ok (l :: l2 :: r) term -> last_ok (l2 :: r) term.
Proof.
  intros Hl Ht. destruct (Hl Ht) as (A & x & E & Hx).
  destruct A as [|a A]; cbn in E; [inversion E|]. injection E as _ E. exists A, x. split; [exact E|exact Hx].
Qed.

Lemma last_ok_single l : last_ok [l] false -> l <> [].
Proof.
  intros Hl. destruct (Hl eq_refl) as (A & x & E & Hx).
  destruct A as [|a A]; cbn in E; [injection E as ->; exact Hx|]. injection E as _ E. destruct A; discriminate.
Qed.

Lemma lines_exist (s : bytes) : exists ls term, s = rejoin ls term /\ Forall nonl ls /\ last_ok ls term.
Proof.
  induction s as [|b s IH].
  - exists [], true. repeat split; [constructor|discriminate].
  - destruct IH as (ls & term & -> & Hn & Hl).
    destruct (N.eq_dec b NL) as [->|Hb].
    + (* a new empty line in front *)
      destruct ls as [|l r].
      * exists [[]], true. repeat split; [repeat constructor; intros []|discriminate].
      * exists ([] :: l :: r), term. repeat split.
        -- constructor; [intros []|exact Hn].
        -- intros Ht. destruct (Hl Ht) as (A & x & E & Hx). exists ([] :: A), x. rewrite E. split; [reflexivity|exact Hx].
    + (* b joins the first line *)
      destruct ls as [|l r].
      * exists [[b]], false. cbn. repeat split; [repeat constructor; intros [E|[]]; congruence|].
        intros _. exists [], [b]. split; [reflexivity|congruence].
      * exists ((b :: l) :: r), term. repeat split.
        -- destruct r; cbn; [destruct term|]; reflexivity.
        -- inversion Hn as [|? ? H1 H2]; subst. constructor; [|exact H2]. intros [E|Hin]; [congruence|exact (H1 Hin)].
        -- intros Ht. destruct (Hl Ht) as (A & x & E & Hx).
           destruct A as [|a A]; cbn in E; inversion E; subst.
           ++ exists [], (b :: x). split; [reflexivity|congruence].
           ++ exists ((b :: a) :: A), x. split; [reflexivity|exact Hx].
Qed.

(* split_lines on a decomposed string *)
Lemma spec_lines_rejoin : forall ls term off, Forall nonl ls -> last_ok ls term ->
  spec_lines off [] (rejoin ls term) = (with_offsets off ls, off + len (rejoin ls term)).
Proof.
  induction ls as [|l r IH]; intros term off Hn Hl.
  - cbn. rewrite N.add_0_r. reflexivity.
  - inversion Hn as [|? ? H1 H2]; subst.
    destruct r as [|l2 r].
    + cbn [rejoin]. destruct term.
      * rewrite spec_lines_no_nl by exact H1. cbn [app spec_lines]. change (NL =? NL) with true.
        cbn [spec_lines]. rewrite len_app, len_cons, len_nil. cbn [with_offsets]. f_equal; [|lia]. f_equal. f_equal. lia.
      * pose proof (last_ok_single _ Hl) as Hx.
        rewrite <- (app_nil_r l) at 1. rewrite spec_lines_no_nl by exact H1. cbn [spec_lines app].
        destruct l as [|x0 xs]; [congruence|]. cbn [with_offsets]. f_equal. f_equal. f_equal. lia.
    + rewrite rejoin_cons by congruence.
      rewrite spec_lines_no_nl by exact H1. cbn [app spec_lines]. change (NL =? NL) with true.
      rewrite IH; [|exact H2|].
      * cbn [with_offsets]. rewrite len_app, len_cons. f_equal; [|lia]. f_equal. f_equal. lia.
      * exact (last_ok_tail _ _ _ _ Hl).
Qed.

Lemma split_lines_rejoin ls term : Forall nonl ls -> last_ok ls term ->
  split_lines (rejoin ls term) = (with_offsets 0 ls, len (rejoin ls term)).
Proof. intros Hn Hl. unfold split_lines. rewrite spec_lines_rejoin by assumption. reflexivity. Qed.

(* ---------- the block reader ---------- *)

Lemma cut_line_nonl l rest : nonl l -> cut_line (l ++ NL :: rest) = (l, rest).
Proof.
  induction l as [|c l IH]; intros Hn.
  - reflexivity.
  - cbn [app cut_line]. replace (c =? NL) with false by (assert (c <> NL) by (intros ->; apply Hn; left; reflexivity); lia).
    rewrite IH by (intros Hin; apply Hn; right; exact Hin). reflexivity.
Qed.

Lemma cut_line_nonl_end l : nonl l -> cut_line l = (l, []).
Proof.
  induction l as [|c l IH]; intros Hn; [reflexivity|].
  cbn [cut_line]. replace (c =? NL) with false by (assert (c <> NL) by (intros ->; apply Hn; left; reflexivity); lia).
  rewrite IH by (intros Hin; apply Hn; right; exact Hin). reflexivity.
Qed.

Lemma cut_line_rejoin l r term : nonl l -> cut_line (rejoin (l :: r) term) = (l, rejoin r term).
Proof.
  intros Hn. destruct r as [|l2 r].
  - cbn [rejoin]. destruct term; [apply cut_line_nonl; exact Hn|apply cut_line_nonl_end; exact Hn].
  - rewrite rejoin_cons by congruence. apply cut_line_nonl; exact Hn.
Qed.

Lemma rejoin_length_lt l r term : (length (rejoin r term) < length (rejoin (l :: r) term) \/ r = [])%nat.
Proof.
  destruct r as [|l2 r]; [right; reflexivity|left].
  rewrite (rejoin_cons l (l2 :: r)) by congruence. rewrite app_length. cbn [length]. lia.
Qed.

Lemma block_lines_rejoin : forall ls term fuel, Forall nonl ls -> last_ok ls term ->
  (length (rejoin ls term) < fuel)%nat -> block_lines fuel (rejoin ls term) = ls.
Proof.
  induction ls as [|l r IH]; intros term fuel Hn Hl Hf.
  - destruct fuel; reflexivity.
  - destruct fuel as [|f]; [lia|].
    inversion Hn as [|? ? H1 H2]; subst.
    assert (Hne : rejoin (l :: r) term <> []).
    { destruct r as [|l2 r].
      - cbn [rejoin]. destruct term; [destruct l; discriminate|]. exact (last_ok_single _ Hl).
      - rewrite rejoin_cons by congruence. destruct l; discriminate. }
    cbn [block_lines]. destruct (rejoin (l :: r) term) as [|c0 s0] eqn:E; [congruence|]. rewrite <- E in *.
    rewrite cut_line_rejoin by exact H1. f_equal.
    destruct r as [|l2 r].
    + cbn [rejoin]. destruct f; reflexivity.
    + apply IH; [exact H2| |].
      * exact (last_ok_tail _ _ _ _ Hl).
      * destruct (rejoin_length_lt l (l2 :: r) term) as [Hlt|Hc]; [|discriminate]. lia.
Qed.
