(* C10: the stored-index clause and the three clauses together. *)
From SV Require Import Lib.Bytes Model.LineBuffer Model.BreakpadIndex Model.BreakpadLookup Spec.BreakpadText.
From SV Require Import Model.BreakpadIndexParse Proofs.BreakpadIndexParseProofs Proofs.BreakpadIndexProofs Proofs.BreakpadTextProofs.
Open Scope N_scope.

Lemma stored_index_lookups ix : wf_index ix ->
  exists stored, parse_symindex (serialize ix) = Some stored /\ forall (text : bytes) (a : N), lookup text stored a = lookup text ix a.
Proof. intros H. exists ix. split; [exact (parse_serialize ix H)|reflexivity]. Qed.

Lemma end_to_end (chunks : list (list N)) ix stored a :
  len (concat chunks) < 4294967296 -> wf_text (concat chunks) = true ->
  index_of_chunks chunks = Some ix -> wf_index ix -> parse_symindex (serialize ix) = Some stored ->
  lookup (concat chunks) stored a = text_lookup (concat chunks) a.
Proof.
  intros Hlen Hwf Hix Hw Hp. rewrite index_chunk_invariant in Hix.
  rewrite (parse_serialize ix Hw) in Hp. injection Hp as <-.
  apply lookup_agrees_with_text; assumption.
Qed.
